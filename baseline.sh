#!/bin/bash
# Runs go-git's pinned test suite (guard OFF: this framework adds no build-tagged code) and
# compares with /root/.vp/BASELINE.json: every stable_pass test must pass. Exit 0 iff so.
# Packages with a missing stable test are re-run once on their own (the git-daemon based
# transport tests time out when all 16 cores are busy).
. /verif/env.sh
OUT=${1:-/var/tmp/gv-baseline.$$}
mkdir -p "$OUT"
cd /repo && go test -mod=mod -json -vet=off -count=1 -timeout 25m ./... > "$OUT/run1.json" 2>/dev/null
cat > "$OUT/cmp.py" <<'PY'
import json,sys,glob
base=json.load(open('/root/.vp/BASELINE.json'))
passed=set(); failed=set()
for fn in sorted(glob.glob(sys.argv[1]+'/run*.json')):
    p=set(); f=set()
    for line in open(fn,errors='replace'):
        line=line.strip()
        if not line.startswith('{'): continue
        try: ev=json.loads(line)
        except Exception: continue
        a=ev.get('Action'); t=ev.get('Test')
        if t is None or a not in('pass','fail'): continue
        (p if a=='pass' else f).add(ev.get('Package','')+'::'+t)
    p-=f
    passed|=p
missing=[t for t in base['stable_pass'] if t not in passed]
print("baseline: %d stable tests, %d passed, %d missing"%(len(base['stable_pass']),len(base['stable_pass'])-len(missing),len(missing)))
for t in missing[:50]: print("  MISSING", t)
open(sys.argv[1]+'/retry.txt','w').write("\n".join(sorted({t.split('::')[0] for t in missing})))
sys.exit(1 if missing else 0)
PY
python3 "$OUT/cmp.py" "$OUT"; rc=$?
if [ $rc -ne 0 ] && [ -s "$OUT/retry.txt" ]; then
  echo "re-running packages with missing tests, one at a time"
  i=2
  for p in $(cat "$OUT/retry.txt"); do
    go test -mod=mod -json -vet=off -count=1 -timeout 25m -p 1 "$p" > "$OUT/run$i.json" 2>/dev/null; i=$((i+1))
  done
  python3 "$OUT/cmp.py" "$OUT"; rc=$?
fi
rm -rf "$OUT"
exit $rc
