# NA[id] = reason. Properties whose check is not implemented yet are listed with that reason and move to claims.py when done.
NA['C08'] = 'Byte-identity of .idx/.rev with git and object-set equality quantify over pack contents (runtime values); no code-shape clause beyond the idx section order, which is checked under C10.'
NA['C25'] = 'Equality of worktree bytes, modes and index with a commit over generated tree pairs is a value property.'
NA['C46'] = 'Line attribution over histories is a value property.'
