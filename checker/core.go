// Package main is gv: a repository-specific static checker for go-git.
//
// Nothing in /repo is executed. Every rule works on the type-checked syntax
// (go/packages + go/types), on per-function control-flow graphs (go/cfg) or on
// SSA (go/ssa), loaded from /repo's current working tree on each run.
package main

import (
	"fmt"
	"go/ast"
	"go/token"
	"go/types"
	"os"
	"path/filepath"
	"sort"
	"strings"

	"golang.org/x/tools/go/packages"
	"golang.org/x/tools/go/ssa"
	"golang.org/x/tools/go/ssa/ssautil"
	"golang.org/x/tools/go/types/typeutil"
)

const modPath = "github.com/go-git/go-git/v6"

// Prog is the loaded, type-checked repository.
type Prog struct {
	Root    string // repository root directory
	Fset    *token.FileSet
	Pkgs    []*packages.Package          // repository packages (module go-git), sorted by path
	ByPath  map[string]*packages.Package // import path -> package
	All     []*packages.Package          // including dependencies when LoadAllSyntax
	GOOS    string
	GOARCH  string
	funcs   map[*types.Func]*FuncInfo
	funcsL  []*FuncInfo
	ssaProg *ssa.Program
	ssaPkgs []*ssa.Package
	full    bool
	cg      *callGraph
	mutGlobals map[*types.Var]*globalState
	byPkg  map[*packages.Package][]*FuncInfo
}

// FuncInfo ties a declared function to its syntax and package.
type FuncInfo struct {
	Obj  *types.Func
	Decl *ast.FuncDecl
	Pkg  *packages.Package
	File *ast.File
	name string
}

// LoadOpts selects what is loaded.
type LoadOpts struct {
	Root    string
	GOOS    string
	GOARCH  string
	Full    bool              // type-check dependencies from source (needed for SSA)
	Overlay map[string][]byte // absolute file name -> replacement contents
	Tests   bool
}

func Load(o LoadOpts) (*Prog, error) {
	mode := packages.NeedName | packages.NeedFiles | packages.NeedCompiledGoFiles |
		packages.NeedImports | packages.NeedTypes | packages.NeedTypesSizes |
		packages.NeedSyntax | packages.NeedTypesInfo | packages.NeedModule
	if o.Full {
		mode |= packages.NeedDeps
	}
	env := os.Environ()
	if o.GOOS != "" {
		env = append(env, "GOOS="+o.GOOS)
	}
	if o.GOARCH != "" {
		env = append(env, "GOARCH="+o.GOARCH)
	}
	if o.GOOS != "" && o.GOOS != "linux" {
		env = append(env, "CGO_ENABLED=0")
	}
	cfg := &packages.Config{
		Mode:    mode,
		Dir:     o.Root,
		Env:     env,
		Overlay: o.Overlay,
		Tests:   o.Tests,
	}
	pkgs, err := packages.Load(cfg, "./...")
	if err != nil {
		return nil, err
	}
	if len(pkgs) == 0 {
		return nil, fmt.Errorf("no packages loaded from %s", o.Root)
	}
	p := &Prog{Root: o.Root, ByPath: map[string]*packages.Package{}, GOOS: o.GOOS, GOARCH: o.GOARCH,
		funcs: map[*types.Func]*FuncInfo{}, full: o.Full}
	var errs []string
	packages.Visit(pkgs, nil, func(pk *packages.Package) {
		p.All = append(p.All, pk)
		inRepo := pk.Module != nil && pk.Module.Path == modPath
		if inRepo || o.Full {
			for _, e := range pk.Errors {
				errs = append(errs, e.Error())
			}
		}
		if inRepo && len(pk.Syntax) > 0 {
			if o.Tests && strings.HasSuffix(pk.ID, ".test") {
				return
			}
			if _, dup := p.ByPath[pk.PkgPath]; dup {
				return
			}
			p.Pkgs = append(p.Pkgs, pk)
			p.ByPath[pk.PkgPath] = pk
		}
	})
	if len(errs) > 0 {
		sort.Strings(errs)
		if len(errs) > 8 {
			errs = errs[:8]
		}
		return nil, fmt.Errorf("type-check errors: %s", strings.Join(errs, "; "))
	}
	if len(p.Pkgs) == 0 {
		return nil, fmt.Errorf("no go-git packages among %d loaded", len(p.All))
	}
	sort.Slice(p.Pkgs, func(i, j int) bool { return p.Pkgs[i].PkgPath < p.Pkgs[j].PkgPath })
	p.Fset = p.Pkgs[0].Fset
	for _, pk := range p.Pkgs {
		for _, f := range pk.Syntax {
			for _, d := range f.Decls {
				fd, ok := d.(*ast.FuncDecl)
				if !ok {
					continue
				}
				obj, _ := pk.TypesInfo.Defs[fd.Name].(*types.Func)
				if obj == nil {
					continue
				}
				fi := &FuncInfo{Obj: obj, Decl: fd, Pkg: pk, File: f}
				p.funcs[obj] = fi
				p.funcsL = append(p.funcsL, fi)
			}
		}
	}
	sort.Slice(p.funcsL, func(i, j int) bool { return p.funcsL[i].Name() < p.funcsL[j].Name() })
	return p, nil
}

// SSA builds (once) the SSA form of the whole program. Requires Full.
func (p *Prog) SSA() (*ssa.Program, []*ssa.Package) {
	if p.ssaProg != nil {
		return p.ssaProg, p.ssaPkgs
	}
	if !p.full {
		panic("SSA requested on a program loaded without dependencies")
	}
	var roots []*packages.Package
	roots = append(roots, p.Pkgs...)
	prog, pkgs := ssautil.AllPackages(roots, ssa.InstantiateGenerics)
	prog.Build()
	p.ssaProg, p.ssaPkgs = prog, pkgs
	return prog, pkgs
}

// SSAFunc returns the SSA function for a declared function.
func (p *Prog) SSAFunc(fi *FuncInfo) *ssa.Function {
	prog, _ := p.SSA()
	return prog.FuncValue(fi.Obj)
}

// Rel returns "pkg-relative" path of a file position: file:line relative to repo root.
func (p *Prog) Pos(pos token.Pos) string {
	if !pos.IsValid() {
		return "?"
	}
	ps := p.Fset.Position(pos)
	rel, err := filepath.Rel(p.Root, ps.Filename)
	if err != nil {
		rel = ps.Filename
	}
	return fmt.Sprintf("%s:%d", rel, ps.Line)
}

func (p *Prog) File(pos token.Pos) string {
	ps := p.Fset.Position(pos)
	rel, err := filepath.Rel(p.Root, ps.Filename)
	if err != nil {
		rel = ps.Filename
	}
	return rel
}

// short package path: strip the module prefix.
func shortPkg(path string) string {
	if path == modPath {
		return "git"
	}
	return strings.TrimPrefix(path, modPath+"/")
}

// Name is the stable, qualified name of a function: "pkg.(*T).M" or "pkg.F".
func (f *FuncInfo) Name() string {
	if f.name == "" {
		f.name = funcName(f.Obj)
	}
	return f.name
}

func funcName(fn *types.Func) string {
	if fn == nil {
		return "<nil>"
	}
	pkg := ""
	if fn.Pkg() != nil {
		pkg = shortPkg(fn.Pkg().Path())
	}
	sig, _ := fn.Type().(*types.Signature)
	if sig != nil && sig.Recv() != nil {
		t := sig.Recv().Type()
		ptr := false
		if pt, ok := t.(*types.Pointer); ok {
			t = pt.Elem()
			ptr = true
		}
		name := "?"
		switch tt := t.(type) {
		case *types.Named:
			name = tt.Obj().Name()
		case *types.Alias:
			name = tt.Obj().Name()
		default:
			name = types.TypeString(t, func(*types.Package) string { return "" })
		}
		if ptr {
			return fmt.Sprintf("%s.(*%s).%s", pkg, name, fn.Name())
		}
		return fmt.Sprintf("%s.%s.%s", pkg, name, fn.Name())
	}
	return pkg + "." + fn.Name()
}

// Func finds a function by qualified name (as produced by funcName).
func (p *Prog) Func(name string) *FuncInfo {
	for _, f := range p.funcsL {
		if f.Name() == name {
			return f
		}
	}
	return nil
}

// FuncOf returns the FuncInfo of a types.Func declared in the repository.
func (p *Prog) FuncOf(fn *types.Func) *FuncInfo {
	if fn == nil {
		return nil
	}
	if fi := p.funcs[fn]; fi != nil {
		return fi
	}
	if o := fn.Origin(); o != fn {
		return p.funcs[o]
	}
	return nil
}

// Funcs returns all declared functions of the repository (sorted by name).
func (p *Prog) Funcs() []*FuncInfo { return p.funcsL }

// FuncsIn returns declared functions of the package with the given short path.
func (p *Prog) FuncsIn(short string) []*FuncInfo {
	var out []*FuncInfo
	for _, f := range p.funcsL {
		if shortPkg(f.Pkg.PkgPath) == short {
			out = append(out, f)
		}
	}
	return out
}

func (p *Prog) Pkg(short string) *packages.Package {
	if short == "git" {
		return p.ByPath[modPath]
	}
	return p.ByPath[modPath+"/"+short]
}

// isTestFile reports whether the position is in a _test.go file.
func (p *Prog) isTestFile(pos token.Pos) bool {
	return strings.HasSuffix(p.Fset.Position(pos).Filename, "_test.go")
}

// production reports whether a package counts as production code.
func production(pk *packages.Package) bool {
	s := shortPkg(pk.PkgPath)
	for _, pre := range []string{"_examples", "internal/test", "tests", "internal/cmd", "cli", "storage/tests", "storage/test"} {
		if s == pre || strings.HasPrefix(s, pre+"/") {
			return false
		}
	}
	return true
}

// Callee resolves the called function or method object of a call (nil for
// calls through function values, conversions and builtins).
func Callee(info *types.Info, call *ast.CallExpr) *types.Func {
	fn, _ := typeutil.Callee(info, call).(*types.Func)
	return fn
}

// calleeName: qualified name of the callee of a call, "" if unresolved.
// For interface methods this is "pkg.Iface.Method".
func calleeQName(fn *types.Func) string {
	if fn == nil {
		return ""
	}
	pkg := ""
	if fn.Pkg() != nil {
		pkg = fn.Pkg().Path()
	}
	sig, _ := fn.Type().(*types.Signature)
	if sig != nil && sig.Recv() != nil {
		t := sig.Recv().Type()
		if pt, ok := t.(*types.Pointer); ok {
			t = pt.Elem()
		}
		switch tt := t.(type) {
		case *types.Named:
			return pkg + "." + tt.Obj().Name() + "." + fn.Name()
		case *types.Alias:
			return pkg + "." + tt.Obj().Name() + "." + fn.Name()
		case *types.Interface:
			// method of an embedded/anonymous interface: find the named interface by position is
			// not possible; use the package and method name.
			return pkg + ".<iface>." + fn.Name()
		}
		return pkg + ".?." + fn.Name()
	}
	return pkg + "." + fn.Name()
}

// lookupType finds a named type object in a repository package.
func (p *Prog) lookupType(short, name string) *types.TypeName {
	pk := p.Pkg(short)
	if pk == nil {
		return nil
	}
	tn, _ := pk.Types.Scope().Lookup(name).(*types.TypeName)
	return tn
}

// lookupObj finds a package-level object.
func (p *Prog) lookupObj(short, name string) types.Object {
	pk := p.Pkg(short)
	if pk == nil {
		return nil
	}
	return pk.Types.Scope().Lookup(name)
}

// importedPkg finds a (possibly external) package by import path among everything reachable.
func (p *Prog) importedPkg(path string) *types.Package {
	for _, pk := range p.Pkgs {
		if pk.PkgPath == path {
			return pk.Types
		}
		for ip, imp := range pk.Imports {
			if ip == path && imp.Types != nil {
				return imp.Types
			}
		}
	}
	for _, pk := range p.All {
		if pk.PkgPath == path && pk.Types != nil {
			return pk.Types
		}
	}
	return nil
}

// enclosing function name for reporting (handles function literals: reports the declared function).
func (p *Prog) enclosingFunc(pk *packages.Package, pos token.Pos) *FuncInfo {
	if p.byPkg == nil {
		p.byPkg = map[*packages.Package][]*FuncInfo{}
		for _, f := range p.funcsL {
			p.byPkg[f.Pkg] = append(p.byPkg[f.Pkg], f)
		}
		for _, l := range p.byPkg {
			sort.Slice(l, func(i, j int) bool { return l[i].Decl.Pos() < l[j].Decl.Pos() })
		}
	}
	l := p.byPkg[pk]
	i := sort.Search(len(l), func(i int) bool { return l[i].Decl.End() > pos })
	if i < len(l) && l[i].Decl.Pos() <= pos {
		return l[i]
	}
	return nil
}

// exprString renders an expression compactly.
func exprString(e ast.Expr) string { return types.ExprString(e) }

// unparen strips parentheses.
func unparen(e ast.Expr) ast.Expr {
	for {
		pe, ok := e.(*ast.ParenExpr)
		if !ok {
			return e
		}
		e = pe.X
	}
}

// walkCalls calls fn for each call expression under n (including inside function literals when lits is true).
func walkCalls(n ast.Node, lits bool, fn func(*ast.CallExpr)) {
	if n == nil {
		return
	}
	ast.Inspect(n, func(x ast.Node) bool {
		switch v := x.(type) {
		case *ast.FuncLit:
			return lits
		case *ast.CallExpr:
			fn(v)
		}
		return true
	})
}
