package main

import (
	"go/ast"
	"go/constant"
	"go/token"
	"go/types"
	"math/big"
)

// checkGenerationOverflow (C51): a corrected-date offset that does not fit the 31 bits of a GDA2 slot goes to the GDO2
// chunk, and the slot holds the position *in that chunk* with the top bit set.
//
// (overflow-threshold-one-value) the pass that sizes the chunks and the pass that writes them decide "overflows" with the
// same threshold: every ordering comparison in the encoder against a constant between 2^31-1 and 2^32 means
// "value >= 2^31" once `> C` is read as `>= C+1` (found and fixed: prepare counted with `> MaxUint32`, so for offsets in
// [2^31, 2^32] the chunk was written but neither sized nor listed, and the file could not be read back).
// (overflow-slot-is-rank) the value or-ed with the overflow flag is a counter that changes only in the overflow branch
// (or the length of the list appended to there) — not the index of the commit.
func checkGenerationOverflow(c *Ctx, r1, r2 string) {
	p := c.P
	const cg = "plumbing/format/commitgraph"
	pk := p.Pkg(cg)
	if pk == nil {
		c.Unresolved(r1, "package "+cg, 0, "not loaded")
		return
	}
	info := pk.TypesInfo
	lo := new(big.Int).SetUint64(1<<31 - 1)
	hi := new(big.Int).SetUint64(1 << 32)
	want := new(big.Int).SetUint64(1 << 31)
	n := 0
	for _, fi := range p.FuncsIn(cg) {
		if fi.Decl.Body == nil || p.isTestFile(fi.Decl.Pos()) || recvTypeName(fi.Obj) == nil || recvTypeName(fi.Obj).Name() != "Encoder" {
			continue
		}
		k := 0
		ast.Inspect(fi.Decl.Body, func(nd ast.Node) bool {
			be, ok := nd.(*ast.BinaryExpr)
			if !ok {
				return true
			}
			var cst ast.Expr
			op := be.Op
			switch {
			case info.Types[be.Y].Value != nil && info.Types[be.X].Value == nil:
				cst = be.Y
			case info.Types[be.X].Value != nil && info.Types[be.Y].Value == nil:
				cst = be.X
				// C < x  ==  x > C
				switch op {
				case token.LSS:
					op = token.GTR
				case token.LEQ:
					op = token.GEQ
				case token.GTR:
					op = token.LSS
				case token.GEQ:
					op = token.LEQ
				}
			default:
				return true
			}
			v := info.Types[cst].Value
			if v.Kind() != constant.Int {
				return true
			}
			bi, ok := new(big.Int).SetString(v.ExactString(), 10)
			if !ok || bi.Cmp(lo) < 0 || bi.Cmp(hi) > 0 {
				return true
			}
			// threshold T: the smallest value on the "large" side
			t := new(big.Int).Set(bi)
			switch op {
			case token.GTR, token.LEQ:
				t.Add(t, big.NewInt(1))
			case token.GEQ, token.LSS:
			default:
				return true
			}
			n++
			k++
			c.Analysed(fi)
			ok2 := t.Cmp(want) == 0
			c.Check(ok2, r1, fi.Name()+":"+exprString(be)+ifStr(k > 1, "#"+itoa(k)), be.Pos(), orStr(ifStr(!ok2, "this comparison puts the overflow boundary at "+t.String()+", a GDA2 slot overflows from 2147483648 (2^31) on: the passes that size and that write the overflow chunk disagree for the values in between, and the file cannot be read back"),
				"overflow means offset >= 2^31"))
			return true
		})
	}
	c.Check(n >= 2, r1, cg+".Encoder:overflow-comparisons", 0, orStr(ifStr(n < 2, "fewer than two comparisons with the overflow boundary found in the encoder (the sizing pass and the writing pass)"), itoa(n)+" comparisons with the overflow boundary examined"))

	// ---- overflow-slot-is-rank
	fi := c.MustFunc(r2, cg+".(*Encoder).encodeGenerationV2Data")
	if fi == nil {
		return
	}
	c.Analysed(fi)
	var flagged *ast.BinaryExpr
	ast.Inspect(fi.Decl.Body, func(nd ast.Node) bool {
		be, ok := nd.(*ast.BinaryExpr)
		if !ok || be.Op != token.OR || flagged != nil {
			return true
		}
		for _, side := range []ast.Expr{be.X, be.Y} {
			if v := info.Types[side].Value; v != nil && v.Kind() == constant.Int && v.ExactString() == "2147483648" {
				flagged = be
			}
		}
		return true
	})
	if flagged == nil {
		c.Unresolved(r2, fi.Name()+":flagged-slot", fi.Decl.Pos(), "no value or-ed with the overflow flag 0x80000000 found")
		return
	}
	other := flagged.X
	if info.Types[other].Value != nil {
		other = flagged.Y
	}
	// strip conversions
	for {
		call, ok := unparen(other).(*ast.CallExpr)
		if !ok || len(call.Args) != 1 {
			break
		}
		if tv, isType := info.Types[call.Fun]; isType && tv.IsType() {
			other = call.Args[0]
			continue
		}
		break
	}
	// the enclosing if of the flagged write (the overflow branch) and the loop
	path := pathTo(fi.Decl.Body, flagged)
	var branch *ast.IfStmt
	var loop *ast.RangeStmt
	for _, nd := range path {
		if ifs, ok := nd.(*ast.IfStmt); ok && branch == nil {
			branch = ifs
		}
		if rs, ok := nd.(*ast.RangeStmt); ok {
			loop = rs
		}
	}
	// pathTo returns root→target; the overflow branch is the outermost if inside the loop
	branch = nil
	seenLoop := false
	for _, nd := range path {
		if _, ok := nd.(*ast.RangeStmt); ok {
			seenLoop = true
		}
		if ifs, ok := nd.(*ast.IfStmt); ok && seenLoop && branch == nil {
			branch = ifs
		}
	}
	if branch == nil || loop == nil {
		c.Unresolved(r2, fi.Name()+":overflow-branch", flagged.Pos(), "the flagged slot is not written inside a branch of a loop over the values")
		return
	}
	inBranch := func(nd ast.Node) bool { return nd.Pos() >= branch.Body.Pos() && nd.End() <= branch.Body.End() }
	ok, why := false, ""
	switch v := unparen(other).(type) {
	case *ast.Ident:
		o := objOf(info, v)
		if o == nil {
			break
		}
		if (loop.Key != nil && objOf(info, loop.Key) == o) || (loop.Value != nil && objOf(info, loop.Value) == o) {
			why = "`" + v.Name + "` is the loop's own variable: the commit's position among all commits, not among the overflowing ones"
			break
		}
		incs, outside := 0, false
		ast.Inspect(loop.Body, func(nd ast.Node) bool {
			switch s := nd.(type) {
			case *ast.IncDecStmt:
				if objOf(info, s.X) == o {
					incs++
					if !inBranch(s) {
						outside = true
					}
				}
			case *ast.AssignStmt:
				for _, l := range s.Lhs {
					if objOf(info, l) == o {
						incs++
						if !inBranch(s) {
							outside = true
						}
					}
				}
			}
			return true
		})
		if incs == 0 {
			why = "`" + v.Name + "` never changes in the loop"
		} else if outside {
			why = "`" + v.Name + "` also changes outside the overflow branch: it does not count the overflowing commits"
		} else {
			ok = true
		}
	case *ast.CallExpr:
		if id, isId := unparen(v.Fun).(*ast.Ident); isId && id.Name == "len" && len(v.Args) == 1 {
			lst := objOf(info, v.Args[0])
			app := false
			ast.Inspect(branch.Body, func(nd ast.Node) bool {
				if as, isAs := nd.(*ast.AssignStmt); isAs && len(as.Lhs) == 1 && objOf(info, as.Lhs[0]) == lst && nodeHasBuiltin(info, as.Rhs[0], "append") {
					app = true
				}
				return true
			})
			if app && lst != nil {
				ok = true
			} else {
				why = "the length used is not that of a list appended to in the overflow branch"
			}
		}
	}
	if !ok && why == "" {
		why = "the slot value `" + exprString(other) + "` is not recognisably the number of overflowing commits met so far"
	}
	var _ types.Object
	c.Check(ok, r2, fi.Name()+":flagged-slot", flagged.Pos(), orStr(ifStr(!ok, why+": the GDA2 slot of an overflowing commit must hold its position in the GDO2 chunk; with anything else the reader takes another commit's corrected date or runs past the chunk, and git commit-graph verify rejects the file"),
		"the flagged slot holds the rank among the overflowing commits"))
}
