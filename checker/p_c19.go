package main

import (
	"go/ast"
	"go/types"
	"sort"
	"strings"
)

func init() {
	register(&propSpec{
		ID: "C19",
		Explanation: "Decides the overlay discipline of storage/transactional, not model equivalence: (overlay-complete) for every overlay struct embedding a storer interface, " +
			"every interface method is declared on the overlay itself (only the pure NewEncodedObject may be promoted from the base); (base-written-only-in-commit) mutating " +
			"methods of the base (Set*, Remove*, Append*, Delete*, Add*, CheckAndSet*, Pack*, RawObjectWriter, PackfileWriter) are invoked on the base field only inside Commit; " +
			"(pending-state-consulted) every overlay method that reads the base also consults each pending-state field of its type (temporal, plus the tombstone/set flag listed per type); " +
			"(singleton-set-flag) the single-value overlays (index, config, shallow) have a bool set in the setter and tested in getter and Commit; " +
			"(commit-coverage) basic.Commit commits every overlay and the reflog overlay; (removal-always-recorded) every successful return of the transactional RemoveReference is preceded by recording the name in the pending deletions. (commit-copies-every-object-type) the object overlay's Commit iterates the pending objects for AnyObject or over a list naming all four types. Not decided: equality of the view with a model over operation sequences; duplicates in object listings.",
		Assumptions: []string{"the base and temporal storers implement their interfaces correctly"},
		Run:         runC19,
	})
}

const txShort = "storage/transactional"

var mutatorPrefixes = []string{"Set", "Remove", "Append", "Delete", "Add", "CheckAndSet", "Pack", "RawObjectWriter", "PackfileWriter"}

func isMutatorName(n string) bool {
	for _, p := range mutatorPrefixes {
		if strings.HasPrefix(n, p) {
			return true
		}
	}
	return false
}

func runC19(c *Ctx) {
	p := c.P
	pk := p.Pkg(txShort)
	if pk == nil {
		c.Unresolved("overlay-complete", "package "+txShort, 0, "package not loaded")
		return
	}
	info := pk.TypesInfo
	// pending-state table, confirmed by reading each overlay
	pendingTable := map[string][]string{
		"ObjectStorage":    {"temporal"},
		"ReferenceStorage": {"temporal", "deleted"},
		"IndexStorage":     {"temporal", "set"},
		"ShallowStorage":   {"temporal", "set"},
		"ConfigStorage":    {"temporal", "set"},
		"ReflogStorage":    {"temporal", "deleted"},
	}
	type overlay struct {
		tn    *types.TypeName
		base  *types.Var // embedded interface, or field named "base"
		iface *types.Interface
	}
	var overlays []overlay
	sc := pk.Types.Scope()
	for _, n := range sc.Names() {
		tn, ok := sc.Lookup(n).(*types.TypeName)
		if !ok {
			continue
		}
		st, ok := tn.Type().Underlying().(*types.Struct)
		if !ok {
			continue
		}
		var base *types.Var
		hasTemporal := false
		for i := 0; i < st.NumFields(); i++ {
			f := st.Field(i)
			if _, isIface := f.Type().Underlying().(*types.Interface); isIface {
				if f.Embedded() || f.Name() == "base" {
					base = f
				}
				if f.Name() == "temporal" {
					hasTemporal = true
				}
			}
		}
		if base != nil && hasTemporal {
			overlays = append(overlays, overlay{tn, base, base.Type().Underlying().(*types.Interface)})
		}
	}
	sort.Slice(overlays, func(i, j int) bool { return overlays[i].tn.Name() < overlays[j].tn.Name() })
	if len(overlays) < 6 {
		c.Unresolved("overlay-complete", "overlay types", 0, "found "+itoa(len(overlays))+" overlay structs (a storer interface plus a `temporal` field); 6 confirmed by hand")
	}
	methodsOf := func(tn *types.TypeName) []*FuncInfo {
		var out []*FuncInfo
		for _, fi := range p.FuncsIn(txShort) {
			if recvTypeName(fi.Obj) == tn && fi.Decl.Body != nil && !p.isTestFile(fi.Decl.Pos()) {
				out = append(out, fi)
			}
		}
		return out
	}
	// selections of a given field on the method's receiver
	usesField := func(fi *FuncInfo, fld *types.Var) bool {
		found := false
		ast.Inspect(fi.Decl.Body, func(n ast.Node) bool {
			if sel, ok := n.(*ast.SelectorExpr); ok && info.Uses[sel.Sel] == fld {
				found = true
			}
			return !found
		})
		return found
	}
	for _, ov := range overlays {
		name := "transactional." + ov.tn.Name()
		// 1. overlay-complete
		if ov.base.Embedded() {
			WrapComplete(c, "overlay-complete", name, types.NewPointer(ov.tn.Type()), ov.iface, nil,
				map[string]string{"NewEncodedObject": "pure constructor of an in-memory object; touches no storage"}, ov.tn.Pos())
		} else {
			// named base field: nothing can be promoted; every interface method must simply exist
			for _, m := range ifaceMethods(ov.iface) {
				_, _, found := methodDeclaredOn(types.NewPointer(ov.tn.Type()), m.Pkg(), m.Name())
				c.Check(found, "overlay-complete", name+"."+m.Name(), ov.tn.Pos(), "declared on the overlay (base is a named field, nothing is promoted)")
			}
		}
		// 2. base-written-only-in-commit  3. pending-state-consulted
		st := ov.tn.Type().Underlying().(*types.Struct)
		var pending []*types.Var
		for _, fname := range pendingTable[ov.tn.Name()] {
			var fv *types.Var
			for i := 0; i < st.NumFields(); i++ {
				if st.Field(i).Name() == fname {
					fv = st.Field(i)
				}
			}
			if fv == nil {
				c.Violate("pending-state-consulted", name+"."+fname, ov.tn.Pos(), "the overlay has no `"+fname+"` field: pending "+fname+" state cannot be represented (its sibling overlays have one)")
				continue
			}
			pending = append(pending, fv)
		}
		if _, ok := pendingTable[ov.tn.Name()]; !ok {
			c.Unresolved("pending-state-consulted", name, ov.tn.Pos(), "overlay type not in the confirmed pending-state table")
		}
		for _, fi := range methodsOf(ov.tn) {
			c.Analysed(fi)
			isCommit := fi.Obj.Name() == "Commit"
			readsBase := false
			walkCalls(fi.Decl.Body, true, func(call *ast.CallExpr) {
				sel, ok := unparen(call.Fun).(*ast.SelectorExpr)
				if !ok {
					return
				}
				inner, ok := unparen(sel.X).(*ast.SelectorExpr)
				if !ok || info.Uses[inner.Sel] != ov.base {
					return
				}
				if isMutatorName(sel.Sel.Name) {
					c.Check(isCommit, "base-written-only-in-commit", fi.Name()+"->base."+sel.Sel.Name, call.Pos(),
						"mutating call on the base storage "+map[bool]string{true: "inside Commit", false: "outside Commit: the base changes before the transaction commits"}[isCommit])
				} else {
					readsBase = true
				}
			})
			if readsBase && !isCommit {
				for _, fv := range pending {
					c.Check(usesField(fi, fv), "pending-state-consulted", fi.Name()+":"+fv.Name(), fi.Decl.Pos(),
						"reads the base storage and "+map[bool]string{true: "consults", false: "never consults"}[usesField(fi, fv)]+" pending state `"+fv.Name()+"`")
				}
			}
		}
		// 4. singleton overlays: exactly one getter + one setter in the interface
		if ov.iface.NumMethods() == 2 {
			var setFlag *types.Var
			for i := 0; i < st.NumFields(); i++ {
				if b, ok := st.Field(i).Type().Underlying().(*types.Basic); ok && b.Kind() == types.Bool {
					setFlag = st.Field(i)
				}
			}
			if setFlag == nil {
				c.Violate("singleton-set-flag", name, ov.tn.Pos(), "single-value overlay has no bool flag recording that the value was set in the transaction; an empty value cannot be distinguished from 'not set'")
			} else {
				for _, fi := range methodsOf(ov.tn) {
					c.Check(usesField(fi, setFlag), "singleton-set-flag", fi.Name()+":"+setFlag.Name(), fi.Decl.Pos(), "method uses the set flag")
				}
			}
		}
	}
	c.Floor("overlay-complete", 24)
	c.Floor("base-written-only-in-commit", 8)
	c.Floor("pending-state-consulted", 12)
	c.Floor("singleton-set-flag", 9)

	// 4b. removal-always-recorded: a removal inside the transaction leaves a tombstone on every successful path, also when
	// the name has a pending write (the base may hold the reference too: without the tombstone it shows through again and
	// Commit never removes it)
	const r4b = "removal-always-recorded"
	if rm := c.MustFunc(r4b, txShort+".ReferenceStorage.RemoveReference"); rm != nil {
		rsT := p.lookupType(txShort, "ReferenceStorage")
		delF := fieldOf(rsT, "deleted")
		rinfo := rm.Pkg.TypesInfo
		f := p.FlowOf(rm)
		c.Analysed(rm)
		marks := func(n ast.Node) bool {
			as, ok := n.(*ast.AssignStmt)
			if !ok {
				return false
			}
			for _, l := range as.Lhs {
				if ix, ok := unparen(l).(*ast.IndexExpr); ok {
					if sel, ok := unparen(ix.X).(*ast.SelectorExpr); ok && delF != nil && rinfo.Uses[sel.Sel] == types.Object(delF) {
						return true
					}
				}
			}
			return false
		}
		h := f.Search(SearchOpts{Starts: []Loc{f.Entry()}, Barrier: marks, Sink: func(n ast.Node) bool {
			r, ok := n.(*ast.ReturnStmt)
			return ok && !returnsNonNilError(rinfo, rm.Decl.Body, r)
		}})
		c.Check(h == nil && delF != nil, r4b, rm.Name(), rm.Decl.Pos(), orStr(ifStr(h != nil, "RemoveReference can return successfully without recording the removal in the pending deletions: a reference that also exists in the base shows through again and survives Commit"+hitLines(f, h)),
			"every successful return is preceded by recording the name in the pending deletions"))
	}
	c.Floor(r4b, 1)

	// 5. commit-coverage
	const r5 = "commit-coverage"
	basicT := p.lookupType(txShort, "basic")
	commit := p.Func(txShort + ".(*basic).Commit")
	if basicT == nil || commit == nil {
		c.Unresolved(r5, "transactional.basic.Commit", 0, "anchor not found")
	} else {
		c.Analysed(commit)
		st := basicT.Type().Underlying().(*types.Struct)
		for i := 0; i < st.NumFields(); i++ {
			f := st.Field(i)
			pt, ok := f.Type().(*types.Pointer)
			if !ok {
				continue
			}
			if _, _, found := methodDeclaredOn(pt, pk.Types, "Commit"); !found {
				continue
			}
			// the field must be the receiver of a Commit call, or an element of a collection ranged over with a Commit call
			direct, inLit := false, false
			ast.Inspect(commit.Decl.Body, func(n ast.Node) bool {
				switch v := n.(type) {
				case *ast.CallExpr:
					if sel, ok := unparen(v.Fun).(*ast.SelectorExpr); ok && sel.Sel.Name == "Commit" {
						if inner, ok := unparen(sel.X).(*ast.SelectorExpr); ok && info.Uses[inner.Sel] == f {
							direct = true
						}
					}
				case *ast.CompositeLit:
					for _, el := range v.Elts {
						if s, ok := unparen(el).(*ast.SelectorExpr); ok && info.Uses[s.Sel] == f {
							inLit = true
						}
					}
				}
				return true
			})
			c.Check(direct || inLit, r5, "basic.Commit->"+f.Name(), commit.Decl.Pos(), "overlay "+f.Name()+" is committed by basic.Commit")
		}
		// every error from a sub-commit is returned: the loop body returns on err != nil (GUARD on success return)
		SuccessReturnsGuardedLoose(c, r5, commit)
	}
	c.Floor(r5, 6)

	// Committing the object overlay copies every pending object: it iterates the temporal storage for AnyObject, or —
	// if it goes type by type — over a list that names all four object types. A type left out (annotated tags) stays
	// readable through the overlay until Commit and is gone from the base afterwards, with the reference that points at
	// it committed.
	const r6 = "commit-copies-every-object-type"
	if oc := c.MustFunc(r6, "storage/transactional.(*ObjectStorage).Commit"); oc != nil {
		info := oc.Pkg.TypesInfo
		c.Analysed(oc)
		anyObj := p.lookupObj("plumbing", "AnyObject")
		all := map[string]bool{"CommitObject": false, "TreeObject": false, "BlobObject": false, "TagObject": false}
		k := 0
		walkCalls(oc.Decl.Body, true, func(call *ast.CallExpr) {
			fn := Callee(info, call)
			if fn == nil || fn.Name() != "IterEncodedObjects" || len(call.Args) != 1 {
				return
			}
			k++
			arg := unparen(call.Args[0])
			if objOfSel(info, arg) == anyObj {
				for n := range all {
					all[n] = true
				}
				return
			}
			if o := objOfSel(info, arg); o != nil {
				if cst, ok := o.(*types.Const); ok {
					all[cst.Name()] = true
					return
				}
			}
			// a range variable over a list of types
			if v := objOf(info, arg); v != nil {
				ast.Inspect(oc.Decl.Body, func(n ast.Node) bool {
					rs, ok := n.(*ast.RangeStmt)
					if !ok || rs.Value == nil || objOf(info, rs.Value) != v {
						return true
					}
					var lit *ast.CompositeLit
					if cl, ok := unparen(rs.X).(*ast.CompositeLit); ok {
						lit = cl
					} else if lo := objOfSel(info, rs.X); lo != nil {
						// package-level or local variable initialised with a literal
						for _, f := range oc.Pkg.Syntax {
							ast.Inspect(f, func(m ast.Node) bool {
								if vs, ok := m.(*ast.ValueSpec); ok {
									for i, nm := range vs.Names {
										if info.Defs[nm] == lo && i < len(vs.Values) {
											if cl, ok := unparen(vs.Values[i]).(*ast.CompositeLit); ok {
												lit = cl
											}
										}
									}
								}
								if as, ok := m.(*ast.AssignStmt); ok && len(as.Lhs) == 1 && len(as.Rhs) == 1 && objOf(info, as.Lhs[0]) == lo {
									if cl, ok := unparen(as.Rhs[0]).(*ast.CompositeLit); ok {
										lit = cl
									}
								}
								return true
							})
						}
					}
					if lit != nil {
						for _, el := range lit.Elts {
							if o := objOfSel(info, el); o != nil {
								all[o.Name()] = true
							}
						}
					}
					return true
				})
			}
		})
		var missing []string
		for _, n := range []string{"BlobObject", "TreeObject", "CommitObject", "TagObject"} {
			if !all[n] {
				missing = append(missing, n)
			}
		}
		okAll := k > 0 && len(missing) == 0
		c.Check(okAll, r6, oc.Name(), oc.Decl.Pos(), orStr(ifStr(!okAll, "Commit does not iterate the pending objects of type "+strings.Join(missing, ", ")+": they are readable through the overlay before Commit and missing from the base afterwards"), "every pending object type is copied to the base"))
	}
	c.Floor(r6, 1)
}

// SuccessReturnsGuardedLoose: no `return nil` is reachable while an error from a Commit call is pending:
// every call x.Commit() in the function is immediately checked (its error guards the continuation).
func SuccessReturnsGuardedLoose(c *Ctx, rule string, fi *FuncInfo) {
	info := fi.Pkg.TypesInfo
	ok := true
	ast.Inspect(fi.Decl.Body, func(n ast.Node) bool {
		es, isExpr := n.(*ast.ExprStmt)
		if isExpr {
			if call, isCall := es.X.(*ast.CallExpr); isCall {
				if fn := Callee(info, call); fn != nil && fn.Name() == "Commit" {
					ok = false // result discarded
				}
			}
		}
		if as, isAs := n.(*ast.AssignStmt); isAs {
			for i, r := range as.Rhs {
				if call, isCall := unparen(r).(*ast.CallExpr); isCall {
					if fn := Callee(info, call); fn != nil && fn.Name() == "Commit" && i < len(as.Lhs) {
						if id, isId := as.Lhs[i].(*ast.Ident); isId && id.Name == "_" {
							ok = false
						}
					}
				}
			}
		}
		return true
	})
	c.Check(ok, rule, fi.Name()+":sub-commit-errors-kept", fi.Decl.Pos(), "no sub-Commit error is discarded")
}
