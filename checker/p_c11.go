package main

import (
	"go/ast"
	"go/token"
	"go/types"
	"strings"

	"golang.org/x/tools/go/cfg"
)

func init() {
	register(&propSpec{
		ID: "C11",
		Explanation: "Decides three necessary conditions of 'every stored object reads back identically on every read path', not equality with git cat-file: " +
			"(type-filter-enforced) every function of the storage packages that returns (plumbing.EncodedObject, error) and is given an object-type filter — a parameter, or a field of its receiver — " +
			"returns an object only (a) from a call that is handed the same filter, or (b) on a path that crossed the edge on which 'filter == AnyObject or object.Type() == filter' is known for the returned object " +
			"(both the disjunctive and the De Morgan form are recognised, also nested in larger conditions); a read by type that skips this on one path — the cache hit, the loose path, an iterator — hands out an object of another type; " +
			"(pack-hit-verified) findObjectInPackfile names a pack only behind the success edge of that pack index's FindOffset for the requested hash, so the most-recently-used hint can be stale but cannot misroute; " +
			"(reader-bounded-by-size) FSObject.Reader hands out either the cached object's reader or a reader wrapped in NewBoundedReadCloser. (may-contain-confirmed) on the edge where an index's MayContain (a first-byte bucket test) answered true only the precise lookup may follow, never the next iteration or a return; " +
			"(alternates-miss-is-not-found) findInAlternates returns the value its workers collected with a nil error only where the found flag is true (found and fixed: a miss in two or more alternates answered (zero, nil)); (local-miss-reaches-alternates) a function that falls back to the alternates does so for both ways the loose-object directory reports a miss — the filesystem's not-exist error and, with ExclusiveAccess, ErrObjectNotFound from the cached listing (found and fixed: HasEncodedObject returned the latter at once); (read-paths-cover-alternates) lookup, size, existence, prefix search and iteration each reach the alternates (known finding: iteration does not); (cached-slice-not-written-by-callers, shared with C18) no caller of a DotGit method that hands out a window of a cached listing assigns its elements, appends through a reslice that leaves capacity (the x[:0] filter idiom), sorts it or copies into it — the window shares its backing array with the listing every other read path searches; (id-from-exact-bytes) no ObjectID is written from an open-ended slice, so IDs are equal wherever they were read (found and fixed: MemoryIndex); (rejecting-set-scoped-to-the-read) a field set whose membership test fails a read is emptied by the function that fills it. Not decided: contents and sizes of what is read, cache coherence, delta resolution.",
		Assumptions: []string{},
		Run:         runC11,
	})
}

func runC11(c *Ctx) {
	p := c.P
	// the read paths share the cached listing of loose objects: a reader that rewrites the window it was handed makes the
	// other read paths (prefix search, iteration) disagree with reads by ID (shared with C18)
	nMut := SharedSliceNotMutatedByCallers(c, "cached-slice-not-written-by-callers", dotgitShort, "DotGit")
	c.Check(nMut >= 2, "cached-slice-not-written-by-callers", dotgitShort+".DotGit:callers", 0, itoa(nMut)+" call sites that receive a window of a cached listing examined")
	const r1 = "type-filter-enforced"
	otT := p.lookupType("plumbing", "ObjectType")
	eoT := p.lookupType("plumbing", "EncodedObject")
	anyObj := p.lookupObj("plumbing", "AnyObject")
	if otT == nil || eoT == nil || anyObj == nil {
		c.Unresolved(r1, "plumbing.ObjectType/EncodedObject/AnyObject", 0, "not found")
		return
	}
	errT := types.Universe.Lookup("error").Type()
	n1 := 0
	for _, sp := range []string{"storage/filesystem", "storage/memory", "storage/transactional", "plumbing/format/packfile", "storage/filesystem/dotgit"} {
		pk := p.Pkg(sp)
		if pk == nil {
			continue
		}
		info := pk.TypesInfo
		for _, fi := range p.FuncsIn(sp) {
			if fi.Decl.Body == nil || p.isTestFile(fi.Decl.Pos()) {
				continue
			}
			sig := fi.Obj.Type().(*types.Signature)
			if sig.Results().Len() != 2 || !types.Identical(sig.Results().At(0).Type(), eoT.Type()) || !types.Identical(sig.Results().At(1).Type(), errT) {
				continue
			}
			// the filter: a parameter of type ObjectType, or a receiver field of that type read in the body
			var filterObj types.Object
			for _, po := range paramObjs(info, fi.Decl) {
				if types.Identical(po.Type(), otT.Type()) {
					filterObj = po
				}
			}
			if filterObj == nil && sig.Recv() != nil {
				ast.Inspect(fi.Decl.Body, func(n ast.Node) bool {
					if sel, ok := n.(*ast.SelectorExpr); ok {
						if fv, ok := info.Uses[sel.Sel].(*types.Var); ok && fv.IsField() && types.Identical(fv.Type(), otT.Type()) {
							if objOf(info, sel.X) == types.Object(sig.Recv()) || (fi.Decl.Recv != nil && len(fi.Decl.Recv.List) > 0 && len(fi.Decl.Recv.List[0].Names) > 0 && objOf(info, sel.X) == info.Defs[fi.Decl.Recv.List[0].Names[0]]) {
								filterObj = fv
							}
						}
					}
					return filterObj == nil
				})
			}
			if filterObj == nil {
				continue
			}
			isFilter := func(e ast.Expr) bool {
				e = unparen(e)
				if o := objOf(info, e); o != nil && o == filterObj {
					return true
				}
				if sel, ok := e.(*ast.SelectorExpr); ok && info.Uses[sel.Sel] == filterObj {
					return true
				}
				return false
			}
			passesFilter := func(call *ast.CallExpr) bool {
				for _, a := range call.Args {
					if isFilter(a) {
						return true
					}
				}
				// a literal handed to a helper, whose body makes such a call: findInAlternates(s, func(alt) { return alt.EncodedObject(t, h) })
				for _, a := range call.Args {
					if fl, ok := unparen(a).(*ast.FuncLit); ok {
						found := false
						ast.Inspect(fl.Body, func(n ast.Node) bool {
							if cc, ok := n.(*ast.CallExpr); ok {
								for _, aa := range cc.Args {
									if isFilter(aa) {
										found = true
									}
								}
							}
							return !found
						})
						if found {
							return true
						}
					}
				}
				// recursion on the same receiver (the filter is a receiver field)
				if fn := Callee(info, call); fn != nil && fn == fi.Obj {
					if _, isField := filterObj.(*types.Var); isField && filterObj.(*types.Var).IsField() {
						return true
					}
				}
				return false
			}
			isAny := func(e ast.Expr) bool { return objOfSel(info, e) == anyObj }
			// typeExprOf(x, args): expressions that denote the type of the returned object: x.Type(), or — when a call
			// result is returned — v.Type() / the field v.Type of a variable v handed to that call (the header the object
			// is built from).
			typeExprOf := func(x types.Object, args []ast.Expr) func(ast.Expr) bool {
				vars := map[types.Object]bool{}
				if x != nil {
					vars[x] = true
				}
				for _, a := range args {
					if o := objOf(info, a); o != nil {
						vars[o] = true
					}
				}
				return func(e ast.Expr) bool {
					e = unparen(e)
					if call, ok := e.(*ast.CallExpr); ok && len(call.Args) == 0 {
						sel, ok := unparen(call.Fun).(*ast.SelectorExpr)
						return ok && sel.Sel.Name == "Type" && vars[objOf(info, sel.X)]
					}
					if sel, ok := e.(*ast.SelectorExpr); ok && sel.Sel.Name == "Type" && x == nil {
						if tv := info.Types[e]; tv.Type != nil && types.Identical(tv.Type, otT.Type()) {
							return vars[objOf(info, sel.X)]
						}
					}
					return false
				}
			}
			cmp := func(e ast.Expr, op token.Token, a, b func(ast.Expr) bool) bool {
				be, ok := unparen(e).(*ast.BinaryExpr)
				return ok && be.Op == op && ((a(be.X) && b(be.Y)) || (a(be.Y) && b(be.X)))
			}
			// filterKnown(cond, truth): cond evaluating to truth implies filter == Any || <type of the object> == filter
			var filterKnown func(e ast.Expr, truth bool, isType func(ast.Expr) bool) bool
			filterKnown = func(e ast.Expr, truth bool, isType func(ast.Expr) bool) bool {
				e = unparen(e)
				if u, ok := e.(*ast.UnaryExpr); ok && u.Op == token.NOT {
					return filterKnown(u.X, !truth, isType)
				}
				be, ok := e.(*ast.BinaryExpr)
				if !ok {
					return false
				}
				switch be.Op {
				case token.EQL, token.NEQ:
					if (be.Op == token.EQL) != truth {
						return false
					}
					return cmp(e, be.Op, isFilter, isAny) || cmp(e, be.Op, isFilter, isType)
				case token.LOR, token.LAND:
					// the condition tells us both operands (A||B false, A&&B true), or only one of them (A||B true, A&&B false)
					both := (be.Op == token.LOR && !truth) || (be.Op == token.LAND && truth)
					l, r := filterKnown(be.X, truth, isType), filterKnown(be.Y, truth, isType)
					if both {
						return l || r
					}
					return l && r
				}
				return false
			}
			passEdge := func(isType func(ast.Expr) bool) PassEdge {
				return func(fl *Flow, b *cfg.Block, i int) bool {
					if len(b.Succs) != 2 || len(b.Nodes) == 0 {
						return false
					}
					cond, ok := b.Nodes[len(b.Nodes)-1].(ast.Expr)
					if !ok {
						return false
					}
					if tv := info.Types[cond]; tv.Type == nil || !isBoolType(tv.Type) {
						return false
					}
					return filterKnown(cond, i == 0, isType)
				}
			}
			d := newDeriver(info, fi.Decl)
			f := p.FlowOf(fi)
			k := 0
			for _, loc := range f.Locs(func(nd ast.Node) bool { _, ok := nd.(*ast.ReturnStmt); return ok }) {
				ret := loc.B.Nodes[loc.Idx].(*ast.ReturnStmt)
				if len(ret.Results) == 0 {
					continue
				}
				r0 := unparen(ret.Results[0])
				if isNil(info, r0) {
					continue
				}
				k++
				n1++
				key := fi.Name() + ":return " + exprString(r0) + ifStr(k > 1, "#"+itoa(k))
				c.Analysed(fi)
				if call, ok := r0.(*ast.CallExpr); ok {
					if passesFilter(call) {
						c.Hold(r1, key, ret.Pos(), "delegated: the callee is given the filter")
						continue
					}
					h := f.UnguardedPath(passEdge(typeExprOf(nil, call.Args)), loc)
					c.Check(h == nil, r1, key, ret.Pos(), orStr(ifStr(h != nil, "the object comes from a call that is not given the type filter and is returned on a path that never established `filter == AnyObject` or the equality of the filter with the type of what the call is given"),
						"returned only where the filter is known to accept what the call builds the object from"))
					continue
				}
				x := objOf(info, r0)
				if x == nil {
					c.Violate(r1, key, ret.Pos(), "an object that is neither a variable nor a call result is returned although a type filter was given")
					continue
				}
				// all definitions delegate?
				defs := d.defs[x]
				allDelegated := len(defs) > 0
				for _, def := range defs {
					call, ok := unparen(def).(*ast.CallExpr)
					if !ok || !passesFilter(call) {
						allDelegated = false
					}
				}
				if allDelegated {
					c.Hold(r1, key, ret.Pos(), "delegated: every definition of "+x.Name()+" is a call that is given the filter")
					continue
				}
				h := f.UnguardedPath(passEdge(typeExprOf(x, nil)), loc)
				c.Check(h == nil, r1, key, ret.Pos(), orStr(ifStr(h != nil, "`"+x.Name()+"` is returned on a path that never established `filter == AnyObject || "+x.Name()+".Type() == filter`: a read by type can hand out an object of another type"),
					"returned only where the filter is known to accept "+x.Name()))
			}
		}
	}
	c.Floor(r1, 8)

	const r2 = "pack-hit-verified"
	if fi := c.MustFunc(r2, "storage/filesystem.(*ObjectStorage).findObjectInPackfile"); fi != nil {
		info := fi.Pkg.TypesInfo
		f := p.FlowOf(fi)
		c.Analysed(fi)
		zero := p.lookupObj("plumbing", "ZeroHash")
		guard := ErrGuard(func(_ *Flow, call *ast.CallExpr) bool {
			fn := Callee(info, call)
			return fn != nil && fn.Name() == "FindOffset"
		})
		k := 0
		for _, loc := range f.Locs(func(nd ast.Node) bool { _, ok := nd.(*ast.ReturnStmt); return ok }) {
			ret := loc.B.Nodes[loc.Idx].(*ast.ReturnStmt)
			if len(ret.Results) == 0 || (zero != nil && objOfSel(info, ret.Results[0]) == zero) {
				continue
			}
			k++
			h := f.UnguardedPath(guard, loc)
			c.Check(h == nil, r2, fi.Name()+":return "+exprString(ret.Results[0])+ifStr(k > 1, "#"+itoa(k)), ret.Pos(), orStr(ifStr(h != nil, "a pack is named for the hash without a successful FindOffset in that pack's index: a stale hint or a may-contain filter hit routes the read to a pack that does not hold the object"),
				"named only behind the success edge of FindOffset"))
		}
		if k == 0 {
			c.Unresolved(r2, fi.Name()+":returns", fi.Decl.Pos(), "no return naming a pack found")
		}
	}
	c.Floor(r2, 2)

	// MayContain answers from the first-byte bucket of an index: true for every hash that shares its first byte with
	// some object of the pack. A true answer may only lead to the precise lookup; concluding anything else from it
	// (here: 'already reported') misjudges almost every hash once the pack has a few hundred objects.
	const r4 = "may-contain-confirmed"
	n4 := 0
	for _, sp := range []string{"storage/filesystem", "plumbing/format/packfile"} {
		spk := p.Pkg(sp)
		if spk == nil {
			continue
		}
		sinfo := spk.TypesInfo
		isMay := func(call *ast.CallExpr) bool {
			fn := Callee(sinfo, call)
			return fn != nil && fn.Name() == "MayContain"
		}
		isPrecise := func(call *ast.CallExpr) bool {
			fn := Callee(sinfo, call)
			if fn == nil {
				return false
			}
			switch fn.Name() {
			case "FindOffset", "Contains", "FindCRC32", "FindHash", "getFromPackfileAt", "getFromPackfile":
				return true
			}
			return false
		}
		for _, fi := range p.FuncsIn(sp) {
			if fi.Decl.Body == nil || p.isTestFile(fi.Decl.Pos()) || nodeHasCall(fi.Decl.Body, false, isMay) == nil {
				continue
			}
			if fi.Decl.Name.Name == "MayContain" {
				continue // an index delegating to another index's MayContain
			}
			f := p.FlowOf(fi)
			k := 0
			for _, b := range f.G.Blocks {
				if !b.Live || len(b.Succs) != 2 || len(b.Nodes) == 0 {
					continue
				}
				cond, ok := b.Nodes[len(b.Nodes)-1].(ast.Expr)
				if !ok || nodeHasCall(cond, false, isMay) == nil {
					continue
				}
				for i := 0; i < 2; i++ {
					mayTrue := false
					for _, fact := range f.EdgeFacts(b, i) {
						if call, ok := unparen(fact.Atom).(*ast.CallExpr); ok && isMay(call) && fact.Truth {
							mayTrue = true
						}
					}
					if !mayTrue {
						continue
					}
					k++
					n4++
					c.Analysed(fi)
					cb := b
					h := f.Search(SearchOpts{Starts: []Loc{{b.Succs[i], 0}}, Sink: func(nd ast.Node) bool { _, isRet := nd.(*ast.ReturnStmt); return isRet },
						Barrier: CallNode(false, isPrecise), BlockSink: func(x *cfg.Block) bool { return x == cb }})
					c.Check(h == nil, r4, fi.Name()+":MayContain#"+itoa(k), cond.Pos(), orStr(ifStr(h != nil, "on the edge where MayContain answered true the function goes on to the next element (or returns) without the precise lookup: a bucket-level 'maybe' is taken for 'contains'"),
						"a true answer only leads to the precise lookup"))
				}
			}
		}
	}
	c.Floor(r4, 2)

	// findInAlternates fans a lookup out over the alternates and collects the first hit in a variable set by a worker.
	// A return with a nil error that is not the direct result of the lookup function must be reachable only where the
	// 'found' flag is known to be true; otherwise a lookup that misses everywhere answers (zero value, nil) — an object
	// that exists nowhere is reported as present, its size as 0.
	const r5 = "alternates-miss-is-not-found"
	if fi := c.MustFunc(r5, "storage/filesystem.findInAlternates"); fi != nil {
		info := fi.Pkg.TypesInfo
		c.Analysed(fi)
		f := p.FlowOf(fi)
		// the flag: a bool variable assigned true inside a function literal
		var flag types.Object
		ast.Inspect(fi.Decl.Body, func(n ast.Node) bool {
			fl, ok := n.(*ast.FuncLit)
			if !ok {
				return true
			}
			ast.Inspect(fl.Body, func(m ast.Node) bool {
				if as, ok := m.(*ast.AssignStmt); ok && len(as.Lhs) == 1 && len(as.Rhs) == 1 {
					if tv := info.Types[as.Rhs[0]]; tv.Value != nil && tv.Value.String() == "true" {
						if o := objOf(info, as.Lhs[0]); o != nil && isBoolType(o.Type()) && !(o.Pos() >= fl.Pos() && o.Pos() <= fl.End()) {
							flag = o
						}
					}
				}
				return true
			})
			return true
		})
		k := 0
		for _, loc := range f.Locs(func(nd ast.Node) bool { _, ok := nd.(*ast.ReturnStmt); return ok }) {
			ret := loc.B.Nodes[loc.Idx].(*ast.ReturnStmt)
			if len(ret.Results) == 1 {
				// return fn(alt): the lookup's own answer
				k++
				_, isCall := unparen(ret.Results[0]).(*ast.CallExpr)
				c.Check(isCall, r5, fi.Name()+":return#"+itoa(k), ret.Pos(), orStr(ifStr(!isCall, "a single multi-valued result that is not a call"), "the lookup's own answer is passed on"))
				continue
			}
			if len(ret.Results) != 2 || !isNil(info, ret.Results[1]) {
				continue
			}
			k++
			if flag == nil {
				c.Violate(r5, fi.Name()+":return#"+itoa(k), ret.Pos(), "a value is returned with a nil error and there is no flag recording that a worker found it")
				continue
			}
			guard := FactGuard(func(_ *Flow, fact Fact) bool {
				return objOf(info, fact.Atom) == flag && fact.Truth
			})
			h := f.UnguardedPath(guard, loc)
			c.Check(h == nil, r5, fi.Name()+":return#"+itoa(k), ret.Pos(), orStr(ifStr(h != nil, "the collected value is returned with a nil error on a path where `"+flag.Name()+"` is not known to be true: a lookup that misses in every alternate answers (zero value, nil) — HasEncodedObject reports a missing object as present, EncodedObjectSize returns 0"),
				"returned with a nil error only where `"+flag.Name()+"` is true"))
		}
	}
	c.Floor(r5, 2)

	// The loose-object directory reports a missing object in two ways: the filesystem's not-exist error, or — with
	// ExclusiveAccess, where a cached listing answers — plumbing.ErrObjectNotFound. A function that falls back to the
	// alternates must do so for both. Scenario: the error of dir.Object/ObjectStat is not nil, os.IsNotExist(err) is
	// false and errors.Is(err, ErrObjectNotFound) is true; no return of that error may then be reachable before the
	// alternates are consulted.
	const r6 = "local-miss-reaches-alternates"
	if spk := p.Pkg("storage/filesystem"); spk != nil {
		sinfo := spk.TypesInfo
		isAlt := func(call *ast.CallExpr) bool {
			fn := Callee(sinfo, call)
			return fn != nil && fn.Name() == "findInAlternates"
		}
		isDirLookup := func(call *ast.CallExpr) bool {
			fn := Callee(sinfo, call)
			return fn != nil && (fn.Name() == "Object" || fn.Name() == "ObjectStat") && fn.Pkg() != nil && shortPkg(fn.Pkg().Path()) == dotgitShort
		}
		for _, fi := range p.FuncsIn("storage/filesystem") {
			if fi.Decl.Body == nil || p.isTestFile(fi.Decl.Pos()) || nodeHasCall(fi.Decl.Body, true, isAlt) == nil || nodeHasCall(fi.Decl.Body, false, isDirLookup) == nil {
				continue
			}
			f := p.FlowOf(fi)
			k := 0
			for _, loc := range f.Locs(CallNode(false, isDirLookup)) {
				// the error variable the lookup's result is assigned to
				var errVar types.Object
				ast.Inspect(loc.B.Nodes[loc.Idx], func(n ast.Node) bool {
					if as, ok := n.(*ast.AssignStmt); ok && len(as.Rhs) == 1 && len(as.Lhs) == 2 {
						if call, ok := unparen(as.Rhs[0]).(*ast.CallExpr); ok && isDirLookup(call) {
							errVar = objOf(sinfo, as.Lhs[1])
						}
					}
					return true
				})
				if errVar == nil {
					continue
				}
				k++
				c.Analysed(fi)
				as := &condAssume{info: sinfo, nilv: map[types.Object]bool{errVar: false}, call: func(call *ast.CallExpr) int {
					fn := Callee(sinfo, call)
					if fn == nil || fn.Pkg() == nil {
						return -1
					}
					mentions := false
					for _, a := range call.Args {
						if objOf(sinfo, a) == errVar {
							mentions = true
						}
					}
					if !mentions {
						return -1
					}
					switch {
					case fn.Pkg().Path() == "os" && fn.Name() == "IsNotExist":
						return 0
					case fn.Pkg().Path() == "errors" && fn.Name() == "Is" && len(call.Args) == 2:
						if o := objOfSel(sinfo, call.Args[1]); o != nil && o.Name() == "ErrObjectNotFound" {
							return 1
						}
						if o := objOfSel(sinfo, call.Args[1]); o != nil && o.Name() == "ErrNotExist" {
							return 0
						}
					}
					return -1
				}}
				h := f.Search(SearchOpts{Starts: []Loc{After(loc)}, Barrier: CallNode(true, isAlt), BlockEdge: as.blockEdge(), Sink: func(nd ast.Node) bool {
					r, ok := nd.(*ast.ReturnStmt)
					return ok && len(r.Results) > 0 && objOf(sinfo, r.Results[len(r.Results)-1]) == errVar
				}})
				c.Check(h == nil, r6, fi.Name()+":"+errVar.Name()+ifStr(k > 1, "#"+itoa(k)), loc.B.Nodes[loc.Idx].Pos(), orStr(ifStr(h != nil, "when the loose-object directory answers plumbing.ErrObjectNotFound (ExclusiveAccess: the cached listing has no such object) instead of a not-exist error, `"+errVar.Name()+"` is returned before the alternates are consulted: an object that lives in an alternate is reported missing on this path and found on the others"),
					"both kinds of local miss fall through to the alternates"))
			}
		}
	}
	c.Floor(r6, 1)

	// Objects borrowed through objects/info/alternates are part of the object database on every read path: by ID, by
	// size, existence, prefix search and iteration. Each of these entry points must reach the alternates (the fan-out
	// helper, or the alternates field) in its static call closure.
	const r7 = "read-paths-cover-alternates"
	if stT := p.lookupType("storage/filesystem", "ObjectStorage"); stT != nil {
		altField := fieldOf(stT, "alternates")
		for _, name := range []string{"EncodedObject", "EncodedObjectSize", "HasEncodedObject", "HashesWithPrefix", "IterEncodedObjects"} {
			fi := c.MustFunc(r7, "storage/filesystem.(*ObjectStorage)."+name)
			if fi == nil {
				continue
			}
			c.Analysed(fi)
			reaches := false
			for _, g := range p.staticClosure([]*FuncInfo{fi}) {
				if g.Decl.Body == nil {
					continue
				}
				if g.Decl.Name.Name == "findInAlternates" || (altField != nil && usesObj(g.Pkg.TypesInfo, g.Decl.Body, altField)) {
					reaches = true
					break
				}
			}
			c.Check(reaches, r7, fi.Name(), fi.Decl.Pos(), orStr(ifStr(!reaches, "this read path never consults the alternates: an object that lives only in an alternate is readable by ID but invisible here"), "the alternates are consulted"))
		}
	} else {
		c.Unresolved(r7, "storage/filesystem.ObjectStorage", 0, "type not found")
	}
	c.Floor(r7, 5)

	// An object ID is compared with ==, Equal and as a map key over its whole 32-byte array. ObjectID.Write copies as
	// many bytes as that array holds, so the bytes handed to it must be exactly one ID: an open-ended slice of a table
	// of names (names[off:]) leaves the following name's bytes behind a SHA-1 ID, which then prints correctly and is
	// unequal to the same ID obtained on any other read path.
	const r8 = "id-from-exact-bytes"
	n8 := 0
	for _, pk := range p.Pkgs {
		if !production(pk) {
			continue
		}
		pinfo := pk.TypesInfo
		for _, fi := range p.FuncsIn(shortPkg(pk.PkgPath)) {
			if fi.Decl.Body == nil || p.isTestFile(fi.Decl.Pos()) {
				continue
			}
			k := 0
			walkCalls(fi.Decl.Body, true, func(call *ast.CallExpr) {
				fn := Callee(pinfo, call)
				if fn == nil || fn.Name() != "Write" || len(call.Args) != 1 {
					return
				}
				if tn := recvTypeName(fn); tn == nil || tn.Name() != "ObjectID" || tn.Pkg() == nil || shortPkg(tn.Pkg().Path()) != "plumbing" {
					return
				}
				k++
				n8++
				c.Analysed(fi)
				sl, isSlice := unparen(call.Args[0]).(*ast.SliceExpr)
				bad := isSlice && sl.High == nil
				c.Check(!bad, r8, fi.Name()+"->ObjectID.Write"+ifStr(k > 1, "#"+itoa(k)), call.Pos(), orStr(ifStr(bad, "the ID is written from an open-ended slice ("+exprString(call.Args[0])+"): Write copies up to the array's 32 bytes, so a SHA-1 ID keeps 12 bytes of whatever follows and is unequal to the same ID read elsewhere"),
					"the ID is written from a value of exactly one ID's length"))
			})
		}
	}
	c.Floor(r8, 4)

	// A set kept in a field of a long-lived reader (a pack, a storage) whose membership test makes a read fail — a
	// "seen on this chain" guard — must be scoped to the read that fills it: the function that inserts a key removes it
	// again (delete, usually deferred) before it returns. If clearing is left to some entry points, every other way into
	// the read (an iterator that resolves many entries through one reader) accumulates keys and rejects valid data.
	// Memo tables are not concerned: a hit there returns a value, not an error.
	const r9 = "rejecting-set-scoped-to-the-read"
	n9 := 0
	for _, sp := range []string{"plumbing/format/packfile", "storage/filesystem", "plumbing/format/idxfile"} {
		spk := p.Pkg(sp)
		if spk == nil {
			continue
		}
		sinfo := spk.TypesInfo
		for _, fi := range p.FuncsIn(sp) {
			if fi.Decl.Body == nil || p.isTestFile(fi.Decl.Pos()) {
				continue
			}
			// field-set lookups whose found-branch returns an error
			type use struct {
				field *types.Var
				pos   token.Pos
			}
			var rejecting []use
			ast.Inspect(fi.Decl.Body, func(n ast.Node) bool {
				ifs, ok := n.(*ast.IfStmt)
				if !ok || ifs.Init == nil {
					return true
				}
				as, ok := ifs.Init.(*ast.AssignStmt)
				if !ok || len(as.Lhs) != 2 || len(as.Rhs) != 1 {
					return true
				}
				ix, ok := unparen(as.Rhs[0]).(*ast.IndexExpr)
				if !ok {
					return true
				}
				sel, ok := unparen(ix.X).(*ast.SelectorExpr)
				if !ok {
					return true
				}
				fv, ok := sinfo.Uses[sel.Sel].(*types.Var)
				if !ok || !fv.IsField() {
					return true
				}
				if _, isMap := fv.Type().Underlying().(*types.Map); !isMap {
					return true
				}
				okVar := objOf(sinfo, as.Lhs[1])
				if okVar == nil || objOf(sinfo, ifs.Cond) != okVar {
					return true
				}
				// the found-branch returns a non-nil error
				rej := false
				for _, st := range ifs.Body.List {
					if r, ok := st.(*ast.ReturnStmt); ok && len(r.Results) > 0 && !isNil(sinfo, r.Results[len(r.Results)-1]) {
						if tv := sinfo.Types[r.Results[len(r.Results)-1]]; tv.Type != nil && types.Identical(tv.Type, types.Universe.Lookup("error").Type()) {
							rej = true
						}
					}
				}
				if rej {
					rejecting = append(rejecting, use{fv, ifs.Pos()})
				}
				return true
			})
			for _, u := range rejecting {
				n9++
				c.Analysed(fi)
				removes := false
				ast.Inspect(fi.Decl.Body, func(n ast.Node) bool {
					if call, ok := n.(*ast.CallExpr); ok && (nodeHasBuiltinCall(sinfo, call, "delete") || nodeHasBuiltinCall(sinfo, call, "clear")) && len(call.Args) >= 1 {
						if sel, ok := unparen(call.Args[0]).(*ast.SelectorExpr); ok && sinfo.Uses[sel.Sel] == types.Object(u.field) {
							removes = true
						}
					}
					return true
				})
				c.Check(removes, r9, fi.Name()+":"+u.field.Name(), u.pos, orStr(ifStr(!removes, "membership in the field set `"+u.field.Name()+"` makes this read fail, and the function never removes what it inserts: keys outlive the read that added them, so a later, unrelated read through the same reader (an iteration over all entries) is rejected although the data is valid"),
					"what the function inserts into the rejecting set it removes again"))
			}
		}
	}
	if n9 == 0 {
		c.Hold(r9, "no-rejecting-field-set", 0, "no read path keeps a set in a struct field whose membership test returns an error")
	}
	c.Floor(r9, 1)

	const r3 = "reader-bounded-by-size"
	if fi := c.MustFunc(r3, "plumbing/format/packfile.(*FSObject).Reader"); fi != nil {
		info := fi.Pkg.TypesInfo
		c.Analysed(fi)
		d := newDeriver(info, fi.Decl)
		k := 0
		ast.Inspect(fi.Decl.Body, func(n ast.Node) bool {
			if _, ok := n.(*ast.FuncLit); ok {
				return false
			}
			ret, ok := n.(*ast.ReturnStmt)
			if !ok || len(ret.Results) == 0 || isNil(info, ret.Results[0]) {
				return true
			}
			k++
			r0 := unparen(ret.Results[0])
			okRet, why := false, ""
			var calls []*ast.CallExpr
			if call, isCall := r0.(*ast.CallExpr); isCall {
				calls = append(calls, call)
			} else if x := objOf(info, r0); x != nil {
				for _, def := range d.defs[x] {
					if call, isCall := unparen(def).(*ast.CallExpr); isCall {
						calls = append(calls, call)
					} else {
						calls = nil
						break
					}
				}
			}
			if len(calls) > 0 {
				okRet = true
				for _, call := range calls {
					fn := Callee(info, call)
					switch {
					case fn != nil && fn.Name() == "NewBoundedReadCloser":
						why = "wrapped in NewBoundedReadCloser"
					case fn != nil && fn.Name() == "Reader" && strings.HasSuffix(types.TypeString(info.Types[unparen(call.Fun).(*ast.SelectorExpr).X].Type, nil), "EncodedObject"):
						why = "the cached object's own reader"
					default:
						okRet = false
					}
				}
			}
			c.Check(okRet, r3, fi.Name()+":return "+exprString(r0)+ifStr(k > 1, "#"+itoa(k)), ret.Pos(), orStr(ifStr(!okRet, "a reader over the pack is handed out without the bound of the object's declared size"), why))
			return true
		})
	}
	c.Floor(r3, 2)
}
