package main

import (
	"flag"
	"fmt"
	"os"
	"path/filepath"
	"runtime/debug"
	"runtime/pprof"
	"sort"
	"strconv"
	"time"
)

var registry = map[string]*propSpec{}

func register(s *propSpec) { registry[s.ID] = s }

func main() {
	prop := flag.String("prop", "", "property id (C05 …) or 'list'")
	tier := flag.String("tier", "quick", "quick | thorough")
	repo := flag.String("repo", "/repo", "repository root")
	verif := flag.String("verif", "/verif", "verification directory")
	mutant := flag.Int("mutant", -1, "internal: run mutant control #n of the property and print the result as JSON")
	flag.Parse()
	if *prop == "list" {
		var ids []string
		for id := range registry {
			ids = append(ids, id)
		}
		sort.Strings(ids)
		for _, id := range ids {
			fmt.Println(id)
		}
		return
	}
	if *prop == "globals" { // debugging aid: the mutable package-level state table used by the state-free rules
		p, err := Load(LoadOpts{Root: *repo, GOOS: "linux", GOARCH: "amd64"})
		if err != nil {
			fmt.Println(err)
			os.Exit(2)
		}
		var lines []string
		for v, g := range p.mutableGlobals() {
			lines = append(lines, fmt.Sprintf("%-60s %-18s x%d %s (%s)", globalName(v), g.Kind, g.Count, p.Pos(g.Pos), g.In))
		}
		sort.Strings(lines)
		for _, l := range lines {
			fmt.Println(l)
		}
		return
	}
	if *prop == "deferr" { // debugging aid: the deferred-error lint over every production package
		p, err := Load(LoadOpts{Root: *repo, GOOS: "linux", GOARCH: "amd64"})
		if err != nil {
			fmt.Println(err)
			os.Exit(2)
		}
		c := newCtx(p, "deferr", "quick")
		var shorts []string
		for _, pk := range p.Pkgs {
			if production(pk) {
				shorts = append(shorts, shortPkg(pk.PkgPath))
			}
		}
		n := DeferredErrorsReachResult(c, "deferred-error-reaches-result", shorts...)
		for _, o := range c.Obs {
			if o.Verdict != "held" {
				fmt.Println(o.Verdict, o.Construct, o.Site, o.Detail)
			}
		}
		fmt.Println(n, "functions with error-storing defers")
		return
	}
	if *prop == "lints" { // debugging aid: the reusable lints over every production package (cross-reference, not a verdict)
		p, err := Load(LoadOpts{Root: *repo, GOOS: "linux", GOARCH: "amd64"})
		if err != nil {
			fmt.Println(err)
			os.Exit(2)
		}
		c := newCtx(p, "lints", "quick")
		var shorts []string
		for _, pk := range p.Pkgs {
			if production(pk) {
				shorts = append(shorts, shortPkg(pk.PkgPath))
			}
		}
		RewriteTruncates(c, "rewrite-truncates", shorts...)
		NoGoroutineKeepsCallerBuffer(c, "buffer-not-kept-past-return", shorts...)
		for _, sp := range shorts {
			for _, fi := range p.FuncsIn(sp) {
				if fi.Decl.Body != nil && !p.isTestFile(fi.Decl.Pos()) {
					CursorFollowsReader(c, "cursor-follows-reader", fi)
				}
			}
		}
		held := 0
		for _, o := range c.Obs {
			if o.Verdict != "held" {
				fmt.Println(o.Verdict, o.Rule, o.Construct, o.Site, o.Detail)
			} else {
				held++
			}
		}
		fmt.Println(held, "held")
		return
	}
	spec := registry[*prop]
	if spec == nil {
		fmt.Printf("unknown property %q\n", *prop)
		os.Exit(2)
	}
	if pf := os.Getenv("GV_CPUPROFILE"); pf != "" {
		if f, err := os.Create(pf); err == nil {
			_ = pprof.StartCPUProfile(f)
			defer pprof.StopCPUProfile()
		}
	}
	if *mutant >= 0 {
		os.Exit(runMutantChild(spec, *repo, *verif, *mutant))
	}
	seed, _ := strconv.Atoi(os.Getenv("VERIF_SEED"))
	code := runProp(spec, *tier, *repo, *verif, seed)
	pprof.StopCPUProfile()
	os.Exit(code)
}

func runProp(spec *propSpec, tier, repo, verif string, seed int) (code int) {
	start := time.Now()
	evDir := filepath.Join(verif, "evidence")
	fail := func(kind, msg string) int {
		_ = os.MkdirAll(evDir, 0o755)
		replay := filepath.Join(evDir, spec.ID+".violation.json")
		writeJSON(replay, map[string]any{"property": spec.ID, "kind": kind, "error": msg})
		writeJSON(filepath.Join(evDir, spec.ID+".json"), evidence{PropertyID: spec.ID, Tier: tier, Seed: seed, Level: "other",
			Coverage:    map[string]any{"explanation": "the check could not be carried out: " + kind + ": " + msg, "obligations": 0, "discharged": 0},
			Assumptions: spec.Assumptions, WallS: time.Since(start).Seconds(), Violations: 1})
		fmt.Printf("%s: %s: %s\n", spec.ID, kind, msg)
		fmt.Printf("VIOLATION property=%s replay=%s\n", spec.ID, replay)
		return 1
	}
	defer func() {
		if r := recover(); r != nil {
			code = fail("checker-panic", fmt.Sprintf("%v\n%s", r, debug.Stack()))
		}
	}()
	goos, goarch := "linux", "amd64"
	if v := os.Getenv("GV_GOOS"); v != "" { // debugging aid: run the quick tier for another platform
		goos = v
	}
	if v := os.Getenv("GV_GOARCH"); v != "" {
		goarch = v
	}
	p, err := Load(LoadOpts{Root: repo, GOOS: goos, GOARCH: goarch, Full: spec.NeedSSA})
	if err != nil {
		return fail("load", err.Error())
	}
	c := newCtx(p, spec.ID, tier)
	spec.Run(c)
	extra := map[string]any{}
	if tier == "thorough" {
		runThorough(c, spec, repo, verif, extra)
	}
	return finish(c, spec, verif, seed, time.Since(start).Seconds(), extra)
}
