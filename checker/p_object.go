package main

import (
	"go/ast"
	"go/constant"
	"go/token"
	"go/types"
	"sort"
	"strings"
)

func init() {
	register(&propSpec{
		ID: "C02",
		Explanation: "Decides necessary structural conditions of a faithful commit/tag codec, not byte equality: (codec-field-coverage) for Commit and Tag the exported fields read by encode equal the exported fields " +
			"written by the decode state machine (a field decoded but never encoded, or encoded but never decoded, makes decode∘encode lossy); (header-key-routing) the header keys isStandardHeader excludes from ExtraHeaders on encode " +
			"are exactly the keys the commit scanner routes to dedicated fields, and the signature keys stripped by isSignatureHeader are exactly the keys routed to Signature/SignatureSHA256; " +
			"(view-not-retained) no slice obtained from bufio ReadSlice/Peek in plumbing/object is used after the reader was read again; (continuation-decided-by-separator) parseExtraHeader decides whether an extra header may continue on the next line from the presence of the separating blank (pieces of the split, found flag, index), never from the length of the value, so `key \\n` followed by continuation lines stays one header. Not decided: byte-exact re-encoding; identity/date parsing equal to git's.",
		Assumptions: []string{},
		Run:         runC02,
	})
	register(&propSpec{
		ID: "C03",
		Explanation: "Decides the consistency of the signature-payload path: (matches-source-coverage) every exported field encode(o,false) reads outside the signature-only branches is compared in matchesSource (otherwise a mutated object " +
			"is verified against the stale raw bytes) and the signature fields are not compared; (strip-on-match) EncodeWithoutSignature reaches stripObjectSignatures only on the matchesSource()==true edge and otherwise re-encodes without signatures; " +
			"(signature-header-set) isSignatureHeader strips exactly the keys the scanners route to Signature/SignatureSHA256; (view-not-retained) the stripping routines never use a bufio view after the next read, and treat no partial line " +
			"(bufio.ErrBufferFull) as a complete one; (signature-at-offset-zero) in Tag.Decode the statement that stores body[at:] as the signature is reachable under at == 0, the position of the inline signature of a tag with an empty message. Not decided: that the stripped bytes equal git's payload for every header placement.",
		Assumptions: []string{},
		Run:         runC03,
	})
	register(&propSpec{
		ID: "C04",
		Explanation: "Decides the write gate and decoder buffer discipline for trees: (tree-encode-gate) in Tree.Encode the object is typed and written only after Validate succeeded; (tree-construction) plumbing.TreeObject is given to SetType " +
			"only by Tree.Encode, so every tree built from in-memory entries passes the gate; (validate-rules) Validate still reports each fsck rule (null hash, empty name, slash, ValidTreePath, duplicate, name length, mode, sort order), takes the duplicate report on a lookup in the set of all names seen (not on a comparison with the previous entry: a file and a directory of one name are not neighbours in tree order), and Decode and Validate " +
			"use the same sort-name function; (view-not-retained) Tree.Decode never uses a bufio ReadSlice view after the reader was read again (entry names longer than the buffer are copied first). " +
			"Not decided: decoding equals git ls-tree on every tree; 'never refuses a valid set'.",
		Assumptions: []string{},
		Run:         runC04,
	})
}

const objShort = "plumbing/object"

// fieldAccess collects exported fields of type tn accessed through a selector whose base has type *tn or tn,
// inside the given functions. writes: assignment targets, op-assign, append targets, address-taken, pointer-receiver
// method calls on the field (x.F.Decode(..)); reads: everything else.
func fieldAccess(p *Prog, tn *types.TypeName, fns []*FuncInfo, skip func(n ast.Node) bool) (reads, writes map[string]token.Pos) {
	reads, writes = map[string]token.Pos{}, map[string]token.Pos{}
	isT := func(t types.Type) bool {
		if pt, ok := t.(*types.Pointer); ok {
			t = pt.Elem()
		}
		nt, ok := t.(*types.Named)
		return ok && nt.Obj() == tn
	}
	for _, fi := range fns {
		info := fi.Pkg.TypesInfo
		written := map[*ast.SelectorExpr]bool{}
		methodRecv := map[*ast.SelectorExpr]bool{}
		ast.Inspect(fi.Decl.Body, func(n ast.Node) bool {
			switch v := n.(type) {
			case *ast.AssignStmt:
				for _, l := range v.Lhs {
					if rs := rootSel(l); rs != nil {
						written[rs] = true
					}
				}
			case *ast.IncDecStmt:
				if rs := rootSel(v.X); rs != nil {
					written[rs] = true
				}
			case *ast.UnaryExpr:
				if v.Op == token.AND {
					if rs := rootSel(v.X); rs != nil {
						written[rs] = true
					}
				}
			case *ast.CallExpr:
				// pointer-receiver method on a field value: x.F.M(...)
				if sel, ok := unparen(v.Fun).(*ast.SelectorExpr); ok {
					if fn, ok := info.Uses[sel.Sel].(*types.Func); ok {
						if sig := fn.Type().(*types.Signature); sig.Recv() != nil {
							_, isPtr := sig.Recv().Type().(*types.Pointer)
							// x.F.Decode(r) on an interface-typed field fills the value the field refers to
							if _, isIface := sig.Recv().Type().Underlying().(*types.Interface); isIface && (fn.Name() == "Decode" || fn.Name() == "Unmarshal") {
								isPtr = true
							}
							if isPtr {
								if inner, ok := unparen(sel.X).(*ast.SelectorExpr); ok {
									written[inner] = true
									methodRecv[inner] = true
								}
							}
						}
					}
				}
			}
			return true
		})
		ast.Inspect(fi.Decl.Body, func(n ast.Node) bool {
			if skip != nil && skip(n) {
				return false
			}
			sel, ok := n.(*ast.SelectorExpr)
			if !ok {
				return true
			}
			fv, ok := info.Uses[sel.Sel].(*types.Var)
			if !ok || !fv.IsField() || !fv.Exported() {
				return true
			}
			tv, ok := info.Types[sel.X]
			if !ok || !isT(tv.Type) {
				return true
			}
			if written[sel] {
				if _, ok := writes[fv.Name()]; !ok {
					writes[fv.Name()] = sel.Pos()
				}
				// x.F.M(...) with a pointer receiver may read as well as write
				if methodRecv[sel] {
					if _, ok := reads[fv.Name()]; !ok {
						reads[fv.Name()] = sel.Pos()
					}
				}
			} else if _, ok := reads[fv.Name()]; !ok {
				reads[fv.Name()] = sel.Pos()
			}
			return true
		})
	}
	return
}

func keys(m map[string]token.Pos, except ...string) []string {
	var out []string
	for k := range m {
		skip := false
		for _, e := range except {
			if k == e {
				skip = true
			}
		}
		if !skip {
			out = append(out, k)
		}
	}
	sort.Strings(out)
	return out
}

// funcsTouching returns functions of package objShort that have a parameter/receiver of (pointer to) the named type.
func funcsWithParamType(p *Prog, short string, typeNames ...string) []*FuncInfo {
	var out []*FuncInfo
	for _, fi := range p.FuncsIn(short) {
		if fi.Decl.Body == nil || p.isTestFile(fi.Decl.Pos()) {
			continue
		}
		sig := fi.Obj.Type().(*types.Signature)
		match := func(t types.Type) bool {
			if pt, ok := t.(*types.Pointer); ok {
				t = pt.Elem()
			}
			if nt, ok := t.(*types.Named); ok {
				for _, n := range typeNames {
					if nt.Obj().Name() == n {
						return true
					}
				}
			}
			return false
		}
		ok := sig.Recv() != nil && match(sig.Recv().Type())
		for i := 0; i < sig.Params().Len(); i++ {
			if match(sig.Params().At(i).Type()) {
				ok = true
			}
		}
		if ok {
			out = append(out, fi)
		}
	}
	return out
}

// caseStrings collects the string constants of the case clauses of switch statements on `key`-like tags in fn.
func caseStrings(info *types.Info, fi *FuncInfo) []string {
	set := map[string]bool{}
	ast.Inspect(fi.Decl.Body, func(n ast.Node) bool {
		sw, ok := n.(*ast.SwitchStmt)
		if !ok || sw.Tag == nil {
			return true
		}
		if tv := info.Types[sw.Tag]; tv.Type == nil || !isStringish(tv.Type) {
			return true
		}
		for _, cl := range sw.Body.List {
			for _, e := range cl.(*ast.CaseClause).List {
				if tv := info.Types[e]; tv.Value != nil && tv.Value.Kind() == constant.String {
					set[constant.StringVal(tv.Value)] = true
				}
			}
		}
		return true
	})
	var out []string
	for k := range set {
		out = append(out, k)
	}
	sort.Strings(out)
	return out
}

type codecSpec struct {
	typ, scanner string
}

var codecs = []codecSpec{{"Commit", "commitScanner"}, {"Tag", "tagScanner"}}

func runC02(c *Ctx) {
	p := c.P
	checkContinuationBySeparator(c, "continuation-decided-by-separator")
	const r1 = "codec-field-coverage"
	for _, cs := range codecs {
		tn := p.lookupType(objShort, cs.typ)
		enc := p.Func(objShort + ".(*" + cs.typ + ").encode")
		dec := p.Func(objShort + ".(*" + cs.typ + ").Decode")
		if tn == nil || enc == nil || dec == nil {
			c.Unresolved(r1, objShort+"."+cs.typ, 0, "type, encode or Decode not found")
			continue
		}
		c.Analysed(enc)
		c.Analysed(dec)
		encReads, _ := fieldAccess(p, tn, []*FuncInfo{enc}, nil)
		decFns := append(funcsWithParamType(p, objShort, cs.scanner), dec)
		_, decWrites := fieldAccess(p, tn, decFns, nil)
		e, d := keys(encReads, "Hash"), keys(decWrites, "Hash")
		c.Extra[cs.typ+"_encoded_fields"] = e
		c.Extra[cs.typ+"_decoded_fields"] = d
		for _, f := range e {
			_, ok := decWrites[f]
			c.Check(ok, r1, cs.typ+"."+f+":encoded->decoded", encReads[f], orStr(ifStr(!ok, "field is written by encode but no decoder state assigns it: decode(encode(x)) loses it"), "encoded and decoded"))
		}
		for _, f := range d {
			if _, ok := encReads[f]; !ok {
				c.Violate(r1, cs.typ+"."+f+":decoded->encoded", decWrites[f], "field is filled by the decoder but never written by encode: encode(decode(bytes)) drops it")
			}
		}
	}
	c.Floor(r1, 13)

	const r2 = "header-key-routing"
	pk := p.Pkg(objShort)
	if std, sh := p.Func(objShort+".isStandardHeader"), p.Func(objShort+".scanHeaders"); std != nil && sh != nil && pk != nil {
		a, b := caseStrings(pk.TypesInfo, std), caseStrings(pk.TypesInfo, sh)
		c.Analysed(std)
		c.Analysed(sh)
		c.Check(strings.Join(a, ",") == strings.Join(b, ",") && len(a) > 0, r2, "isStandardHeader==scanHeaders", std.Decl.Pos(),
			"keys excluded from extra headers on encode ["+strings.Join(a, ",")+"] vs keys routed to dedicated fields on decode ["+strings.Join(b, ",")+"]")
	} else {
		c.Unresolved(r2, objShort+".{isStandardHeader,scanHeaders}", 0, "anchor not found")
	}
	checkSignatureHeaderSet(c, r2)
	n := checkBufioAlias(c, "view-not-retained", []string{objShort})
	if n == 0 {
		c.Unresolved("view-not-retained", objShort+":bufio-views", 0, "no ReadSlice/Peek site found in plumbing/object")
	}
	// codec-state-free: decoding and encoding depend on the input only, not on what the process handled before
	var roots []*FuncInfo
	for _, cs := range codecs {
		roots = append(roots, p.Func(objShort+".(*"+cs.typ+").encode"), p.Func(objShort+".(*"+cs.typ+").Decode"))
		roots = append(roots, funcsWithParamType(p, objShort, cs.scanner)...)
	}
	roots = append(roots, c.MustFunc("codec-state-free", objShort+".(*Signature).Decode"), c.MustFunc("codec-state-free", objShort+".(*Signature).Encode"))
	StateFree(c, "codec-state-free", roots, poolAllow)
	// the identity line's zone: the sign applies to hours and minutes (see checkZoneSign)
	checkZoneSign(c, "zone-sign-whole-offset", objShort+".(*Signature).decodeTimeAndTimeZone")
	c.Floor("zone-sign-whole-offset", 1)
}

// poolAllow: reviewed package-level state that codecs may use. All are sync.Pool free lists whose objects are reset
// (Reset / length set to zero) by the accessor functions before they are handed out, so no content survives a reuse.
var poolAllow = map[string]string{
	"utils/sync.bufioReader":                  "sync.Pool of *bufio.Reader; GetBufioReader calls Reset(reader) on every object handed out",
	"utils/sync.byteSlice":                    "sync.Pool of scratch []byte; callers overwrite before reading (io.CopyBuffer scratch space)",
	"utils/sync.bytesBuffer":                  "sync.Pool of *bytes.Buffer; GetBytesBuffer calls Reset() on every object handed out",
	"utils/sync.zlibReader":                   "sync.Pool of zlib readers; GetZlibReader calls Reset(r, dict) on every object handed out",
	"utils/sync.zlibWriter":                   "sync.Pool of zlib writers; GetZlibWriter calls Reset(w) on every object handed out",
	"utils/sync.zlibProviderOnce":             "sync.Once guarding one-time selection of the zlib implementation",
	"plumbing/format/pktline.pktBuffer":       "sync.Pool of packet scratch buffers; filled by io.ReadFull before use",
	"plumbing/format/packfile.probeBufPool":   "sync.Pool of probe scratch buffers; filled by ReadAt before use",
	"utils/binary.sniffPool":                  "sync.Pool of sniff scratch buffers; filled by Read before use",
	"utils/trace.current":                     "trace target mask: selects logging only, never a result",
	"utils/trace.logger":                      "trace logger: output only, never a result",
	"plumbing/hash.algos":                     "hash constructor registry; written only by RegisterHash/reset (decided under C05: sha1-registry-default)",
}

// checkSignatureHeaderSet: keys stripped by isSignatureHeader == keys whose scanner branch writes a Signature* field.
func checkSignatureHeaderSet(c *Ctx, rule string) {
	p := c.P
	pk := p.Pkg(objShort)
	ish := p.Func(objShort + ".isSignatureHeader")
	if pk == nil || ish == nil {
		c.Unresolved(rule, objShort+".isSignatureHeader", 0, "anchor not found")
		return
	}
	info := pk.TypesInfo
	strip := map[string]bool{}
	ast.Inspect(ish.Decl.Body, func(n ast.Node) bool {
		if e, ok := n.(ast.Expr); ok {
			if tv := info.Types[e]; tv.Value != nil && tv.Value.Kind() == constant.String {
				s := strings.TrimSuffix(constant.StringVal(tv.Value), " ")
				if s != "" && s != " " {
					strip[s] = true
				}
			}
		}
		return true
	})
	// drop fragments: keep only maximal strings
	routed := map[string]bool{}
	for _, sc := range []string{"scanHeaders", "scanTagHeaders"} {
		fi := p.Func(objShort + "." + sc)
		if fi == nil {
			continue
		}
		ast.Inspect(fi.Decl.Body, func(n ast.Node) bool {
			cc, ok := n.(*ast.CaseClause)
			if !ok {
				return true
			}
			writesSig := false
			for _, s := range cc.Body {
				ast.Inspect(s, func(m ast.Node) bool {
					if sel, ok := m.(*ast.SelectorExpr); ok && strings.HasPrefix(sel.Sel.Name, "Signature") {
						writesSig = true
					}
					return true
				})
			}
			if writesSig {
				for _, e := range cc.List {
					if tv := info.Types[e]; tv.Value != nil && tv.Value.Kind() == constant.String {
						routed[constant.StringVal(tv.Value)] = true
					}
				}
			}
			return true
		})
	}
	var a, b []string
	for k := range strip {
		if k == "gpgsig" || strings.HasPrefix(k, "gpgsig-") {
			a = append(a, k)
		}
	}
	for k := range routed {
		b = append(b, k)
	}
	sort.Strings(a)
	sort.Strings(b)
	c.Analysed(ish)
	c.Check(strings.Join(a, ",") == strings.Join(b, ",") && len(a) > 0, rule, "isSignatureHeader==signature-routing", ish.Decl.Pos(),
		"keys stripped from the payload ["+strings.Join(a, ",")+"] vs keys the scanners store as signatures ["+strings.Join(b, ",")+"]")
}

func runC03(c *Ctx) {
	p := c.P
	pk := p.Pkg(objShort)
	if pk == nil {
		c.Unresolved("matches-source-coverage", "package "+objShort, 0, "not loaded")
		return
	}
	info := pk.TypesInfo
	const r1 = "matches-source-coverage"
	for _, cs := range codecs {
		tn := p.lookupType(objShort, cs.typ)
		enc := p.Func(objShort + ".(*" + cs.typ + ").encode")
		ms := p.Func(objShort + ".(*" + cs.typ + ").matchesSource")
		if tn == nil || enc == nil || ms == nil {
			c.Unresolved(r1, objShort+"."+cs.typ, 0, "type, encode or matchesSource not found")
			continue
		}
		c.Analysed(enc)
		c.Analysed(ms)
		// the includeSig parameter
		var incl types.Object
		for _, pv := range paramObjs(info, enc.Decl) {
			if b, ok := pv.Type().Underlying().(*types.Basic); ok && b.Kind() == types.Bool {
				incl = pv
			}
		}
		sigOnly := func(n ast.Node) bool {
			ifs, ok := n.(*ast.IfStmt)
			return ok && incl != nil && usesObj(info, ifs.Cond, incl)
		}
		payloadReads, _ := fieldAccess(p, tn, []*FuncInfo{enc}, sigOnly)
		cmp, _ := fieldAccess(p, tn, []*FuncInfo{ms}, nil)
		for _, f := range keys(payloadReads, "Hash") {
			_, ok := cmp[f]
			c.Check(ok, r1, cs.typ+"."+f, payloadReads[f], orStr(ifStr(!ok, "the payload depends on this field but matchesSource does not compare it: after the field is changed the signature is still checked against the stale raw bytes"), "payload field compared in matchesSource"))
		}
		for _, f := range []string{"Signature", "SignatureSHA256"} {
			_, has := cmp[f]
			c.Check(!has, r1, cs.typ+"."+f+":not-compared", ms.Decl.Pos(), "signature fields do not influence the choice of payload")
		}
		// strip-on-match
		ews := p.Func(objShort + ".(*" + cs.typ + ").EncodeWithoutSignature")
		if ews == nil {
			c.Unresolved("strip-on-match", objShort+"."+cs.typ+".EncodeWithoutSignature", 0, "not found")
			continue
		}
		n := CallsGuarded(c, "strip-on-match", ews, BoolGuard(true, func(_ *Flow, call *ast.CallExpr) bool { return Callee(info, call) == ms.Obj }),
			callsNamed(info, "stripObjectSignatures"), "matchesSource() == true")
		// the fallback encodes without signatures: encode(o, false)
		fallback := false
		walkCalls(ews.Decl.Body, false, func(call *ast.CallExpr) {
			if Callee(info, call) == enc.Obj && len(call.Args) == 2 {
				if tv := info.Types[call.Args[1]]; tv.Value != nil && tv.Value.ExactString() == "false" {
					fallback = true
				}
			}
		})
		c.Check(fallback && n > 0, "strip-on-match", ews.Name()+":fallback-encodes-without-signature", ews.Decl.Pos(), "a mutated object is re-encoded with includeSig=false")
	}
	c.Floor(r1, 14)
	checkSignatureHeaderSet(c, "signature-header-set")
	checkSignatureAtOffsetZero(c, "signature-at-offset-zero")
	c.Floor("signature-at-offset-zero", 1)
	// buffer discipline in the stripping routines
	checkBufioAlias(c, "view-not-retained", []string{objShort})
	// partial lines: bufio.ErrBufferFull must not be swallowed in plumbing/object
	bufio := p.importedPkg("bufio")
	if bufio != nil {
		full := bufio.Scope().Lookup("ErrBufferFull")
		for _, fi := range p.FuncsIn(objShort) {
			if fi.Decl.Body == nil || p.isTestFile(fi.Decl.Pos()) || !usesObj(info, fi.Decl.Body, full) {
				continue
			}
			// on the edge where err is ErrBufferFull the error may not simply be cleared: more must be read
			bad := false
			ast.Inspect(fi.Decl.Body, func(n ast.Node) bool {
				ifs, ok := n.(*ast.IfStmt)
				if !ok || !usesObj(info, ifs.Cond, full) {
					return true
				}
				readsMore := nodeHasCall(ifs.Body, true, func(cc *ast.CallExpr) bool {
					fn := Callee(info, cc)
					return fn != nil && fn.Pkg() != nil && fn.Pkg().Path() == "bufio" && strings.HasPrefix(fn.Name(), "Read")
				}) != nil
				be, isBin := unparen(ifs.Cond).(*ast.BinaryExpr)
				if isBin && be.Op == token.EQL && !readsMore {
					bad = true
				}
				return true
			})
			c.Analysed(fi)
			c.Check(!bad, "view-not-retained", fi.Name()+":ErrBufferFull", fi.Decl.Pos(), orStr(ifStr(bad, "a line cut at the buffer size (bufio.ErrBufferFull) is treated as complete"), "ErrBufferFull leads to reading the rest of the line"))
		}
	}
}

func runC04(c *Ctx) {
	p := c.P
	PackagesStateFree(c, "codec-state-free", objShort)
	pk := p.Pkg(objShort)
	if pk == nil {
		c.Unresolved("tree-encode-gate", "package "+objShort, 0, "not loaded")
		return
	}
	info := pk.TypesInfo
	const r1 = "tree-encode-gate"
	enc := c.MustFunc(r1, objShort+".(*Tree).Encode")
	val := c.MustFunc(r1, objShort+".(*Tree).Validate")
	if enc != nil && val != nil {
		n := CallsGuarded(c, r1, enc, ErrGuard(func(_ *Flow, call *ast.CallExpr) bool { return Callee(info, call) == val.Obj }), func(call *ast.CallExpr) bool {
			fn := Callee(info, call)
			return fn != nil && (fn.Name() == "SetType" || fn.Name() == "Writer" || fn.Name() == "Write" || fn.Name() == "Fprintf" || fn.Name() == "WriteTo")
		}, "a successful Validate()")
		if n < 3 {
			c.Unresolved(r1, enc.Name(), enc.Decl.Pos(), "expected SetType/Writer/write calls in Tree.Encode")
		}
	}
	// tree-construction
	const r2 = "tree-construction"
	treeObj := p.lookupObj("plumbing", "TreeObject")
	nSet := 0
	for _, ppk := range p.Pkgs {
		if !production(ppk) {
			continue
		}
		for _, fi := range p.FuncsIn(shortPkg(ppk.PkgPath)) {
			if fi.Decl.Body == nil || p.isTestFile(fi.Decl.Pos()) {
				continue
			}
			finfo := fi.Pkg.TypesInfo
			walkCalls(fi.Decl.Body, true, func(call *ast.CallExpr) {
				fn := Callee(finfo, call)
				if fn == nil || fn.Name() != "SetType" || len(call.Args) != 1 || !usesObj(finfo, call.Args[0], treeObj) {
					return
				}
				nSet++
				c.Check(fi.Name() == objShort+".(*Tree).Encode", r2, fi.Name()+"->SetType(TreeObject)", call.Pos(), "tree objects are typed only by the validating Tree.Encode")
			})
		}
	}
	if nSet == 0 {
		c.Unresolved(r2, "SetType(plumbing.TreeObject)", 0, "no site found")
	}
	// validate-rules
	const r3 = "validate-rules"
	if val != nil {
		isAdd := func(call *ast.CallExpr) bool {
			id, ok := unparen(call.Fun).(*ast.Ident)
			return ok && id.Name == "add"
		}
		pu := modPath + "/internal/pathutil."
		notSorted := p.lookupObj(objShort, "ErrEntriesNotSorted")
		dup := p.lookupObj(objShort, "ErrDuplicateEntry")
		maxLen := p.lookupObj(objShort, "maxTreeEntryNameLen")
		rules := []struct {
			name string
			cond func(info *types.Info, e ast.Expr) bool
		}{
			{"null-hash", condCalls(modPath + "/plumbing.ObjectID.IsZero")},
			{"empty-name", condHasConst("")},
			{"slash-in-name", condCalls("strings.ContainsRune", "strings.Contains", "strings.IndexByte")},
			{"name-length", condMentionsObj(maxLen)},
			{"mode", condCalls(repoQ(objShort, "isValidTreeMode"))},
			{"sort-order", func(info *types.Info, e ast.Expr) bool { return hasCmp(e, token.GTR) || hasCmp(e, token.LSS) }},
		}
		for _, r := range rules {
			RejectRule(c, r3, val, r.name, r.cond, isAdd)
		}
		// rules expressed inside a branch body: ValidTreePath result and duplicate detection
		c.Check(nodeHasCall(val.Decl.Body, true, calleeIs(info, pu+"ValidTreePath")) != nil, r3, val.Name()+":valid-tree-path", val.Decl.Pos(), "each name goes through pathutil.ValidTreePath")
		c.Check(usesObj(info, val.Decl.Body, dup), r3, val.Name()+":duplicate", val.Decl.Pos(), "duplicate names are reported")
		// duplicate names are not neighbours in tree order: the file `foo` and the directory `foo` (sorted as "foo/")
		// can have `foo.go` or `foo-bar` between them. The duplicate report must therefore be taken on a lookup in a
		// set of all names seen so far; a comparison with a variable carried over from the previous iteration misses
		// them (git fsck: duplicateEntries).
		if dup != nil {
			verdict, why := "undecided", "not decided: the duplicate report is taken neither on a set lookup nor on a comparison with the previous entry"
			ast.Inspect(val.Decl.Body, func(n ast.Node) bool {
				ifs, ok := n.(*ast.IfStmt)
				if !ok || !usesObj(info, ifs.Body, dup) {
					return true
				}
				// a comma-ok lookup in a map keyed by string, in the init or the condition
				lookup := false
				for _, nd := range []ast.Node{ifs.Init, ifs.Cond} {
					if nd == nil {
						continue
					}
					ast.Inspect(nd, func(m ast.Node) bool {
						if ix, ok := m.(*ast.IndexExpr); ok {
							if mt, ok := info.Types[ix.X].Type.Underlying().(*types.Map); ok && isStringish(mt.Key()) {
								lookup = true
							}
						}
						return true
					})
				}
				neighbour := false
				ast.Inspect(ifs.Cond, func(m ast.Node) bool {
					be, ok := m.(*ast.BinaryExpr)
					if !ok || be.Op != token.EQL {
						return true
					}
					for _, side := range []ast.Expr{be.X, be.Y} {
						// entries[i-1].Name
						if sel, ok := unparen(side).(*ast.SelectorExpr); ok && sel.Sel.Name == "Name" {
							if ix, ok := unparen(sel.X).(*ast.IndexExpr); ok {
								if off, ok := unparen(ix.Index).(*ast.BinaryExpr); ok && (off.Op == token.SUB || off.Op == token.ADD) {
									neighbour = true
								}
							}
						}
						v := objOf(info, side)
						if v == nil {
							continue
						}
						// assigned inside the loop from the entry's name (carried to the next iteration)
						ast.Inspect(val.Decl.Body, func(k ast.Node) bool {
							if as, ok := k.(*ast.AssignStmt); ok && as.Tok == token.ASSIGN {
								for i, l := range as.Lhs {
									if objOf(info, l) == v && i < len(as.Rhs) {
										if sel, ok := unparen(as.Rhs[i]).(*ast.SelectorExpr); ok && sel.Sel.Name == "Name" {
											neighbour = true
										}
									}
								}
							}
							return true
						})
					}
					return true
				})
				switch {
				case lookup:
					verdict, why = "held", "the duplicate report is taken on a lookup in the set of names seen so far"
				case neighbour:
					verdict, why = "violated", "the duplicate report is taken on a comparison with the previous entry's name: in tree order a file and a directory of the same name need not be neighbours (`foo`, `foo.go`, `foo/`), the duplicate passes and git fsck rejects the tree (duplicateEntries)"
				}
				return true
			})
			switch verdict {
			case "violated":
				c.Violate(r3, val.Name()+":duplicate-scope", val.Decl.Pos(), why)
			default:
				c.Hold(r3, val.Name()+":duplicate-scope", val.Decl.Pos(), why)
			}
		}
		c.Check(usesObj(info, val.Decl.Body, notSorted), r3, val.Name()+":not-sorted-error", val.Decl.Pos(), "unsorted entries are reported")
		// the branch that reports ErrEntriesNotSorted is taken on an ordering comparison of two strings (the sort names)
		orderCmp := false
		ast.Inspect(val.Decl.Body, func(n ast.Node) bool {
			ifs, ok := n.(*ast.IfStmt)
			if !ok || notSorted == nil || !usesObj(info, ifs.Body, notSorted) {
				return true
			}
			ast.Inspect(ifs.Cond, func(m ast.Node) bool {
				switch v := m.(type) {
				case *ast.BinaryExpr:
					if v.Op == token.GTR || v.Op == token.LSS || v.Op == token.GEQ || v.Op == token.LEQ {
						if tx, ty := info.Types[v.X], info.Types[v.Y]; tx.Type != nil && ty.Type != nil && isStringish(tx.Type) && isStringish(ty.Type) {
							orderCmp = true
						}
					}
				case *ast.CallExpr:
					if fn := Callee(info, v); fn != nil && fn.Name() == "Compare" {
						orderCmp = true
					}
				}
				return true
			})
			return true
		})
		c.Check(orderCmp, r3, val.Name()+":sort-order-comparison", val.Decl.Pos(), "ErrEntriesNotSorted is reported on an ordering comparison (<, >, Compare) of the two sort names, not on equality")
		// same sort-name function in Validate and Decode
		dec := p.Func(objShort + ".(*Tree).Decode")
		sortName := p.Func(objShort + ".treeEntrySortName")
		if dec != nil && sortName != nil {
			inV := nodeHasCall(val.Decl.Body, true, func(cc *ast.CallExpr) bool { return Callee(info, cc) == sortName.Obj }) != nil
			inD := nodeHasCall(dec.Decl.Body, true, func(cc *ast.CallExpr) bool { return Callee(info, cc) == sortName.Obj }) != nil
			c.Check(inV && inD, r3, "Validate/Decode:same-sort-name", sortName.Decl.Pos(), "Validate and Decode order entries with the same sort-name function")
		}
	}
	c.Floor(r3, 9)
	// view-not-retained (Tree.Decode reads names with ReadSlice)
	n := checkBufioAlias(c, "view-not-retained", []string{objShort})
	if n == 0 {
		c.Unresolved("view-not-retained", objShort+":bufio-views", 0, "no ReadSlice/Peek site found")
	}
}
