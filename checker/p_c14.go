package main

import (
	"go/ast"
	"go/types"
	"sort"
)

func init() {
	register(&propSpec{
		ID: "C14",
		Explanation: "Decides that every filesystem path built from a reference name in storage/filesystem/dotgit is validated first: (refname-validated) in each function with a " +
			"plumbing.ReferenceName or *plumbing.Reference parameter, every billy filesystem call and every call to an unexported path helper whose path argument derives from " +
			"that parameter (flow-insensitive provenance within the function) is reachable only across the success edge of validReferenceName on that parameter; " +
			"(helper-callers) unexported helpers whose string parameters reach the filesystem (setRef, setRefRwfs, setRefNorwfs, readReferenceFile, walkReferencesTree …, found by fixpoint) " +
			"receive only constants, directory-listing names, open-file names, validated reference names or their own callers' path parameters; no exported function passes a raw string; " +
			"(validator-rules) validReferenceName still calls IsSafe, rejects control characters, '.', HFS/NTFS dot disguises, and IsSafe keeps its rejecting branches; " +
			"(storage-layer) ReferenceStorage/ReflogStorage touch the filesystem only through those DotGit methods. Not decided: symlinked refs directories (delegated to the billy filesystem).",
		Assumptions: []string{"billy bound filesystems resolve symlinks inside their root", "pathutil.IsHFSDot/IsNTFSDot tables are complete"},
		Run:         runC14,
	})
}

const dotgitShort = "storage/filesystem/dotgit"

func isRefParamType(t types.Type) bool {
	s := types.TypeString(t, nil)
	return s == modPath+"/plumbing.ReferenceName" || s == "*"+modPath+"/plumbing.Reference" || s == modPath+"/plumbing.Reference"
}

func isPathyType(t types.Type) bool {
	if sl, ok := t.(*types.Slice); ok {
		t = sl.Elem()
	}
	b, ok := t.Underlying().(*types.Basic)
	if !ok || b.Kind() != types.String {
		return false
	}
	// typed reference names are not "raw strings"
	return !isRefParamType(t)
}

type pathSink struct {
	Call   *ast.CallExpr
	Arg    ast.Expr
	ArgIdx int
	Desc   string
	Helper *FuncInfo // nil for a billy filesystem call
}

func runC14(c *Ctx) {
	p := c.P
	pk := p.Pkg(dotgitShort)
	if pk == nil {
		c.Unresolved("refname-validated", "package "+dotgitShort, 0, "package not loaded")
		return
	}
	info := pk.TypesInfo
	validRef := p.Func(dotgitShort + ".validReferenceName")
	if validRef == nil {
		c.Unresolved("refname-validated", dotgitShort+".validReferenceName", 0, "validator not found")
		return
	}
	var funcs []*FuncInfo
	for _, fi := range p.FuncsIn(dotgitShort) {
		if fi.Decl.Body != nil && !p.isTestFile(fi.Decl.Pos()) {
			funcs = append(funcs, fi)
		}
	}
	derivers := map[*FuncInfo]*deriver{}
	for _, fi := range funcs {
		derivers[fi] = newDeriver(info, fi.Decl)
	}
	paramIndex := func(fi *FuncInfo, obj types.Object) int {
		for i, pv := range paramObjs(info, fi.Decl) {
			if pv == obj {
				return i
			}
		}
		return -1
	}
	// billy filesystem sinks: string arguments of filesystem methods (Join is pure)
	fsSinks := func(fi *FuncInfo) []pathSink {
		var out []pathSink
		walkCalls(fi.Decl.Body, true, func(call *ast.CallExpr) {
			fn := Callee(info, call)
			if !isBillyMethod(fn) || fn.Name() == "Join" || fn.Name() == "Root" {
				return
			}
			sig := fn.Type().(*types.Signature)
			for i, a := range call.Args {
				pi := i
				if pi >= sig.Params().Len() {
					pi = sig.Params().Len() - 1
				}
				if pi < 0 || !isStringish(sig.Params().At(pi).Type()) {
					continue
				}
				if fn.Name() == "Symlink" && i == 0 {
					continue // link target is content, not a path that is opened
				}
				out = append(out, pathSink{Call: call, Arg: a, ArgIdx: i, Desc: "fs." + fn.Name()})
			}
		})
		return out
	}
	// fixpoint: path parameters of dotgit functions
	type pp struct {
		F *FuncInfo
		I int
	}
	pathParam := map[pp]string{}
	helperCalls := func(fi *FuncInfo) []pathSink {
		var out []pathSink
		walkCalls(fi.Decl.Body, true, func(call *ast.CallExpr) {
			g := p.FuncOf(Callee(info, call))
			if g == nil || g.Pkg != pk {
				return
			}
			for i, a := range call.Args {
				if _, ok := pathParam[pp{g, i}]; ok {
					out = append(out, pathSink{Call: call, Arg: a, ArgIdx: i, Desc: g.Obj.Name(), Helper: g})
				}
			}
		})
		return out
	}
	for changed := true; changed; {
		changed = false
		for _, fi := range funcs {
			d := derivers[fi]
			sinks := append(fsSinks(fi), helperCalls(fi)...)
			for _, s := range sinks {
				for _, obj := range d.derive(s.Arg).params() {
					if !isPathyType(obj.Type()) {
						continue
					}
					i := paramIndex(fi, obj)
					if i < 0 {
						continue
					}
					if _, ok := pathParam[pp{fi, i}]; !ok {
						pathParam[pp{fi, i}] = s.Desc
						changed = true
					}
				}
			}
		}
	}
	var helperNames []string
	for k, v := range pathParam {
		helperNames = append(helperNames, k.F.Name()+"#"+itoa(k.I)+"→"+v)
	}
	sort.Strings(helperNames)
	c.Extra["path_parameters"] = helperNames

	// O1: refname-validated
	const r1 = "refname-validated"
	isValidCall := func(call *ast.CallExpr) bool { return Callee(info, call) == validRef.Obj }
	for _, fi := range funcs {
		var refParams []*types.Var
		for _, pv := range paramObjs(info, fi.Decl) {
			if isRefParamType(pv.Type()) {
				refParams = append(refParams, pv)
			}
		}
		if len(refParams) == 0 || fi == validRef {
			continue
		}
		d := derivers[fi]
		sinks := append(fsSinks(fi), helperCalls(fi)...)
		f := p.FlowOf(fi)
		for _, rp := range refParams {
			var mine []pathSink
			for _, s := range sinks {
				if _, ok := d.derive(s.Arg)[source{Kind: srcParam, Obj: rp}]; ok {
					mine = append(mine, s)
				}
			}
			if len(mine) == 0 {
				continue
			}
			c.Analysed(fi)
			pass := ErrGuard(argMentions(info, isValidCall, rp))
			bad := false
			for _, s := range mine {
				locs := f.sinkSites(true, func(cc *ast.CallExpr) bool { return cc == s.Call })
				if len(locs) == 0 {
					// inside a function literal: require the literal's enclosing statement to be guarded
					locs = f.Locs(func(n ast.Node) bool { return n.Pos() <= s.Call.Pos() && s.Call.End() <= n.End() })
				}
				if len(locs) == 0 {
					c.Unresolved(r1, fi.Name()+":"+rp.Name()+"->"+s.Desc, s.Call.Pos(), "cannot locate the call in the control-flow graph")
					bad = true
					continue
				}
				for _, loc := range locs {
					if h := f.UnguardedPath(pass, loc); h != nil {
						c.Violate(r1, fi.Name()+":"+rp.Name()+"->"+s.Desc, s.Call.Pos(),
							"path derived from reference name "+rp.Name()+" reaches "+s.Desc+" without a successful validReferenceName (path through lines "+f.pathString(h)+")")
						bad = true
						break
					}
				}
				if bad {
					break
				}
			}
			if !bad {
				c.Hold(r1, fi.Name()+":"+rp.Name(), fi.Decl.Pos(), itoa(len(mine))+" path uses of "+rp.Name()+" are all behind validReferenceName")
			}
		}
	}
	c.Floor(r1, 6)

	// O2/O3: helper-callers
	const r2 = "helper-callers"
	for _, fi := range funcs {
		d := derivers[fi]
		for _, s := range helperCalls(fi) {
			src := d.derive(s.Arg)
			key := fi.Name() + "->" + s.Helper.Obj.Name() + "#" + itoa(s.ArgIdx)
			ok := true
			why := ""
			for k, dsc := range src {
				switch k.Kind {
				case srcConst, srcDirEntry, srcHandle:
				case srcParam:
					if isRefParamType(k.Obj.Type()) {
						continue // obligation of refname-validated above
					}
					if !isPathyType(k.Obj.Type()) {
						continue
					}
					if ast.IsExported(fi.Obj.Name()) {
						ok, why = false, "exported function passes its raw string parameter "+k.Obj.Name()+" into a path helper"
					}
					// unexported: fi is itself a helper for that parameter (fixpoint above), its callers are checked
				default:
					ok, why = false, "path argument of unknown provenance ("+dsc+")"
				}
			}
			c.Analysed(fi)
			c.Check(ok, r2, key, s.Call.Pos(), "argument "+exprString(s.Arg)+": "+orStr(why, "constants, directory-listing names, open-file names, validated reference names or the caller's own path parameter"))
		}
	}
	// exported functions with a raw string path parameter
	allowExported := map[string]string{
		dotgitShort + ".(*DotGit).Module#0": "submodule name; cleaned-prefix check (checked under C26 tree-path-validated)",
	}
	for k, via := range pathParam {
		if !ast.IsExported(k.F.Obj.Name()) {
			continue
		}
		if tn := recvTypeName(k.F.Obj); tn != nil && tn.Name() != "DotGit" {
			continue // RepositoryFilesystem etc. are billy.Filesystem adapters: raw paths are their contract (C33)
		}
		key := k.F.Name() + "#" + itoa(k.I)
		if why, ok := allowExported[key]; ok {
			c.Hold(r2, "exported:"+key, k.F.Decl.Pos(), "allowed: "+why)
		} else {
			c.Violate(r2, "exported:"+key, k.F.Decl.Pos(), "exported function lets a caller-supplied string reach the filesystem ("+via+") without reference-name validation")
		}
	}
	c.Floor(r2, 6)

	// O5: names parsed from packed-refs content are never turned into paths
	const r5 = "packed-names-not-paths"
	if procLine := p.Func(dotgitShort + ".(*DotGit).processLine"); procLine == nil {
		c.Unresolved(r5, dotgitShort+".(*DotGit).processLine", 0, "packed-refs line parser not found")
	} else {
		contam := p.ComputeEffect(func(_ *types.Info, _ *ast.CallExpr, callee *types.Func) bool { return callee == procLine.Obj }, EffectOpts{})
		isContam := func(fn *types.Func) bool { return fn != nil && (fn == procLine.Obj || contam.Has[fn.Origin()]) }
		isRefish := func(t types.Type) bool {
			if sl, ok := t.(*types.Slice); ok {
				t = sl.Elem()
			}
			return isRefParamType(t)
		}
		for _, fi := range funcs {
			tracked := map[types.Object]bool{}
			contamCalls := map[types.Object][]*ast.CallExpr{}
			ast.Inspect(fi.Decl.Body, func(n ast.Node) bool {
				switch v := n.(type) {
				case *ast.AssignStmt:
					if len(v.Rhs) == 1 {
						if call, ok := unparen(v.Rhs[0]).(*ast.CallExpr); ok && isContam(Callee(info, call)) {
							for _, l := range v.Lhs {
								if o := objOf(info, l); o != nil && isRefish(o.Type()) {
									tracked[o] = true
								}
							}
						}
					}
				case *ast.CallExpr:
					if isContam(Callee(info, v)) {
						for _, a := range v.Args {
							if u, ok := unparen(a).(*ast.UnaryExpr); ok {
								if o := objOf(info, u.X); o != nil && isRefish(o.Type()) {
									if _, isParam := derivers[fi].params[o]; !isParam {
										tracked[o] = true
										contamCalls[o] = append(contamCalls[o], v)
									}
								}
							}
						}
					}
				}
				return true
			})
			if len(tracked) == 0 {
				continue
			}
			f := p.FlowOf(fi)
			plain := newDeriver(info, fi.Decl)
			plain.tracked = tracked
			strict := newDeriver(info, fi.Decl)
			strict.tracked = tracked
			strict.cleanSlice = func(sl *ast.SliceExpr) bool {
				L := objOf(info, sl.X)
				h := objOf(info, sl.High)
				if L == nil || h == nil || sl.Low != nil || !tracked[L] {
					return false
				}
				defs := strict.defs[h]
				if len(defs) != 1 {
					return false
				}
				call, ok := unparen(defs[0]).(*ast.CallExpr)
				if !ok || len(call.Args) != 1 || objOf(info, call.Args[0]) != L || !nodeHasBuiltin(info, call, "len") {
					return false
				}
				// the length is captured at D; no contaminating call on L may precede D
				dLocs := f.Locs(func(n ast.Node) bool { return n.Pos() <= call.Pos() && call.End() <= n.End() })
				if len(dLocs) != 1 {
					return false
				}
				for _, cc := range contamCalls[L] {
					for _, cl := range f.sinkSites(true, func(x *ast.CallExpr) bool { return x == cc }) {
						if f.Search(SearchOpts{Starts: []Loc{After(cl)}, Sink: func(n ast.Node) bool { return n == dLocs[0].B.Nodes[dLocs[0].Idx] }}) != nil {
							return false
						}
					}
				}
				return true
			}
			for _, s := range append(fsSinks(fi), helperCalls(fi)...) {
				if _, has := plain.derive(s.Arg).has(srcTracked); !has {
					continue
				}
				c.Analysed(fi)
				key := fi.Name() + "->" + s.Desc
				if d, bad := strict.derive(s.Arg).has(srcTracked); bad {
					c.Violate(r5, key, s.Call.Pos(), "a name parsed from packed-refs content ("+d+") is turned into a filesystem path without validation")
				} else {
					c.Hold(r5, key, s.Call.Pos(), "only the prefix of the list captured before packed-refs entries were appended reaches the filesystem")
				}
			}
		}
		c.Floor(r5, 1)
	}

	// validator rules
	const r3 = "validator-rules"
	pu := modPath + "/internal/pathutil."
	RejectRule(c, r3, validRef, "IsSafe", condCalls(modPath+"/plumbing.ReferenceName.IsSafe"), nil)
	RejectRule(c, r3, validRef, "control-characters", condHasConst("32", "127"), nil)
	RejectRule(c, r3, validRef, "dot-component", condHasConst("."), nil)
	RejectRule(c, r3, validRef, "hfs-dot", condCalls(pu+"IsHFSDot"), nil)
	RejectRule(c, r3, validRef, "ntfs-dot", condCalls(pu+"IsNTFSDot"), nil)
	if isSafe := c.MustFunc(r3, "plumbing.ReferenceName.IsSafe"); isSafe != nil {
		RejectRule(c, r3, isSafe, "empty", condHasConst(""), nil)
		RejectRule(c, r3, isSafe, "backslash", condHasConst("\\"), nil)
		RejectRule(c, r3, isSafe, "dotdot-component", condHasConst(".."), nil)
		RejectRule(c, r3, isSafe, "pseudo-ref-charset", condHasConst("65", "90"), nil)
		// the refs/ branch is entered only with the refs/ prefix constant
		refPrefix := p.lookupObj("plumbing", "refPrefix")
		found := false
		ast.Inspect(isSafe.Decl.Body, func(n ast.Node) bool {
			if call, ok := n.(*ast.CallExpr); ok {
				if fn := Callee(isSafe.Pkg.TypesInfo, call); fn != nil && fn.Pkg() != nil && fn.Pkg().Path() == "strings" && (fn.Name() == "CutPrefix" || fn.Name() == "HasPrefix") {
					if len(call.Args) == 2 {
						if tv := isSafe.Pkg.TypesInfo.Types[call.Args[1]]; tv.Value != nil && tv.Value.ExactString() == `"refs/"` {
							found = true
						}
					}
				}
			}
			return true
		})
		_ = refPrefix
		c.Check(found, r3, "plumbing.ReferenceName.IsSafe:refs-prefix", isSafe.Decl.Pos(), `the multi-level branch requires the constant prefix "refs/"`)
	}
	c.Floor(r3, 10)

	// validator-loops-exhaustive: the validators look at every byte and every component
	const r3b = "validator-loops-exhaustive"
	if validRef != nil {
		LoopsExhaustive(c, r3b, validRef)
	}
	if isSafe := p.Func("plumbing.ReferenceName.IsSafe"); isSafe != nil {
		sinfo := isSafe.Pkg.TypesInfo
		LoopsExhaustiveRej(c, r3b, isSafe, func(r *ast.ReturnStmt) bool {
			return len(r.Results) == 1 && constBool(sinfo, r.Results[0]) == "false"
		})
	}
	c.Floor(r3b, 2)

	// storage layer: ReferenceStorage / ReflogStorage do not touch the filesystem themselves
	const r4 = "storage-layer"
	n4 := 0
	for _, fi := range p.FuncsIn("storage/filesystem") {
		tn := recvTypeName(fi.Obj)
		if tn == nil || (tn.Name() != "ReferenceStorage" && tn.Name() != "ReflogStorage") || fi.Decl.Body == nil {
			continue
		}
		finfo := fi.Pkg.TypesInfo
		bad := ""
		walkCalls(fi.Decl.Body, true, func(call *ast.CallExpr) {
			if fn := Callee(finfo, call); isBillyMethod(fn) && fn.Name() != "Join" {
				if sig := fn.Type().(*types.Signature); hasStringParam(sig) {
					bad = fn.Name()
				}
			}
		})
		n4++
		c.Analysed(fi)
		c.Check(bad == "", r4, fi.Name(), fi.Decl.Pos(), orStr(bad, "no direct filesystem path operation; goes through DotGit"))
	}
	c.Floor(r4, 8)
}

func orStr(a, b string) string {
	if a != "" {
		return a
	}
	return b
}
