package main

import (
	"go/ast"
	"go/types"
)

// SharedSliceNotMutatedByCallers: a method that hands out a cached slice as a capped window s[a:b:b] protects the cache
// against a caller's append beyond the window, not against writes inside it. A caller that filters the result in place
// (x[:0] and append), assigns elements, sorts or copies into it rewrites the shared listing for everybody else.
// For every production call site in the module of a method of short.typeName that returns (a window of) one of the
// type's slice fields, the received variable and its reslices are not (1) the target of an element assignment,
// (2) appended to through a reslice that leaves capacity (x[:0], x[:n]), (3) passed to an in-place sorter or as the
// destination of copy. One obligation per call site.
func SharedSliceNotMutatedByCallers(c *Ctx, rule, short, typeName string) int {
	p := c.P
	tn := p.lookupType(short, typeName)
	if tn == nil {
		c.Unresolved(rule, short+"."+typeName, 0, "type not found")
		return 0
	}
	st, ok := tn.Type().Underlying().(*types.Struct)
	if !ok {
		return 0
	}
	fields := map[*types.Var]bool{}
	for i := 0; i < st.NumFields(); i++ {
		if _, isSlice := st.Field(i).Type().Underlying().(*types.Slice); isSlice {
			fields[st.Field(i)] = true
		}
	}
	var methods []*FuncInfo
	for _, fi := range p.FuncsIn(short) {
		if recvTypeName(fi.Obj) == tn && fi.Decl.Body != nil && !p.isTestFile(fi.Decl.Pos()) {
			methods = append(methods, fi)
		}
	}
	// accessors[fn][k]: result k of fn shares the backing array of a cached slice field
	accessors := map[*types.Func]map[int]*types.Var{}
	stripSlice := func(e ast.Expr) ast.Expr {
		e = unparen(e)
		for {
			se, ok := e.(*ast.SliceExpr)
			if !ok {
				return e
			}
			e = unparen(se.X)
		}
	}
	for round := 0; round < 6; round++ {
		changed := false
		for _, fi := range methods {
			info := fi.Pkg.TypesInfo
			locals := map[types.Object]*types.Var{}
			srcOf := func(e ast.Expr) *types.Var {
				e = stripSlice(e)
				switch v := e.(type) {
				case *ast.SelectorExpr:
					if fv, ok := info.Uses[v.Sel].(*types.Var); ok && fields[fv] {
						return fv
					}
				case *ast.Ident:
					return locals[objOf(info, v)]
				}
				return nil
			}
			for ch := true; ch; {
				ch = false
				ast.Inspect(fi.Decl.Body, func(n ast.Node) bool {
					as, ok := n.(*ast.AssignStmt)
					if !ok {
						return true
					}
					if len(as.Rhs) == 1 {
						if call, ok := unparen(as.Rhs[0]).(*ast.CallExpr); ok {
							if fn := Callee(info, call); fn != nil {
								for k, fld := range accessors[fn] {
									if k < len(as.Lhs) {
										if o := objOf(info, as.Lhs[k]); o != nil && locals[o] == nil {
											locals[o], ch = fld, true
										}
									}
								}
							}
						}
					}
					if len(as.Lhs) == len(as.Rhs) {
						for i := range as.Lhs {
							if o := objOf(info, as.Lhs[i]); o != nil && locals[o] == nil {
								if fld := srcOf(as.Rhs[i]); fld != nil {
									locals[o], ch = fld, true
								}
							}
						}
					}
					return true
				})
			}
			ast.Inspect(fi.Decl.Body, func(n ast.Node) bool {
				if _, isLit := n.(*ast.FuncLit); isLit {
					return false
				}
				r, ok := n.(*ast.ReturnStmt)
				if !ok {
					return true
				}
				for k, res := range r.Results {
					if fld := srcOf(res); fld != nil {
						if accessors[fi.Obj] == nil {
							accessors[fi.Obj] = map[int]*types.Var{}
						}
						if accessors[fi.Obj][k] == nil {
							accessors[fi.Obj][k], changed = fld, true
						}
					}
				}
				return true
			})
		}
		if !changed {
			break
		}
	}
	inPlace := func(fn *types.Func) bool {
		if fn == nil || fn.Pkg() == nil {
			return false
		}
		switch fn.Pkg().Path() {
		case "sort":
			switch fn.Name() {
			case "Slice", "SliceStable", "Sort", "Stable", "Strings", "Ints":
				return true
			}
		case "slices":
			switch fn.Name() {
			case "Sort", "SortFunc", "SortStableFunc", "Reverse", "Compact", "CompactFunc", "DeleteFunc", "Delete", "Insert":
				return true
			}
		}
		return shortPkg(fn.Pkg().Path()) == "plumbing" && fn.Name() == "HashesSort"
	}
	n := 0
	for _, s := range p.CallSites(func(_ *types.Info, _ *ast.CallExpr, callee *types.Func) bool { return accessors[callee] != nil }) {
		if s.In == nil || p.isTestFile(s.Call.Pos()) || !production(s.In.Pkg) {
			continue
		}
		callee := Callee(s.In.Pkg.TypesInfo, s.Call)
		if fi := p.FuncOf(callee); fi != nil && recvTypeName(s.In.Obj) == tn {
			continue // the owner's own methods are checked by the publish-by-reassign rules
		}
		info := s.In.Pkg.TypesInfo
		// the receiving variables
		alias := map[types.Object]bool{}
		reslice := map[types.Object]bool{} // aliases defined by a reslice that leaves capacity
		ast.Inspect(s.In.Decl.Body, func(nd ast.Node) bool {
			as, ok := nd.(*ast.AssignStmt)
			if !ok || len(as.Rhs) != 1 || unparen(as.Rhs[0]) != ast.Expr(s.Call) {
				return true
			}
			for k := range accessors[callee] {
				if k < len(as.Lhs) {
					if o := objOf(info, as.Lhs[k]); o != nil {
						alias[o] = true
					}
				}
			}
			return true
		})
		if len(alias) == 0 {
			continue
		}
		n++
		c.Analysed(s.In)
		openSlice := func(e ast.Expr) (types.Object, bool) {
			se, ok := unparen(e).(*ast.SliceExpr)
			if !ok {
				return nil, false
			}
			o := objOf(info, stripSlice(se))
			if o == nil || !alias[o] {
				return nil, false
			}
			capped := se.Slice3 && se.Max != nil && se.High != nil && exprString(se.Max) == exprString(se.High)
			return o, !capped
		}
		for ch := true; ch; {
			ch = false
			ast.Inspect(s.In.Decl.Body, func(nd ast.Node) bool {
				as, ok := nd.(*ast.AssignStmt)
				if !ok || len(as.Lhs) != len(as.Rhs) {
					return true
				}
				for i := range as.Lhs {
					o := objOf(info, as.Lhs[i])
					if o == nil || alias[o] {
						continue
					}
					if src := objOf(info, as.Rhs[i]); src != nil && alias[src] {
						alias[o], ch = true, true
						if reslice[src] {
							reslice[o] = true
						}
					}
					if _, open := openSlice(as.Rhs[i]); open {
						alias[o], reslice[o], ch = true, true, true
					} else if se, ok := unparen(as.Rhs[i]).(*ast.SliceExpr); ok {
						if src := objOf(info, stripSlice(se)); src != nil && alias[src] {
							alias[o], ch = true, true
						}
					}
				}
				return true
			})
		}
		var bad ast.Node
		why := ""
		ast.Inspect(s.In.Decl.Body, func(nd ast.Node) bool {
			switch x := nd.(type) {
			case *ast.AssignStmt:
				for _, l := range x.Lhs {
					if ie, ok := unparen(l).(*ast.IndexExpr); ok {
						if o := objOf(info, stripSlice(ie.X)); o != nil && alias[o] {
							bad, why = x, "an element of the shared listing is assigned"
						}
					}
				}
			case *ast.CallExpr:
				if len(x.Args) > 0 {
					if id, ok := unparen(x.Fun).(*ast.Ident); ok && id.Name == "append" && info.Uses[id] == types.Universe.Lookup("append") {
						if _, open := openSlice(x.Args[0]); open {
							bad, why = x, "append through a reslice that leaves capacity writes into the shared listing"
						}
						if o := objOf(info, x.Args[0]); o != nil && reslice[o] {
							bad, why = x, "append to `"+o.Name()+"`, a reslice of the shared listing that leaves capacity, writes into it (the in-place filter idiom x[:0])"
						}
					}
				}
				if id, ok := unparen(x.Fun).(*ast.Ident); ok && id.Name == "copy" && len(x.Args) == 2 {
					if o := objOf(info, stripSlice(x.Args[0])); o != nil && alias[o] {
						bad, why = x, "copy into the shared listing"
					}
				}
				if fn := Callee(info, x); inPlace(fn) && len(x.Args) > 0 {
					if o := objOf(info, stripSlice(x.Args[0])); o != nil && alias[o] {
						bad, why = x, "the shared listing is reordered or compacted in place by "+fn.Name()
					}
				}
			}
			return true
		})
		key := s.In.Name() + "->" + callee.Name()
		if bad != nil {
			c.Violate(rule, key, bad.Pos(), why+": the slice returned by "+typeName+"."+callee.Name()+" shares its backing array with the cached listing (the cap only stops appends beyond it), so every later lookup, prefix search and iteration sees the damage")
		} else {
			c.Hold(rule, key, s.Call.Pos(), "the shared listing is only read")
		}
	}
	return n
}
