package main

import (
	"go/ast"
	"go/token"
	"go/types"
	"strings"
)

func init() {
	register(&propSpec{
		ID: "C49",
		Explanation: "Decides four structural conditions of 'ignore rules match git check-ignore', not the classification of every path: " +
			"(escape-aware-trim) the trailing spaces of a pattern are removed only by a left-to-right scan that skips the byte after every backslash (git's trim_trailing_spaces): no function of the pattern parser trims spaces with " +
			"strings.TrimRight/TrimSpace/TrimSuffix or decides quoting with a suffix test on a constant containing a backslash — whether a trailing space is quoted depends on the parity of the backslashes before it, which no fixed suffix shows " +
			"(found and fixed: `a\\  ` lost its quoted space, `a\\\\ ` kept an unquoted one) — and the scanner has a backslash case that advances the index; (space-run-ended-by-every-other-byte) in the scanner every case other than the unquoted space resets the variable that marks the start of the trailing run on every path before the scan steps on (git resets last_space on a quoted byte as on an ordinary one: `a \\b ` is `a \\b`, not `a`); " +
			"(parse-order) ParsePattern strips the negation mark before it trims and recognises the directory mark ('/' suffix) after it, so `!dir/  ` is a negated directory pattern; " +
			"(wildmatch-codes) the matcher's four return codes have wildmatch.h's values and the retry loop of a star never ends in the plain no-match code (shared with C53); " +
			"(star-branch-consumes-stars-and-slashes-only) in the matcher's '*' case the pattern index steps only over the star, further stars and a boundary slash, so the rest of the pattern handed to the recursive call keeps every escaping backslash; (comment-rule) a line is a comment only if it begins with '#' (no trimming before the test), and blank lines are skipped. Not decided: wildmatch itself, scopes and precedence across files, negation below an excluded directory.",
		Assumptions: []string{},
		Run:         runC49,
	})
}

func runC49(c *Ctx) {
	p := c.P
	const gi = "plumbing/format/gitignore"
	const r1 = "escape-aware-trim"
	pk := p.Pkg(gi)
	if pk == nil {
		c.Unresolved(r1, "package "+gi, 0, "not loaded")
		return
	}
	info := pk.TypesInfo
	pp := c.MustFunc(r1, gi+".ParsePattern")
	if pp == nil {
		return
	}
	closure := p.staticClosure([]*FuncInfo{pp})
	constStr := func(e ast.Expr) (string, bool) {
		tv := info.Types[e]
		if tv.Value == nil {
			return "", false
		}
		s := tv.Value.ExactString()
		return s, true
	}
	nTrim := 0
	for _, fi := range closure {
		if fi.Pkg != pk || fi.Decl.Body == nil {
			continue
		}
		c.Analysed(fi)
		k := 0
		walkCalls(fi.Decl.Body, true, func(call *ast.CallExpr) {
			fn := Callee(info, call)
			if fn == nil || fn.Pkg() == nil || fn.Pkg().Path() != "strings" {
				return
			}
			switch fn.Name() {
			case "TrimRight", "TrimSuffix", "Trim", "TrimSpace", "TrimRightFunc", "TrimFunc":
				// trimming that can remove a space
				removesSpace := fn.Name() == "TrimSpace" || fn.Name() == "TrimRightFunc" || fn.Name() == "TrimFunc"
				if len(call.Args) == 2 {
					if s, ok := constStr(call.Args[1]); ok && strings.Contains(s, " ") {
						removesSpace = true
					}
				}
				if removesSpace {
					k++
					nTrim++
					c.Violate(r1, fi.Name()+"->strings."+fn.Name()+ifStr(k > 1, "#"+itoa(k)), call.Pos(), "spaces are trimmed from the pattern text without regard to backslash quoting: a quoted trailing space (`a\\ `) is part of the pattern")
				}
			case "HasSuffix":
				if len(call.Args) == 2 {
					if s, ok := constStr(call.Args[1]); ok && strings.Contains(s, `\\`) {
						k++
						nTrim++
						c.Violate(r1, fi.Name()+"->strings.HasSuffix"+ifStr(k > 1, "#"+itoa(k)), call.Pos(), "whether the end of the pattern is quoted is decided from a fixed suffix ("+s+"): it depends on the parity of the backslashes before it (`a\\\\ ` ends in an unquoted space, `a\\  ` in a quoted one followed by an unquoted one)")
					}
				}
			}
		})
	}
	// the scanner: a function in the closure with a loop over the bytes whose backslash case advances the index
	scanner := false
	scanLoops := map[*ast.ForStmt]*FuncInfo{}
	defer func() {
		for loop, fi := range scanLoops {
			checkSpaceRunEnded(c, "space-run-ended-by-every-other-byte", fi, loop)
		}
		if len(scanLoops) == 0 {
			c.Unresolved("space-run-ended-by-every-other-byte", pp.Name()+":scanner", pp.Decl.Pos(), "no scanner loop found")
		}
	}()
	for _, fi := range closure {
		if fi.Pkg != pk || fi.Decl.Body == nil {
			continue
		}
		ast.Inspect(fi.Decl.Body, func(n ast.Node) bool {
			loop, ok := n.(*ast.ForStmt)
			if !ok {
				return true
			}
			var idx types.Object
			if inc, ok := loop.Post.(*ast.IncDecStmt); ok && inc.Tok == token.INC {
				idx = objOf(info, inc.X)
			}
			if idx == nil {
				return true
			}
			ast.Inspect(loop.Body, func(m ast.Node) bool {
				cc, ok := m.(*ast.CaseClause)
				if !ok {
					return true
				}
				back := false
				for _, e := range cc.List {
					if s, ok := constStr(e); ok && s == "92" {
						back = true
					}
				}
				if !back {
					return true
				}
				for _, st := range cc.Body {
					ast.Inspect(st, func(x ast.Node) bool {
						if inc, ok := x.(*ast.IncDecStmt); ok && inc.Tok == token.INC && objOf(info, inc.X) == idx {
							scanner = true
							scanLoops[loop] = fi
						}
						return true
					})
				}
				return true
			})
			return true
		})
	}
	c.Check(scanner, r1, pp.Name()+":scanner", pp.Decl.Pos(), orStr(ifStr(!scanner, "no scan of the pattern whose backslash case skips the following byte is reachable from ParsePattern: quoted trailing spaces cannot be told from unquoted ones"), "the pattern is scanned from the left and the byte after a backslash is skipped"))
	if nTrim == 0 {
		c.Hold(r1, pp.Name()+":no-blind-trim", pp.Decl.Pos(), "no function reachable from ParsePattern trims spaces or tests a backslash suffix on the pattern text")
	}
	c.Floor(r1, 2)

	// parse-order: negation mark, then trim, then directory mark
	const r2 = "parse-order"
	{
		var negPos, trimPos, dirPos token.Pos
		ast.Inspect(pp.Decl.Body, func(n ast.Node) bool {
			call, ok := n.(*ast.CallExpr)
			if !ok {
				return true
			}
			fn := Callee(info, call)
			if fn == nil {
				return true
			}
			switch {
			case fn.Pkg() != nil && fn.Pkg().Path() == "strings" && fn.Name() == "HasPrefix" && len(call.Args) == 2:
				if s, ok := constStr(call.Args[1]); ok && s == `"!"` && !negPos.IsValid() {
					negPos = call.Pos()
				}
			case fn.Pkg() != nil && fn.Pkg().Path() == "strings" && fn.Name() == "HasSuffix" && len(call.Args) == 2:
				if s, ok := constStr(call.Args[1]); ok && s == `"/"` && !dirPos.IsValid() {
					dirPos = call.Pos()
				}
			case fn.Pkg() == pk.Types && p.FuncOf(fn) != nil && !trimPos.IsValid():
				// the scanner call
				if cf := p.FuncOf(fn); cf != nil && strings.Contains(strings.ToLower(cf.Decl.Name.Name), "trim") {
					trimPos = call.Pos()
				}
			}
			return true
		})
		ok := negPos.IsValid() && trimPos.IsValid() && dirPos.IsValid() && negPos < trimPos && trimPos < dirPos
		c.Check(ok, r2, pp.Name(), pp.Decl.Pos(), orStr(ifStr(!ok, "the negation mark, the trailing-space trim and the directory mark are not handled in that order: `!dir/  ` must be a negated directory pattern"), "negation mark, then trailing spaces, then directory mark"))
	}
	c.Floor(r2, 1)

	// wildmatch-codes
	const r3 = "wildmatch-codes"
	for name, want := range map[string]string{"wmMatch": "0", "wmNoMatch": "1", "wmAbortAll": "-1", "wmAbortToStarStar": "-2"} {
		o, _ := p.lookupObj(gi, name).(*types.Const)
		if o == nil {
			c.Unresolved(r3, gi+"."+name, 0, "constant not found")
			continue
		}
		got := o.Val().ExactString()
		c.Check(got == want, r3, gi+"."+name, o.Pos(), orStr(ifStr(got != want, name+" is "+got+", wildmatch.h has "+want), "value of wildmatch.h"))
	}
	checkStarExhaustionAborts(c, r3)
	c.Floor(r3, 5)

	// In the star branch of the matcher the pattern index moves over the star itself, over further stars, and over the
	// slash of a `*/` or `**/` boundary — nothing else: what follows is handed to the recursive call as the rest of the
	// pattern. An index step taken for any other byte (a backslash, say) removes that byte from the rest: `*\?` then
	// matches like `*?`. Every step of the index in that branch sits under a condition that compares a pattern byte
	// with '*' or '/', except the first statement of the branch (the star itself).
	const r5 = "star-branch-consumes-stars-and-slashes-only"
	if dw := c.MustFunc(r5, gi+".dowild"); dw != nil {
		c.Analysed(dw)
		// the pattern index: the variable indexing the first parameter in the switch tag / comparisons
		params := paramObjs(info, dw.Decl)
		var clause *ast.CaseClause
		ast.Inspect(dw.Decl.Body, func(n ast.Node) bool {
			cc, ok := n.(*ast.CaseClause)
			if !ok || clause != nil {
				return true
			}
			for _, e := range cc.List {
				if s, ok := constStr(e); ok && s == "42" {
					clause = cc
				}
			}
			return true
		})
		if clause == nil || len(params) == 0 {
			c.Unresolved(r5, dw.Name()+":case '*'", dw.Decl.Pos(), "no case for '*' found")
		} else {
			// index variable: incremented in the first statement of the clause
			var pi types.Object
			if len(clause.Body) > 0 {
				if inc, ok := clause.Body[0].(*ast.IncDecStmt); ok {
					pi = objOf(info, inc.X)
				}
			}
			if pi == nil {
				c.Hold(r5, dw.Name(), clause.Pos(), "not decided: the star branch does not begin by stepping over the star")
			} else {
				k, bad := 0, token.NoPos
				mentionsStarOrSlash := func(e ast.Expr) bool {
					found := false
					ast.Inspect(e, func(m ast.Node) bool {
						if x, ok := m.(ast.Expr); ok {
							if s, ok := constStr(x); ok && (s == "42" || s == "47") {
								found = true
							}
						}
						return !found
					})
					return found
				}
				var walk func(st ast.Stmt, conds []ast.Expr)
				step := func(pos token.Pos, conds []ast.Expr) {
					k++
					ok := false
					for _, cnd := range conds {
						if mentionsStarOrSlash(cnd) {
							ok = true
						}
					}
					if !ok {
						bad = pos
					}
				}
				walk = func(st ast.Stmt, conds []ast.Expr) {
					switch v := st.(type) {
					case *ast.IncDecStmt:
						if objOf(info, v.X) == pi {
							step(v.Pos(), conds)
						}
					case *ast.AssignStmt:
						for _, l := range v.Lhs {
							if objOf(info, l) == pi {
								step(v.Pos(), conds)
							}
						}
					case *ast.IfStmt:
						cs := append(conds[:len(conds):len(conds)], v.Cond)
						for _, s := range v.Body.List {
							walk(s, cs)
						}
						switch e := v.Else.(type) {
						case *ast.BlockStmt:
							for _, s := range e.List {
								walk(s, cs)
							}
						case *ast.IfStmt:
							walk(e, conds)
						}
					case *ast.ForStmt:
						cs := conds
						if v.Cond != nil {
							cs = append(conds[:len(conds):len(conds)], v.Cond)
						}
						for _, s := range v.Body.List {
							walk(s, cs)
						}
					case *ast.SwitchStmt:
						for _, cl := range v.Body.List {
							cc := cl.(*ast.CaseClause)
							cs := conds
							for _, e := range cc.List {
								cs = append(cs[:len(cs):len(cs)], e)
							}
							for _, s := range cc.Body {
								walk(s, cs)
							}
						}
					case *ast.BlockStmt:
						for _, s := range v.List {
							walk(s, conds)
						}
					}
				}
				for _, st := range clause.Body[1:] {
					walk(st, nil)
				}
				c.Check(!bad.IsValid(), r5, dw.Name()+":case '*'", orPos(bad, clause.Pos()), orStr(ifStr(bad.IsValid(), "the pattern index is stepped in the star branch under a condition that tests neither '*' nor '/': the byte stepped over (an escaping backslash) is missing from the rest of the pattern handed to the recursive call, so the escape is lost (`*\\?` matches like `*?`)"),
					itoa(k)+" steps of the pattern index in the star branch, all over stars or a boundary slash"))
			}
		}
	}
	c.Floor(r5, 1)

	// comment-rule: the '#' test is on the raw line
	const r4 = "comment-rule"
	if rf := c.MustFunc(r4, gi+".readIgnoreFile"); rf != nil {
		c.Analysed(rf)
		commentPrefix := p.lookupObj(gi, "commentPrefix")
		okComment, okBlank := false, false
		ast.Inspect(rf.Decl.Body, func(n ast.Node) bool {
			call, ok := n.(*ast.CallExpr)
			if !ok {
				return true
			}
			fn := Callee(info, call)
			if fn == nil || fn.Pkg() == nil || fn.Pkg().Path() != "strings" {
				return true
			}
			if fn.Name() == "HasPrefix" && len(call.Args) == 2 && commentPrefix != nil && objOfSel(info, call.Args[1]) == commentPrefix {
				// the tested text is the scanner's line itself, not a trimmed copy
				if o := objOf(info, call.Args[0]); o != nil {
					d := newDeriver(info, rf.Decl)
					raw := true
					for _, def := range d.defs[o] {
						if cc, ok := unparen(def).(*ast.CallExpr); ok {
							if f2 := Callee(info, cc); f2 != nil && f2.Pkg() != nil && f2.Pkg().Path() == "strings" {
								raw = false
							}
						}
					}
					okComment = raw
				}
			}
			if fn.Name() == "TrimSpace" {
				okBlank = true
			}
			return true
		})
		c.Check(okComment, r4, rf.Name()+":comment", rf.Decl.Pos(), orStr(ifStr(!okComment, "the comment test is not made on the raw line: ` #x` (leading space) is a pattern for git, not a comment"), "a line is a comment only if it begins with '#'"))
		c.Check(okBlank, r4, rf.Name()+":blank", rf.Decl.Pos(), "blank lines are skipped")
	}
	c.Floor(r4, 2)
}
