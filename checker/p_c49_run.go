package main

import (
	"go/ast"
	"go/constant"
	"go/token"
	"go/types"
)

// checkSpaceRunEnded (C49): git's trim_trailing_spaces remembers where the current run of unquoted spaces began and
// forgets it at every byte that is not an unquoted space — an ordinary byte and a backslash-quoted byte alike. In the
// scanner loop (a for over the bytes with a switch on the current byte) the variable the space case assigns is
// therefore assigned on every path through every other case before the loop steps on; a case that leaves the loop by
// return is fine. Otherwise `a \b ` is cut at the first space.
func checkSpaceRunEnded(c *Ctx, rule string, fi *FuncInfo, loop *ast.ForStmt) {
	p := c.P
	info := fi.Pkg.TypesInfo
	c.Analysed(fi)
	var sw *ast.SwitchStmt
	ast.Inspect(loop.Body, func(n ast.Node) bool {
		if s, ok := n.(*ast.SwitchStmt); ok && sw == nil {
			sw = s
		}
		return sw == nil
	})
	if sw == nil {
		c.Unresolved(rule, fi.Name()+":switch", loop.Pos(), "the scanner loop has no switch over the current byte")
		return
	}
	isSpaceCase := func(cc *ast.CaseClause) bool {
		for _, e := range cc.List {
			if tv := info.Types[e]; tv.Value != nil && tv.Value.Kind() == constant.Int {
				if v, ok := constant.Int64Val(tv.Value); ok && v == ' ' {
					return true
				}
			}
		}
		return false
	}
	// the run marker: the variable assigned in the space case
	var marker types.Object
	for _, st := range sw.Body.List {
		cc := st.(*ast.CaseClause)
		if !isSpaceCase(cc) {
			continue
		}
		for _, s := range cc.Body {
			ast.Inspect(s, func(n ast.Node) bool {
				if as, ok := n.(*ast.AssignStmt); ok && len(as.Lhs) == 1 && marker == nil {
					marker = objOf(info, as.Lhs[0])
				}
				return true
			})
		}
	}
	if marker == nil {
		c.Unresolved(rule, fi.Name()+":run-marker", sw.Pos(), "the space case assigns no variable: where the run of trailing spaces begins is not recorded in a way this rule recognises")
		return
	}
	f := p.FlowOf(fi)
	assignsMarker := func(n ast.Node) bool {
		as, ok := n.(*ast.AssignStmt)
		if !ok {
			return false
		}
		for _, l := range as.Lhs {
			if objOf(info, l) == marker {
				return true
			}
		}
		return false
	}
	isPost := func(n ast.Node) bool { return loop.Post != nil && n == ast.Node(loop.Post) }
	n := 0
	sawDefault := false
	for _, st := range sw.Body.List {
		cc := st.(*ast.CaseClause)
		if isSpaceCase(cc) {
			continue
		}
		name := "default"
		if len(cc.List) > 0 {
			name = exprString(cc.List[0])
		} else {
			sawDefault = true
		}
		n++
		if len(cc.Body) == 0 {
			c.Violate(rule, fi.Name()+":case "+name, cc.Pos(), "a byte other than an unquoted space does not end the run of trailing spaces: what follows the first space of `a \\b ` is cut off")
			continue
		}
		first := cc.Body[0]
		var starts []Loc
		for _, l := range f.Locs(func(nd ast.Node) bool { return nd == ast.Node(first) || (nd.Pos() >= first.Pos() && nd.End() <= first.End() && nd.Pos() == first.Pos()) }) {
			starts = append(starts, l)
			break
		}
		if len(starts) == 0 {
			c.Unresolved(rule, fi.Name()+":case "+name, cc.Pos(), "first statement of the case not found in the CFG")
			continue
		}
		h := f.Search(SearchOpts{Starts: starts, Sink: isPost, Barrier: assignsMarker})
		bad := h != nil
		pos := cc.Pos()
		c.Check(!bad, rule, fi.Name()+":case "+name, pos, orStr(ifStr(bad, "a path through this case reaches the next byte without resetting `"+marker.Name()+"`: a byte other than an unquoted space does not end the run of trailing spaces, so `a \\b ` is cut at its first space (git: `a \\b`)"),
			"every path through the case resets `"+marker.Name()+"` or leaves the scan"))
	}
	c.Check(sawDefault, rule, fi.Name()+":default-case", sw.Pos(), orStr(ifStr(!sawDefault, "the switch over the current byte has no default case: ordinary bytes do not end the run of trailing spaces"), "ordinary bytes are handled by a default case"))
	_ = token.NoPos
}
