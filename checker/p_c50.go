package main

import (
	"go/ast"
	"go/token"
	"go/types"

	"golang.org/x/tools/go/cfg"
)

func init() {
	register(&propSpec{
		ID: "C50",
		Explanation: "Decides sibling agreement of the tar and zip writers on which tree entries become archive entries, not the bytes of the archives: " +
			"(every-kind-gets-an-entry) for each file-mode constant a tree entry can carry (Dir, Submodule, Symlink, Executable, Regular) and for each writer (WriteTarArchive, WriteZipArchive), under the assumption " +
			"entry.Mode == that constant no path leads from the tree walker's Next() back to it (the next entry) or to the successful end without passing the writer's header call (tar.Writer.WriteHeader / zip.Writer.CreateHeader); " +
			"the only edge left out is the one taken because the entry is not among the requested paths. git archive writes an entry for directories and submodules in both formats. " +
			"(prefix-entry) both writers write a header on the branch taken for a prefix that ends in '/'. (format-dispatch) every name SupportedFormats lists is a case of WriteArchive's switch. (filter-evaluated-per-entry) the path filter is evaluated on each entry's own path: a helper around MatchesPathFilter answers 'not requested' only after the matcher ran for that entry (a wildcard can stand for a directory component, so a rejected directory decides nothing about its contents). (go-mode-bits) no Unix file-type bits are converted to fs.FileMode. (walk-error-not-end-of-walk) no error branch in plumbing/object or the archive package replaces the error by io.EOF, at which the writers stop and report success. (every-path-listed) the writers give the tree walker no seen set, so a tree object that occurs at several paths is listed at each. " +
			"(zip-unix-attrs-only-for-exec-and-links) WriteZipArchive sets Unix attributes only in the cases for executables and symbolic links and does not call ApplyUmask (found and fixed, a9f0db8: tar's umask was applied, files unpacked as 0664/0775; git gives plain files none and executables 0755). " +
			"(every-pathspec-must-match) both writers keep a per-filter record of what selected an entry and turn an unmatched filter into an error (found and fixed, 1af8ede: only 'nothing matched at all' was refused; git archive refuses any unmatched pathspec). " +
			"(archive-time-is-committer-date) the archive package reads no commit's Author signature and ResolveTreeish takes the time from Committer.When. " +
			"Found and fixed earlier: the zip writer skipped directories, submodules and the prefix directory. The last two defects were found by comparing archives of generated trees with git archive's (discovery only; tar entries agreed throughout). Not decided: other header fields (times, sizes), contents, ordering, the pathspec language.",
		Assumptions: []string{"archive/tar and archive/zip write what their headers say"},
		Run:         runC50,
	})
}

func runC50(c *Ctx) {
	p := c.P
	const ar = "internal/archive"
	const r1 = "every-kind-gets-an-entry"
	pk := p.Pkg(ar)
	if pk == nil {
		c.Unresolved(r1, "package "+ar, 0, "not loaded")
		return
	}
	info := pk.TypesInfo
	checkZipAttrsAndPathspecs(c, "zip-unix-attrs-only-for-exec-and-links", "every-pathspec-must-match")
	checkArchiveTimeIsCommitterDate(c, "archive-time-is-committer-date")
	fmPkg := p.Pkg("plumbing/filemode")
	if fmPkg == nil {
		c.Unresolved(r1, "package plumbing/filemode", 0, "not loaded")
		return
	}
	entryT := p.lookupType(objShort, "TreeEntry")
	var modeField *types.Var
	if entryT != nil {
		modeField = fieldOf(entryT, "Mode")
	}
	if modeField == nil {
		c.Unresolved(r1, objShort+".TreeEntry.Mode", 0, "field not found")
		return
	}
	kinds := []string{"Dir", "Submodule", "Symlink", "Executable", "Regular"}
	isHeader := func(call *ast.CallExpr) bool {
		fn := Callee(info, call)
		if fn == nil || fn.Pkg() == nil {
			return false
		}
		return (fn.Pkg().Path() == "archive/tar" && fn.Name() == "WriteHeader") || (fn.Pkg().Path() == "archive/zip" && (fn.Name() == "CreateHeader" || fn.Name() == "Create" || fn.Name() == "CreateRaw"))
	}
	n1 := 0
	for _, wn := range []string{"WriteTarArchive", "WriteZipArchive"} {
		fi := c.MustFunc(r1, ar+"."+wn)
		if fi == nil {
			continue
		}
		c.Analysed(fi)
		f := p.FlowOf(fi)
		isNext := CallNode(false, func(call *ast.CallExpr) bool {
			fn := Callee(info, call)
			return fn != nil && fn.Name() == "Next" && fn.Pkg() != nil && shortPkg(fn.Pkg().Path()) == objShort
		})
		starts := f.Locs(isNext)
		if len(starts) != 1 {
			c.Unresolved(r1, fi.Name()+":walk", fi.Decl.Pos(), "expected exactly one call of the tree walker's Next()")
			continue
		}
		var filterParams []types.Object
		for _, po := range paramObjs(info, fi.Decl) {
			if types.TypeString(po.Type(), nil) == "[]string" {
				filterParams = append(filterParams, po)
			}
		}
		// a condition is about the path filter when it mentions the filter parameter, a local that was built from it
		// (a helper value holding the filters), or calls the matcher
		filterLocals := map[types.Object]bool{}
		ast.Inspect(fi.Decl.Body, func(n ast.Node) bool {
			if as, ok := n.(*ast.AssignStmt); ok && len(as.Lhs) == 1 && len(as.Rhs) == 1 {
				for _, fp := range filterParams {
					if usesObj(info, as.Rhs[0], fp) {
						if o := objOf(info, as.Lhs[0]); o != nil {
							filterLocals[o] = true
						}
					}
				}
			}
			return true
		})
		aboutFilter := func(cond ast.Expr) bool {
			for _, fp := range filterParams {
				if usesObj(info, cond, fp) {
					return true
				}
			}
			for o := range filterLocals {
				if usesObj(info, cond, o) {
					return true
				}
			}
			return nodeHasCall(cond, false, func(call *ast.CallExpr) bool { return isPathMatcher(Callee(info, call)) }) != nil
		}
		for _, k := range kinds {
			ko := fmPkg.Types.Scope().Lookup(k)
			if ko == nil {
				c.Unresolved(r1, "filemode."+k, 0, "constant not found")
				continue
			}
			n1++
			as := &condAssume{info: info, eq: map[types.Object]types.Object{modeField: ko}}
			infeasible := as.blockEdge()
			block := func(b *cfg.Block, i int) bool {
				if infeasible(b, i) {
					return true
				}
				// the edge taken because the entry is not among the requested paths
				if i == 0 && len(b.Succs) == 2 && len(b.Nodes) > 0 {
					if cond, ok := b.Nodes[len(b.Nodes)-1].(ast.Expr); ok && aboutFilter(cond) {
						return true
					}
				}
				// the end of the walk and its errors: the edges on which Next()'s error is not nil
				return false
			}
			header := CallNode(false, isHeader)
			// sink: the next call of Next() (an entry was passed over) or a return of a nil error
			sink := func(nd ast.Node) bool {
				if isNext(nd) {
					return true
				}
				return false
			}
			h := f.Search(SearchOpts{Starts: []Loc{After(starts[0])}, Sink: sink, Barrier: header, BlockEdge: block})
			c.Check(h == nil, r1, fi.Name()+":"+k, starts[0].B.Nodes[starts[0].Idx].Pos(), orStr(ifStr(h != nil, "a tree entry of mode filemode."+k+" can be passed over without an archive entry: git archive writes one for every kind of entry (directories and submodules as directory entries) in both formats"),
				"an entry of this kind always passes the writer's header call before the next entry is fetched"))
		}
	}
	c.Floor(r1, 10)

	// The path filter is a predicate on an entry's own full path (a wildcard can stand for a directory component, so a
	// rejected directory says nothing about what lies below it). Whoever decides "not among the requested paths" must
	// have evaluated MatchesPathFilter for that entry: in the writers the skip condition contains the call, and a helper
	// that wraps it returns false only after the call.
	const r5 = "filter-evaluated-per-entry"
	isMatch := func(call *ast.CallExpr) bool { return isPathMatcher(Callee(info, call)) }
	for _, fi := range p.FuncsIn(ar) {
		if fi.Decl.Body == nil || p.isTestFile(fi.Decl.Pos()) || nodeHasCall(fi.Decl.Body, false, isMatch) == nil {
			continue
		}
		c.Analysed(fi)
		sig := fi.Obj.Type().(*types.Signature)
		if sig.Results().Len() == 1 && isBoolType(sig.Results().At(0).Type()) {
			f := p.FlowOf(fi)
			h := f.Search(SearchOpts{Starts: []Loc{f.Entry()}, Barrier: CallNode(false, isMatch), Sink: func(nd ast.Node) bool {
				r, ok := nd.(*ast.ReturnStmt)
				if !ok || len(r.Results) != 1 {
					return false
				}
				tv := info.Types[r.Results[0]]
				return tv.Value != nil && tv.Value.String() == "false"
			}})
			c.Check(h == nil, r5, fi.Name(), fi.Decl.Pos(), orStr(ifStr(h != nil, "this filter helper answers 'not requested' on a path that never evaluated MatchesPathFilter for the entry (a decision remembered from another entry, such as a rejected parent directory): files a wildcard pattern selects below that directory are left out of the archive"),
				"'not requested' is answered only after MatchesPathFilter was evaluated for the entry"))
			continue
		}
		// a writer: the call sits in a branch condition
		inCond := false
		ast.Inspect(fi.Decl.Body, func(n ast.Node) bool {
			if ifs, ok := n.(*ast.IfStmt); ok && nodeHasCall(ifs.Cond, false, isMatch) != nil {
				inCond = true
			}
			return true
		})
		c.Check(inCond, r5, fi.Name(), fi.Decl.Pos(), orStr(ifStr(!inCond, "MatchesPathFilter is called but its answer does not decide a branch"), "the matcher is evaluated in the skip condition, for every entry"))
	}
	c.Floor(r5, 1)

	// The writers stop at io.EOF from the tree walker and report success. The walker must therefore never replace a
	// real error by io.EOF: in plumbing/object and the archive package no statement assigns io.EOF to an error variable
	// (or returns io.EOF) inside a branch taken because that variable is not nil.
	const r6 = "walk-error-not-end-of-walk"
	{
		ioPkg := p.importedPkg("io")
		var eof types.Object
		if ioPkg != nil {
			eof = ioPkg.Scope().Lookup("EOF")
		}
		nSites, nBad := 0, 0
		for _, sp := range []string{objShort, ar} {
			spk := p.Pkg(sp)
			if spk == nil || eof == nil {
				continue
			}
			sinfo := spk.TypesInfo
			for _, fi := range p.FuncsIn(sp) {
				if fi.Decl.Body == nil || p.isTestFile(fi.Decl.Pos()) {
					continue
				}
				ast.Inspect(fi.Decl.Body, func(n ast.Node) bool {
					ifs, ok := n.(*ast.IfStmt)
					if !ok {
						return true
					}
					be, ok := unparen(ifs.Cond).(*ast.BinaryExpr)
					if !ok || be.Op != token.NEQ {
						return true
					}
					var ev types.Object
					if isNil(sinfo, be.Y) {
						ev = objOf(sinfo, be.X)
					} else if isNil(sinfo, be.X) {
						ev = objOf(sinfo, be.Y)
					}
					if ev == nil || !types.Identical(ev.Type(), types.Universe.Lookup("error").Type()) {
						return true
					}
					nSites++
					for _, st := range ifs.Body.List {
						bad := false
						switch v := st.(type) {
						case *ast.AssignStmt:
							for i, l := range v.Lhs {
								if objOf(sinfo, l) == ev && i < len(v.Rhs) && objOfSel(sinfo, v.Rhs[i]) == eof {
									bad = true
								}
							}
						case *ast.ReturnStmt:
							if len(v.Results) > 0 && objOfSel(sinfo, v.Results[len(v.Results)-1]) == eof {
								bad = true
							}
						}
						if bad {
							nBad++
							c.Analysed(fi)
							c.Violate(r6, fi.Name()+":"+ev.Name()+"=io.EOF", st.Pos(), "on the branch taken because `"+ev.Name()+"` is not nil the error is replaced by io.EOF: consumers of the walk (the archive writers, file iterators, the tree diff) take a tree with an unreadable subtree for a complete one and report success")
						}
					}
					return true
				})
			}
		}
		if nBad == 0 {
			c.Hold(r6, objShort+"+"+ar, 0, "none of the "+itoa(nSites)+" error branches in plumbing/object and the archive package replaces the error by io.EOF")
		}
	}
	c.Floor(r6, 1)

	// git archive lists every path of the tree, however many paths share one tree object. The tree walker skips every
	// entry whose hash is in the `seen` set it is given, so the archive writers hand it none.
	const r7 = "every-path-listed"
	for _, wn := range []string{"WriteTarArchive", "WriteZipArchive"} {
		fi := p.Func(ar + "." + wn)
		if fi == nil {
			continue
		}
		k := 0
		walkCalls(fi.Decl.Body, false, func(call *ast.CallExpr) {
			fn := Callee(info, call)
			if fn == nil || fn.Name() != "NewTreeWalker" || len(call.Args) != 3 {
				return
			}
			k++
			ok := isNil(info, call.Args[2])
			c.Check(ok, r7, fi.Name()+"->NewTreeWalker", call.Pos(), orStr(ifStr(!ok, "the walker is given a seen set ("+exprString(call.Args[2])+"): it skips every entry whose object was met before, so a directory whose tree object also occurs at another path (vendored copies, identical testdata) is left out of the archive"),
				"the walker is given no seen set: every path is listed"))
		})
		if k == 0 {
			c.Unresolved(r7, fi.Name()+"->NewTreeWalker", fi.Decl.Pos(), "no tree walker constructed")
		}
	}
	c.Floor(r7, 2)

	const r2 = "prefix-entry"
	for _, wn := range []string{"WriteTarArchive", "WriteZipArchive"} {
		fi := p.Func(ar + "." + wn)
		if fi == nil {
			continue
		}
		var prefix types.Object
		for _, po := range paramObjs(info, fi.Decl) {
			if po.Name() == "prefix" {
				prefix = po
			}
		}
		ok := false
		ast.Inspect(fi.Decl.Body, func(n ast.Node) bool {
			ifs, isIf := n.(*ast.IfStmt)
			if !isIf || prefix == nil || !usesObj(info, ifs.Cond, prefix) {
				return true
			}
			suffix := nodeHasCall(ifs.Cond, false, func(call *ast.CallExpr) bool {
				fn := Callee(info, call)
				return fn != nil && fn.Name() == "HasSuffix"
			}) != nil
			if suffix && nodeHasCall(ifs.Body, false, isHeader) != nil {
				ok = true
			}
			return true
		})
		c.Check(ok, r2, fi.Name(), fi.Decl.Pos(), orStr(ifStr(!ok, "no entry is written for a prefix ending in '/': git archive writes the prefix directory itself in both formats"), "a prefix ending in '/' gets its own directory entry"))
	}
	c.Floor(r2, 2)

	const r3 = "format-dispatch"
	sf, wa := c.MustFunc(r3, ar+".SupportedFormats"), c.MustFunc(r3, ar+".WriteArchive")
	if sf != nil && wa != nil {
		listed := map[string]bool{}
		ast.Inspect(sf.Decl.Body, func(n ast.Node) bool {
			if bl, ok := n.(*ast.BasicLit); ok {
				if tv := info.Types[bl]; tv.Value != nil {
					listed[tv.Value.ExactString()] = true
				}
			}
			return true
		})
		cases := map[string]bool{}
		ast.Inspect(wa.Decl.Body, func(n ast.Node) bool {
			if cc, ok := n.(*ast.CaseClause); ok {
				for _, e := range cc.List {
					if tv := info.Types[e]; tv.Value != nil {
						cases[tv.Value.ExactString()] = true
					}
				}
			}
			return true
		})
		for name := range listed {
			c.Check(cases[name], r3, wa.Name()+":"+name, wa.Decl.Pos(), orStr(ifStr(!cases[name], "SupportedFormats advertises "+name+" but WriteArchive has no case for it"), "advertised and dispatched"))
		}
	}
	c.Floor(r3, 4)

	// Unix file-type bits (S_IFMT = 0170000) mean nothing in Go's fs.FileMode, whose type bits start at 1<<19: a
	// conversion fs.FileMode(0120000 | perm) yields a regular file. Every conversion to fs.FileMode in the archive
	// package is examined: a constant operand (or constant term of an | expression) with bits in 0170000 is reported.
	const r4 = "go-mode-bits"
	n4 := 0
	for _, fi := range p.FuncsIn(ar) {
		if fi.Decl.Body == nil || p.isTestFile(fi.Decl.Pos()) {
			continue
		}
		k := 0
		ast.Inspect(fi.Decl.Body, func(n ast.Node) bool {
			call, ok := n.(*ast.CallExpr)
			if !ok || len(call.Args) != 1 {
				return true
			}
			tv, ok := info.Types[call.Fun]
			if !ok || !tv.IsType() || types.TypeString(tv.Type, nil) != "io/fs.FileMode" {
				return true
			}
			k++
			n4++
			c.Analysed(fi)
			bad := false
			ast.Inspect(call.Args[0], func(m ast.Node) bool {
				e, isExpr := m.(ast.Expr)
				if !isExpr {
					return true
				}
				if cv := info.Types[e]; cv.Value != nil {
					if u, ok := tvUint(cv); ok && u&0o170000 != 0 && u < 1<<19 {
						bad = true
					}
					return false
				}
				return true
			})
			c.Check(!bad, r4, fi.Name()+":fs.FileMode#"+itoa(k), call.Pos(), orStr(ifStr(bad, "Unix file-type bits (0170000) are converted to fs.FileMode, where they are not a type: a symbolic link (0120000) becomes a regular file whose content is the link target"), "no Unix type bits in the converted value"))
			return true
		})
	}
	c.Floor(r4, 1)
}

// isPathMatcher: a function of the archive package that answers whether a path (first parameter, a string) is selected
// by the path filters (second parameter, a []string) — MatchesPathFilter and the variant that also records which filter
// matched.
func isPathMatcher(fn *types.Func) bool {
	if fn == nil || fn.Pkg() == nil || shortPkg(fn.Pkg().Path()) != "internal/archive" {
		return false
	}
	sig, _ := fn.Type().(*types.Signature)
	if sig == nil || sig.Recv() != nil || sig.Params().Len() < 2 || sig.Results().Len() != 1 {
		return false
	}
	if types.TypeString(sig.Params().At(0).Type(), nil) != "string" || types.TypeString(sig.Params().At(1).Type(), nil) != "[]string" {
		return false
	}
	return types.TypeString(sig.Results().At(0).Type(), nil) == "bool"
}
