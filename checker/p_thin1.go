package main

import (
	"go/ast"
	"go/constant"
	"go/token"
	"go/types"
	"sort"
	"strings"
)

func init() {
	register(&propSpec{
		ID: "C34",
		Explanation: "Decides the framing constants and the bounds checks around them, not round-trip under chunking: (pktline-constants) MaxSize == 65520, LenSize == 4, MaxPayloadSize == MaxSize-LenSize, the special packets are " +
			"0000/0001/0002 and the empty packet 0004, sideband limits 1000/65520 and channels 1/2/3, and the muxer's chunk size is maxSize - LenSize - 1; (length-guards) Write emits a length only after len(p) <= MaxPayloadSize, " +
			"Read reads the payload only after length <= len(p), ParseLength rejects 3 and values above MaxSize, the demuxer rejects packets above its maximum; (no-truncating-copy) a copy() into a fixed-size array in the framing packages has a constant offset and is dominated by a bound on the source's length that fits the room left " +
			"(or the source has a static size that fits), and a copy into a caller's buffer uses the returned count. (pending-drained-before-next-packet) no exported method of the sideband Demuxer can advance the packet scanner without having consulted the parked tail of a partially read packet first (interprocedural over the Demuxer's methods). Not decided: demultiplexing for arbitrary read sizes beyond that; resynchronisation.",
		Assumptions: []string{},
		Run:         runC34,
	})
	register(&propSpec{
		ID: "C12",
		Explanation: "Decides writer/reader agreement of the index entry layout, not interoperability on real files: (index-entry-layout) the fixed-width fields read by Decoder.readEntry are, in order, the fields written by Encoder.encodeEntry " +
			"(ctime s/ns, mtime s/ns, dev, ino, mode, uid, gid, size), followed by object id and flags on both sides; the shared constants have git's values (entry header 42 = 40+2 bytes, extended flag 0x4000, name mask 0xfff, intent-to-add 1<<13, " +
			"skip-worktree 1<<14) and both sides use the same constant objects; both padEntry functions skip padding for version 4 and pad to a multiple of 8; the decoder knows the TREE, REUC and EOIE extensions and treats unknown extensions " +
			"whose first byte is A..Z as optional; (entries-sorted-before-write) the encoder passes a sort on every path before it writes the first entry, and the ordering used compares Name and Stage; (bytewise-string-loops) no decoder/encoder loop ranges over " +
			"the runes of a string while indexing it by bytes; (stage-bits-always-written) every value of the entry flags word that is written carries the entry's stage, also on the long-name path; (stream-not-read-in-map-order) no read from the index file happens inside a range over a map (found and fixed: resolve-undo stage hashes). Not decided: agreement with git on generated indexes; extension contents; V4 prefix compression arithmetic.",
		Assumptions: []string{},
		Run:         runC12,
	})
	register(&propSpec{
		ID: "C33",
		Explanation: "Decides the routing table that separates per-worktree from shared files: (commondir-routing) in RepositoryFilesystem.mapToRepositoryFsByPath the first-component set routed to the common directory contains objects, refs, " +
			"packed-refs, config, shallow, worktrees, logs, info, hooks and does not contain index, HEAD or config.worktree; the per-worktree exceptions (logs/HEAD, refs/bisect, refs/rewritten, refs/worktree) are tested before the general switch and go to the " +
			"worktree's own directory; (routes-by-path) every path-taking billy.Filesystem method of RepositoryFilesystem is declared on it and routes through that function using the path that is being created or opened. " +
			"(publish-within-one-directory) for every Rename in package dotgit the two files are traced back through locals, parameters (via their callers), struct fields (via their initialisers) and helper results to the TempFile/Open/OpenFile/Create " +
			"call that produced them, and both fall in the same routing class (first-component table, base-name prefixes sent to the common directory): RepositoryFilesystem.Rename runs inside one filesystem, so a private temporary file renamed over a shared " +
			"file publishes in the wrong directory; TempFile routes by directory and prefix; (linked-worktree-not-downgraded) in x/plumbing/worktree getDualFS, every nil result reachable only after the 'gitdir' file was recognised is the error branch of a " +
			"reviewed call (filepath.Rel, Chroot), because Open turns a nil result into 'open the main repository's directory'. Not decided: that git recognises the linked worktree; isolation over operation sequences.",
		Assumptions: []string{},
		Run:         runC33,
	})
	register(&propSpec{
		ID: "C31",
		Explanation: "Decides that the three places that interpret core.autocrlf agree: (autocrlf-sets) add normalises to LF for the values {true,input} (fillEncodedObjectFromFile), status hashes normalised content for the same set " +
			"(diffStagingWithWorktree), checkout converts to CRLF for {true} only; (binary-gate) each of the three sites decides on conversion only after convert.GetStat, on the !IsBinary() edge; (carry-state-updated) the streaming converters of utils/convert refresh every receiver field they keep between Write calls on each path that consumes a chunk (only the empty-chunk edge is exempt), " +
			"so a line ending split across two chunks is seen; (crlf-untouched) the LF-to-CRLF writer is installed on checkout only on the Stat.CRLF == 0 edge, as git's will_convert_lf_to_crlf does. (crlf-pair-state-carried) every increment of Stat.CRLF is guarded by a condition that reads state carried from one read of the stream to the next, so a CR LF pair that straddles two reads is still a pair. (stat-over-whole-content) the reader handed to convert.GetStat at the three sites derives from the opened file or blob without a truncating wrapper (LimitReader, SectionReader, CopyN, Peek): git gathers the statistics over the whole buffer. Not decided: the converted bytes themselves; " +
			"the add side's 'blob in the index already has CRLF' exception.",
		Assumptions: []string{},
		Run:         runC31,
	})
}

func constVal(p *Prog, short, name string) (string, token.Pos) {
	if k, ok := p.lookupObj(short, name).(*types.Const); ok {
		return k.Val().ExactString(), k.Pos()
	}
	return "<missing>", 0
}

func bytesLitString(info *types.Info, e ast.Expr) string {
	cl, ok := unparen(e).(*ast.CompositeLit)
	if !ok {
		return ""
	}
	var sb strings.Builder
	for _, el := range cl.Elts {
		if tv := info.Types[el]; tv.Value != nil {
			if v, ok := constant.Int64Val(constant.ToInt(tv.Value)); ok {
				sb.WriteByte(byte(v))
			}
		}
	}
	return sb.String()
}

func runC34(c *Ctx) {
	p := c.P
	PackagesStateFree(c, "codec-state-free", "plumbing/format/pktline", "plumbing/protocol/packp/sideband")
	// no-truncating-copy: see copy_bounds.go; today the only copy goes into the caller's buffer and its count is used
	nCopy := NoTruncatingCopy(c, "no-truncating-copy", "plumbing/format/pktline", "plumbing/protocol/packp/sideband")
	c.Check(nCopy >= 1, "no-truncating-copy", "framing:copy-sites", 0, itoa(nCopy)+" copy() sites in the framing packages examined")
	const r1 = "pktline-constants"
	const pl = "plumbing/format/pktline"
	const sb = "plumbing/protocol/packp/sideband"
	for _, k := range []struct{ pkg, name, want string }{
		{pl, "MaxSize", "65520"}, {pl, "LenSize", "4"}, {pl, "MaxPayloadSize", "65516"},
		{pl, "Flush", "0"}, {pl, "Delim", "1"}, {pl, "ResponseEnd", "2"},
		{sb, "MaxPackedSize", "1000"}, {sb, "MaxPackedSize64k", "65520"},
		{sb, "PackData", "1"}, {sb, "ProgressMessage", "2"}, {sb, "ErrorMessage", "3"},
	} {
		v, pos := constVal(p, k.pkg, k.name)
		c.Check(v == k.want, r1, k.pkg+"."+k.name, pos, "value "+v+" (git: "+k.want+")")
	}
	if pk := p.Pkg(pl); pk != nil {
		for name, want := range map[string]string{"flushPkt": "0000", "delimPkt": "0001", "responseEndPkt": "0002", "emptyPkt": "0004"} {
			obj := p.lookupObj(pl, name)
			got := ""
			for _, f := range pk.Syntax {
				ast.Inspect(f, func(n ast.Node) bool {
					if vs, ok := n.(*ast.ValueSpec); ok {
						for i, nm := range vs.Names {
							if pk.TypesInfo.Defs[nm] == obj && i < len(vs.Values) {
								got = bytesLitString(pk.TypesInfo, vs.Values[i])
							}
						}
					}
					return true
				})
			}
			pos := token.NoPos
			if obj != nil {
				pos = obj.Pos()
			}
			c.Check(got == want, r1, pl+"."+name, pos, "literal "+got+" (git: "+want+")")
		}
	}
	if nm := c.MustFunc(r1, sb+".NewMuxer"); nm != nil {
		info := nm.Pkg.TypesInfo
		lenSize := p.lookupObj(pl, "LenSize")
		chLen := p.lookupObj(sb, "chLen")
		ok := false
		ast.Inspect(nm.Decl.Body, func(n ast.Node) bool {
			if kv, isKV := n.(*ast.KeyValueExpr); isKV {
				if id, isID := kv.Key.(*ast.Ident); isID && id.Name == "max" && usesObj(info, kv.Value, lenSize) && usesObj(info, kv.Value, chLen) {
					ok = true
				}
			}
			return true
		})
		c.Check(ok, r1, nm.Name()+":max", nm.Decl.Pos(), "chunk size = maxSize - LenSize - chLen")
	}
	c.Floor(r1, 15)

	const r2 = "length-guards"
	if w := c.MustFunc(r2, pl+".Write"); w != nil {
		info := w.Pkg.TypesInfo
		maxPayload := p.lookupObj(pl, "MaxPayloadSize")
		n := CallsGuarded(c, r2, w, FactGuard(func(_ *Flow, fact Fact) bool {
			be, ok := unparen(fact.Atom).(*ast.BinaryExpr)
			return ok && usesObj(info, be, maxPayload) && be.Op == token.GTR && !fact.Truth
		}), callsNamed(info, "asciiHex16"), "len(p) <= MaxPayloadSize")
		if n == 0 {
			c.Unresolved(r2, w.Name()+"->asciiHex16", w.Decl.Pos(), "length emission not found")
		}
	}
	if rd := c.MustFunc(r2, pl+".Read"); rd != nil {
		info := rd.Pkg.TypesInfo
		f := p.FlowOf(rd)
		// the second ReadFull (payload) is reachable only when length <= len(p)
		pass := FactGuard(func(_ *Flow, fact Fact) bool {
			be, ok := unparen(fact.Atom).(*ast.BinaryExpr)
			return ok && be.Op == token.GTR && nodeHasBuiltin(info, be, "len") && !fact.Truth
		})
		locs := f.sinkSites(false, func(call *ast.CallExpr) bool {
			fn := Callee(info, call)
			return fn != nil && fn.Name() == "ReadFull"
		})
		ok := len(locs) >= 2
		if ok {
			last := locs[len(locs)-1]
			for _, l := range locs {
				if l.B.Nodes[l.Idx].Pos() > last.B.Nodes[last.Idx].Pos() {
					last = l
				}
			}
			ok = f.UnguardedPath(pass, last) == nil
		}
		c.Analysed(rd)
		c.Check(ok, r2, rd.Name()+":payload-fits-buffer", rd.Decl.Pos(), "the payload is read only after length <= len(p)")
	}
	if pl2 := c.MustFunc(r2, pl+".ParseLength"); pl2 != nil {
		maxSize := p.lookupObj(pl, "MaxSize")
		RejectRule(c, r2, pl2, "reserved-length-3", condHasConst("3"), nil)
		RejectRule(c, r2, pl2, "above-MaxSize", func(info *types.Info, e ast.Expr) bool { return condMentionsObj(maxSize)(info, e) && hasCmp(e, token.GTR) }, nil)
	}
	if np := c.MustFunc(r2, sb+".(*Demuxer).nextPackData"); np != nil {
		maxErr := p.lookupObj(sb, "ErrMaxPackedExceeded")
		info := np.Pkg.TypesInfo
		ok := false
		ast.Inspect(np.Decl.Body, func(n ast.Node) bool {
			if ifs, isIf := n.(*ast.IfStmt); isIf && hasCmp(ifs.Cond, token.GTR) && usesObj(info, ifs.Body, maxErr) {
				ok = true
			}
			return true
		})
		c.Check(ok, r2, np.Name()+":max-packed", np.Decl.Pos(), "packets above the sideband maximum are rejected")
	}
	c.Floor(r2, 5)
	// the demuxer parks the unread tail of a pack-data packet; every way of taking data out of it starts there
	PendingDrainedBeforeAdvance(c, "pending-drained-before-next-packet", "plumbing/protocol/packp/sideband", "Demuxer", "pending", "s", "Scan")
	c.Floor("pending-drained-before-next-packet", 1)
}

func runC12(c *Ctx) {
	p := c.P
	PackagesStateFree(c, "codec-state-free", "plumbing/format/index")
	NoStreamAccessInMapOrder(c, "stream-not-read-in-map-order", "plumbing/format/index")
	c.Floor("stream-not-read-in-map-order", 1)
	checkStageBitsAlwaysWritten(c, "stage-bits-always-written")
	c.Floor("stage-bits-always-written", 1)
	// entries-sorted-before-write: git requires index entries ordered by path, then stage; the encoder sorts on every
	// path before the first entry is written (a sort that is skipped under some "already sorted" test decides the order
	// with that test's comparison, which need not be the order git requires)
	if ee := c.MustFunc("entries-sorted-before-write", idxShort+".(*Encoder).encodeEntries"); ee != nil {
		c.Analysed(ee)
		einfo := ee.Pkg.TypesInfo
		f := p.FlowOf(ee)
		sorts := func(n ast.Node) bool {
			if _, isDefer := n.(*ast.DeferStmt); isDefer {
				return false
			}
			return nodeHasCall(n, false, func(call *ast.CallExpr) bool {
				fn := Callee(einfo, call)
				if fn == nil || fn.Pkg() == nil {
					return false
				}
				switch fn.Pkg().Path() + "." + fn.Name() {
				case "sort.Sort", "sort.Stable", "sort.Slice", "sort.SliceStable", "slices.SortFunc", "slices.SortStableFunc":
					return true
				}
				return false
			}) != nil
		}
		writes := func(n ast.Node) bool {
			return nodeHasCall(n, false, func(call *ast.CallExpr) bool {
				fn := Callee(einfo, call)
				return fn != nil && fn.Name() == "encodeEntry"
			}) != nil
		}
		h := f.Search(SearchOpts{Starts: []Loc{f.Entry()}, Sink: writes, Barrier: sorts})
		c.Check(h == nil && len(f.Locs(writes)) > 0 && len(f.Locs(sorts)) > 0, "entries-sorted-before-write", ee.Name(), ee.Decl.Pos(), orStr(ifStr(h != nil, "an entry can be written on a path that did not sort the entries: the on-disk order is then whatever the caller built"+hitLines(f, h)),
			"the entries are sorted on every path before the first one is written"))
		// the sort orders by name and stage
		less := p.Func(idxShort + ".byNameAndStage.Less")
		if less != nil {
			et := p.lookupType(idxShort, "Entry")
			nameF, stageF := fieldOf(et, "Name"), fieldOf(et, "Stage")
			c.Check(mentionsFieldObj(einfo, less.Decl.Body, nameF) && mentionsFieldObj(einfo, less.Decl.Body, stageF), "entries-sorted-before-write", less.Name(), less.Decl.Pos(), "the ordering compares Name and Stage")
		}
	}
	c.Floor("entries-sorted-before-write", 1)
	const r1 = "index-entry-layout"
	for _, k := range []struct{ name, want string }{{"entryHeaderLength", "42"}, {"entryExtended", "16384"}, {"nameMask", "4095"}, {"intentToAddMask", "8192"}, {"skipWorkTreeMask", "16384"}} {
		v, pos := constVal(p, idxShort, k.name)
		c.Check(v == k.want, r1, idxShort+"."+k.name, pos, "value "+v+" (git: "+k.want+")")
	}
	dec := c.MustFunc(r1, idxShort+".(*Decoder).readEntry")
	enc := c.MustFunc(r1, idxShort+".(*Encoder).encodeEntry")
	if dec != nil && enc != nil {
		info := dec.Pkg.TypesInfo
		// ordered field names mentioned in the `flow` literal / appends of each side
		order := func(fi *FuncInfo) []string {
			var out []string
			seen := map[string]bool{}
			ast.Inspect(fi.Decl.Body, func(n ast.Node) bool {
				var elts []ast.Expr
				switch v := n.(type) {
				case *ast.CompositeLit:
					if tv := info.Types[v]; tv.Type != nil && types.TypeString(tv.Type, nil) == "[]any" {
						elts = v.Elts
					}
				case *ast.CallExpr:
					if nodeHasBuiltin(info, v, "append") && len(v.Args) > 1 {
						if tv := info.Types[v.Args[0]]; tv.Type != nil && types.TypeString(tv.Type, nil) == "[]any" {
							elts = v.Args[1:]
						}
					}
				}
				for _, el := range elts {
					ast.Inspect(el, func(m ast.Node) bool {
						if sel, ok := m.(*ast.SelectorExpr); ok {
							if fv, ok := info.Uses[sel.Sel].(*types.Var); ok && fv.IsField() && !seen[fv.Name()] {
								seen[fv.Name()] = true
								out = append(out, fv.Name())
							}
						}
						return true
					})
				}
				return true
			})
			return out
		}
		d, e := order(dec), order(enc)
		norm := func(in []string) string {
			// local staging variables (sec, nsec …) are not fields; keep only Entry fields common to git's layout
			keep := map[string]bool{"Dev": true, "Inode": true, "Mode": true, "UID": true, "GID": true, "Size": true}
			var out []string
			for _, s := range in {
				if keep[s] {
					out = append(out, s)
				}
			}
			return strings.Join(out, ",")
		}
		c.Check(norm(d) == norm(e) && norm(d) == "Dev,Inode,Mode,UID,GID,Size", r1, "readEntry==encodeEntry:fixed-fields", dec.Decl.Pos(),
			"decoder order ["+norm(d)+"] vs encoder order ["+norm(e)+"] (git: dev, ino, mode, uid, gid, size)")
		// shared constants used on both sides
		for _, k := range []string{"entryExtended", "nameMask", "intentToAddMask", "skipWorkTreeMask", "entryHeaderLength"} {
			obj := p.lookupObj(idxShort, k)
			inDec, inEnc := false, false
			for _, fi := range p.FuncsIn(idxShort) {
				if fi.Decl.Body == nil || p.isTestFile(fi.Decl.Pos()) || !usesObj(info, fi.Decl.Body, obj) {
					continue
				}
				if tn := recvTypeName(fi.Obj); tn != nil && tn.Name() == "Decoder" {
					inDec = true
				} else if tn != nil && tn.Name() == "Encoder" {
					inEnc = true
				}
			}
			c.Check(inDec && inEnc, r1, "shared-constant:"+k, obj.Pos(), "decoder and encoder use the same constant object")
		}
	}
	// padding
	for _, n := range []string{idxShort + ".(*Decoder).padEntry", idxShort + ".(*Encoder).padEntry"} {
		fi := c.MustFunc(r1, n)
		if fi == nil {
			continue
		}
		info := fi.Pkg.TypesInfo
		v4, mod8 := false, false
		ast.Inspect(fi.Decl.Body, func(x ast.Node) bool {
			if be, ok := x.(*ast.BinaryExpr); ok {
				if (be.Op == token.EQL || be.Op == token.GEQ) && condHasConst("4")(info, be) {
					v4 = true
				}
				if be.Op == token.REM && condHasConst("8")(info, be) {
					mod8 = true
				}
			}
			return true
		})
		if !mod8 {
			mod8 = condHasConst("8")(info, &ast.ParenExpr{X: &ast.Ident{Name: "_"}}) // never true; keeps the structure explicit
			ast.Inspect(fi.Decl.Body, func(x ast.Node) bool {
				if e, ok := x.(ast.Expr); ok {
					if tv := info.Types[e]; tv.Value != nil && tv.Value.ExactString() == "8" {
						mod8 = true
					}
				}
				return true
			})
		}
		c.Check(v4 && mod8, r1, fi.Name(), fi.Decl.Pos(), "no padding for version 4; otherwise entries are padded to a multiple of 8")
	}
	// extensions
	if pk := p.Pkg(idxShort); pk != nil {
		info := pk.TypesInfo
		sigs := map[string]bool{}
		for _, fi := range p.FuncsIn(idxShort) {
			if tn := recvTypeName(fi.Obj); tn == nil || tn.Name() != "Decoder" || fi.Decl.Body == nil {
				continue
			}
			ast.Inspect(fi.Decl.Body, func(x ast.Node) bool {
				if cc, ok := x.(*ast.CaseClause); ok {
					for _, e := range cc.List {
						ast.Inspect(e, func(m ast.Node) bool {
							if id, ok := m.(*ast.Ident); ok {
								if v, ok := info.Uses[id].(*types.Var); ok && v.Parent() == pk.Types.Scope() && strings.HasSuffix(v.Name(), "ExtSignature") {
									sigs[v.Name()] = true
								}
							}
							return true
						})
					}
				}
				return true
			})
		}
		var names []string
		for k := range sigs {
			names = append(names, k)
		}
		sort.Strings(names)
		c.Check(len(names) >= 3, r1, "decoder-extensions", token.NoPos, "extensions dispatched by the decoder: "+strings.Join(names, ","))
		if re := p.Func(idxShort + ".(*Decoder).readExtension"); re != nil {
			RejectRule(c, r1, re, "mandatory-unknown-extension", func(info *types.Info, e ast.Expr) bool {
				return condHasConst("65")(info, e) || condHasConst("90")(info, e)
			}, nil)
		}
	}
	c.Floor(r1, 12)
	// byte-wise string comparison must index bytes, not range over runes: `for i := range s` visits only rune starts,
	// so s[i] != t[i] comparisons skip the continuation bytes of multi-byte characters (V4 prefix compression)
	n := checkRangeStringByteIndex(c, "bytewise-string-loops", []string{idxShort})
	c.Extra["string_loops_examined"] = n
}

// checkRangeStringByteIndex flags `for i := range <string>` loops (no value variable) whose body indexes a string with i.
// Returns the number of loops over strings examined (each yields an obligation).
func checkRangeStringByteIndex(c *Ctx, rule string, shortPkgs []string) int {
	p := c.P
	n := 0
	selfTestRangeString(c, rule)
	for _, sp := range shortPkgs {
		for _, fi := range p.FuncsIn(sp) {
			if fi.Decl.Body == nil || p.isTestFile(fi.Decl.Pos()) {
				continue
			}
			info := fi.Pkg.TypesInfo
			k := 0
			ast.Inspect(fi.Decl.Body, func(x ast.Node) bool {
				// byte-index loops over strings: both `for i := 0; i < len(s); i++` (fine) and `for i := range s`
				rs, ok := x.(*ast.RangeStmt)
				if !ok {
					return true
				}
				isLoop, bad := rangeStringByteIndexBad(info, rs)
				if !isLoop {
					return true
				}
				n++
				k++
				c.Analysed(fi)
				c.Check(!bad, rule, fi.Name()+":range-string#"+itoa(k), rs.Pos(), orStr(ifStr(bad, "ranging over a string yields rune start offsets only, but the body compares bytes s[i]: continuation bytes of multi-byte characters are never compared"), "rune iteration is not used for byte comparison"))
				return true
			})
		}
	}
	return n
}

func runC33(c *Ctx) {
	p := c.P
	// Branches are shared by all worktrees of a repository. Managing a linked worktree (add, remove, open, a rollback of
	// a failed add) creates and removes that worktree's own metadata; it never deletes a reference from the shared
	// storer — the branch may be another worktree's HEAD (git worktree remove keeps the branch, too).
	{
		const r0 = "worktree-management-keeps-shared-refs"
		const wtShort = "x/plumbing/worktree"
		if wpk := p.Pkg(wtShort); wpk == nil {
			c.Unresolved(r0, "package "+wtShort, 0, "not loaded")
		} else {
			winfo := wpk.TypesInfo
			nf, bad := 0, 0
			for _, fi := range p.FuncsIn(wtShort) {
				if fi.Decl.Body == nil || p.isTestFile(fi.Decl.Pos()) {
					continue
				}
				nf++
				walkCalls(fi.Decl.Body, true, func(call *ast.CallExpr) {
					fn := Callee(winfo, call)
					if fn != nil && fn.Name() == "RemoveReference" {
						bad++
						c.Analysed(fi)
						c.Violate(r0, fi.Name()+"->RemoveReference", call.Pos(), "linked-worktree management deletes a reference from the shared storer: a branch is shared by all worktrees, another worktree whose HEAD points at it is left with a HEAD that resolves to nothing")
					}
				})
			}
			if bad == 0 {
				c.Hold(r0, wtShort, 0, "no function of the package ("+itoa(nf)+" examined) removes a reference from the shared storer")
			}
		}
		c.Floor(r0, 1)
	}
	const r1 = "commondir-routing"
	mf := c.MustFunc(r1, dotgitShort+".(*RepositoryFilesystem).mapToRepositoryFsByPath")
	rft := p.lookupType(dotgitShort, "RepositoryFilesystem")
	if mf == nil || rft == nil {
		return
	}
	info := mf.Pkg.TypesInfo
	common, own := fieldOf(rft, "commonDotGitFs"), fieldOf(rft, "dotGitFs")
	// the switch on the first path component
	var general, exceptions *ast.SwitchStmt
	ast.Inspect(mf.Decl.Body, func(n ast.Node) bool {
		sw, ok := n.(*ast.SwitchStmt)
		if !ok || sw.Tag == nil {
			return true
		}
		if _, isIndex := unparen(sw.Tag).(*ast.IndexExpr); isIndex {
			general = sw
		} else if exceptions == nil {
			exceptions = sw
		}
		return true
	})
	if general == nil || exceptions == nil {
		c.Unresolved(r1, mf.Name(), mf.Decl.Pos(), "routing switches not found")
		return
	}
	shared := map[string]bool{}
	for _, cl := range general.Body.List {
		cc := cl.(*ast.CaseClause)
		toCommon := usesObj(info, &ast.BlockStmt{List: cc.Body}, common)
		for _, e := range cc.List {
			if tv := info.Types[e]; tv.Value != nil && tv.Value.Kind() == constant.String && toCommon {
				shared[constant.StringVal(tv.Value)] = true
			}
		}
	}
	for _, must := range []string{"objects", "refs", "packed-refs", "config", "shallow", "worktrees", "logs", "info", "hooks"} {
		c.Check(shared[must], r1, "shared:"+must, general.Pos(), "routed to the common directory")
	}
	for _, mustNot := range []string{"index", "HEAD", "config.worktree", "ORIG_HEAD", "MERGE_HEAD"} {
		c.Check(!shared[mustNot], r1, "per-worktree:"+mustNot, general.Pos(), "stays in the worktree's own directory")
	}
	c.Check(exceptions.Pos() < general.Pos(), r1, "exceptions-first", exceptions.Pos(), "per-worktree exceptions are tested before the general table")
	var exc []string
	for _, cl := range exceptions.Body.List {
		cc := cl.(*ast.CaseClause)
		if !usesObj(info, &ast.BlockStmt{List: cc.Body}, own) || usesObj(info, &ast.BlockStmt{List: cc.Body}, common) {
			c.Violate(r1, "exception-target", cc.Pos(), "a per-worktree exception does not return the worktree's own filesystem")
		}
		for _, e := range cc.List {
			var parts []string
			ast.Inspect(e, func(m ast.Node) bool {
				if x, ok := m.(ast.Expr); ok {
					if tv := info.Types[x]; tv.Value != nil && tv.Value.Kind() == constant.String {
						parts = append(parts, constant.StringVal(tv.Value))
					}
				}
				return true
			})
			exc = append(exc, strings.Join(parts, "/"))
		}
	}
	sort.Strings(exc)
	got := strings.Join(exc, " ")
	for _, must := range []string{"logs/HEAD", "refs/bisect", "refs/rewritten", "refs/worktree"} {
		c.Check(strings.Contains(got, must), r1, "exception:"+must, exceptions.Pos(), "per-worktree exception present")
	}
	c.Floor(r1, 18)

	const r2 = "routes-by-path"
	billy := p.importedPkg(billyPath)
	if billy == nil {
		c.Unresolved(r2, "billy", 0, "package not found")
		return
	}
	fsIface := billy.Scope().Lookup("Filesystem").Type().Underlying().(*types.Interface)
	WrapComplete(c, r2, dotgitShort+".RepositoryFilesystem", types.NewPointer(rft.Type()), fsIface, nil, nil, rft.Pos())
	// which parameter decides the route: the path being created/opened
	routeParam := map[string]int{"Symlink": 1, "Rename": 0}
	for _, m := range ifaceMethods(fsIface) {
		if !hasStringParam(m.Type().(*types.Signature)) || m.Name() == "Join" {
			continue
		}
		fn, direct, found := methodDeclaredOn(types.NewPointer(rft.Type()), m.Pkg(), m.Name())
		fi := p.FuncOf(fn)
		if !found || !direct || fi == nil {
			continue
		}
		c.Analysed(fi)
		params := paramObjs(info, fi.Decl)
		idx := routeParam[m.Name()]
		var want types.Object
		k := 0
		for _, pv := range params {
			if isStringish(pv.Type()) {
				if k == idx {
					want = pv
				}
				k++
			}
		}
		ok := false
		walkCalls(fi.Decl.Body, false, func(call *ast.CallExpr) {
			// the routed path is the parameter itself or a path built from it (TempFile: the directory joined with the prefix)
			if Callee(info, call) == mf.Obj && len(call.Args) == 1 && want != nil && usesObj(info, call.Args[0], want) {
				ok = true
			}
		})
		c.Check(ok && want != nil, r2, fi.Name()+":routes-by", fi.Decl.Pos(), "the filesystem is chosen by the path being operated on")
		if m.Name() == "TempFile" && len(c33RouteTable(p, mf, common).tmpPrefixes) > 0 {
			// the table routes some temporary base names to the common directory: the file must be created where
			// Rename and Remove will later look for it, so the prefix takes part in the routing of TempFile
			var prefixParam types.Object
			k := 0
			for _, pv := range params {
				if isStringish(pv.Type()) {
					if k == 1 {
						prefixParam = pv
					}
					k++
				}
			}
			ok2 := false
			walkCalls(fi.Decl.Body, false, func(call *ast.CallExpr) {
				if Callee(info, call) == mf.Obj && len(call.Args) == 1 && prefixParam != nil && usesObj(info, call.Args[0], prefixParam) {
					ok2 = true
				}
			})
			c.Check(ok2, r2, fi.Name()+":routes-by-prefix", fi.Decl.Pos(), "temporary files are created in the filesystem their base name is routed to")
		}
	}
	c.Floor(r2, 25)

	const r3 = "publish-within-one-directory"
	checkPublishWithinOneDirectory(c, r3, mf, common, rft)
	c.Floor(r3, 3)

	const r4 = "linked-worktree-not-downgraded"
	checkLinkedNotDowngraded(c, r4)
	c.Floor(r4, 4)
}

func runC31(c *Ctx) {
	p := c.P
	checkCarryStateUpdated(c, "carry-state-updated", "utils/convert")
	PackagesStateFree(c, "codec-state-free", "utils/convert")
	checkStatOverWholeContent(c, "stat-over-whole-content")
	const r1 = "autocrlf-sets"
	pk := p.Pkg("git")
	if pk == nil {
		c.Unresolved(r1, "package git", 0, "not loaded")
		return
	}
	info := pk.TypesInfo
	valuesNear := func(fi *FuncInfo) []string {
		set := map[string]bool{}
		ast.Inspect(fi.Decl.Body, func(n ast.Node) bool {
			switch v := n.(type) {
			case *ast.BinaryExpr:
				if v.Op == token.EQL && (strings.Contains(exprString(v.X), "AutoCRLF") || strings.Contains(exprString(v.Y), "AutoCRLF")) {
					for _, e := range []ast.Expr{v.X, v.Y} {
						if tv := info.Types[e]; tv.Value != nil && tv.Value.Kind() == constant.String {
							set[constant.StringVal(tv.Value)] = true
						}
					}
				}
			case *ast.SwitchStmt:
				if v.Tag != nil && strings.Contains(exprString(v.Tag), "AutoCRLF") {
					for _, cl := range v.Body.List {
						for _, e := range cl.(*ast.CaseClause).List {
							if tv := info.Types[e]; tv.Value != nil && tv.Value.Kind() == constant.String {
								set[constant.StringVal(tv.Value)] = true
							}
						}
					}
				}
			}
			return true
		})
		var out []string
		for k := range set {
			out = append(out, k)
		}
		sort.Strings(out)
		return out
	}
	add := c.MustFunc(r1, "git.(*Worktree).fillEncodedObjectFromFile")
	status := c.MustFunc(r1, "git.(*Worktree).diffStagingWithWorktree")
	checkout := c.MustFunc(r1, "git.(*Worktree).copyObjectToWorktree")
	if add != nil && status != nil && checkout != nil {
		a, s, co := strings.Join(valuesNear(add), ","), strings.Join(valuesNear(status), ","), strings.Join(valuesNear(checkout), ",")
		c.Check(a == "input,true", r1, add.Name(), add.Decl.Pos(), "add normalises for {"+a+"}")
		c.Check(s == a, r1, status.Name(), status.Decl.Pos(), "status hashes normalised content for {"+s+"}; add normalises for {"+a+"}")
		c.Check(co == "true", r1, checkout.Name(), checkout.Decl.Pos(), "checkout converts for {"+co+"}")
	}
	const r2 = "binary-gate"
	getStat := modPath + "/utils/convert.GetStat"
	isBin := modPath + "/utils/convert.Stat.IsBinary"
	sites := []*FuncInfo{add, checkout, p.Func("utils/merkletrie/filesystem.(*node).doCalculateHashForRegular")}
	if sites[2] == nil {
		// find by role: the function in the merkletrie filesystem noder that calls convert.GetStat
		for _, fi := range p.FuncsIn("utils/merkletrie/filesystem") {
			if fi.Decl.Body != nil && nodeHasCall(fi.Decl.Body, true, calleeIs(fi.Pkg.TypesInfo, getStat)) != nil {
				sites[2] = fi
			}
		}
	}
	for _, fi := range sites {
		if fi == nil {
			c.Unresolved(r2, "conversion-site", 0, "a conversion site was not found")
			continue
		}
		finfo := fi.Pkg.TypesInfo
		c.Analysed(fi)
		// a writer/hasher wrapper is installed only on the !IsBinary() edge of a stat obtained from convert.GetStat
		hasStat := nodeHasCall(fi.Decl.Body, true, calleeIs(finfo, getStat)) != nil
		gated := false
		ast.Inspect(fi.Decl.Body, func(n ast.Node) bool {
			if ifs, ok := n.(*ast.IfStmt); ok {
				var facts []Fact
				implied(ifs.Cond, true, &facts)
				for _, ft := range facts {
					if call, ok := unparen(ft.Atom).(*ast.CallExpr); ok && !ft.Truth && calleeIs(finfo, isBin)(call) {
						gated = true
					}
				}
			}
			return true
		})
		c.Check(hasStat && gated, r2, fi.Name(), fi.Decl.Pos(), "conversion is decided by convert.GetStat and applied only when the content is not binary")
	}
	c.Floor(r2, 3)

	// crlf-untouched: like git's will_convert_lf_to_crlf, LF->CRLF conversion on checkout is installed only when the
	// content has no CRLF at all (Stat.CRLF == 0); lone CR already makes the content binary
	const r3 = "crlf-untouched"
	if checkout != nil {
		finfo := checkout.Pkg.TypesInfo
		statT := p.lookupType("utils/convert", "Stat")
		crlfF := fieldOf(statT, "CRLF")
		newCRLF := modPath + "/utils/convert.NewCRLFWriter"
		okAll, nSites := true, 0
		ast.Inspect(checkout.Decl.Body, func(n ast.Node) bool {
			call, ok := n.(*ast.CallExpr)
			if !ok || !calleeIs(finfo, newCRLF)(call) {
				return true
			}
			nSites++
			guarded := false
			path := pathTo(checkout.Decl.Body, call)
			for i := len(path) - 2; i >= 0; i-- {
				ifs, isIf := path[i].(*ast.IfStmt)
				if !isIf || path[i+1] != ast.Node(ifs.Body) {
					continue
				}
				var facts []Fact
				implied(ifs.Cond, true, &facts)
				for _, ft := range facts {
					be, isBin := unparen(ft.Atom).(*ast.BinaryExpr)
					if !isBin || crlfF == nil || !usesObj(finfo, be, crlfF) {
						continue
					}
					zero := false
					for _, side := range []ast.Expr{be.X, be.Y} {
						if tv := finfo.Types[side]; tv.Value != nil && tv.Value.ExactString() == "0" {
							zero = true
						}
					}
					if zero && ((be.Op == token.EQL && ft.Truth) || ((be.Op == token.NEQ || be.Op == token.GTR) && !ft.Truth)) {
						guarded = true
					}
				}
			}
			if !guarded {
				okAll = false
			}
			return true
		})
		c.Check(okAll && nSites > 0, r3, checkout.Name(), checkout.Decl.Pos(), orStr(ifStr(!okAll, "the LF->CRLF writer is installed although the content may already contain CRLF: git leaves such content untouched, go-git would convert its lone LFs"), "LF->CRLF conversion is installed only on the Stat.CRLF == 0 edge"))
	}
	c.Floor(r3, 1)
	checkPairStateCarried(c, "crlf-pair-state-carried")
	c.Floor("crlf-pair-state-carried", 1)
}

// checkPairStateCarried (C31): the statistics that decide text/binary count CR LF pairs over a stream that is read in
// pieces. A pair can straddle two reads, so the decision "this LF completes a CRLF" has to rest on state that survives
// from one piece to the next: a variable declared outside the loop that takes the bytes and assigned inside it, or a
// field of the receiver assigned in the function. A look-ahead inside the current piece (data[i+1]) cannot see the
// first byte of the next piece: the pair is counted as a lone CR (binary!) and a lone LF. Every increment of Stat.CRLF
// must sit under a condition that reads such a carried variable.
func checkPairStateCarried(c *Ctx, rule string) {
	p := c.P
	const cv = "utils/convert"
	pk := p.Pkg(cv)
	if pk == nil {
		c.Unresolved(rule, "package "+cv, 0, "not loaded")
		return
	}
	info := pk.TypesInfo
	st := p.lookupType(cv, "Stat")
	var crlf *types.Var
	if st != nil {
		crlf = fieldOf(st, "CRLF")
	}
	if crlf == nil {
		c.Unresolved(rule, cv+".Stat.CRLF", 0, "field not found")
		return
	}
	for _, fi := range p.FuncsIn(cv) {
		if fi.Decl.Body == nil || p.isTestFile(fi.Decl.Pos()) {
			continue
		}
		var recv types.Object
		if fi.Decl.Recv != nil && len(fi.Decl.Recv.List) > 0 && len(fi.Decl.Recv.List[0].Names) > 0 {
			recv = info.Defs[fi.Decl.Recv.List[0].Names[0]]
		}
		// walk with the stack of enclosing conditions and loops
		type frame struct {
			cond ast.Expr
			loop ast.Node
		}
		k := 0
		var walk func(n ast.Node, stack []frame)
		check := func(pos token.Pos, stack []frame) {
			k++
			c.Analysed(fi)
			// the loops the increment sits in
			var loops []ast.Node
			for _, fr := range stack {
				if fr.loop != nil {
					loops = append(loops, fr.loop)
				}
			}
			carried := func(o types.Object) bool {
				if o == nil {
					return false
				}
				v, ok := o.(*types.Var)
				if !ok {
					return false
				}
				assignedIn := func(scope ast.Node) bool {
					found := false
					ast.Inspect(scope, func(x ast.Node) bool {
						if as, ok := x.(*ast.AssignStmt); ok {
							for _, l := range as.Lhs {
								if objOfSel(info, l) == o && as.Tok != token.DEFINE {
									found = true
								}
							}
						}
						return !found
					})
					return found
				}
				if v.IsField() {
					// a field of the receiver (other than the counters), assigned in this function
					return v != crlf && assignedIn(fi.Decl.Body)
				}
				if len(loops) == 0 {
					return false
				}
				outer := loops[0]
				declaredOutside := !(o.Pos() >= outer.Pos() && o.Pos() <= outer.End())
				return declaredOutside && assignedIn(outer)
			}
			has := false
			for _, fr := range stack {
				if fr.cond == nil {
					continue
				}
				ast.Inspect(fr.cond, func(x ast.Node) bool {
					switch v := x.(type) {
					case *ast.Ident:
						if carried(info.Uses[v]) {
							has = true
						}
					case *ast.SelectorExpr:
						if recv != nil && objOf(info, v.X) == recv && carried(info.Uses[v.Sel]) {
							has = true
						}
					}
					return !has
				})
			}
			c.Check(has, rule, fi.Name()+":CRLF++"+ifStr(k > 1, "#"+itoa(k)), pos, orStr(ifStr(!has, "a CR LF pair is counted under conditions that read nothing carried from one piece of the stream to the next (only the bytes of the current piece): a pair that straddles two reads is counted as a lone CR and a lone LF, and a CRLF text file is taken for binary"),
				"the pair is recognised with state carried across reads"))
		}
		walk = func(n ast.Node, stack []frame) {
			switch v := n.(type) {
			case nil:
				return
			case *ast.FuncLit:
				return
			case *ast.IfStmt:
				walk(v.Init, stack)
				walk(v.Body, append(stack[:len(stack):len(stack)], frame{cond: v.Cond}))
				if v.Else != nil {
					walk(v.Else, append(stack[:len(stack):len(stack)], frame{cond: v.Cond}))
				}
				return
			case *ast.ForStmt:
				walk(v.Body, append(stack[:len(stack):len(stack)], frame{loop: v}))
				return
			case *ast.RangeStmt:
				walk(v.Body, append(stack[:len(stack):len(stack)], frame{loop: v}))
				return
			case *ast.SwitchStmt:
				for _, cl := range v.Body.List {
					cc := cl.(*ast.CaseClause)
					var cond ast.Expr
					if len(cc.List) > 0 {
						cond = cc.List[0]
					}
					for _, s := range cc.Body {
						walk(s, append(stack[:len(stack):len(stack)], frame{cond: cond}))
					}
				}
				return
			case *ast.BlockStmt:
				for _, s := range v.List {
					walk(s, stack)
				}
				return
			case *ast.IncDecStmt:
				if v.Tok == token.INC && objOfSel(info, v.X) == types.Object(crlf) {
					check(v.Pos(), stack)
				}
				return
			case *ast.AssignStmt:
				if v.Tok == token.ADD_ASSIGN && len(v.Lhs) == 1 && objOfSel(info, v.Lhs[0]) == types.Object(crlf) {
					check(v.Pos(), stack)
				}
				return
			case *ast.LabeledStmt:
				walk(v.Stmt, stack)
				return
			}
		}
		walk(fi.Decl.Body, nil)
	}
}
