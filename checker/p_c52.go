package main

import (
	"go/ast"
	"go/constant"
	"go/token"
	"go/types"
	"sort"
	"strings"
)

func init() {
	register(&propSpec{
		ID: "C52",
		Explanation: "Decides writer/reader agreement and the write discipline of the reflog codec, not interoperability on real files: (reflog-field-coverage) every field of reflog.Entry and reflog.Signature that Encode reads is assigned by " +
			"decodeLine/decodeTimestamp and vice versa; (message-normalised) Encode uses Entry.Message only as the argument of normalizeMessage, and normalizeMessage returns strings.Join(strings.Fields(…), \" \"), so no line break or run of " +
			"blanks can reach the file; (line-format) the two format strings of Encode differ only by the tab-separated message, name/e-mail/time/zone are laid out as '%s <%s> %d %c%02d%02d', and every separator byte of the format " +
			"(space, '<', '>', tab, newline) is one the decoder splits on; (append-only) DotGit.ReflogWriter opens the log with O_APPEND|O_CREATE and without O_TRUNC and the filesystem storer writes through it. " +
			"(zone-sign-whole-offset) the decoder negates the combined hours-and-minutes offset on the edge that tests the sign character (or negates the minutes under a test of the sign character when the sign is parsed with the hours); " +
			"taking the minutes' sign from the parsed hours, or leaving them unsigned, is reported; other shapes are reported as not decided. (identity-without-delimiters) Encode uses Signature.Name and Signature.Email only as arguments of a function of the package that handles '<', '>' and newline (found and fixed, 27ccd68: a raw `no<angle` was listed by git as name `no`, e-mail `angle <e@x`). Not decided: that git lists the same values.",
		Assumptions: []string{"fmt and strings behave as documented"},
		Run:         runC52,
	})
}

func runC52(c *Ctx) {
	p := c.P
	const rl = "plumbing/format/reflog"
	PackagesStateFree(c, "codec-state-free", rl)

	const r1 = "reflog-field-coverage"
	enc, dec := c.MustFunc(r1, rl+".Encode"), c.MustFunc(r1, rl+".decodeLine")
	if enc == nil || dec == nil {
		return
	}
	c.Analysed(enc)
	c.Analysed(dec)
	decFns := []*FuncInfo{dec}
	if dt := p.Func(rl + ".decodeTimestamp"); dt != nil {
		decFns = append(decFns, dt)
	}
	for _, tname := range []string{"Entry", "Signature"} {
		tn := p.lookupType(rl, tname)
		if tn == nil {
			c.Unresolved(r1, rl+"."+tname, 0, "type not found")
			continue
		}
		reads, _ := fieldAccess(p, tn, []*FuncInfo{enc}, nil)
		_, writes := fieldAccess(p, tn, decFns, nil)
		st := tn.Type().Underlying().(*types.Struct)
		for i := 0; i < st.NumFields(); i++ {
			f := st.Field(i).Name()
			_, r := reads[f]
			_, w := writes[f]
			if nt, ok := st.Field(i).Type().(*types.Named); ok && nt.Obj().Pkg() == tn.Pkg() && nt.Obj().Name() == "Signature" {
				c.Check(r, r1, tname+"."+f, tn.Pos(), "nested Signature: read by Encode; its own fields are judged one by one")
				continue
			}
			switch {
			case r && w:
				c.Hold(r1, tname+"."+f, reads[f], "written by Encode and assigned by the decoder")
			case r && !w:
				c.Violate(r1, tname+"."+f, reads[f], "written by Encode but never assigned by the decoder: the value does not survive a round trip")
			case !r && w:
				c.Violate(r1, tname+"."+f, writes[f], "assigned by the decoder but never written by Encode")
			default:
				c.Violate(r1, tname+"."+f, tn.Pos(), "neither encoded nor decoded")
			}
		}
	}
	c.Floor(r1, 7)

	// message-normalised
	const r2 = "message-normalised"
	info := enc.Pkg.TypesInfo
	norm := c.MustFunc(r2, rl+".normalizeMessage")
	entry := p.lookupType(rl, "Entry")
	if norm != nil && entry != nil {
		msgF := fieldOf(entry, "Message")
		bad, good := 0, 0
		var badPos ast.Node
		ast.Inspect(enc.Decl.Body, func(n ast.Node) bool {
			call, ok := n.(*ast.CallExpr)
			if ok && Callee(info, call) == norm.Obj {
				for _, a := range call.Args {
					if sel, ok := unparen(a).(*ast.SelectorExpr); ok && info.Uses[sel.Sel] == types.Object(msgF) {
						good++
					}
				}
				return false
			}
			if sel, ok := n.(*ast.SelectorExpr); ok && info.Uses[sel.Sel] == types.Object(msgF) {
				bad++
				badPos = sel
			}
			return true
		})
		if bad > 0 {
			c.Violate(r2, enc.Name()+":raw-message", badPos.Pos(), "Entry.Message reaches the output without normalizeMessage: an embedded line break splits the entry")
		} else {
			c.Check(good > 0, r2, enc.Name()+":message-through-normalizer", enc.Decl.Pos(), "Entry.Message is used only as the argument of normalizeMessage")
		}
		// normalizeMessage: every return is strings.Join(strings.Fields(x), " ") (possibly through a local)
		ninfo := norm.Pkg.TypesInfo
		c.Analysed(norm)
		okAll, nRet := true, 0
		ast.Inspect(norm.Decl.Body, func(n ast.Node) bool {
			r, ok := n.(*ast.ReturnStmt)
			if !ok || len(r.Results) != 1 {
				return true
			}
			nRet++
			call, ok := unparen(r.Results[0]).(*ast.CallExpr)
			if !ok || !calleeIs(ninfo, "strings.Join")(call) || len(call.Args) != 2 || constStr(ninfo, call.Args[1]) != " " {
				okAll = false
				return true
			}
			// first argument: strings.Fields(...) directly or a local assigned from it once
			isFields := func(e ast.Expr) bool {
				cl, ok := unparen(e).(*ast.CallExpr)
				return ok && calleeIs(ninfo, "strings.Fields")(cl)
			}
			a0 := call.Args[0]
			if isFields(a0) {
				return true
			}
			if obj := objOf(ninfo, a0); obj != nil {
				nAs, fromFields := 0, false
				ast.Inspect(norm.Decl.Body, func(m ast.Node) bool {
					if as, ok := m.(*ast.AssignStmt); ok {
						for i, l := range as.Lhs {
							if objOf(ninfo, l) == obj && len(as.Rhs) == len(as.Lhs) {
								nAs++
								fromFields = isFields(as.Rhs[i])
							}
						}
					}
					return true
				})
				if nAs == 1 && fromFields {
					return true
				}
			}
			okAll = false
			return true
		})
		c.Check(okAll && nRet > 0, r2, norm.Name()+":fields-join", norm.Decl.Pos(), "returns strings.Join(strings.Fields(msg), \" \"): no line break, tab or run of blanks survives")
	}
	c.Floor(r2, 2)

	// identity-without-delimiters: name and e-mail sit between fixed delimiters of the line (SP, '<', '>', LF). git writes
	// an identity without '<', '>' and newline (strbuf_addstr_without_crud); a raw name `a<b` shifts the e-mail field for
	// every reader, a newline in it splits the entry in two. Encode uses Signature.Name and Signature.Email only as the
	// argument of a function of the package whose body handles all three delimiter bytes.
	const r2b = "identity-without-delimiters"
	if sigT := p.lookupType(rl, "Signature"); sigT == nil {
		c.Unresolved(r2b, rl+".Signature", enc.Decl.Pos(), "type not found")
	} else {
		handlesDelims := func(fi *FuncInfo) bool {
			if fi == nil || fi.Decl.Body == nil {
				return false
			}
			finfo := fi.Pkg.TypesInfo
			seen := map[rune]bool{}
			ast.Inspect(fi.Decl.Body, func(n ast.Node) bool {
				e, ok := n.(ast.Expr)
				if !ok {
					return true
				}
				tv := finfo.Types[e]
				if tv.Value == nil {
					return true
				}
				switch tv.Value.Kind() {
				case constant.Int:
					if v, ok := constant.Int64Val(tv.Value); ok && (v == '\n' || v == '<' || v == '>') {
						seen[rune(v)] = true
					}
				case constant.String:
					for _, r := range constant.StringVal(tv.Value) {
						if r == '\n' || r == '<' || r == '>' {
							seen[r] = true
						}
					}
				}
				return true
			})
			return seen['\n'] && seen['<'] && seen['>']
		}
		for _, fname := range []string{"Name", "Email"} {
			fv := fieldOf(sigT, fname)
			if fv == nil {
				c.Unresolved(r2b, rl+".Signature."+fname, enc.Decl.Pos(), "field not found")
				continue
			}
			raw, clean := token.NoPos, 0
			ast.Inspect(enc.Decl.Body, func(n ast.Node) bool {
				if call, ok := n.(*ast.CallExpr); ok {
					if fn := Callee(info, call); fn != nil && fn.Pkg() == enc.Pkg.Types && handlesDelims(p.FuncOf(fn)) {
						for _, a := range call.Args {
							if sel, ok := unparen(a).(*ast.SelectorExpr); ok && info.Uses[sel.Sel] == types.Object(fv) {
								clean++
							}
						}
						return false
					}
				}
				if sel, ok := n.(*ast.SelectorExpr); ok && info.Uses[sel.Sel] == types.Object(fv) {
					raw = sel.Pos()
				}
				return true
			})
			ok := !raw.IsValid() && clean > 0
			c.Check(ok, r2b, enc.Name()+":"+fname, orPos(raw, enc.Decl.Pos()), orStr(ifStr(!ok, "Signature."+fname+" reaches the line as it is: a '<' or '>' in it moves the field boundaries for git and for the decoder (`no<angle <e@x>` reads as name `no`, e-mail `angle <e@x`), a newline splits the entry"),
				"Signature."+fname+" is written through a function that removes '<', '>' and newline"))
		}
	}

	// line-format
	const r3 = "line-format"
	var formats []string
	ast.Inspect(enc.Decl.Body, func(n ast.Node) bool {
		call, ok := n.(*ast.CallExpr)
		if ok && calleeIs(info, "fmt.Fprintf")(call) && len(call.Args) >= 2 {
			if tv := info.Types[call.Args[1]]; tv.Value != nil && tv.Value.Kind() == constant.String {
				formats = append(formats, constant.StringVal(tv.Value))
			}
		}
		return true
	})
	sort.Slice(formats, func(i, j int) bool { return len(formats[i]) < len(formats[j]) })
	if len(formats) == 0 {
		c.Unresolved(r3, enc.Name()+":formats", enc.Decl.Pos(), "no constant fmt.Fprintf format found")
	} else {
		short := formats[0]
		// the layout is judged on the literal skeleton of the format (verbs collapsed), not on the verbs chosen
		c.Check(fmtSkeleton(short) == "% % % <%> % %\n", r3, enc.Name()+":entry-layout", enc.Decl.Pos(), "entry without message is laid out as old SP new SP name SP <email> SP seconds SP zone LF: "+strconvQuote(short))
		for _, f := range formats[1:] {
			c.Check(fmtSkeleton(f) == "% % % <%> % %\t%\n", r3, enc.Name()+":message-layout", enc.Decl.Pos(), "entry with message = entry + TAB message LF: "+strconvQuote(f))
		}
		// separators of the format are bytes the decoder splits on
		seps := map[byte]bool{}
		lit := short
		for _, f := range formats {
			lit += f
		}
		for i := 0; i < len(lit); i++ {
			if lit[i] == '%' {
				for i+1 < len(lit) && !strings.ContainsRune("sdcv", rune(lit[i+1])) {
					i++
				}
				i++
				continue
			}
			seps[lit[i]] = true
		}
		decBytes := map[byte]bool{}
		dinfo := dec.Pkg.TypesInfo
		collect := func(fi *FuncInfo) {
			ast.Inspect(fi.Decl.Body, func(n ast.Node) bool {
				if e, ok := n.(ast.Expr); ok {
					if tv := dinfo.Types[e]; tv.Value != nil {
						switch tv.Value.Kind() {
						case constant.Int:
							if v, ok := constant.Int64Val(tv.Value); ok && v > 0 && v < 128 {
								if bl, isLit := e.(*ast.BasicLit); isLit && bl.Kind.String() == "CHAR" {
									decBytes[byte(v)] = true
								}
							}
						case constant.String:
							s := constant.StringVal(tv.Value)
							if len(s) == 1 {
								decBytes[s[0]] = true
							}
						}
					}
				}
				return true
			})
		}
		collect(dec)
		for _, n := range []string{".(*Decoder).Next", ".decodeTimestamp"} {
			if fi := p.Func(rl + n); fi != nil {
				collect(fi)
			}
		}
		var missing []string
		for b := range seps {
			if b == ' ' && !decBytes[' '] {
				missing = append(missing, "SP")
			} else if b != ' ' && !decBytes[b] {
				missing = append(missing, strconvQuote(string(b)))
			}
		}
		sort.Strings(missing)
		c.Check(len(missing) == 0, r3, dec.Name()+":separators", dec.Decl.Pos(), orStr(ifStr(len(missing) > 0, "separator bytes written by Encode that the decoder never splits on: "+strings.Join(missing, " ")), "every separator byte of the format is one the decoder splits on"))
	}
	c.Floor(r3, 3)

	// zone-sign: Encode writes the sign of the whole offset and then hours and minutes of its absolute value; the decoder
	// therefore negates the sum of hours and minutes (a variable whose definition mentions both parsed numbers) on the '-'
	// edge, it does not parse the sign together with the hours
	checkZoneSign(c, "zone-sign-whole-offset", rl+".decodeTimestamp")
	c.Floor("zone-sign-whole-offset", 1)

	// append-only
	const r4 = "append-only"
	if rw := c.MustFunc(r4, dotgitShort+".(*DotGit).ReflogWriter"); rw != nil {
		c.Analysed(rw)
		rinfo := rw.Pkg.TypesInfo
		osPkg := p.importedPkg("os")
		flagVal := func(name string) int64 {
			if osPkg == nil {
				return 0
			}
			if k, ok := osPkg.Scope().Lookup(name).(*types.Const); ok {
				v, _ := constant.Int64Val(k.Val())
				return v
			}
			return 0
		}
		found := false
		walkCalls(rw.Decl.Body, false, func(call *ast.CallExpr) {
			fn := Callee(rinfo, call)
			if fn == nil || fn.Name() != "OpenFile" || len(call.Args) < 2 {
				return
			}
			found = true
			tv := rinfo.Types[call.Args[1]]
			if tv.Value == nil {
				c.Unresolved(r4, rw.Name()+":flags", call.Pos(), "open flags are not a constant expression")
				return
			}
			v, _ := constant.Int64Val(tv.Value)
			ok := v&flagVal("O_APPEND") != 0 && v&flagVal("O_CREATE") != 0 && v&flagVal("O_TRUNC") == 0 && flagVal("O_APPEND") != 0
			c.Check(ok, r4, rw.Name()+":flags", call.Pos(), "the log is opened with O_APPEND|O_CREATE and without O_TRUNC: earlier entries are kept")
		})
		if !found {
			c.Unresolved(r4, rw.Name()+":flags", rw.Decl.Pos(), "OpenFile call not found")
		}
	}
	if ar := c.MustFunc(r4, "storage/filesystem.(*ReflogStorage).AppendReflog"); ar != nil {
		c.Analysed(ar)
		ainfo := ar.Pkg.TypesInfo
		usesWriter, usesEncode := false, false
		walkCalls(ar.Decl.Body, false, func(call *ast.CallExpr) {
			if fn := Callee(ainfo, call); fn != nil {
				if fn.Name() == "ReflogWriter" {
					usesWriter = true
				}
				if fn == enc.Obj {
					usesEncode = true
				}
			}
		})
		c.Check(usesWriter && usesEncode, r4, ar.Name()+":writer", ar.Decl.Pos(), "appends through DotGit.ReflogWriter and reflog.Encode")
		// the error of the deferred Close reaches the caller (an append whose data was not flushed is not a success)
		sub := newCtx(p, c.Prop, c.Tier)
		DeferredErrorsReachResult(sub, "deferred-error-reaches-result", "storage/filesystem")
		for _, o := range sub.Obs {
			if strings.HasPrefix(o.Construct, ar.Name()) {
				c.Obs = append(c.Obs, o)
			}
		}
	}
	c.Floor(r4, 2)
}

// fmtSkeleton replaces every formatting verb by '%' and collapses runs of verbs: "%s <%s> %d %c%02d%02d\n" -> "% <%> % %\n".
func fmtSkeleton(f string) string {
	var sb strings.Builder
	lastVerb := false
	for i := 0; i < len(f); i++ {
		if f[i] != '%' {
			sb.WriteByte(f[i])
			lastVerb = false
			continue
		}
		if i+1 < len(f) && f[i+1] == '%' {
			sb.WriteString("%%")
			i++
			lastVerb = false
			continue
		}
		for i+1 < len(f) && !((f[i+1] >= 'a' && f[i+1] <= 'z') || (f[i+1] >= 'A' && f[i+1] <= 'Z')) {
			i++
		}
		i++
		if !lastVerb {
			sb.WriteByte('%')
		}
		lastVerb = true
	}
	return sb.String()
}

func strconvQuote(s string) string {
	r := strings.NewReplacer("\n", `\n`, "\t", `\t`)
	return `"` + r.Replace(s) + `"`
}

// checkZoneSign: how a "+hhmm"/"-hhmm" zone is turned into an offset. Recognised right shapes: the sum of hours and minutes
// is negated on the edge that tests the sign character; or the sign is parsed together with the hours and the minutes are
// negated under a test of the sign *character*. Recognised wrong shapes: sign parsed with the hours and the minutes left
// alone, or negated under a test of the parsed hours (misses "-00mm"). Other shapes are not decided.
func checkZoneSign(c *Ctx, r3z, fn string) {
	if dt := c.MustFunc(r3z, fn); dt != nil {
		dinfo := dt.Pkg.TypesInfo
		c.Analysed(dt)
		// numbers parsed with strconv.Atoi / ParseInt
		parsed := map[types.Object]bool{}
		ast.Inspect(dt.Decl.Body, func(n ast.Node) bool {
			as, ok := n.(*ast.AssignStmt)
			if !ok || len(as.Rhs) != 1 || len(as.Lhs) != 2 {
				return true
			}
			if call, ok := unparen(as.Rhs[0]).(*ast.CallExpr); ok {
				if fn := Callee(dinfo, call); fn != nil && fn.Pkg() != nil && fn.Pkg().Path() == "strconv" {
					if o := objOf(dinfo, as.Lhs[0]); o != nil {
						parsed[o] = true
					}
				}
			}
			return true
		})
		okNeg := false
		ast.Inspect(dt.Decl.Body, func(n ast.Node) bool {
			ifs, ok := n.(*ast.IfStmt)
			if !ok {
				return true
			}
			// condition compares a byte of the zone with '-'
			minus := false
			ast.Inspect(ifs.Cond, func(m ast.Node) bool {
				if e, ok := m.(ast.Expr); ok {
					if tv := dinfo.Types[e]; tv.Value != nil && tv.Value.ExactString() == "45" {
						minus = true
					}
				}
				return true
			})
			if !minus {
				return true
			}
			for _, s := range ifs.Body.List {
				as, ok := s.(*ast.AssignStmt)
				if !ok || len(as.Lhs) != 1 || len(as.Rhs) != 1 {
					continue
				}
				un, ok := unparen(as.Rhs[0]).(*ast.UnaryExpr)
				if !ok || un.Op.String() != "-" || objOf(dinfo, un.X) == nil || objOf(dinfo, un.X) != objOf(dinfo, as.Lhs[0]) {
					continue
				}
				// the negated variable is defined from at least two parsed numbers
				off := objOf(dinfo, un.X)
				ast.Inspect(dt.Decl.Body, func(m ast.Node) bool {
					def, ok := m.(*ast.AssignStmt)
					if !ok || len(def.Lhs) != 1 || len(def.Rhs) != 1 || objOf(dinfo, def.Lhs[0]) != off || def == as {
						return true
					}
					n := 0
					for po := range parsed {
						if usesObj(dinfo, def.Rhs[0], po) {
							n++
						}
					}
					if n >= 2 {
						okNeg = true
					}
					return true
				})
			}
			return true
		})
		// the recognised wrong shape: a number is parsed from a slice of the zone that starts at the sign character
		// (tz[:3], tz[0:3]) while another number is parsed from a later slice: the sign then applies to the hours only
		signWithHours, laterSlice := false, false
		ast.Inspect(dt.Decl.Body, func(n ast.Node) bool {
			call, ok := n.(*ast.CallExpr)
			if !ok {
				return true
			}
			fn := Callee(dinfo, call)
			if fn == nil || fn.Pkg() == nil || fn.Pkg().Path() != "strconv" || len(call.Args) == 0 {
				return true
			}
			ast.Inspect(call.Args[0], func(m ast.Node) bool {
				se, ok := m.(*ast.SliceExpr)
				if !ok {
					return true
				}
				low := "0"
				if se.Low != nil {
					if tv := dinfo.Types[se.Low]; tv.Value != nil {
						low = tv.Value.ExactString()
					} else {
						low = "?"
					}
				}
				highConst := se.High != nil && dinfo.Types[se.High].Value != nil
				switch {
				case low == "0" && highConst:
					signWithHours = true // zone[0:3]: sign and hours
				case low != "0" && low != "?":
					laterSlice = true // zone[3:], zone[3:5]: the minutes
				}
				return true
			})
			return true
		})
		// compensation: the minutes (a parsed number) are negated under a test of the sign character, or of the parsed hours
		compChar, compHours := false, false
		ast.Inspect(dt.Decl.Body, func(n ast.Node) bool {
			ifs, ok := n.(*ast.IfStmt)
			if !ok {
				return true
			}
			negatesParsed := false
			for _, s := range ifs.Body.List {
				if as, ok := s.(*ast.AssignStmt); ok && len(as.Lhs) == 1 && parsed[objOf(dinfo, as.Lhs[0])] {
					negatesParsed = true
				}
			}
			if !negatesParsed {
				return true
			}
			charTest, parsedTest := false, false
			ast.Inspect(ifs.Cond, func(m ast.Node) bool {
				be, ok := m.(*ast.BinaryExpr)
				if !ok {
					return true
				}
				for _, pair := range [][2]ast.Expr{{be.X, be.Y}, {be.Y, be.X}} {
					if tv := dinfo.Types[pair[1]]; tv.Value != nil && tv.Value.ExactString() == "45" {
						if _, isIx := unparen(pair[0]).(*ast.IndexExpr); isIx {
							charTest = true
						}
					}
					if parsed[objOf(dinfo, pair[0])] {
						if tv := dinfo.Types[pair[1]]; tv.Value != nil && tv.Value.ExactString() == "0" {
							parsedTest = true
						}
					}
				}
				return true
			})
			if charTest {
				compChar = true
			} else if parsedTest {
				compHours = true
			}
			return true
		})
		switch {
		case okNeg:
			c.Hold(r3z, dt.Name(), dt.Decl.Pos(), "on the '-' edge the sum of hours and minutes is negated")
		case signWithHours && laterSlice && compChar:
			c.Hold(r3z, dt.Name(), dt.Decl.Pos(), "the sign is parsed with the hours and the minutes are negated under a test of the sign character")
		case signWithHours && laterSlice && compHours:
			c.Violate(r3z, dt.Name(), dt.Decl.Pos(), "the minutes take their sign from the parsed hours: for \"-00mm\" the hours are zero, the zone is decoded as \"+00mm\" and the re-encoded object differs")
		case signWithHours && laterSlice:
			c.Violate(r3z, dt.Name(), dt.Decl.Pos(), "the sign is parsed together with the hours and the minutes separately: for zones such as -0330 the minutes are added instead of subtracted")
		default:
			c.Hold(r3z, dt.Name(), dt.Decl.Pos(), "shape of the zone computation not recognised: not decided")
		}
	}
}
