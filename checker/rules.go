package main

import (
	"go/ast"
	"go/constant"
	"go/token"
	"go/types"
	"strings"

	"golang.org/x/tools/go/cfg"
)

// calleeIs builds a call predicate matching a callee by qualified name (see calleeQName), e.g.
// "github.com/go-git/go-git/v6/internal/pathutil.ValidTreePath" or "…/billy/v6.Basic.Rename".
func calleeIs(info *types.Info, names ...string) func(*ast.CallExpr) bool {
	return func(call *ast.CallExpr) bool {
		fn := Callee(info, call)
		if fn == nil {
			return false
		}
		q := calleeQName(fn)
		for _, n := range names {
			if q == n {
				return true
			}
		}
		return false
	}
}

func repoQ(short, rest string) string {
	if short == "git" {
		return modPath + "." + rest
	}
	return modPath + "/" + short + "." + rest
}

const billyPath = "github.com/go-git/go-billy/v6"

// isBillyMethod reports whether fn is a method of one of billy's filesystem interfaces with one of the names.
func isBillyMethod(fn *types.Func, names ...string) bool {
	if fn == nil || fn.Pkg() == nil || fn.Pkg().Path() != billyPath {
		return false
	}
	sig, _ := fn.Type().(*types.Signature)
	if sig == nil || sig.Recv() == nil {
		return false
	}
	if len(names) == 0 {
		return true
	}
	for _, n := range names {
		if fn.Name() == n {
			return true
		}
	}
	return false
}

// sinkSites returns locations of nodes that contain a call satisfying pred (defers included when withDefer).
func (f *Flow) sinkSites(withDefer bool, pred func(*ast.CallExpr) bool) []Loc {
	return f.Locs(CallNode(withDefer, pred))
}

// UnguardedPath reports a path from entry to the specific location that crosses no pass edge.
func (f *Flow) UnguardedPath(pass PassEdge, target Loc) *Hit {
	return f.Search(SearchOpts{
		Starts:    []Loc{f.Entry()},
		Sink:      func(n ast.Node) bool { return n == target.B.Nodes[target.Idx] },
		BlockEdge: func(b *cfg.Block, i int) bool { return pass(f, b, i) },
	})
}

// CallsGuarded: every call in fi satisfying sink must be reachable only across a pass edge.
// One obligation per call site, keyed construct+"->"+callee name (+#n for repeated callees).
func CallsGuarded(c *Ctx, rule string, fi *FuncInfo, pass PassEdge, sink func(*ast.CallExpr) bool, guardDesc string) int {
	f := c.P.FlowOf(fi)
	if f == nil {
		return 0
	}
	c.Analysed(fi)
	n := 0
	seen := map[string]int{}
	for _, loc := range f.sinkSites(true, sink) {
		node := loc.B.Nodes[loc.Idx]
		call := nodeHasCall(node, false, sink)
		name := "?"
		if fn := Callee(f.Info, call); fn != nil {
			name = fn.Name()
		}
		key := fi.Name() + "->" + name
		seen[key]++
		if seen[key] > 1 {
			key += "#" + itoa(seen[key])
		}
		n++
		if h := f.UnguardedPath(pass, loc); h != nil {
			c.Violate(rule, key, call.Pos(), "reachable without "+guardDesc+" (path through lines "+f.pathString(h)+")")
		} else {
			c.Hold(rule, key, call.Pos(), "only reachable after "+guardDesc)
		}
	}
	return n
}

// SuccessReturnsGuarded: every return of fi that does not certainly return a non-nil error must be
// reachable only across a pass edge. One obligation for the function.
func SuccessReturnsGuarded(c *Ctx, rule string, fi *FuncInfo, pass PassEdge, guardDesc string) {
	f := c.P.FlowOf(fi)
	if f == nil {
		c.Unresolved(rule, fi.Name(), fi.Decl.Pos(), "function has no body")
		return
	}
	c.Analysed(fi)
	if !f.HasPassEdge(pass) {
		c.Violate(rule, fi.Name(), fi.Decl.Pos(), "no branch on "+guardDesc+" found in the function")
		return
	}
	sink := func(n ast.Node) bool {
		r, ok := n.(*ast.ReturnStmt)
		return ok && !returnsNonNilError(f.Info, fi.Decl.Body, r)
	}
	if h := f.GuardedSink(pass, sink); h != nil {
		c.Violate(rule, fi.Name(), h.Node.Pos(), "a non-error return is reachable without "+guardDesc+" (path through lines "+f.pathString(h)+")")
		return
	}
	// falling off the end of a function without results is also a success exit; handled by cfg: no node. Accept.
	c.Hold(rule, fi.Name(), fi.Decl.Pos(), "every non-error return is only reachable after "+guardDesc)
}

// argMentions: a call predicate wrapper requiring that some argument mentions obj.
func argMentions(info *types.Info, base func(*ast.CallExpr) bool, obj types.Object) func(f *Flow, call *ast.CallExpr) bool {
	return func(f *Flow, call *ast.CallExpr) bool {
		if !base(call) {
			return false
		}
		if obj == nil {
			return true
		}
		for _, a := range call.Args {
			if usesObj(info, a, obj) {
				return true
			}
		}
		return false
	}
}

func anyArgs(base func(*ast.CallExpr) bool) func(f *Flow, call *ast.CallExpr) bool {
	return func(f *Flow, call *ast.CallExpr) bool { return base(call) }
}

// RejectRule: fi contains a conditional whose condition satisfies cond and whose taken branch ends by
// rejecting (return of a non-nil error, or a call accepted by rejectCall, e.g. an error accumulator).
func RejectRule(c *Ctx, rule string, fi *FuncInfo, name string, cond func(info *types.Info, e ast.Expr) bool, rejectCall func(*ast.CallExpr) bool) bool {
	info := fi.Pkg.TypesInfo
	ok := false
	var at token.Pos
	rejects := func(stmts []ast.Stmt) bool {
		for _, s := range stmts {
			switch v := s.(type) {
			case *ast.ReturnStmt:
				if returnsNonNilError(info, fi.Decl.Body, v) {
					return true
				}
				// boolean validators: `return false`
				if len(v.Results) == 1 {
					if tv := info.Types[v.Results[0]]; tv.Value != nil && tv.Value.Kind() == constant.Bool {
						return true
					}
				}
			case *ast.ExprStmt:
				if call, ok := v.X.(*ast.CallExpr); ok && rejectCall != nil && rejectCall(call) {
					return true
				}
			case *ast.IfStmt, *ast.BlockStmt:
				// nested
			}
		}
		return false
	}
	ast.Inspect(fi.Decl.Body, func(n ast.Node) bool {
		if ok {
			return false
		}
		switch v := n.(type) {
		case *ast.IfStmt:
			if cond(info, v.Cond) || (v.Init != nil && condInStmt(info, v.Init, cond)) {
				if rejects(v.Body.List) {
					ok, at = true, v.Pos()
				}
			}
		case *ast.CaseClause:
			for _, e := range v.List {
				if cond(info, e) && rejects(v.Body) {
					ok, at = true, v.Pos()
				}
			}
		}
		return true
	})
	if ok {
		c.Hold(rule, fi.Name()+":"+name, at, "rejecting branch present")
	} else {
		c.Violate(rule, fi.Name()+":"+name, fi.Decl.Pos(), "no rejecting branch for this rule found in "+fi.Name())
	}
	return ok
}

func condInStmt(info *types.Info, s ast.Stmt, cond func(info *types.Info, e ast.Expr) bool) bool {
	found := false
	ast.Inspect(s, func(n ast.Node) bool {
		if e, ok := n.(ast.Expr); ok && !found && cond(info, e) {
			found = true
		}
		return !found
	})
	return found
}

// condCalls builds a cond predicate: the expression contains a call to one of the named callees.
func condCalls(names ...string) func(info *types.Info, e ast.Expr) bool {
	return func(info *types.Info, e ast.Expr) bool {
		return nodeHasCall(e, false, calleeIs(info, names...)) != nil
	}
}

// condHasConst: the expression contains a comparison with the given constant (string or int).
func condHasConst(vals ...string) func(info *types.Info, e ast.Expr) bool {
	return func(info *types.Info, e ast.Expr) bool {
		found := false
		ast.Inspect(e, func(n ast.Node) bool {
			x, ok := n.(ast.Expr)
			if !ok || found {
				return !found
			}
			if tv, ok := info.Types[x]; ok && tv.Value != nil {
				s := tv.Value.ExactString()
				if tv.Value.Kind() == constant.String {
					s = constant.StringVal(tv.Value)
				}
				for _, v := range vals {
					if s == v {
						found = true
					}
				}
			}
			return !found
		})
		return found
	}
}

func condAny(ps ...func(info *types.Info, e ast.Expr) bool) func(info *types.Info, e ast.Expr) bool {
	return func(info *types.Info, e ast.Expr) bool {
		for _, p := range ps {
			if p(info, e) {
				return true
			}
		}
		return false
	}
}

// condMentionsObj: the expression mentions a given object (constant, variable, field).
func condMentionsObj(obj types.Object) func(info *types.Info, e ast.Expr) bool {
	return func(info *types.Info, e ast.Expr) bool { return obj != nil && usesObj(info, e, obj) }
}

// CondEdge: pass edge = the edge `idx` (0 true, 1 false) of a block whose condition satisfies cond.
func CondEdge(idx int, cond func(info *types.Info, e ast.Expr) bool) PassEdge {
	return func(f *Flow, b *cfg.Block, i int) bool {
		if i != idx || len(b.Succs) != 2 || len(b.Nodes) == 0 {
			return false
		}
		e, ok := b.Nodes[len(b.Nodes)-1].(ast.Expr)
		return ok && cond(f.Info, e)
	}
}

// fieldOf returns the field object named name of a struct type object.
func fieldOf(tn *types.TypeName, name string) *types.Var {
	if tn == nil {
		return nil
	}
	st, ok := tn.Type().Underlying().(*types.Struct)
	if !ok {
		return nil
	}
	for i := 0; i < st.NumFields(); i++ {
		if st.Field(i).Name() == name {
			return st.Field(i)
		}
	}
	return nil
}

// recvNamed returns the named receiver type object of a method declaration ("" if none).
func recvTypeName(fn *types.Func) *types.TypeName {
	sig, _ := fn.Type().(*types.Signature)
	if sig == nil || sig.Recv() == nil {
		return nil
	}
	t := sig.Recv().Type()
	if pt, ok := t.(*types.Pointer); ok {
		t = pt.Elem()
	}
	if nt, ok := t.(*types.Named); ok {
		return nt.Obj()
	}
	return nil
}

// fieldUses lists selector expressions in the repository that select the given field.
type fieldUse struct {
	Sel  *ast.SelectorExpr
	In   *FuncInfo
	File *ast.File
	Pkg  string
}

func (p *Prog) fieldUses(field *types.Var) []fieldUse {
	var out []fieldUse
	for _, pk := range p.Pkgs {
		for _, file := range pk.Syntax {
			if p.isTestFile(file.Pos()) {
				continue
			}
			ast.Inspect(file, func(n ast.Node) bool {
				sel, ok := n.(*ast.SelectorExpr)
				if !ok {
					return true
				}
				if pk.TypesInfo.Uses[sel.Sel] == field {
					out = append(out, fieldUse{sel, p.enclosingFunc(pk, sel.Pos()), file, pk.PkgPath})
				}
				return true
			})
		}
	}
	return out
}

// isAssignTarget reports whether expr e is (the root of) an assignment LHS in stmt list of file.
func assignedIn(file *ast.File, target ast.Expr) (rhs ast.Expr, ok bool) {
	ast.Inspect(file, func(n ast.Node) bool {
		if ok {
			return false
		}
		if as, isAs := n.(*ast.AssignStmt); isAs {
			for i, l := range as.Lhs {
				if l == target {
					ok = true
					if len(as.Rhs) == len(as.Lhs) {
						rhs = as.Rhs[i]
					} else if len(as.Rhs) == 1 {
						rhs = as.Rhs[0]
					}
				}
			}
		}
		return true
	})
	return
}

func funcNameOr(fi *FuncInfo, alt string) string {
	if fi == nil {
		return alt
	}
	return fi.Name()
}

func hasPrefixAny(s string, ps ...string) bool {
	for _, p := range ps {
		if strings.HasPrefix(s, p) {
			return true
		}
	}
	return false
}
