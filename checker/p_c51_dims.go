package main

import (
	"go/ast"
	"go/token"
	"go/types"
	"sort"
)

// Position spaces of a split commit-graph chain (C51). A layer numbers its own commits from 0 (local positions, bounded
// by fanout[255]); positions stored in the file — parent slots and extra-edge entries — and positions of the Index API
// count the commits of all lower layers first (global positions). minimumNumberOfHashes is the difference. The two
// spaces coincide for a single file, which is all the fixtures exercise; mixing them is invisible there and breaks
// every chain with two or more layers.
//
// The analysis assigns each uint32 expression in the methods of fileIndex one of: global, local, base (the number of
// commits below this layer), or unknown, and checks
//   - no comparison has a global operand on one side and a local one on the other (nor a local one against base),
//   - a record offset (position multiplied into a chunk offset) is computed from a local position,
//   - a position returned through the Index API is not a local one.
// unknown never produces a report.
type posDim int

const (
	dimU posDim = iota
	dimG
	dimL
	dimM
)

func (d posDim) String() string {
	return [...]string{"unknown", "global", "local", "base-count"}[d]
}

type dimAssign struct {
	pos token.Pos
	rhs ast.Expr    // for = and :=
	tok token.Token // ASSIGN, DEFINE, SUB_ASSIGN, ADD_ASSIGN
}

type dimAn struct {
	info    *types.Info
	fanout  *types.Var
	minimum *types.Var
	mask    types.Object
	octUsed types.Object
	// regions in which `v & mask` is a position in the extra-edge list, not a commit position: the bodies of the
	// branches taken when v carries the extra-edges flag
	edgeRegions []edgeRegion
	gparams map[types.Object]bool
	assigns map[types.Object][]dimAssign
	depth   int
}

type edgeRegion struct {
	from, to token.Pos
	v        types.Object
}

func (a *dimAn) flagged(cond ast.Expr) types.Object {
	var v types.Object
	ast.Inspect(cond, func(n ast.Node) bool {
		if be, ok := n.(*ast.BinaryExpr); ok && be.Op == token.AND {
			if objOfSel(a.info, be.Y) == a.octUsed {
				v = objOf(a.info, be.X)
			} else if objOfSel(a.info, be.X) == a.octUsed {
				v = objOf(a.info, be.Y)
			}
		}
		return v == nil
	})
	return v
}

func (a *dimAn) collect(body *ast.BlockStmt) {
	a.assigns = map[types.Object][]dimAssign{}
	ast.Inspect(body, func(n ast.Node) bool {
		switch v := n.(type) {
		case *ast.CaseClause:
			for _, e := range v.List {
				if o := a.flagged(e); o != nil && len(v.Body) > 0 {
					a.edgeRegions = append(a.edgeRegions, edgeRegion{v.Body[0].Pos(), v.End(), o})
				}
			}
		case *ast.IfStmt:
			if o := a.flagged(v.Cond); o != nil {
				a.edgeRegions = append(a.edgeRegions, edgeRegion{v.Body.Pos(), v.Body.End(), o})
			}
		}
		return true
	})
	ast.Inspect(body, func(n ast.Node) bool {
		switch v := n.(type) {
		case *ast.AssignStmt:
			for i, l := range v.Lhs {
				o := objOf(a.info, l)
				if o == nil {
					continue
				}
				var rhs ast.Expr
				if len(v.Rhs) == len(v.Lhs) {
					rhs = v.Rhs[i]
				}
				a.assigns[o] = append(a.assigns[o], dimAssign{v.Pos(), rhs, v.Tok})
			}
		case *ast.IncDecStmt:
			// i++ keeps the space
		case *ast.RangeStmt:
			for _, kv := range []ast.Expr{v.Key, v.Value} {
				if kv == nil {
					continue
				}
				if o := objOf(a.info, kv); o != nil {
					a.assigns[o] = append(a.assigns[o], dimAssign{v.Pos(), nil, token.DEFINE})
				}
			}
		}
		return true
	})
	for o := range a.assigns {
		s := a.assigns[o]
		sort.Slice(s, func(i, j int) bool { return s[i].pos < s[j].pos })
	}
}

// varAt: the space of variable o just before position pos.
func (a *dimAn) varAt(o types.Object, pos token.Pos) posDim {
	s := a.assigns[o]
	last := -1
	for i, as := range s {
		if as.pos < pos {
			last = i
		}
	}
	if last < 0 {
		if a.gparams[o] {
			return dimG
		}
		return dimU
	}
	as := s[last]
	switch as.tok {
	case token.DEFINE, token.ASSIGN:
		if as.rhs == nil {
			return dimU
		}
		return a.of(as.rhs)
	case token.SUB_ASSIGN, token.ADD_ASSIGN:
		before := a.varAt(o, as.pos)
		if as.rhs == nil {
			return dimU
		}
		r := a.of(as.rhs)
		if as.tok == token.SUB_ASSIGN {
			return dimSub(before, r)
		}
		return dimAdd(before, r)
	}
	return dimU
}

func dimAdd(x, y posDim) posDim {
	switch {
	case (x == dimL && y == dimM) || (x == dimM && y == dimL):
		return dimG
	case x == dimU && y == dimU:
		return dimU
	case x == dimU && y != dimM:
		return y // position plus a plain number stays in its space
	case y == dimU && x != dimM:
		return x
	case x == y && x != dimM:
		return x
	}
	return dimU
}

func dimSub(x, y posDim) posDim {
	switch {
	case y == dimM && (x == dimG || x == dimU):
		return dimL
	case y == dimU:
		return x
	case x == y:
		return dimU // a distance
	}
	return dimU
}

func (a *dimAn) of(e ast.Expr) posDim {
	a.depth++
	defer func() { a.depth-- }()
	if a.depth > 40 {
		return dimU
	}
	e = unparen(e)
	if tv, ok := a.info.Types[e]; ok && tv.Value != nil {
		return dimU
	}
	switch v := e.(type) {
	case *ast.Ident:
		if o := objOf(a.info, v); o != nil {
			return a.varAt(o, v.Pos())
		}
	case *ast.SelectorExpr:
		if fv, ok := a.info.Uses[v.Sel].(*types.Var); ok && fv == a.minimum {
			return dimM
		}
	case *ast.IndexExpr:
		if sel, ok := unparen(v.X).(*ast.SelectorExpr); ok {
			if fv, ok := a.info.Uses[sel.Sel].(*types.Var); ok && fv == a.fanout {
				return dimL
			}
		}
	case *ast.CallExpr:
		if tv, ok := a.info.Types[v.Fun]; ok && tv.IsType() && len(v.Args) == 1 {
			return a.of(v.Args[0])
		}
	case *ast.BinaryExpr:
		switch v.Op {
		case token.AND:
			if objOfSel(a.info, v.X) == a.mask || objOfSel(a.info, v.Y) == a.mask {
				other := objOf(a.info, v.X)
				if other == nil {
					other = objOf(a.info, v.Y)
				}
				for _, r := range a.edgeRegions {
					if other != nil && r.v == other && r.from <= v.Pos() && v.Pos() < r.to {
						return dimU // a position in the extra-edge list
					}
				}
				return dimG
			}
		case token.ADD:
			return dimAdd(a.of(v.X), a.of(v.Y))
		case token.SUB:
			return dimSub(a.of(v.X), a.of(v.Y))
		case token.SHR, token.QUO:
			return a.of(v.X)
		}
	}
	return dimU
}

func checkPositionSpaces(c *Ctx) {
	const rule = "position-spaces"
	const cg = "plumbing/format/commitgraph"
	p := c.P
	pk := p.Pkg(cg)
	if pk == nil {
		c.Unresolved(rule, "package "+cg, 0, "not loaded")
		return
	}
	info := pk.TypesInfo
	tn, _ := pk.Types.Scope().Lookup("fileIndex").(*types.TypeName)
	if tn == nil {
		c.Unresolved(rule, cg+".fileIndex", 0, "type not found")
		return
	}
	fanout, minimum := fieldOf(tn, "fanout"), fieldOf(tn, "minimumNumberOfHashes")
	mask, octUsed := p.lookupObj(cg, "parentOctopusMask"), p.lookupObj(cg, "parentOctopusUsed")
	if fanout == nil || minimum == nil || mask == nil || octUsed == nil {
		c.Unresolved(rule, cg+".fileIndex:fields", tn.Pos(), "fanout, minimumNumberOfHashes or parentOctopusMask not found")
		return
	}
	// methods of the Index interface: their uint32 parameters and results are global positions
	var api *types.Interface
	if it, ok := pk.Types.Scope().Lookup("Index").(*types.TypeName); ok {
		api, _ = it.Type().Underlying().(*types.Interface)
	}
	isAPI := func(name string) bool {
		if api == nil {
			return false
		}
		for i := 0; i < api.NumMethods(); i++ {
			if api.Method(i).Name() == name {
				return true
			}
		}
		return false
	}
	isU32 := func(t types.Type) bool {
		b, ok := t.Underlying().(*types.Basic)
		return ok && b.Kind() == types.Uint32
	}
	nCmp, nOff, nRet := 0, 0, 0
	for _, fi := range p.FuncsIn(cg) {
		if fi.Decl.Body == nil || fi.Decl.Recv == nil || p.isTestFile(fi.Decl.Pos()) {
			continue
		}
		if fi.Obj == nil || recvTypeName(fi.Obj) != tn {
			continue
		}
		an := &dimAn{info: info, fanout: fanout, minimum: minimum, mask: mask, octUsed: octUsed, gparams: map[types.Object]bool{}}
		api := isAPI(fi.Decl.Name.Name)
		if api {
			for _, po := range paramObjs(info, fi.Decl) {
				if isU32(po.Type()) {
					an.gparams[po] = true
				}
			}
		}
		an.collect(fi.Decl.Body)
		used := false
		seen := map[string]int{}
		key := func(kind string, e ast.Expr) string {
			k := fi.Name() + ":" + kind + " " + exprString(e)
			seen[k]++
			if seen[k] > 1 {
				k += "#" + itoa(seen[k])
			}
			return k
		}
		ast.Inspect(fi.Decl.Body, func(n ast.Node) bool {
			switch v := n.(type) {
			case *ast.FuncLit:
				return false
			case *ast.BinaryExpr:
				switch v.Op {
				case token.LSS, token.LEQ, token.GTR, token.GEQ, token.EQL, token.NEQ:
					x, y := an.of(v.X), an.of(v.Y)
					if x == dimU || y == dimU {
						return true
					}
					nCmp++
					used = true
					bad := (x == dimG && y == dimL) || (x == dimL && y == dimG) || (x == dimL && y == dimM) || (x == dimM && y == dimL)
					c.Check(!bad, rule, key("compare", v), v.Pos(), orStr(ifStr(bad, "a "+x.String()+" position is compared with a "+y.String()+" one: the two agree only for a single-file graph; in a layer of a split chain the test misjudges every position that lies in a lower layer"),
						x.String()+" compared with "+y.String()))
				case token.MUL:
					// record offset: int64(pos) * recordSize
					for _, side := range []ast.Expr{v.X, v.Y} {
						d := an.of(side)
						if d == dimU {
							continue
						}
						nOff++
						used = true
						c.Check(d == dimL, rule, key("record-offset", v), v.Pos(), orStr(ifStr(d != dimL, "a "+d.String()+" position is multiplied into a chunk offset: records of a layer are addressed by local position"), "record addressed by local position"))
					}
				}
			case *ast.ReturnStmt:
				if !api || fi.Decl.Type.Results == nil {
					return true
				}
				i := 0
				for _, f := range fi.Decl.Type.Results.List {
					k := len(f.Names)
					if k == 0 {
						k = 1
					}
					for j := 0; j < k; j++ {
						if i < len(v.Results) && len(v.Results) > 1 || (len(v.Results) == 1 && i == 0) {
							if tv, ok := info.Types[f.Type]; ok && isU32(tv.Type) && i < len(v.Results) {
								d := an.of(v.Results[i])
								if d != dimU {
									nRet++
									used = true
									c.Check(d != dimL, rule, key("return", v.Results[i]), v.Pos(), orStr(ifStr(d == dimL, "a local position is returned through the Index API, whose positions are global: the base count is not added"), "a "+d.String()+" position is returned"))
								}
							}
						}
						i++
					}
				}
			}
			return true
		})
		if used {
			c.Analysed(fi)
		}
	}
	_ = nOff
	_ = nRet
	if nCmp == 0 {
		c.Unresolved(rule, cg+".fileIndex:comparisons", tn.Pos(), "no comparison between classified positions found")
	}
}
