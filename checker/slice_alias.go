package main

import (
	"go/ast"
	"go/types"
)

// SharedSliceEscape: a slice-typed field of a long-lived struct (a cached listing) must not be handed to callers outside
// the owning type in a form that lets an append overwrite it: an exported method of the type may return the field (or a
// local that aliases it, or the result of an unexported method that returns such an alias) only as a full slice
// expression whose max equals its high (s[a:b:b]), or as a copy (slices.Clone, append to a fresh slice).
// One obligation per exported method that returns an alias.
func SharedSliceEscape(c *Ctx, rule, short, typeName string) int {
	p := c.P
	tn := p.lookupType(short, typeName)
	if tn == nil {
		c.Unresolved(rule, short+"."+typeName, 0, "type not found")
		return 0
	}
	st, ok := tn.Type().Underlying().(*types.Struct)
	if !ok {
		return 0
	}
	fields := map[*types.Var]bool{}
	for i := 0; i < st.NumFields(); i++ {
		if _, isSlice := st.Field(i).Type().Underlying().(*types.Slice); isSlice {
			fields[st.Field(i)] = true
		}
	}
	if len(fields) == 0 {
		return 0
	}
	var methods []*FuncInfo
	for _, fi := range p.FuncsIn(short) {
		if recvTypeName(fi.Obj) == tn && fi.Decl.Body != nil && !p.isTestFile(fi.Decl.Pos()) {
			methods = append(methods, fi)
		}
	}
	// which result positions of which methods return an alias (fixpoint over the type's methods)
	returnsAlias := map[*types.Func]map[int]*types.Var{}
	aliasOf := func(fi *FuncInfo, e ast.Expr, locals map[types.Object]*types.Var) (*types.Var, bool) {
		// returns (field, exposed): exposed=false when the expression is a capped full-slice expression or a copy
		info := fi.Pkg.TypesInfo
		e = unparen(e)
		capped := false
		if se, ok := e.(*ast.SliceExpr); ok {
			if se.Slice3 && se.Max != nil && se.High != nil && exprString(se.Max) == exprString(se.High) {
				capped = true
			}
			e = unparen(se.X)
		}
		var fld *types.Var
		switch v := e.(type) {
		case *ast.SelectorExpr:
			if fv, ok := info.Uses[v.Sel].(*types.Var); ok && fields[fv] {
				fld = fv
			}
		case *ast.Ident:
			fld = locals[objOf(info, v)]
		}
		if fld == nil {
			return nil, false
		}
		return fld, !capped
	}
	localsOf := func(fi *FuncInfo) map[types.Object]*types.Var {
		info := fi.Pkg.TypesInfo
		locals := map[types.Object]*types.Var{}
		for changed := true; changed; {
			changed = false
			ast.Inspect(fi.Decl.Body, func(n ast.Node) bool {
				as, ok := n.(*ast.AssignStmt)
				if !ok {
					return true
				}
				if len(as.Rhs) == 1 && len(as.Lhs) > 1 {
					// x, y, err := recv.method()
					if call, ok := unparen(as.Rhs[0]).(*ast.CallExpr); ok {
						if fn := Callee(info, call); fn != nil {
							for idx, fld := range returnsAlias[fn] {
								if idx < len(as.Lhs) {
									if o := objOf(info, as.Lhs[idx]); o != nil && locals[o] == nil {
										locals[o] = fld
										changed = true
									}
								}
							}
						}
					}
					return true
				}
				if len(as.Lhs) == len(as.Rhs) {
					for i := range as.Lhs {
						o := objOf(info, as.Lhs[i])
						if o == nil || locals[o] != nil {
							continue
						}
						if fld, exposed := aliasOf(fi, as.Rhs[i], locals); fld != nil && exposed {
							locals[o] = fld
							changed = true
						}
						if call, ok := unparen(as.Rhs[i]).(*ast.CallExpr); ok {
							if fn := Callee(info, call); fn != nil {
								if fld := returnsAlias[fn][0]; fld != nil {
									locals[o] = fld
									changed = true
								}
							}
						}
					}
				}
				return true
			})
		}
		return locals
	}
	type exposure struct {
		fld *types.Var
		ret *ast.ReturnStmt
	}
	exposures := map[*FuncInfo][]exposure{}
	for round := 0; round < 6; round++ {
		changed := false
		for _, fi := range methods {
			locals := localsOf(fi)
			exposures[fi] = nil
			ast.Inspect(fi.Decl.Body, func(n ast.Node) bool {
				if _, isLit := n.(*ast.FuncLit); isLit {
					return false
				}
				r, ok := n.(*ast.ReturnStmt)
				if !ok {
					return true
				}
				for idx, res := range r.Results {
					fld, exposed := aliasOf(fi, res, locals)
					if fld == nil || !exposed {
						continue
					}
					exposures[fi] = append(exposures[fi], exposure{fld, r})
					if returnsAlias[fi.Obj] == nil {
						returnsAlias[fi.Obj] = map[int]*types.Var{}
					}
					if returnsAlias[fi.Obj][idx] == nil {
						returnsAlias[fi.Obj][idx] = fld
						changed = true
					}
				}
				return true
			})
		}
		if !changed {
			break
		}
	}
	n := 0
	for _, fi := range methods {
		if !fi.Obj.Exported() {
			continue
		}
		c.Analysed(fi)
		if ex := exposures[fi]; len(ex) > 0 {
			n++
			c.Violate(rule, fi.Name()+"->"+ex[0].fld.Name(), ex[0].ret.Pos(), "an exported method returns the cached slice "+typeName+"."+ex[0].fld.Name()+" (or a window into it) with spare capacity: a caller's append overwrites the shared listing; return s[a:b:b] or a copy")
			continue
		}
		// methods that read an alias but return it capped or copied are the interesting holds
		locals := localsOf(fi)
		if len(locals) > 0 {
			n++
			var fld *types.Var
			for _, f := range locals {
				fld = f
			}
			c.Hold(rule, fi.Name()+"->"+fld.Name(), fi.Decl.Pos(), "uses the cached slice "+fld.Name()+" and hands out only capped windows or copies")
		}
	}
	return n
}
