package main

import (
	"fmt"
	"go/ast"
	"go/constant"
	"go/token"
	"go/types"
	"sort"
	"strings"
)

// publish-within-one-directory (C33): RepositoryFilesystem.Rename runs inside the filesystem chosen for the old path. A
// temporary file that is renamed over a shared file (packed-refs, objects) must therefore be created in the shared
// directory as well, otherwise a linked worktree publishes the new content in its private directory and the shared file
// keeps its old content. For every Rename call in package dotgit the origin of both files is resolved through the
// package (locals, parameters via their callers, struct fields via their initialisers, helper results) to the TempFile /
// Open / OpenFile / Create call that produced them, and both must fall in the same routing class of
// mapToRepositoryFsByPath (first-component table, plus base-name prefixes routed to the common directory).

type fileOrigin struct {
	temp   bool
	path   ast.Expr // dir for temp files, path otherwise
	prefix ast.Expr
	fn     *FuncInfo
	pos    token.Pos
}

type originAn struct {
	p       *Prog
	pkg     string
	visited map[string]bool
}

func (a *originAn) resolve(e ast.Expr, fn *FuncInfo, depth int) (out []fileOrigin, unknown []string) {
	if depth > 6 {
		return nil, []string{"depth limit at " + a.p.Pos(e.Pos())}
	}
	info := fn.Pkg.TypesInfo
	e = unparen(e)
	key := fmt.Sprintf("%s|%d", fn.Name(), e.Pos())
	if a.visited[key] {
		return nil, nil
	}
	a.visited[key] = true
	switch v := e.(type) {
	case *ast.CallExpr:
		callee := Callee(info, v)
		if callee == nil {
			return nil, []string{"unresolved call at " + a.p.Pos(v.Pos())}
		}
		if _, isSel := unparen(v.Fun).(*ast.SelectorExpr); isSel {
			switch callee.Name() {
			case "TempFile":
				if len(v.Args) == 2 {
					return []fileOrigin{{temp: true, path: v.Args[0], prefix: v.Args[1], fn: fn, pos: v.Pos()}}, nil
				}
			case "Open", "OpenFile", "Create":
				if len(v.Args) >= 1 && isStringish(info.Types[v.Args[0]].Type) {
					return []fileOrigin{{path: v.Args[0], fn: fn, pos: v.Pos()}}, nil
				}
			}
		}
		cf := a.p.FuncOf(callee)
		if cf == nil || cf.Decl.Body == nil {
			return nil, []string{"call to " + callee.FullName() + " (no body)"}
		}
		// results of a helper: every return's first result (or the named result)
		var named types.Object
		if rl := cf.Decl.Type.Results; rl != nil && len(rl.List) > 0 && len(rl.List[0].Names) > 0 {
			named = cf.Pkg.TypesInfo.Defs[rl.List[0].Names[0]]
		}
		ast.Inspect(cf.Decl.Body, func(n ast.Node) bool {
			if _, ok := n.(*ast.FuncLit); ok {
				return false
			}
			r, ok := n.(*ast.ReturnStmt)
			if !ok {
				return true
			}
			if len(r.Results) == 0 {
				if named != nil {
					o, u := a.resolveObj(named, cf, depth+1)
					out, unknown = append(out, o...), append(unknown, u...)
				}
				return true
			}
			if isNil(cf.Pkg.TypesInfo, r.Results[0]) {
				return true
			}
			o, u := a.resolve(r.Results[0], cf, depth+1)
			out, unknown = append(out, o...), append(unknown, u...)
			return true
		})
		return
	case *ast.Ident:
		obj := objOf(info, v)
		if obj == nil {
			return nil, []string{"unknown identifier " + v.Name}
		}
		return a.resolveObj(obj, fn, depth)
	case *ast.SelectorExpr:
		fld, ok := info.Uses[v.Sel].(*types.Var)
		if !ok || !fld.IsField() {
			return nil, []string{"selector " + exprString(v)}
		}
		found := false
		for _, fi := range a.p.FuncsIn(a.pkg) {
			if fi.Decl.Body == nil || a.p.isTestFile(fi.Decl.Pos()) {
				continue
			}
			finfo := fi.Pkg.TypesInfo
			ast.Inspect(fi.Decl.Body, func(n ast.Node) bool {
				switch x := n.(type) {
				case *ast.AssignStmt:
					for i, l := range x.Lhs {
						if sel, ok := unparen(l).(*ast.SelectorExpr); ok && finfo.Uses[sel.Sel] == types.Object(fld) {
							found = true
							rhs := x.Rhs[0]
							if len(x.Rhs) == len(x.Lhs) {
								rhs = x.Rhs[i]
							}
							o, u := a.resolve(rhs, fi, depth+1)
							out, unknown = append(out, o...), append(unknown, u...)
						}
					}
				case *ast.CompositeLit:
					for _, el := range x.Elts {
						kv, ok := el.(*ast.KeyValueExpr)
						if !ok {
							continue
						}
						if id, ok := kv.Key.(*ast.Ident); ok && finfo.Uses[id] == types.Object(fld) {
							found = true
							o, u := a.resolve(kv.Value, fi, depth+1)
							out, unknown = append(out, o...), append(unknown, u...)
						}
					}
				}
				return true
			})
		}
		if !found {
			unknown = append(unknown, "field "+fld.Name()+" is never initialised in the package")
		}
		return
	}
	return nil, []string{"expression " + exprString(e)}
}

func (a *originAn) resolveObj(obj types.Object, fn *FuncInfo, depth int) (out []fileOrigin, unknown []string) {
	info := fn.Pkg.TypesInfo
	// parameter: look at the callers
	for i, pv := range paramObjs(info, fn.Decl) {
		if types.Object(pv) != obj {
			continue
		}
		cg := a.p.callGraph()
		callers := 0
		for _, fi := range a.p.FuncsIn(a.pkg) {
			for _, e := range cg.edges[fi.Obj] {
				if e.Callee == fn.Obj && i < len(e.Call.Args) {
					callers++
					o, u := a.resolve(e.Call.Args[i], fi, depth+1)
					out, unknown = append(out, o...), append(unknown, u...)
				}
			}
		}
		if callers == 0 {
			unknown = append(unknown, "parameter "+obj.Name()+" of "+fn.Name()+" has no caller in the package")
		}
		return
	}
	// local variable / named result: every assignment
	n := 0
	ast.Inspect(fn.Decl.Body, func(x ast.Node) bool {
		as, ok := x.(*ast.AssignStmt)
		if !ok {
			return true
		}
		for i, l := range as.Lhs {
			if objOf(info, l) != obj {
				continue
			}
			n++
			rhs := as.Rhs[0]
			if len(as.Rhs) == len(as.Lhs) {
				rhs = as.Rhs[i]
			} else if i != 0 {
				continue
			}
			if isNil(info, rhs) {
				continue
			}
			o, u := a.resolve(rhs, fn, depth+1)
			out, unknown = append(out, o...), append(unknown, u...)
		}
		return true
	})
	if n == 0 {
		unknown = append(unknown, "variable "+obj.Name()+" has no assignment in "+fn.Name())
	}
	return
}

// linked-worktree-not-downgraded (C33): Worktree.Open treats a nil result of getDualFS as "not a linked worktree" and
// opens the main repository's directory. Once getDualFS has recognised the "gitdir: " file (the directory declares
// itself a linked worktree), a nil result makes every operation act on the main worktree's HEAD and index. The nil
// returns reachable only after recognition are inventoried: each must be the error branch of a reviewed call.
func checkLinkedNotDowngraded(c *Ctx, rule string) {
	p := c.P
	fi := c.MustFunc(rule, "x/plumbing/worktree.(*Worktree).getDualFS")
	if fi == nil {
		return
	}
	c.Analysed(fi)
	info := fi.Pkg.TypesInfo
	f := p.FlowOf(fi)
	recognised := FactGuard(func(_ *Flow, fact Fact) bool {
		call, ok := unparen(fact.Atom).(*ast.CallExpr)
		if !ok || !fact.Truth {
			return false
		}
		fn := Callee(info, call)
		if fn == nil || fn.Pkg() == nil || fn.Pkg().Path() != "bytes" || (fn.Name() != "Equal" && fn.Name() != "HasPrefix") {
			return false
		}
		// one operand is the "gitdir: " marker
		marker := false
		ast.Inspect(call, func(n ast.Node) bool {
			if e, ok := n.(ast.Expr); ok {
				if tv := info.Types[e]; tv.Value != nil && tv.Value.Kind() == constant.String && strings.HasPrefix(constant.StringVal(tv.Value), "gitdir") {
					marker = true
				}
			}
			return !marker
		})
		return marker
	})
	if !f.HasPassEdge(recognised) {
		c.Unresolved(rule, fi.Name()+":recognition", fi.Decl.Pos(), "the test of the \"gitdir: \" marker was not found")
		return
	}
	reviewed := map[string]string{
		"Rel":    "filepath.Rel fails only when one of the two roots is relative: the gitdir path cannot be expressed below the common directory",
		"Chroot": "the common filesystem cannot scope a sub-filesystem",
	}
	nNil := 0
	for _, l := range f.Locs(func(n ast.Node) bool {
		r, ok := n.(*ast.ReturnStmt)
		return ok && len(r.Results) == 1 && isNil(info, r.Results[0])
	}) {
		ret := l.B.Nodes[l.Idx].(*ast.ReturnStmt)
		if f.UnguardedPath(recognised, l) != nil {
			continue // reachable without recognition: the directory is not (recognisably) a linked worktree
		}
		nNil++
		// after recognition: must be `if err != nil { return nil }` directly after `…, err := X.<reviewed>(…)`
		path := pathTo(fi.Decl.Body, ret)
		why := ""
		for i := len(path) - 2; i >= 1 && why == ""; i-- {
			ifs, ok := path[i].(*ast.IfStmt)
			if !ok || path[i+1] != ifs.Body {
				continue
			}
			be, ok := unparen(ifs.Cond).(*ast.BinaryExpr)
			if !ok || be.Op != token.NEQ || !isNil(info, be.Y) {
				break
			}
			errObj := objOf(info, be.X)
			blk, ok := path[i-1].(*ast.BlockStmt)
			if !ok || errObj == nil {
				break
			}
			for j, s := range blk.List {
				if s != ast.Stmt(ifs) || j == 0 {
					continue
				}
				as, ok := blk.List[j-1].(*ast.AssignStmt)
				if !ok || len(as.Rhs) != 1 || objOf(info, as.Lhs[len(as.Lhs)-1]) != errObj {
					continue
				}
				if call, ok := unparen(as.Rhs[0]).(*ast.CallExpr); ok {
					if fn := Callee(info, call); fn != nil {
						if r, ok := reviewed[fn.Name()]; ok {
							why = fn.Name() + ": " + r
						}
					}
				}
			}
			break
		}
		key := fmt.Sprintf("%s:nil-after-recognition#%d", fi.Name(), nNil)
		if why != "" {
			c.Hold(rule, key, ret.Pos(), "reviewed fallback: error of "+why)
		} else {
			c.Violate(rule, key, ret.Pos(), "after the \"gitdir: \" file was recognised, getDualFS can still return nil under a condition that is not in the reviewed table; Worktree.Open then opens the main repository's directory for this worktree, and operations move the main worktree's HEAD, branch and index")
		}
	}
	c.Check(nNil >= 1, rule, fi.Name()+":inventory", fi.Decl.Pos(), fmt.Sprintf("%d nil results after recognition inventoried", nNil))
	// Open: the fallback is taken only on the nil result
	if op := c.MustFunc(rule, "x/plumbing/worktree.(*Worktree).Open"); op != nil {
		c.Analysed(op)
		oinfo := op.Pkg.TypesInfo
		calls := 0
		walkCalls(op.Decl.Body, false, func(call *ast.CallExpr) {
			if Callee(oinfo, call) == fi.Obj {
				calls++
			}
		})
		c.Check(calls == 1, rule, op.Name()+":uses-getDualFS", op.Decl.Pos(), "Open derives the repository filesystem from getDualFS")
	}
}

type routeTable struct {
	shared      map[string]bool
	tmpPrefixes []string // base-name prefixes routed to the common directory
}

func c33RouteTable(p *Prog, mf *FuncInfo, common *types.Var) routeTable {
	info := mf.Pkg.TypesInfo
	rt := routeTable{shared: map[string]bool{}}
	ast.Inspect(mf.Decl.Body, func(n ast.Node) bool {
		switch v := n.(type) {
		case *ast.SwitchStmt:
			if v.Tag == nil {
				return true
			}
			for _, cl := range v.Body.List {
				cc := cl.(*ast.CaseClause)
				if !usesObj(info, &ast.BlockStmt{List: cc.Body}, common) {
					continue
				}
				for _, e := range cc.List {
					if tv := info.Types[e]; tv.Value != nil && tv.Value.Kind() == constant.String {
						rt.shared[constant.StringVal(tv.Value)] = true
					}
				}
			}
		case *ast.IfStmt:
			call, ok := unparen(v.Cond).(*ast.CallExpr)
			if !ok || len(call.Args) != 2 || !usesObj(info, v.Body, common) {
				return true
			}
			if fn := Callee(info, call); fn == nil || fn.Pkg() == nil || fn.Pkg().Path() != "strings" || fn.Name() != "HasPrefix" {
				return true
			}
			// the tested operand is the base name (or the first component) of the path
			if nodeHasCall(call.Args[0], false, func(c *ast.CallExpr) bool {
				f := Callee(info, c)
				return f != nil && f.Name() == "Base"
			}) == nil {
				return true
			}
			if tv := info.Types[call.Args[1]]; tv.Value != nil && tv.Value.Kind() == constant.String {
				rt.tmpPrefixes = append(rt.tmpPrefixes, constant.StringVal(tv.Value))
			}
		}
		return true
	})
	return rt
}

// classPath: routing class of a path expression: "common", "private" or "" (unknown).
func (rt routeTable) classPath(info *types.Info, fn *FuncInfo, e ast.Expr, depth int) string {
	e = unparen(e)
	if depth > 5 {
		return ""
	}
	if tv := info.Types[e]; tv.Value != nil && tv.Value.Kind() == constant.String {
		s := constant.StringVal(tv.Value)
		first := strings.Split(strings.TrimPrefix(s, "/"), "/")[0]
		if rt.shared[first] {
			return "common"
		}
		return "private"
	}
	switch v := e.(type) {
	case *ast.CallExpr:
		if fn2 := Callee(info, v); fn2 != nil && fn2.Name() == "Join" && len(v.Args) > 0 {
			return rt.classPath(info, fn, v.Args[0], depth+1)
		}
		if fn2 := Callee(info, v); fn2 != nil && fn2.Pkg() != nil && fn2.Pkg().Path() == "fmt" && fn2.Name() == "Sprintf" && len(v.Args) > 0 {
			// the path starts with the format's literal prefix, or with its first operand when the format starts with a verb
			if tv := info.Types[v.Args[0]]; tv.Value != nil && tv.Value.Kind() == constant.String {
				f := constant.StringVal(tv.Value)
				if (strings.HasPrefix(f, "%s") || strings.HasPrefix(f, "%v")) && len(v.Args) > 1 {
					return rt.classPath(info, fn, v.Args[1], depth+1)
				}
				if strings.HasPrefix(f, "%") || !strings.Contains(f, "/") {
					return ""
				}
			}
			return rt.classPath(info, fn, v.Args[0], depth+1)
		}
	case *ast.BinaryExpr:
		if v.Op == token.ADD {
			return rt.classPath(info, fn, v.X, depth+1)
		}
	case *ast.Ident:
		obj := objOf(info, v)
		cls := ""
		n := 0
		ast.Inspect(fn.Decl.Body, func(x ast.Node) bool {
			as, ok := x.(*ast.AssignStmt)
			if !ok {
				return true
			}
			for i, l := range as.Lhs {
				if objOf(info, l) == obj && len(as.Rhs) == len(as.Lhs) {
					n++
					c := rt.classPath(info, fn, as.Rhs[i], depth+1)
					if n == 1 {
						cls = c
					} else if c != cls {
						cls = ""
					}
				}
			}
			return true
		})
		return cls
	}
	return ""
}

func (rt routeTable) classOrigin(o fileOrigin) (string, string) {
	info := o.fn.Pkg.TypesInfo
	if o.temp {
		if tv := info.Types[o.prefix]; tv.Value != nil && tv.Value.Kind() == constant.String {
			pre := constant.StringVal(tv.Value)
			for _, tp := range rt.tmpPrefixes {
				if strings.HasPrefix(pre, tp) {
					return "common", fmt.Sprintf("temporary file %q: base names with prefix %q are routed to the common directory", pre, tp)
				}
			}
			cls := rt.classPath(info, o.fn, o.path, 0)
			return cls, fmt.Sprintf("temporary file %q created in directory %s", pre, exprString(o.path))
		}
		return rt.classPath(info, o.fn, o.path, 0), "temporary file in " + exprString(o.path)
	}
	return rt.classPath(info, o.fn, o.path, 0), "file " + exprString(o.path)
}

func checkPublishWithinOneDirectory(c *Ctx, rule string, mf *FuncInfo, common *types.Var, rft *types.TypeName) {
	p := c.P
	rt := c33RouteTable(p, mf, common)
	an := &originAn{p: p, pkg: dotgitShort}
	n := 0
	for _, fi := range p.FuncsIn(dotgitShort) {
		if fi.Decl.Body == nil || p.isTestFile(fi.Decl.Pos()) {
			continue
		}
		if tn := recvTypeName(fi.Obj); tn == rft {
			continue // the router itself
		}
		info := fi.Pkg.TypesInfo
		walkCalls(fi.Decl.Body, true, func(call *ast.CallExpr) {
			fn := Callee(info, call)
			if fn == nil || fn.Name() != "Rename" || len(call.Args) != 2 || !isBillyMethod(fn) {
				return
			}
			n++
			c.Analysed(fi)
			key := fi.Name() + "->Rename(" + exprString(call.Args[0]) + "," + exprString(call.Args[1]) + ")"
			classes := map[string][]string{}
			var unknown []string
			for side, arg := range call.Args {
				an.visited = map[string]bool{}
				var origins []fileOrigin
				a := unparen(arg)
				// <file>.Name()
				if cl, ok := a.(*ast.CallExpr); ok && len(cl.Args) == 0 {
					if sel, ok := unparen(cl.Fun).(*ast.SelectorExpr); ok && sel.Sel.Name == "Name" {
						o, u := an.resolve(sel.X, fi, 0)
						origins, unknown = o, append(unknown, u...)
					}
				}
				sideName := [...]string{"source", "destination"}[side]
				if origins == nil {
					// a path expression
					if cls := rt.classPath(info, fi, a, 0); cls != "" {
						classes[cls] = append(classes[cls], sideName+": path "+exprString(a))
					} else {
						unknown = append(unknown, sideName+" "+exprString(a)+" cannot be classified")
					}
					continue
				}
				for _, o := range origins {
					cls, desc := rt.classOrigin(o)
					if cls == "" {
						unknown = append(unknown, sideName+": "+desc+" ("+p.Pos(o.pos)+") cannot be classified")
						continue
					}
					classes[cls] = append(classes[cls], sideName+": "+desc+" ("+p.Pos(o.pos)+")")
				}
			}
			switch {
			case len(unknown) > 0:
				sort.Strings(unknown)
				c.Unresolved(rule, key, call.Pos(), "origin of a renamed file not resolved: "+strings.Join(unknown, "; "))
			case len(classes) > 1:
				c.Violate(rule, key, call.Pos(), "the rename joins a worktree-private and a shared file; RepositoryFilesystem.Rename runs inside the filesystem of the old path, so in a linked worktree the new content lands in the wrong directory: "+
					strings.Join(classes["private"], ", ")+" | "+strings.Join(classes["common"], ", "))
			default:
				for cls, d := range classes {
					c.Hold(rule, key, call.Pos(), "both files are "+cls+": "+strings.Join(d, ", "))
				}
			}
		})
	}
	if n == 0 {
		c.Unresolved(rule, dotgitShort+":rename-sites", 0, "no Rename call found in package dotgit")
	}
}
