package main

import (
	"go/ast"
	"go/constant"
	"go/token"
	"go/types"
)

// valSet: the finite set of values an integer expression can take, when every free variable in it is either a loop
// counter with constant bounds or a parameter of a local function literal whose call sites all pass constants.
// nil means "not decided" (some operand is not such a variable).
type valEnv struct {
	info  *types.Info
	vars  map[types.Object][]int64
	loops []loopBind // a counter is bound only inside its own loop (one variable may count several loops)
}

type loopBind struct {
	node ast.Node
	obj  types.Object
	vals []int64
}

// at: the environment at a position, with the counters of the enclosing loops bound.
func (e *valEnv) at(pos token.Pos) *valEnv {
	out := &valEnv{info: e.info, vars: map[types.Object][]int64{}}
	for k, v := range e.vars {
		out.vars[k] = v
	}
	for _, l := range e.loops { // outer loops come first (pre-order), inner ones override
		if l.node.Pos() <= pos && pos < l.node.End() {
			out.vars[l.obj] = l.vals
		}
	}
	return out
}

const valSetMax = 4096

func (e *valEnv) eval(x ast.Expr) []int64 {
	x = unparen(x)
	if tv, ok := e.info.Types[x]; ok && tv.Value != nil {
		if v, exact := constant.Int64Val(constant.ToInt(tv.Value)); exact {
			return []int64{v}
		}
		return nil
	}
	switch v := x.(type) {
	case *ast.Ident:
		if o := objOf(e.info, v); o != nil {
			if s, ok := e.vars[o]; ok {
				return s
			}
		}
	case *ast.CallExpr:
		// conversion
		if len(v.Args) == 1 {
			if tv, ok := e.info.Types[v.Fun]; ok && tv.IsType() {
				in := e.eval(v.Args[0])
				if in == nil {
					return nil
				}
				b, ok := tv.Type.Underlying().(*types.Basic)
				if !ok {
					return nil
				}
				var out []int64
				for _, n := range in {
					switch b.Kind() {
					case types.Uint8:
						n &= 0xff
					case types.Uint16:
						n &= 0xffff
					case types.Uint32:
						n &= 0xffffffff
					}
					out = append(out, n)
				}
				return out
			}
		}
	case *ast.BinaryExpr:
		l, r := e.eval(v.X), e.eval(v.Y)
		if l == nil || r == nil || len(l)*len(r) > valSetMax {
			return nil
		}
		seen := map[int64]bool{}
		var out []int64
		for _, a := range l {
			for _, b := range r {
				var n int64
				switch v.Op {
				case token.SHL:
					if b < 0 || b > 62 {
						return nil
					}
					n = a << uint(b)
				case token.SHR:
					if b < 0 || b > 63 {
						return nil
					}
					n = a >> uint(b)
				case token.MUL:
					n = a * b
				case token.ADD:
					n = a + b
				case token.SUB:
					n = a - b
				case token.OR:
					n = a | b
				case token.AND:
					n = a & b
				default:
					return nil
				}
				if !seen[n] {
					seen[n] = true
					out = append(out, n)
				}
			}
		}
		return out
	}
	return nil
}

// bindLoopCounters records, for every counting loop under root whose bounds are constants, the values of its counter:
// `for i = 0; i < N; i++`, `for i := range N`, `for i := range uint(N)`.
func (e *valEnv) bindLoopCounters(root ast.Node) {
	var cur ast.Node
	upto := func(o types.Object, lo, hi int64) {
		if o == nil || hi-lo > 64 || hi < lo {
			return
		}
		var s []int64
		for n := lo; n < hi; n++ {
			s = append(s, n)
		}
		for i, l := range e.loops {
			if l.node == cur {
				e.loops[i].vals = s
				return
			}
		}
		e.loops = append(e.loops, loopBind{cur, o, s})
	}
	ast.Inspect(root, func(n ast.Node) bool {
		cur = n
		switch v := n.(type) {
		case *ast.RangeStmt:
			if v.Key == nil || v.Value != nil {
				return true
			}
			if tv, ok := e.info.Types[v.X]; ok && tv.Type != nil {
				if b, isB := tv.Type.Underlying().(*types.Basic); !isB || b.Info()&types.IsInteger == 0 {
					return true
				}
			}
			if hi := e.eval(v.X); len(hi) == 1 {
				upto(objOf(e.info, v.Key), 0, hi[0])
			}
		case *ast.ForStmt:
			as, ok := v.Init.(*ast.AssignStmt)
			if !ok || len(as.Lhs) != 1 || len(as.Rhs) != 1 {
				return true
			}
			o := objOf(e.info, as.Lhs[0])
			lo := e.eval(as.Rhs[0])
			cond, ok := v.Cond.(*ast.BinaryExpr)
			inc, isInc := v.Post.(*ast.IncDecStmt)
			if o == nil || len(lo) != 1 || !ok || !isInc || inc.Tok != token.INC || objOf(e.info, inc.X) != o || objOf(e.info, cond.X) != o {
				return true
			}
			hi := e.eval(cond.Y)
			if len(hi) != 1 {
				return true
			}
			// the counter must not be assigned in the body
			assigned := false
			ast.Inspect(v.Body, func(m ast.Node) bool {
				switch s := m.(type) {
				case *ast.AssignStmt:
					for _, l := range s.Lhs {
						if objOf(e.info, l) == o {
							assigned = true
						}
					}
				case *ast.IncDecStmt:
					if objOf(e.info, s.X) == o {
						assigned = true
					}
				}
				return true
			})
			if assigned {
				return true
			}
			switch cond.Op {
			case token.LSS:
				upto(o, lo[0], hi[0])
			case token.LEQ:
				upto(o, lo[0], hi[0]+1)
			}
		}
		return true
	})
}

// bindLiteralParams: for `f := func(a, b int) {…}` declared in body and only ever called (never passed on), each
// parameter takes the values of the arguments at the call sites, when all of those are decided.
func (e *valEnv) bindLiteralParams(body *ast.BlockStmt) {
	lits := map[types.Object]*ast.FuncLit{}
	ast.Inspect(body, func(n ast.Node) bool {
		if as, ok := n.(*ast.AssignStmt); ok && len(as.Lhs) == 1 && len(as.Rhs) == 1 {
			if lit, ok := unparen(as.Rhs[0]).(*ast.FuncLit); ok {
				if o := objOf(e.info, as.Lhs[0]); o != nil {
					lits[o] = lit
				}
			}
		}
		return true
	})
	for fo, lit := range lits {
		var params []types.Object
		for _, f := range lit.Type.Params.List {
			for _, nm := range f.Names {
				params = append(params, e.info.Defs[nm])
			}
		}
		sets := make([]map[int64]bool, len(params))
		decided := true
		uses, calls := 0, 0
		ast.Inspect(body, func(n ast.Node) bool {
			switch v := n.(type) {
			case *ast.Ident:
				if e.info.Uses[v] == fo {
					uses++
				}
			case *ast.CallExpr:
				if objOf(e.info, v.Fun) != fo || len(v.Args) != len(params) {
					return true
				}
				calls++
				for i, a := range v.Args {
					vals := e.eval(a)
					if vals == nil {
						// not every parameter needs to be decided: only mark this one
						sets[i] = map[int64]bool{}
						sets[i][-1<<62] = true
						continue
					}
					if sets[i] == nil {
						sets[i] = map[int64]bool{}
					}
					for _, x := range vals {
						sets[i][x] = true
					}
				}
			}
			return true
		})
		if uses != calls || calls == 0 {
			decided = false
		}
		if !decided {
			continue
		}
		for i, p := range params {
			if p == nil || sets[i] == nil || sets[i][-1<<62] {
				continue
			}
			var s []int64
			for x := range sets[i] {
				s = append(s, x)
			}
			e.vars[p] = s
		}
	}
}
