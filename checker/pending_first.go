package main

import (
	"go/ast"
	"go/token"
	"go/types"
)

// PendingDrainedBeforeAdvance: a reader type that parks the unread tail of a unit in a field (`pending`) must hand that
// tail out before it advances its underlying scanner; a delivery path that advances first drops the parked bytes from
// the middle of the stream. For every exported method of the type: no call that advances the scanner — directly, or
// through methods of the same type that do not consult the field themselves — is reachable from the method's entry
// without a consultation of the field (a read of it, or a call of a method that reads it) first.
// One obligation per exported method that can reach the advancing call.
func PendingDrainedBeforeAdvance(c *Ctx, rule, short, typeName, field, scannerField, advance string) int {
	p := c.P
	pk := p.Pkg(short)
	if pk == nil {
		c.Unresolved(rule, "package "+short, 0, "not loaded")
		return 0
	}
	info := pk.TypesInfo
	tn := p.lookupType(short, typeName)
	if tn == nil {
		c.Unresolved(rule, short+"."+typeName, 0, "type not found")
		return 0
	}
	fv, sv := fieldOf(tn, field), fieldOf(tn, scannerField)
	if fv == nil || sv == nil {
		c.Unresolved(rule, short+"."+typeName+"."+field+"/"+scannerField, tn.Pos(), "field not found")
		return 0
	}
	var methods []*FuncInfo
	for _, fi := range p.FuncsIn(short) {
		if fi.Decl.Body != nil && fi.Obj != nil && recvTypeName(fi.Obj) == tn && !p.isTestFile(fi.Decl.Pos()) {
			methods = append(methods, fi)
		}
	}
	byObj := map[*types.Func]*FuncInfo{}
	for _, m := range methods {
		byObj[m.Obj] = m
	}
	readsField := func(n ast.Node) bool {
		found := false
		ast.Inspect(n, func(x ast.Node) bool {
			if _, isLit := x.(*ast.FuncLit); isLit {
				return false
			}
			if as, ok := x.(*ast.AssignStmt); ok && as.Tok == token.ASSIGN {
				// a plain store to the field is not a consultation
				for _, r := range as.Rhs {
					if usesObj(info, r, fv) {
						found = true
					}
				}
				return false
			}
			if sel, ok := x.(*ast.SelectorExpr); ok && info.Uses[sel.Sel] == types.Object(fv) {
				found = true
			}
			return !found
		})
		return found
	}
	// methods that consult the field on every path from their entry (getPending)
	consults := map[*types.Func]bool{}
	for _, m := range methods {
		f := p.FlowOf(m)
		isRet := func(n ast.Node) bool { _, ok := n.(*ast.ReturnStmt); return ok }
		if readsField(m.Decl.Body) && f.Search(SearchOpts{Starts: []Loc{f.Entry()}, Sink: isRet, Barrier: readsField}) == nil {
			consults[m.Obj] = true
		}
	}
	isConsult := func(n ast.Node) bool {
		if readsField(n) {
			return true
		}
		return nodeHasCall(n, false, func(call *ast.CallExpr) bool { return consults[Callee(info, call)] }) != nil
	}
	isAdvance := func(call *ast.CallExpr) bool {
		sel, ok := unparen(call.Fun).(*ast.SelectorExpr)
		if !ok || sel.Sel.Name != advance {
			return false
		}
		inner, ok := unparen(sel.X).(*ast.SelectorExpr)
		return ok && info.Uses[inner.Sel] == types.Object(sv)
	}
	// needsGuard(m): from m's entry an advancing call (or a call of a method that needs a guard) is reachable without a
	// consultation first
	memo := map[*types.Func]int{} // 0 unknown, 1 in progress, 2 no, 3 yes
	var needsGuard func(m *FuncInfo) bool
	needsGuard = func(m *FuncInfo) bool {
		switch memo[m.Obj] {
		case 1, 2:
			return false
		case 3:
			return true
		}
		memo[m.Obj] = 1
		f := p.FlowOf(m)
		sink := CallNode(false, func(call *ast.CallExpr) bool {
			if isAdvance(call) {
				return true
			}
			if g := byObj[Callee(info, call)]; g != nil && g != m {
				return needsGuard(g)
			}
			return false
		})
		h := f.Search(SearchOpts{Starts: []Loc{f.Entry()}, Sink: sink, Barrier: isConsult})
		if h != nil {
			memo[m.Obj] = 3
			return true
		}
		memo[m.Obj] = 2
		return false
	}
	reaches := func(m *FuncInfo) bool {
		for _, g := range p.staticClosure([]*FuncInfo{m}) {
			if g.Decl.Body != nil && nodeHasCall(g.Decl.Body, false, isAdvance) != nil {
				return true
			}
		}
		return false
	}
	n := 0
	for _, m := range methods {
		if !ast.IsExported(m.Decl.Name.Name) || !reaches(m) {
			continue
		}
		n++
		c.Analysed(m)
		bad := needsGuard(m)
		c.Check(!bad, rule, m.Name(), m.Decl.Pos(), orStr(ifStr(bad, "this method can advance the scanner ("+scannerField+"."+advance+") without having looked at `"+field+"` first: bytes parked there by an earlier partial read are dropped from the middle of the stream"),
			"`"+field+"` is consulted before the scanner is advanced"))
	}
	return n
}
