package main

import (
	"fmt"
	"go/ast"
	"go/token"
	"go/types"
	"os"
	"sort"
	"strings"

	"golang.org/x/tools/go/cfg"
)

func init() {
	register(&propSpec{
		ID: "C29",
		Explanation: "Decides the ordering clause 'refuse before mutate' for the porcelain entry points (Checkout, Reset, PullContext, Restore, AddWithOptions, Commit, Repository.Merge): two effects are computed over the static call " +
			"graph of package git — MUTATES (reaches ReferenceStorer.SetReference/CheckAndSetReference/RemoveReference, IndexStorer.SetIndex or a mutating method of the worktree filesystem; Remote methods are excluded because " +
			"fetching only touches objects and remote-tracking refs) and REFUSES (returns one of the frozen refusal sentinels, or calls an options Validate method, the target resolvers, or another REFUSES function) — " +
			"and in each entry point's CFG no REFUSES call or refusal return is reachable after a MUTATES call. A call to Reset after a mutation is accepted only when the caller ran resetRefusals on the same options and set " +
			"refusalsChecked on every path, and Reset consults its refusals only behind that flag. A mutating call is compensated, and not counted, when it changes the index only (its closure inside package git reaches no reference mutator and " +
			"no worktree write) and a deferred function registered on every path before it puts a saved copy of the index (a package function applied to what Storer.Index() returned) back whenever the named error result is non-nil. (index-write-is-last-fallible-step) in the operations whose only lasting effect is the index (Add, AddGlob, AddWithOptions, doAdd, Remove, RemoveGlob, Move) no call that can fail is reachable after a call that stores the index — " +
			"the private copy is stored once, last; stored per matched path, a later failure leaves the earlier matches staged. Not decided: failures injected at filesystem calls after the first mutation (not refusals); that the refusal predicates are complete (C30).",
		Assumptions: []string{"the refusal table lists the errors that mean 'the operation declines to run' as opposed to I/O failures"},
		Run:         runC29,
	})
	register(&propSpec{
		ID: "C30",
		Explanation: "Decides that the refusal machinery of non-forced checkout and merge/keep resets is present and placed before any change: (reset-refusal-present) resetRefusals returns ErrUnstagedChanges under Mode == MergeReset when " +
			"containsUnstagedChanges reports true and consults checkKeepResetConflicts under Mode == KeepReset; Reset reaches setHEADCommit/resetIndex/resetWorktree* only after resetRefusals succeeded or the caller's flag says it did; " +
			"(force-only-hard) Checkout selects HardReset only under opts.Force; (keep-conflict-rules) checkKeepResetConflicts refuses tracked paths with staged or unstaged changes among the touched paths and untracked files at every path " +
			"the target writes (added or modified), not only at added paths; (untracked-preserved) resetWorktreeToTree skips Delete actions of the index-vs-worktree diff (untracked files). " +
			"(untracked-overwrite-refused) under Mode == MergeReset (which non-forced checkout uses) and under Mode == KeepReset, resetRefusals reaches success only across the success edge of a function that walks Worktree.Status and returns a refusal " +
			"sentinel in a loop that tests the Untracked status code (mode-infeasible edges are pruned from the search); (staged-changes-refused) the same search for a status loop that tests .Staging against Unmodified: keep mode holds, merge mode " +
			"is a recorded known finding (staged-only changes are discarded); (keep-preserves-unrelated-edits) under the scenario 'keep parameter true, action == Modify' the file-writing call of resetWorktreeToTree is reachable only across the ok " +
			"edge of a lookup in the set of paths that differ between the two trees; (unblock-removes-only-symlinks) the helper that clears what is in the way of a written entry (it runs for non-forced switches too, after the refusal checks, which only look at the exact paths written) removes nothing but symbolic links: an untracked regular file standing where a directory is needed makes the write fail, it is not deleted. Not decided: that the predicates detect every overwritten modification; locally deleted files under keep.",
		Assumptions: []string{"Worktree.Status reports local modifications correctly (C27)"},
		Run:         runC30,
	})
}

var refusalSentinels = []string{
	"ErrUnstagedChanges", "ErrLocalChanges", "ErrSparseResetDirectoryNotFound", "ErrNonFastForwardUpdate", "ErrFastForwardMergeNotPossible",
	"ErrEmptyCommit", "ErrWorktreeNotClean", "ErrRestoreWorktreeOnlyNotSupported", "ErrBranchHashExclusive", "ErrCreateRequiresBranch",
	"ErrDestinationExists", "ErrGlobNoMatches", "ErrUnsupportedMergeStrategy",
}

type porcelainEffects struct {
	mut, ref map[*types.Func]string // function -> why (chain head)
}

func computePorcelainEffects(p *Prog) *porcelainEffects {
	pk := p.Pkg("git")
	info := pk.TypesInfo
	wtn := p.lookupType("git", "worktreeFilesystem")
	sent := map[types.Object]bool{}
	for _, n := range refusalSentinels {
		if o := p.lookupObj("git", n); o != nil {
			sent[o] = true
		}
	}
	storerMut := map[string]bool{"SetReference": true, "CheckAndSetReference": true, "RemoveReference": true, "SetIndex": true}
	fsMut := map[string]bool{"Create": true, "OpenFile": true, "Remove": true, "Rename": true, "Symlink": true, "MkdirAll": true}
	e := &porcelainEffects{mut: map[*types.Func]string{}, ref: map[*types.Func]string{}}
	funcs := p.FuncsIn("git")
	// functions that act on another repository (a remote's tracking refs, a submodule's own repository, a repository
	// being created) are opaque for this property: their writes are not to this repository's HEAD/branches/index/worktree
	isRemote := func(fi *FuncInfo) bool {
		tn := recvTypeName(fi.Obj)
		if tn != nil && (tn.Name() == "Remote" || tn.Name() == "Submodule" || tn.Name() == "Submodules") {
			return true
		}
		switch fi.Obj.Name() {
		case "Init", "Open", "PlainInit", "PlainOpen", "Clone", "PlainClone", "initStorer":
			return tn == nil
		}
		return false
	}
	// direct effects
	for _, fi := range funcs {
		if fi.Decl.Body == nil || p.isTestFile(fi.Decl.Pos()) {
			continue
		}
		walkCalls(fi.Decl.Body, true, func(call *ast.CallExpr) {
			fn := Callee(info, call)
			if fn == nil {
				return
			}
			if fn.Pkg() != nil && strings.HasSuffix(fn.Pkg().Path(), "/plumbing/storer") && storerMut[fn.Name()] && !isRemote(fi) {
				if _, ok := e.mut[fi.Obj]; !ok {
					e.mut[fi.Obj] = fn.Name() + " at " + p.Pos(call.Pos())
				}
			}
			if sel, ok := unparen(call.Fun).(*ast.SelectorExpr); ok && fsMut[sel.Sel.Name] && wtn != nil {
				if tv, ok := info.Types[sel.X]; ok && types.Identical(tv.Type, types.NewPointer(wtn.Type())) && recvTypeName(fi.Obj) != wtn {
					if _, ok := e.mut[fi.Obj]; !ok {
						e.mut[fi.Obj] = "worktree " + sel.Sel.Name + " at " + p.Pos(call.Pos())
					}
				}
			}
			if fn.Name() == "Validate" && fn.Pkg() != nil && fn.Pkg().Path() == modPath {
				if tn := recvTypeName(fn); tn != nil && strings.HasSuffix(tn.Name(), "Options") {
					if _, ok := e.ref[fi.Obj]; !ok {
						e.ref[fi.Obj] = tn.Name() + ".Validate at " + p.Pos(call.Pos())
					}
				}
			}
		})
		ast.Inspect(fi.Decl.Body, func(n ast.Node) bool {
			if r, ok := n.(*ast.ReturnStmt); ok {
				for o := range sent {
					if usesObj(info, r, o) {
						if _, ok := e.ref[fi.Obj]; !ok {
							e.ref[fi.Obj] = "returns " + o.Name() + " at " + p.Pos(r.Pos())
						}
					}
				}
			}
			return true
		})
	}
	// target resolvers refuse when the target does not exist
	for _, n := range []string{"git.(*Worktree).getCommitFromCheckoutOptions", "git.(*Worktree).checkNewBranch", "git.(*Repository).getTreeFromCommitHash"} {
		if fi := p.Func(n); fi != nil {
			if _, ok := e.ref[fi.Obj]; !ok {
				e.ref[fi.Obj] = "resolves the checkout target (fails when it does not exist)"
			}
		}
	}
	// Reset refuses unless its caller evaluated the refusals and says so (call sites are examined individually)
	if fi := p.Func("git.(*Worktree).Reset"); fi != nil {
		e.ref[fi.Obj] = "evaluates resetRefusals unless the caller already did"
	}
	// propagation through static calls in package git; REFUSES does not propagate through a call behind `!x.refusalsChecked`
	changed := true
	for changed {
		changed = false
		for _, fi := range funcs {
			if fi.Decl.Body == nil || p.isTestFile(fi.Decl.Pos()) {
				continue
			}
			f := p.FlowOf(fi)
			walkCalls(fi.Decl.Body, true, func(call *ast.CallExpr) {
				fn := Callee(info, call)
				if fn == nil || p.FuncOf(fn) == nil || fn.Pkg().Path() != modPath {
					return
				}
				if _, has := e.mut[fn]; has && !isRemote(fi) {
					if cf := p.FuncOf(fn); cf != nil && !isRemote(cf) {
						if _, ok := e.mut[fi.Obj]; !ok {
							e.mut[fi.Obj] = "calls " + fn.Name()
							changed = true
						}
					}
				}
				if _, has := e.ref[fn]; has && !isRemote(p.FuncOf(fn)) {
					if _, ok := e.ref[fi.Obj]; !ok {
						if flagGuarded(f, info, call) {
							return
						}
						e.ref[fi.Obj] = "calls " + fn.Name()
						changed = true
					}
				}
			})
		}
	}
	return e
}

// flagGuarded: the call is reachable only on the edge where `<x>.refusalsChecked` is false.
func flagGuarded(f *Flow, info *types.Info, call *ast.CallExpr) bool {
	locs := f.sinkSites(true, func(cc *ast.CallExpr) bool { return cc == call })
	if len(locs) == 0 {
		return false
	}
	pass := FactGuard(func(_ *Flow, fact Fact) bool {
		sel, ok := unparen(fact.Atom).(*ast.SelectorExpr)
		return ok && sel.Sel.Name == "refusalsChecked" && !fact.Truth
	})
	for _, l := range locs {
		if f.UnguardedPath(pass, l) != nil {
			return false
		}
	}
	return true
}

func runC29(c *Ctx) {
	p := c.P
	pk := p.Pkg("git")
	if pk == nil {
		c.Unresolved("refuse-before-mutate", "package git", 0, "not loaded")
		return
	}
	info := pk.TypesInfo
	checkIndexWriteIsLast(c, "index-write-is-last-fallible-step")
	eff := computePorcelainEffects(p)
	c.Extra["mutating_functions"] = len(eff.mut)
	c.Extra["refusing_functions"] = len(eff.ref)
	const r1 = "refuse-before-mutate"
	entries := []string{
		"git.(*Worktree).Checkout", "git.(*Worktree).Reset", "git.(*Worktree).PullContext", "git.(*Worktree).Restore",
		"git.(*Worktree).AddWithOptions", "git.(*Worktree).Commit", "git.(*Repository).Merge",
	}
	resetFn := p.Func("git.(*Worktree).Reset")
	refusalsFn := p.Func("git.(*Worktree).resetRefusals")
	sent := map[types.Object]bool{}
	for _, n := range refusalSentinels {
		if o := p.lookupObj("git", n); o != nil {
			sent[o] = true
		}
	}
	for _, en := range entries {
		fi := c.MustFunc(r1, en)
		if fi == nil {
			continue
		}
		f := p.FlowOf(fi)
		isMut := func(n ast.Node) bool {
			if _, isDefer := n.(*ast.DeferStmt); isDefer {
				return false
			}
			return nodeHasCall(n, false, func(call *ast.CallExpr) bool {
				fn := Callee(info, call)
				_, ok := eff.mut[fn]
				return fn != nil && ok
			}) != nil
		}
		// a Reset call whose refusals were already evaluated by this function
		prechecked := func(call *ast.CallExpr) bool {
			if resetFn == nil || refusalsFn == nil || Callee(info, call) != resetFn.Obj || len(call.Args) != 1 {
				return false
			}
			ro := objOf(info, call.Args[0])
			if ro == nil {
				return false
			}
			flagSet := func(n ast.Node) bool {
				as, ok := n.(*ast.AssignStmt)
				if !ok {
					return false
				}
				for i, l := range as.Lhs {
					if sel, ok := unparen(l).(*ast.SelectorExpr); ok && sel.Sel.Name == "refusalsChecked" && objOf(info, sel.X) == ro && i < len(as.Rhs) {
						if tv := info.Types[as.Rhs[i]]; tv.Value != nil && tv.Value.ExactString() == "true" {
							return true
						}
					}
				}
				return false
			}
			locs := f.sinkSites(false, func(cc *ast.CallExpr) bool { return cc == call })
			if len(locs) == 0 {
				return false
			}
			// flag set on every path to the call …
			for _, l := range locs {
				if f.Search(SearchOpts{Starts: []Loc{f.Entry()}, Sink: func(n ast.Node) bool { return n == l.B.Nodes[l.Idx] }, Barrier: flagSet}) != nil {
					return false
				}
			}
			// … and the flag is set only after resetRefusals(ro) succeeded
			okGuard := ErrGuard(func(_ *Flow, cc *ast.CallExpr) bool {
				return Callee(info, cc) == refusalsFn.Obj && len(cc.Args) == 1 && objOf(info, cc.Args[0]) == ro
			})
			for _, l := range f.Locs(flagSet) {
				if f.UnguardedPath(okGuard, l) != nil {
					return false
				}
			}
			return true
		}
		refusesLater := func(n ast.Node) bool {
			if _, isDefer := n.(*ast.DeferStmt); isDefer {
				return false
			}
			if r, ok := n.(*ast.ReturnStmt); ok {
				for o := range sent {
					if usesObj(info, r, o) {
						return true
					}
				}
			}
			return nodeHasCall(n, false, func(call *ast.CallExpr) bool {
				fn := Callee(info, call)
				if fn == nil {
					return false
				}
				if _, ok := eff.ref[fn]; !ok {
					return false
				}
				return !prechecked(call)
			}) != nil
		}
		muts := f.Locs(isMut)
		// a mutation of the index alone is compensated when a deferred function, registered on every path before it,
		// puts a saved copy of the index back whenever the (named) error result is non-nil
		nComp := 0
		if comp := indexRestoreDefer(p, info, fi, f); comp != nil {
			var rest []Loc
			for _, m := range muts {
				call := nodeHasCall(m.B.Nodes[m.Idx], false, func(call *ast.CallExpr) bool { _, ok := eff.mut[Callee(info, call)]; return ok })
				dominated := f.Search(SearchOpts{Starts: []Loc{f.Entry()}, Sink: func(n ast.Node) bool { return n == m.B.Nodes[m.Idx] }, Barrier: func(n ast.Node) bool { return n == ast.Node(comp) }}) == nil
				if call != nil && dominated && onlyMutatesIndex(p, info, Callee(info, call)) {
					nComp++
					continue
				}
				rest = append(rest, m)
			}
			muts = rest
		}
		var worst *Hit
		var first Loc
		for _, m := range muts {
			if h := f.Search(SearchOpts{Starts: []Loc{After(m)}, Sink: refusesLater}); h != nil {
				if worst == nil {
					worst, first = h, m
				}
			}
		}
		c.Analysed(fi)
		if worst != nil {
			mcall := nodeHasCall(first.B.Nodes[first.Idx], false, func(call *ast.CallExpr) bool { _, ok := eff.mut[Callee(info, call)]; return ok })
			rdesc := "a refusal return"
			if rc := nodeHasCall(worst.Node, false, func(call *ast.CallExpr) bool { _, ok := eff.ref[Callee(info, call)]; return ok }); rc != nil {
				rdesc = Callee(info, rc).Name() + " (" + eff.ref[Callee(info, rc)] + ")"
			}
			c.Violate(r1, fi.Name(), worst.Node.Pos(), "after "+Callee(info, mcall).Name()+" ("+eff.mut[Callee(info, mcall)]+") at "+p.Pos(mcall.Pos())+" the operation can still refuse: "+rdesc+"; a refused call would leave that change behind")
		} else {
			c.Hold(r1, fi.Name(), fi.Decl.Pos(), itoa(len(muts))+" mutating call(s); no refusal reachable after the first"+ifStr(nComp > 0, "; "+itoa(nComp)+" index-only mutation(s) compensated by a deferred restore of the saved index on every error return"))
		}
	}
	c.Floor(r1, 7)

	// Reset consults its refusals only behind the flag, and has no other refusal source
	const r2 = "reset-refusals-flagged"
	if resetFn != nil && refusalsFn != nil {
		f := p.FlowOf(resetFn)
		var calls []*ast.CallExpr
		walkCalls(resetFn.Decl.Body, false, func(call *ast.CallExpr) {
			if Callee(info, call) == refusalsFn.Obj {
				calls = append(calls, call)
			}
		})
		ok := len(calls) == 1
		for _, call := range calls {
			if !flagGuarded(f, info, call) {
				ok = false
			}
		}
		// when the flag is false the refusals are evaluated before any mutation
		direct := false
		ast.Inspect(resetFn.Decl.Body, func(n ast.Node) bool {
			if r, isRet := n.(*ast.ReturnStmt); isRet {
				for o := range sent {
					if usesObj(info, r, o) {
						direct = true
					}
				}
			}
			return true
		})
		c.Check(ok && !direct, r2, resetFn.Name(), resetFn.Decl.Pos(), "Reset evaluates its refusals through resetRefusals, only when the caller has not done so, and returns no refusal of its own")
		// resetRefusals covers Reset: whatever can still refuse inside Reset before its first mutation (target tree
		// lookup …) is also evaluated by resetRefusals on every non-soft path, otherwise a caller that mutates after
		// resetRefusals and then calls Reset(prechecked) can be refused late
		soft := p.lookupObj("git", "SoftReset")
		covered := map[*types.Func]bool{}
		walkCalls(resetFn.Decl.Body, false, func(call *ast.CallExpr) {
			fn := Callee(info, call)
			if fn == nil || fn == refusalsFn.Obj {
				return
			}
			if _, isRef := eff.ref[fn]; !isRef || covered[fn] {
				return
			}
			covered[fn] = true
			rfFlow := p.FlowOf(refusalsFn)
			pass := ErrGuard(func(_ *Flow, cc *ast.CallExpr) bool { return Callee(info, cc) == fn })
			softEdge := FactGuard(func(_ *Flow, fact Fact) bool {
				be, ok := unparen(fact.Atom).(*ast.BinaryExpr)
				return ok && usesObj(info, be, soft) && (be.Op == token.EQL) == fact.Truth
			})
			h := rfFlow.Search(SearchOpts{Starts: []Loc{rfFlow.Entry()}, Sink: func(n ast.Node) bool {
				r, ok := n.(*ast.ReturnStmt)
				return ok && len(r.Results) == 1 && isNil(info, r.Results[0])
			}, BlockEdge: func(b *cfg.Block, i int) bool { return pass(rfFlow, b, i) || softEdge(rfFlow, b, i) }})
			c.Check(h == nil, r2, refusalsFn.Name()+":covers:"+fn.Name(), call.Pos(), orStr(ifStr(h != nil, "Reset can still fail in "+fn.Name()+" ("+eff.ref[fn]+") but resetRefusals succeeds without evaluating it: a caller that mutates in between is refused late"), "also evaluated by resetRefusals on every non-soft path"))
		})
		// resetRefusals itself mutates nothing
		_, mutates := eff.mut[refusalsFn.Obj]
		c.Check(!mutates, r2, refusalsFn.Name()+":pure", refusalsFn.Decl.Pos(), orStr(ifStr(mutates, "resetRefusals mutates: "+eff.mut[refusalsFn.Obj]), "resetRefusals reaches no mutating call"))
	} else {
		c.Unresolved(r2, "git.(*Worktree).{Reset,resetRefusals}", 0, "anchor not found")
	}
	var names []string
	for fn, why := range eff.ref {
		names = append(names, funcName(fn)+": "+why)
	}
	sort.Strings(names)
	c.Extra["refuses"] = names
	_ = token.NoPos
	_ = cfg.KindBody
}

func runC30(c *Ctx) {
	p := c.P
	pk := p.Pkg("git")
	if pk == nil {
		c.Unresolved("reset-refusal-present", "package git", 0, "not loaded")
		return
	}
	info := pk.TypesInfo
	checkUnblockRemovesOnlySymlinks(c, "unblock-removes-only-symlinks")
	const r1 = "reset-refusal-present"
	modeIs := func(name string, want bool) PassEdge {
		obj := p.lookupObj("git", name)
		return FactGuard(func(_ *Flow, fact Fact) bool {
			be, ok := unparen(fact.Atom).(*ast.BinaryExpr)
			if !ok || !usesObj(info, be, obj) {
				return false
			}
			return (be.Op == token.EQL) == (fact.Truth == want)
		})
	}
	rf := c.MustFunc(r1, "git.(*Worktree).resetRefusals")
	if rf != nil {
		unstaged := p.lookupObj("git", "ErrUnstagedChanges")
		f := p.FlowOf(rf)
		// under MergeReset: success is reachable only after containsUnstagedChanges was consulted and reported false
		d := newDeriver(info, rf.Decl)
		cleanEdge := FactGuard(func(_ *Flow, fact Fact) bool {
			o := objOf(info, fact.Atom)
			if o == nil || fact.Truth {
				return false
			}
			for _, def := range d.defs[o] {
				if call, ok := unparen(def).(*ast.CallExpr); ok && callsNamed(info, "containsUnstagedChanges")(call) {
					return true
				}
			}
			return false
		})
		notMerge := modeIs("MergeReset", false)
		success := func(n ast.Node) bool {
			r, ok := n.(*ast.ReturnStmt)
			return ok && len(r.Results) == 1 && isNil(info, r.Results[0])
		}
		h := f.Search(SearchOpts{Starts: []Loc{f.Entry()}, Sink: success, BlockEdge: func(b *cfg.Block, i int) bool {
			return cleanEdge(f, b, i) || notMerge(f, b, i)
		}})
		returnsUnstaged := false
		ast.Inspect(rf.Decl.Body, func(n ast.Node) bool {
			if r, ok := n.(*ast.ReturnStmt); ok && usesObj(info, r, unstaged) {
				returnsUnstaged = true
			}
			return true
		})
		c.Check(h == nil && returnsUnstaged && f.HasPassEdge(cleanEdge), r1, rf.Name()+":merge-unstaged", rf.Decl.Pos(), "with Mode == MergeReset success requires containsUnstagedChanges == false; otherwise ErrUnstagedChanges")
		// under KeepReset: success only after checkKeepResetConflicts succeeded
		keepOK := ErrGuard(anyArgs(callsNamed(info, "checkKeepResetConflicts")))
		notKeep := modeIs("KeepReset", false)
		soft := modeIs("SoftReset", true)
		h2 := f.Search(SearchOpts{Starts: []Loc{f.Entry()}, Sink: success, BlockEdge: func(b *cfg.Block, i int) bool {
			return keepOK(f, b, i) || notKeep(f, b, i) || soft(f, b, i)
		}})
		c.Check(h2 == nil && f.HasPassEdge(keepOK), r1, rf.Name()+":keep-conflicts", rf.Decl.Pos(), "with Mode == KeepReset success requires checkKeepResetConflicts to succeed")
	}
	if rs := c.MustFunc(r1, "git.(*Worktree).Reset"); rs != nil && rf != nil {
		pass := AnyGuard(ErrGuard(func(_ *Flow, call *ast.CallExpr) bool { return Callee(info, call) == rf.Obj }),
			FactGuard(func(_ *Flow, fact Fact) bool {
				sel, ok := unparen(fact.Atom).(*ast.SelectorExpr)
				return ok && sel.Sel.Name == "refusalsChecked" && fact.Truth
			}))
		n := CallsGuarded(c, r1, rs, pass, callsNamed(info, "setHEADCommit", "resetIndex", "resetWorktree", "resetWorktreeToTree"), "the refusals having been evaluated (resetRefusals succeeded or the caller's flag)")
		if n < 4 {
			c.Unresolved(r1, rs.Name(), rs.Decl.Pos(), "expected calls to setHEADCommit, resetIndex, resetWorktree and resetWorktreeToTree")
		}
	}
	c.Floor(r1, 6)

	// force-only-hard
	const r2 = "force-only-hard"
	if co := c.MustFunc(r2, "git.(*Worktree).Checkout"); co != nil {
		hard := p.lookupObj("git", "HardReset")
		f := p.FlowOf(co)
		n := 0
		for _, loc := range f.Locs(func(nd ast.Node) bool {
			as, ok := nd.(*ast.AssignStmt)
			if !ok {
				return false
			}
			for i, l := range as.Lhs {
				if sel, ok := unparen(l).(*ast.SelectorExpr); ok && sel.Sel.Name == "Mode" && i < len(as.Rhs) && usesObj(info, as.Rhs[i], hard) {
					return true
				}
			}
			return false
		}) {
			n++
			force := FactGuard(func(_ *Flow, fact Fact) bool {
				sel, ok := unparen(fact.Atom).(*ast.SelectorExpr)
				return ok && sel.Sel.Name == "Force" && fact.Truth
			})
			c.Check(f.UnguardedPath(force, loc) == nil, r2, co.Name()+":Mode=HardReset", loc.B.Nodes[loc.Idx].Pos(), "HardReset is selected only on the opts.Force edge")
		}
		// the literal's default mode is MergeReset
		merge := p.lookupObj("git", "MergeReset")
		def := false
		ast.Inspect(co.Decl.Body, func(x ast.Node) bool {
			if kv, ok := x.(*ast.KeyValueExpr); ok {
				if id, ok := kv.Key.(*ast.Ident); ok && id.Name == "Mode" && usesObj(info, kv.Value, merge) {
					def = true
				}
			}
			return true
		})
		c.Check(def && n > 0, r2, co.Name()+":default-MergeReset", co.Decl.Pos(), "a checkout without Force runs a MergeReset (which refuses on unstaged changes)")
	}

	// keep-conflict-rules
	const r3 = "keep-conflict-rules"
	if kc := c.MustFunc(r3, "git.(*Worktree).checkKeepResetConflicts"); kc != nil {
		local := p.lookupObj("git", "ErrLocalChanges")
		nRet := 0
		ast.Inspect(kc.Decl.Body, func(x ast.Node) bool {
			if r, ok := x.(*ast.ReturnStmt); ok && usesObj(info, r, local) {
				nRet++
			}
			return true
		})
		c.Check(nRet >= 2, r3, kc.Name()+":refuses-tracked-and-untracked", kc.Decl.Pos(), "refuses both locally modified tracked paths and untracked files in the way ("+itoa(nRet)+" ErrLocalChanges returns)")
		// the untracked-overwrite set contains every path the target writes: it is filled wherever ch.To is recorded
		// (for modifications as well as additions), i.e. the insertion is not guarded by an Insert-only condition
		// by role: the set looked up in the `if _, ok := M[path]; ok { return ErrLocalChanges }` that sits under the
		// condition mentioning the Untracked status
		var written types.Object
		untracked := p.lookupObj("git", "Untracked")
		ast.Inspect(kc.Decl.Body, func(x ast.Node) bool {
			outer, ok := x.(*ast.IfStmt)
			if !ok || untracked == nil || !usesObj(info, outer.Cond, untracked) {
				return true
			}
			ast.Inspect(outer.Body, func(y ast.Node) bool {
				inner, ok := y.(*ast.IfStmt)
				if !ok || inner.Init == nil || !usesObj(info, inner.Body, local) {
					return true
				}
				if as, ok := inner.Init.(*ast.AssignStmt); ok && len(as.Rhs) == 1 {
					if ix, ok := unparen(as.Rhs[0]).(*ast.IndexExpr); ok {
						written = objOf(info, ix.X)
					}
				}
				return true
			})
			return true
		})
		if written == nil {
			c.Violate(r3, kc.Name()+":written-paths", kc.Decl.Pos(), "no set of paths written by the target found (the untracked-overwrite check needs every added or modified path)")
		} else {
			f := p.FlowOf(kc)
			okAll := true
			n := 0
			for _, loc := range f.Locs(func(nd ast.Node) bool {
				as, ok := nd.(*ast.AssignStmt)
				if !ok {
					return false
				}
				for _, l := range as.Lhs {
					if ix, ok := unparen(l).(*ast.IndexExpr); ok && objOf(info, ix.X) == written {
						return true
					}
				}
				return false
			}) {
				n++
				// the insertion must be reachable for Modify actions too: it may not sit behind an `action == Insert` edge
				insert := p.importedPkg(modPath + "/utils/merkletrie")
				var insObj types.Object
				if insert != nil {
					insObj = insert.Scope().Lookup("Insert")
				}
				onlyInsert := FactGuard(func(_ *Flow, fact Fact) bool {
					be, ok := unparen(fact.Atom).(*ast.BinaryExpr)
					return ok && insObj != nil && usesObj(info, be, insObj) && (be.Op == token.EQL) == fact.Truth
				})
				if f.UnguardedPath(onlyInsert, loc) == nil {
					okAll = false
				}
				// sibling agreement: the path is recorded as written under exactly the condition under which it is
				// recorded as touched (same block, same key) — no extra restriction such as "only when newly added"
				as := loc.B.Nodes[loc.Idx].(*ast.AssignStmt)
				key := exprString(unparen(as.Lhs[0]).(*ast.IndexExpr).Index)
				sameBlock := false
				if path := pathTo(kc.Decl.Body, as); len(path) >= 2 {
					if blk, ok := path[len(path)-2].(*ast.BlockStmt); ok {
						for _, s := range blk.List {
							if other, ok := s.(*ast.AssignStmt); ok && other != as && len(other.Lhs) == 1 {
								if ix, ok := unparen(other.Lhs[0]).(*ast.IndexExpr); ok && objOf(info, ix.X) != written && exprString(ix.Index) == key {
									sameBlock = true
								}
							}
						}
					}
				}
				if !sameBlock {
					okAll = false
				}
			}
			c.Check(okAll && n > 0, r3, kc.Name()+":written-paths", kc.Decl.Pos(), "paths the target modifies (not only the ones it adds) are checked for untracked files in the way")
		}
	}

	// untracked-preserved
	const r4 = "untracked-preserved"
	if rw := c.MustFunc(r4, "git.(*Worktree).resetWorktreeToTree"); rw != nil {
		mt := p.importedPkg(modPath + "/utils/merkletrie")
		var delObj types.Object
		if mt != nil {
			delObj = mt.Scope().Lookup("Delete")
		}
		found := false
		ast.Inspect(rw.Decl.Body, func(x ast.Node) bool {
			ifs, ok := x.(*ast.IfStmt)
			if !ok || delObj == nil || !usesObj(info, ifs.Cond, delObj) {
				return true
			}
			for _, s := range ifs.Body.List {
				if b, ok := s.(*ast.BranchStmt); ok && b.Tok == token.CONTINUE {
					found = true
				}
			}
			return true
		})
		c.Check(found, r4, rw.Name()+":skips-delete", rw.Decl.Pos(), "files present in the worktree but not in the new index (untracked) are skipped, not deleted")

		// keep-preserves-unrelated-edits: in keep mode an existing file whose content differs from the index (a local
		// edit) is rewritten only when its path is in the set of paths that differ between the two trees. Scenario
		// evaluation: assume the boolean parameter (keep) true and the action equal to merkletrie.Modify; the file-writing
		// call must then be reachable only across the `ok` edge of a lookup in a local set.
		const r4k = "keep-preserves-unrelated-edits"
		var keepParam, modifyObj types.Object
		for _, pv := range paramObjs(info, rw.Decl) {
			if isBoolType(pv.Type()) {
				keepParam = pv
			}
		}
		if mt != nil {
			modifyObj = mt.Scope().Lookup("Modify")
		}
		// the action variables: assigned from <change>.Action()
		actionVars := map[types.Object]bool{}
		ast.Inspect(rw.Decl.Body, func(x ast.Node) bool {
			as, ok := x.(*ast.AssignStmt)
			if !ok || len(as.Rhs) != 1 || len(as.Lhs) != 2 {
				return true
			}
			if call, ok := unparen(as.Rhs[0]).(*ast.CallExpr); ok {
				if sel, ok := unparen(call.Fun).(*ast.SelectorExpr); ok && sel.Sel.Name == "Action" {
					if o := objOf(info, as.Lhs[0]); o != nil {
						actionVars[o] = true
					}
				}
			}
			return true
		})
		writeFn := p.Func("git.(*Worktree).checkoutChange")
		if keepParam == nil || modifyObj == nil || writeFn == nil || len(actionVars) == 0 {
			c.Violate(r4k, rw.Name(), rw.Decl.Pos(), "resetWorktreeToTree has no boolean 'keep' parameter (or the action / write call was not found): in keep mode it rewrites every file that differs from the index, local edits to files the reset does not touch included")
		} else {
			ca := &condAssume{info: info, bval: map[types.Object]bool{keepParam: true}, eq: map[types.Object]types.Object{}}
			for o := range actionVars {
				ca.eq[o] = modifyObj
			}
			f := p.FlowOf(rw)
			prune := ca.blockEdge()
			inSet := func(b *cfg.Block, i int) bool {
				for _, fact := range f.EdgeFacts(b, i) {
					o := objOf(info, fact.Atom)
					if o == nil || !fact.Truth {
						continue
					}
					for _, n := range b.Nodes {
						as, ok := n.(*ast.AssignStmt)
						if !ok || len(as.Lhs) != 2 || len(as.Rhs) != 1 || objOf(info, as.Lhs[1]) != o {
							continue
						}
						if ix, ok := unparen(as.Rhs[0]).(*ast.IndexExpr); ok {
							if tv := info.Types[ix.X]; tv.Type != nil {
								if _, isMap := tv.Type.Underlying().(*types.Map); isMap {
									return true
								}
							}
						}
					}
				}
				return false
			}
			h := f.Search(SearchOpts{Starts: []Loc{f.Entry()},
				Sink:      func(n ast.Node) bool { return nodeHasCall(n, false, func(call *ast.CallExpr) bool { return Callee(info, call) == writeFn.Obj }) != nil },
				BlockEdge: func(b *cfg.Block, i int) bool { return prune(b, i) || inSet(b, i) }})
			c.Check(h == nil, r4k, rw.Name(), rw.Decl.Pos(), orStr(ifStr(h != nil, "in keep mode a file that exists with other content can be rewritten without its path being among the paths the switch changes: local edits to unrelated files are discarded"+hitLines(f, h)),
				"in keep mode an existing file is rewritten only when its path is in the set of paths that differ between the two trees"))
		}
	}

	// untracked-overwrite-refused: both non-forced modes reach, before resetRefusals can succeed, a successful call of a
	// function that consults Status and refuses on an Untracked entry (an untracked file at a path the switch writes)
	const r5 = "untracked-overwrite-refused"
	type refusalKind struct {
		rule, code, what string
		needStaging      bool
	}
	for _, rk := range []refusalKind{
		{r5, "Untracked", "untracked files at the paths the switch writes", false},
		{"staged-changes-refused", "Unmodified", "staged changes (the index is reset to the target, so what was staged is discarded)", true},
	} {
		r5 := rk.rule
		if rr := c.MustFunc(r5, "git.(*Worktree).resetRefusals"); rr != nil {
			untrackedObj := p.lookupObj("git", rk.code)
			refusers := map[*types.Func]bool{}
			for _, fi := range p.FuncsIn("git") {
				if fi.Decl.Body == nil || p.isTestFile(fi.Decl.Pos()) || untrackedObj == nil {
					continue
				}
				usesStatus := nodeHasCall(fi.Decl.Body, true, func(call *ast.CallExpr) bool {
					fn := Callee(info, call)
					return fn != nil && fn.Name() == "Status"
				}) != nil
				// a condition on the Untracked status code, and a return of a refusal sentinel, inside one loop over the status
				refuses := false
				ast.Inspect(fi.Decl.Body, func(x ast.Node) bool {
					loop, ok := x.(*ast.RangeStmt)
					if !ok {
						return true
					}
					condOnUntracked, returnsSentinel := false, false
					ast.Inspect(loop.Body, func(y ast.Node) bool {
						switch v := y.(type) {
						case *ast.IfStmt:
							if usesObj(info, v.Cond, untrackedObj) {
								staging := false
								ast.Inspect(v.Cond, func(z ast.Node) bool {
									if sel, ok := z.(*ast.SelectorExpr); ok && sel.Sel.Name == "Staging" {
										staging = true
									}
									return true
								})
								if !rk.needStaging || staging {
									condOnUntracked = true
								}
							}
						case *ast.ReturnStmt:
							for _, n := range refusalSentinels {
								if o := p.lookupObj("git", n); o != nil && usesObj(info, v, o) {
									returnsSentinel = true
								}
							}
						}
						return true
					})
					if condOnUntracked && returnsSentinel {
						refuses = true
					}
					return true
				})
				if usesStatus && refuses {
					refusers[fi.Obj] = true
				}
			}
			f := p.FlowOf(rr)
			c.Analysed(rr)
			passRefuser := ErrGuard(func(_ *Flow, call *ast.CallExpr) bool { return refusers[Callee(info, call)] })
			for _, mode := range []string{"MergeReset", "KeepReset"} {
				modeObj := p.lookupObj("git", mode)
				if modeObj == nil {
					c.Unresolved(r5, rr.Name()+":"+mode, rr.Decl.Pos(), "mode constant not found")
					continue
				}
				h := f.Search(SearchOpts{Starts: []Loc{f.Entry()},
					Sink: func(n ast.Node) bool {
						r, ok := n.(*ast.ReturnStmt)
						return ok && !returnsNonNilError(info, rr.Decl.Body, r)
					},
					BlockEdge: func(b *cfg.Block, i int) bool {
						if passRefuser(f, b, i) {
							return true
						}
						// edges infeasible under opts.Mode == mode
						for _, fact := range f.EdgeFacts(b, i) {
							be, ok := unparen(fact.Atom).(*ast.BinaryExpr)
							if !ok || (be.Op != token.EQL && be.Op != token.NEQ) {
								continue
							}
							var other types.Object
							for _, side := range []ast.Expr{be.X, be.Y} {
								if o := objOfSel(info, side); o != nil {
									if k, isConst := o.(*types.Const); isConst && k.Type() == modeObj.Type() {
										other = o
									}
								}
							}
							if other == nil {
								continue
							}
							holds := (other == modeObj) == (be.Op == token.EQL) // truth of the atom under Mode == mode
							if fact.Truth != holds {
								return true
							}
						}
						return false
					}})
				c.Check(h == nil && len(refusers) > 0, r5, rr.Name()+":"+mode, rr.Decl.Pos(), orStr(ifStr(h != nil, "under Mode == "+mode+" resetRefusals can succeed without a check that refuses "+rk.what+": a non-forced checkout / reset silently loses them"+hitLines(f, h)),
					"under Mode == "+mode+" success is reached only after a function that refuses "+rk.what+" succeeded"))
			}
		}
		c.Floor(r5, 2)
	}
}

// indexRestoreDefer finds, in fi, a `defer func() { if <named error result> != nil { …SetIndex(saved) } }()` whose saved
// value is the result of a package function applied to what Storer.Index() returned (a copy taken before the change).
func indexRestoreDefer(p *Prog, info *types.Info, fi *FuncInfo, f *Flow) *ast.DeferStmt {
	sig := fi.Obj.Type().(*types.Signature)
	if sig.Results().Len() == 0 {
		return nil
	}
	res := sig.Results().At(sig.Results().Len() - 1)
	if res.Name() == "" || res.Name() == "_" {
		return nil
	}
	var found *ast.DeferStmt
	for _, l := range f.Locs(func(n ast.Node) bool { _, ok := n.(*ast.DeferStmt); return ok }) {
		ds := l.B.Nodes[l.Idx].(*ast.DeferStmt)
		lit, ok := unparen(ds.Call.Fun).(*ast.FuncLit)
		if !ok {
			continue
		}
		ast.Inspect(lit.Body, func(n ast.Node) bool {
			ifs, ok := n.(*ast.IfStmt)
			if !ok {
				return true
			}
			be, ok := unparen(ifs.Cond).(*ast.BinaryExpr)
			if !ok || be.Op != token.NEQ || !isNil(info, be.Y) || objOf(info, be.X) != types.Object(res) {
				return true
			}
			ast.Inspect(ifs.Body, func(m ast.Node) bool {
				call, ok := m.(*ast.CallExpr)
				if !ok || len(call.Args) != 1 {
					return true
				}
				sel, ok := unparen(call.Fun).(*ast.SelectorExpr)
				if !ok || sel.Sel.Name != "SetIndex" {
					return true
				}
				saved := objOf(info, call.Args[0])
				if saved == nil {
					return true
				}
				// saved := <package function>(x) with x := ….Index()
				ast.Inspect(fi.Decl.Body, func(x ast.Node) bool {
					as, ok := x.(*ast.AssignStmt)
					if !ok || len(as.Rhs) != 1 || objOf(info, as.Lhs[0]) != saved {
						return true
					}
					cp, ok := unparen(as.Rhs[0]).(*ast.CallExpr)
					if !ok || len(cp.Args) != 1 || p.FuncOf(Callee(info, cp)) == nil {
						return true
					}
					src := objOf(info, cp.Args[0])
					ast.Inspect(fi.Decl.Body, func(y ast.Node) bool {
						as2, ok := y.(*ast.AssignStmt)
						if !ok || len(as2.Rhs) != 1 || src == nil || objOf(info, as2.Lhs[0]) != src {
							return true
						}
						if ic, ok := unparen(as2.Rhs[0]).(*ast.CallExpr); ok {
							if fn := Callee(info, ic); fn != nil && fn.Name() == "Index" {
								found = ds
							}
						}
						return true
					})
					return true
				})
				return true
			})
			return true
		})
	}
	return found
}

// onlyMutatesIndex: in the static closure of fn inside package git the only storer mutation is SetIndex and the
// worktree is not written.
func onlyMutatesIndex(p *Prog, info *types.Info, fn *types.Func) bool {
	start := p.FuncOf(fn)
	if start == nil {
		return false
	}
	wtn := p.lookupType("git", "worktreeFilesystem")
	ok := true
	// closure inside package git, not entering functions that act on another repository (a submodule's or a remote's,
	// or one that is being created): the same boundary computePorcelainEffects uses
	otherRepo := func(fi *FuncInfo) bool {
		tn := recvTypeName(fi.Obj)
		if tn != nil && (tn.Name() == "Remote" || tn.Name() == "Submodule" || tn.Name() == "Submodules") {
			return true
		}
		switch fi.Obj.Name() {
		case "Init", "Open", "PlainInit", "PlainOpen", "Clone", "PlainClone", "initStorer":
			return tn == nil
		}
		return false
	}
	cg := p.callGraph()
	seen := map[*types.Func]bool{start.Obj: true}
	closure := []*FuncInfo{start}
	for i := 0; i < len(closure); i++ {
		for _, e := range cg.edges[closure[i].Obj] {
			cf := p.FuncOf(e.Callee)
			if cf == nil || cf.Decl.Body == nil || seen[e.Callee] || cf.Pkg.PkgPath != modPath || otherRepo(cf) {
				continue
			}
			seen[e.Callee] = true
			closure = append(closure, cf)
		}
	}
	for _, fi := range closure {
		finfo := fi.Pkg.TypesInfo
		walkCalls(fi.Decl.Body, true, func(call *ast.CallExpr) {
			c := Callee(finfo, call)
			if c == nil {
				return
			}
			if c.Pkg() != nil && strings.HasSuffix(c.Pkg().Path(), "/plumbing/storer") {
				switch c.Name() {
				case "SetReference", "CheckAndSetReference", "RemoveReference":
					ok = false
					if os.Getenv("GV_DEBUG") != "" {
						fmt.Println("onlyMutatesIndex: ", fi.Name(), c.Name(), p.Pos(call.Pos()))
					}
				}
			}
			if sel, isSel := unparen(call.Fun).(*ast.SelectorExpr); isSel && wtn != nil {
				switch sel.Sel.Name {
				case "Create", "OpenFile", "Remove", "Rename", "Symlink", "MkdirAll":
					if tv, has := finfo.Types[sel.X]; has && types.Identical(tv.Type, types.NewPointer(wtn.Type())) && recvTypeName(fi.Obj) != wtn {
						ok = false
						if os.Getenv("GV_DEBUG") != "" {
							fmt.Println("onlyMutatesIndex: ", fi.Name(), sel.Sel.Name, p.Pos(call.Pos()))
						}
					}
				}
			}
		})
	}
	return ok
}
