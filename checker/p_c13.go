package main

import (
	"fmt"
	"go/ast"
	"go/constant"
	"go/token"
	"go/types"
	"regexp/syntax"
	"sort"
	"strings"
)

func init() {
	register(&propSpec{
		ID: "C13",
		Explanation: "Decides the rule table of ReferenceName.Validate against git check-ref-format's ten rules, not agreement on every name: every returning statement of Validate is enumerated and classified. " +
			"(ref-format-rules) each git rule has a rejecting site whose tested operand has git's scope, established by provenance inside the function: the whole name (receiver or its string conversion), the list strings.Split(name, \"/\"), " +
			"or one slash-separated component (the range variable): component starts with '.', component ends with '.lock', fewer than two components, '..' anywhere, empty component, whole name ends with '.', '@{' anywhere, " +
			"whole name equal to '@' (a component test is a wrong scope: git accepts refs/heads/@), empty name; (ref-format-bytes) the set of single bytes rejected anywhere, computed from the constant arguments of ContainsAny/Contains " +
			"and from the parsed character class of the regular expression used, equals git's set {0x00-0x1f, 0x7f, space, ~ ^ : ? * [ \\}; (ref-format-no-extra) there is no other rejecting condition than those and the documented " +
			"leading-dash restriction on the third component of branches and tags, and no accepting return other than the final one and the HEAD special case. Not decided: that the conditions compute what their operands and constants suggest " +
			"(strings and regexp are trusted), --refspec-pattern / --normalize modes.",
		Assumptions: []string{"strings.HasPrefix/HasSuffix/Contains/ContainsAny/Split and regexp.MatchString behave as documented"},
		Run:         runC13,
	})
}

type refScope int

const (
	scUnknown refScope = iota
	scWhole
	scParts
	scComponent
	scIndex
	scKindFlag // result of IsBranch()/IsTag() on the whole name
)

func (s refScope) String() string {
	return [...]string{"unknown", "whole-name", "component-list", "component", "component-index", "branch/tag flag"}[s]
}

type c13 struct {
	c     *Ctx
	fi    *FuncInfo
	info  *types.Info
	scope map[types.Object]refScope
	bytes map[byte]token.Pos
	found map[string]token.Pos // rule -> site
	wrong map[string]string    // rule -> wrong-scope description
	wpos  map[string]token.Pos
}

func runC13(c *Ctx) {
	const rRules, rBytes, rExtra = "ref-format-rules", "ref-format-bytes", "ref-format-no-extra"
	fi := c.MustFunc(rRules, "plumbing.ReferenceName.Validate")
	if fi == nil || fi.Decl.Body == nil {
		return
	}
	c.Analysed(fi)
	st := &c13{c: c, fi: fi, info: fi.Pkg.TypesInfo, scope: map[types.Object]refScope{}, bytes: map[byte]token.Pos{}, found: map[string]token.Pos{}, wrong: map[string]string{}, wpos: map[string]token.Pos{}}
	st.computeScopes()

	// enumerate returns
	var rets []*ast.ReturnStmt
	ast.Inspect(fi.Decl.Body, func(n ast.Node) bool {
		if _, ok := n.(*ast.FuncLit); ok {
			return false
		}
		if r, ok := n.(*ast.ReturnStmt); ok {
			rets = append(rets, r)
		}
		return true
	})
	body := fi.Decl.Body
	nReject, nAccept := 0, 0
	for _, r := range rets {
		path := pathTo(body, r)
		var conds []ast.Expr
		okShape := true
		for i := 0; i+1 < len(path); i++ {
			switch v := path[i].(type) {
			case *ast.IfStmt:
				if path[i+1] == v.Body {
					conds = append(conds, v.Cond)
				} else if path[i+1] != v.Init && path[i+1] != v.Cond {
					okShape = false // else branch: negated condition, not in the table
				}
			case *ast.SwitchStmt, *ast.TypeSwitchStmt, *ast.SelectStmt:
				okShape = false
			}
		}
		line := c.P.Fset.Position(r.Pos()).Line
		_ = line
		if returnsNonNilError(st.info, body, r) {
			nReject++
			if !okShape || len(conds) == 0 {
				c.Violate(rExtra, fi.Name()+":reject:"+condKey(conds), r.Pos(), "rejecting return whose condition is not a plain if-condition: not one of git's rules")
				continue
			}
			if len(conds) == 1 {
				for _, atom := range splitOr(conds[0]) {
					st.classify(rExtra, atom)
				}
			} else {
				// nested ifs: the conjunction of the conditions
				var all []ast.Expr
				for _, cd := range conds {
					all = append(all, splitAnd(cd)...)
				}
				st.classifyConj(rExtra, all, conds[len(conds)-1])
			}
			continue
		}
		// accepting return
		nAccept++
		isFinal := len(body.List) > 0 && body.List[len(body.List)-1] == ast.Stmt(r)
		switch {
		case isFinal:
			c.Hold(rExtra, fi.Name()+":accept:final", r.Pos(), "the final return: reached only when no rule rejected")
		case okShape && len(conds) == 1 && st.isHEADTest(conds[0]):
			c.Hold(rExtra, fi.Name()+":accept:HEAD", r.Pos(), "the whole name equals the constant HEAD (a one-level name git itself uses; check-ref-format --allow-onelevel accepts it)")
		default:
			c.Violate(rExtra, fi.Name()+":accept:"+condKey(conds), r.Pos(), "early accepting return under a condition that is not in the table: names git rejects can be accepted")
		}
	}

	// rules
	type rule struct{ id, desc string }
	for _, ru := range []rule{
		{"empty-name", "the empty name is rejected"},
		{"rule1-component-starts-with-dot", "no component may begin with '.'"},
		{"rule1-component-ends-with-lock", "no component may end with '.lock'"},
		{"rule2-at-least-two-components", "at least one '/'"},
		{"rule3-dotdot", "no '..' anywhere"},
		{"rule6-empty-component", "no leading, trailing or doubled '/'"},
		{"rule7-name-ends-with-dot", "the whole name may not end with '.'"},
		{"rule8-at-brace", "no '@{' anywhere"},
	} {
		key := fi.Name() + ":" + ru.id
		if w, bad := st.wrong[ru.id]; bad {
			c.Violate(rRules, key, st.wpos[ru.id], ru.desc+": "+w)
		} else if pos, ok := st.found[ru.id]; ok {
			c.Hold(rRules, key, pos, ru.desc+": rejecting site with git's scope")
		} else {
			c.Violate(rRules, key, fi.Decl.Pos(), ru.desc+": no rejecting site found, such names are accepted")
		}
	}
	// rule 9: only the whole name "@" is invalid; with rule 2 in force a one-component name is rejected anyway, so the rule may be absent
	{
		key := fi.Name() + ":rule9-whole-name-at"
		if w, bad := st.wrong["rule9"]; bad {
			c.Violate(rRules, key, st.wpos["rule9"], w)
		} else if pos, ok := st.found["rule9"]; ok {
			c.Hold(rRules, key, pos, "the whole name is compared with \"@\"")
		} else if _, ok := st.found["rule2-at-least-two-components"]; ok {
			c.Hold(rRules, key, fi.Decl.Pos(), "no explicit test: the one-component name \"@\" is already rejected by rule 2")
		} else {
			c.Violate(rRules, key, fi.Decl.Pos(), "the name \"@\" is accepted")
		}
	}
	c.Floor(rRules, 9)

	// byte set
	want := map[byte]bool{' ': true, '~': true, '^': true, ':': true, '?': true, '*': true, '[': true, '\\': true, 0x7f: true}
	for b := 0; b < 0x20; b++ {
		want[byte(b)] = true
	}
	var missing, extra []string
	for b := range want {
		if _, ok := st.bytes[b]; !ok {
			missing = append(missing, fmt.Sprintf("%#02x", b))
		}
	}
	for b := range st.bytes {
		if !want[b] {
			extra = append(extra, fmt.Sprintf("%#02x(%q)", b, string(rune(b))))
		}
	}
	sort.Strings(missing)
	sort.Strings(extra)
	c.Check(len(missing) == 0, rBytes, fi.Name()+":rejects-git-forbidden-bytes", fi.Decl.Pos(), orStr(ifStr(len(missing) > 0, "bytes git forbids are accepted: "+strings.Join(missing, " ")), fmt.Sprintf("all %d bytes git forbids anywhere are rejected", len(want))))
	c.Check(len(extra) == 0, rBytes, fi.Name()+":rejects-only-git-forbidden-bytes", fi.Decl.Pos(), orStr(ifStr(len(extra) > 0, "bytes git allows are rejected: "+strings.Join(extra, " ")), "no byte outside git's forbidden set is rejected"))
	c.Floor(rBytes, 2)
	c.Check(nReject >= 5 && nAccept >= 1, rExtra, fi.Name()+":returns-enumerated", fi.Decl.Pos(), fmt.Sprintf("%d rejecting and %d accepting returns classified", nReject, nAccept))
	c.Extra["forbidden_bytes"] = len(st.bytes)
	// every component is examined: the component loop has no early exit
	LoopsExhaustive(c, "ref-format-loops", fi)
	c.Floor("ref-format-loops", 1)
}

func condKey(conds []ast.Expr) string {
	var parts []string
	for _, e := range conds {
		parts = append(parts, types.ExprString(e))
	}
	if len(parts) == 0 {
		return "unconditional"
	}
	return strings.Join(parts, " && ")
}

func splitOr(e ast.Expr) []ast.Expr {
	e = unparen(e)
	if be, ok := e.(*ast.BinaryExpr); ok && be.Op == token.LOR {
		return append(splitOr(be.X), splitOr(be.Y)...)
	}
	return []ast.Expr{e}
}

func splitAnd(e ast.Expr) []ast.Expr {
	e = unparen(e)
	if be, ok := e.(*ast.BinaryExpr); ok && be.Op == token.LAND {
		return append(splitAnd(be.X), splitAnd(be.Y)...)
	}
	return []ast.Expr{e}
}

func (st *c13) computeScopes() {
	info := st.info
	if recv := st.fi.Decl.Recv; recv != nil && len(recv.List) == 1 && len(recv.List[0].Names) == 1 {
		if o := info.Defs[recv.List[0].Names[0]]; o != nil {
			st.scope[o] = scWhole
		}
	}
	// variables assigned more than once have no scope
	nAssign := map[types.Object]int{}
	ast.Inspect(st.fi.Decl.Body, func(n ast.Node) bool {
		switch v := n.(type) {
		case *ast.AssignStmt:
			for _, l := range v.Lhs {
				if o := objOf(info, l); o != nil {
					nAssign[o]++
				}
			}
		case *ast.RangeStmt:
			for _, l := range []ast.Expr{v.Key, v.Value} {
				if l != nil {
					if o := objOf(info, l); o != nil {
						nAssign[o]++
					}
				}
			}
		case *ast.IncDecStmt:
			if o := objOf(info, v.X); o != nil {
				nAssign[o] += 2
			}
		}
		return true
	})
	set := func(l ast.Expr, s refScope) bool {
		o := objOf(info, l)
		if o == nil || s == scUnknown || nAssign[o] != 1 || st.scope[o] == s {
			return false
		}
		st.scope[o] = s
		return true
	}
	for changed := true; changed; {
		changed = false
		ast.Inspect(st.fi.Decl.Body, func(n ast.Node) bool {
			switch v := n.(type) {
			case *ast.AssignStmt:
				if len(v.Lhs) == len(v.Rhs) {
					for i := range v.Lhs {
						if set(v.Lhs[i], st.exprScope(v.Rhs[i])) {
							changed = true
						}
					}
				}
			case *ast.RangeStmt:
				xs := st.exprScope(v.X)
				switch xs {
				case scParts:
					if v.Key != nil && set(v.Key, scIndex) {
						changed = true
					}
					if v.Value != nil && set(v.Value, scComponent) {
						changed = true
					}
				case scComponent: // range over strings.SplitSeq(name, "/")
					if v.Key != nil && v.Value == nil && set(v.Key, scComponent) {
						changed = true
					}
				}
			}
			return true
		})
	}
}

// exprScope: what an expression denotes in terms of the name being validated.
func (st *c13) exprScope(e ast.Expr) refScope {
	info := st.info
	e = unparen(e)
	switch v := e.(type) {
	case *ast.Ident:
		if o := objOf(info, v); o != nil {
			return st.scope[o]
		}
	case *ast.CallExpr:
		if tv, ok := info.Types[v.Fun]; ok && tv.IsType() && len(v.Args) == 1 {
			if s := st.exprScope(v.Args[0]); s == scWhole || s == scComponent {
				return s
			}
			return scUnknown
		}
		fn := Callee(info, v)
		if fn == nil {
			return scUnknown
		}
		if fn.Pkg() != nil && fn.Pkg().Path() == "strings" && len(v.Args) == 2 && st.exprScope(v.Args[0]) == scWhole && constStr(info, v.Args[1]) == "/" {
			switch fn.Name() {
			case "Split":
				return scParts
			case "SplitSeq":
				return scComponent // as a range operand
			}
		}
		if sel, ok := unparen(v.Fun).(*ast.SelectorExpr); ok && (fn.Name() == "IsBranch" || fn.Name() == "IsTag") && st.exprScope(sel.X) == scWhole {
			return scKindFlag
		}
		if fn.Name() == "String" && len(v.Args) == 0 {
			if sel, ok := unparen(v.Fun).(*ast.SelectorExpr); ok && st.exprScope(sel.X) == scWhole {
				return scWhole
			}
		}
	}
	return scUnknown
}

func constStr(info *types.Info, e ast.Expr) string {
	if tv, ok := info.Types[e]; ok && tv.Value != nil && tv.Value.Kind() == constant.String {
		return constant.StringVal(tv.Value)
	}
	return "\x00<not-constant>"
}

func isConstStr(info *types.Info, e ast.Expr) bool {
	tv, ok := info.Types[e]
	return ok && tv.Value != nil && tv.Value.Kind() == constant.String
}

func (st *c13) isHEADTest(cond ast.Expr) bool {
	be, ok := unparen(cond).(*ast.BinaryExpr)
	if !ok || be.Op != token.EQL {
		return false
	}
	x, y := be.X, be.Y
	if isConstStr(st.info, x) {
		x, y = y, x
	}
	return st.exprScope(x) == scWhole && constStr(st.info, y) == "HEAD"
}

func (st *c13) note(rule string, pos token.Pos) {
	if _, ok := st.found[rule]; !ok {
		st.found[rule] = pos
	}
}

func (st *c13) bad(rule string, pos token.Pos, why string) {
	st.wrong[rule] = why
	st.wpos[rule] = pos
}

func (st *c13) addBytes(s string, pos token.Pos) {
	for i := 0; i < len(s); i++ {
		if _, ok := st.bytes[s[i]]; !ok {
			st.bytes[s[i]] = pos
		}
	}
}

// classify one disjunct of a rejecting condition.
func (st *c13) classify(rExtra string, atom ast.Expr) {
	c, info, fi := st.c, st.info, st.fi
	atom = unparen(atom)
	key := fi.Name() + ":reject:" + types.ExprString(atom)
	unknown := func(why string) {
		c.Violate(rExtra, key, atom.Pos(), "rejecting condition that is none of git's rules ("+why+"): names git accepts can be rejected")
	}
	if conj := splitAnd(atom); len(conj) > 1 {
		st.classifyConj(rExtra, conj, atom)
		return
	}
	switch v := atom.(type) {
	case *ast.BinaryExpr:
		x, y := v.X, v.Y
		op := v.Op
		if _, isConst := info.Types[x]; isConst && info.Types[x].Value != nil {
			x, y = y, x
			switch op {
			case token.LSS:
				op = token.GTR
			case token.GTR:
				op = token.LSS
			case token.LEQ:
				op = token.GEQ
			case token.GEQ:
				op = token.LEQ
			}
		}
		// len(X) == 0, len(X) < 1, len(parts) < 2
		if call, ok := unparen(x).(*ast.CallExpr); ok && len(call.Args) == 1 {
			if id, ok := unparen(call.Fun).(*ast.Ident); ok && id.Name == "len" && info.Uses[id] == types.Universe.Lookup("len") {
				tv := info.Types[y]
				if tv.Value == nil {
					unknown("length compared with a non-constant")
					return
				}
				n, _ := constant.Int64Val(tv.Value)
				sc := st.exprScope(call.Args[0])
				isZero := (op == token.EQL && n == 0) || (op == token.LSS && n == 1) || (op == token.LEQ && n == 0)
				isOneLevel := (op == token.LSS && n == 2) || (op == token.LEQ && n == 1) || (op == token.EQL && n == 1)
				switch {
				case sc == scWhole && isZero:
					st.note("empty-name", atom.Pos())
					c.Hold(rExtra, key, atom.Pos(), "git rule: the empty name is invalid")
				case sc == scComponent && isZero:
					st.note("rule6-empty-component", atom.Pos())
					c.Hold(rExtra, key, atom.Pos(), "git rule 6: an empty component (leading, trailing or doubled '/')")
				case sc == scParts && isOneLevel:
					st.note("rule2-at-least-two-components", atom.Pos())
					c.Hold(rExtra, key, atom.Pos(), "git rule 2: at least one '/'")
				default:
					unknown(fmt.Sprintf("length test on %s with %s %d", sc, op, n))
				}
				return
			}
		}
		if op == token.EQL && isConstStr(info, y) {
			k := constStr(info, y)
			sc := st.exprScope(x)
			switch {
			case k == "" && sc == scWhole:
				st.note("empty-name", atom.Pos())
				c.Hold(rExtra, key, atom.Pos(), "git rule: the empty name is invalid")
			case k == "" && sc == scComponent:
				st.note("rule6-empty-component", atom.Pos())
				c.Hold(rExtra, key, atom.Pos(), "git rule 6: an empty component")
			case k == "@" && sc == scWhole:
				st.note("rule9", atom.Pos())
				c.Hold(rExtra, key, atom.Pos(), "git rule 9: the name '@'")
			case k == "@" && sc == scComponent:
				st.bad("rule9", atom.Pos(), "a slash-separated component, not the whole name, is compared with \"@\": refs/heads/@ is rejected although git check-ref-format accepts it (rule 9 is about the single-character name)")
				c.Hold(rExtra, key, atom.Pos(), "classified as git rule 9 (scope judged under "+"ref-format-rules)")
			default:
				unknown(fmt.Sprintf("%s compared with %q", sc, k))
			}
			return
		}
		unknown("comparison not in the table")
	case *ast.CallExpr:
		fn := Callee(info, v)
		if fn == nil {
			unknown("unresolved call")
			return
		}
		if fn.Pkg() != nil && fn.Pkg().Path() == "strings" && len(v.Args) == 2 && isConstStr(info, v.Args[1]) {
			sc := st.exprScope(v.Args[0])
			k := constStr(info, v.Args[1])
			if sc != scWhole && sc != scComponent {
				unknown("operand is neither the name nor one of its components")
				return
			}
			switch fn.Name() {
			case "HasPrefix":
				if k == "." && sc == scComponent {
					st.note("rule1-component-starts-with-dot", atom.Pos())
					c.Hold(rExtra, key, atom.Pos(), "git rule 1: component begins with '.'")
					return
				}
			case "HasSuffix":
				if k == ".lock" && sc == scComponent {
					st.note("rule1-component-ends-with-lock", atom.Pos())
					c.Hold(rExtra, key, atom.Pos(), "git rule 1: component ends with '.lock'")
					return
				}
				if k == ".lock" && sc == scWhole {
					st.bad("rule1-component-ends-with-lock", atom.Pos(), "only the whole name is tested for the '.lock' suffix: refs/heads/a.lock/b is accepted, git rejects it")
					c.Hold(rExtra, key, atom.Pos(), "classified as git rule 1 (scope judged under ref-format-rules)")
					return
				}
				if k == "." && sc == scWhole {
					st.note("rule7-name-ends-with-dot", atom.Pos())
					c.Hold(rExtra, key, atom.Pos(), "git rule 7: name ends with '.'")
					return
				}
				if k == "." && sc == scComponent {
					st.bad("rule7-name-ends-with-dot", atom.Pos(), "every component, not only the whole name, is tested for a trailing '.': refs/heads./x is rejected, git accepts it")
					c.Hold(rExtra, key, atom.Pos(), "classified as git rule 7 (scope judged under ref-format-rules)")
					return
				}
			case "Contains":
				switch {
				case k == "..":
					st.note("rule3-dotdot", atom.Pos())
					c.Hold(rExtra, key, atom.Pos(), "git rule 3: '..' anywhere")
					return
				case k == "@{":
					st.note("rule8-at-brace", atom.Pos())
					c.Hold(rExtra, key, atom.Pos(), "git rule 8: '@{' anywhere")
					return
				case len(k) == 1:
					st.addBytes(k, atom.Pos())
					c.Hold(rExtra, key, atom.Pos(), "single byte rejected anywhere (set judged under ref-format-bytes)")
					return
				}
			case "ContainsAny":
				if k != "" {
					st.addBytes(k, atom.Pos())
					c.Hold(rExtra, key, atom.Pos(), "bytes rejected anywhere (set judged under ref-format-bytes)")
					return
				}
			}
			unknown(fmt.Sprintf("strings.%s(%s, %q)", fn.Name(), sc, k))
			return
		}
		// regexp: <pkg var>.MatchString(X)
		if fn.Pkg() != nil && fn.Pkg().Path() == "regexp" && fn.Name() == "MatchString" && len(v.Args) == 1 {
			sc := st.exprScope(v.Args[0])
			if sc != scWhole && sc != scComponent {
				unknown("regexp operand is neither the name nor one of its components")
				return
			}
			sel, ok := unparen(v.Fun).(*ast.SelectorExpr)
			if !ok {
				unknown("regexp receiver")
				return
			}
			set, why := st.regexpByteClass(sel.X)
			if why != "" {
				c.Unresolved(rExtra, key, atom.Pos(), "regular expression not reducible to a byte class: "+why)
				return
			}
			st.addBytes(set, atom.Pos())
			c.Hold(rExtra, key, atom.Pos(), fmt.Sprintf("regular expression is a class of %d bytes rejected anywhere (set judged under ref-format-bytes)", len(set)))
			return
		}
		unknown("call not in the table: " + fn.FullName())
	default:
		unknown("expression form")
	}
}

// classifyConj handles a rejecting conjunction: only the documented leading-dash restriction has this form.
func (st *c13) classifyConj(rExtra string, conj []ast.Expr, at ast.Expr) {
	c, info, fi := st.c, st.info, st.fi
	key := fi.Name() + ":reject:" + types.ExprString(at)
	dash, kind, third := false, false, false
	for _, cj := range conj {
		cj = unparen(cj)
		ok := false
		switch v := cj.(type) {
		case *ast.CallExpr:
			if fn := Callee(info, v); fn != nil && fn.Pkg() != nil && fn.Pkg().Path() == "strings" && fn.Name() == "HasPrefix" && len(v.Args) == 2 &&
				st.exprScope(v.Args[0]) == scComponent && constStr(info, v.Args[1]) == "-" {
				dash, ok = true, true
			} else if st.exprScope(v) == scKindFlag {
				kind, ok = true, true
			}
		case *ast.Ident:
			if st.exprScope(v) == scKindFlag {
				kind, ok = true, true
			}
		case *ast.BinaryExpr:
			if v.Op == token.LOR {
				all := true
				for _, d := range splitOr(v) {
					if st.exprScope(d) != scKindFlag {
						all = false
					}
				}
				if all {
					kind, ok = true, true
				}
			} else if v.Op == token.EQL && st.exprScope(v.X) == scIndex {
				if tv := info.Types[v.Y]; tv.Value != nil && tv.Value.ExactString() == "2" {
					third, ok = true, true
				}
			}
		}
		if !ok {
			c.Violate(rExtra, key, at.Pos(), "rejecting conjunction with a conjunct that is not part of the documented leading-dash restriction: "+types.ExprString(cj))
			return
		}
	}
	c.Check(dash && kind && third, rExtra, key, at.Pos(), orStr(ifStr(!(dash && kind && third), "a conjunction that is not 'branch or tag, third component, begins with -': rejects names git accepts beyond the documented restriction"),
		"the documented extra rule: the short name of a branch or tag may not begin with '-'"))
}

// regexpByteClass resolves a package-level *regexp.Regexp variable initialised with regexp.MustCompile(<const>) whose pattern
// is a single character class (or literal byte) and returns the bytes it matches.
func (st *c13) regexpByteClass(recv ast.Expr) (string, string) {
	obj, ok := objOf(st.info, recv).(*types.Var)
	if !ok || obj.Pkg() == nil || obj.Parent() != obj.Pkg().Scope() {
		return "", "receiver is not a package-level variable"
	}
	var init ast.Expr
	nAssign := 0
	for _, f := range st.fi.Pkg.Syntax {
		ast.Inspect(f, func(n ast.Node) bool {
			switch v := n.(type) {
			case *ast.ValueSpec:
				for i, nm := range v.Names {
					if st.info.Defs[nm] == obj && i < len(v.Values) {
						init = v.Values[i]
					}
				}
			case *ast.AssignStmt:
				for _, l := range v.Lhs {
					if objOf(st.info, l) == types.Object(obj) {
						nAssign++
					}
				}
			}
			return true
		})
	}
	if init == nil || nAssign > 0 {
		return "", "variable has no single initialiser"
	}
	call, ok := unparen(init).(*ast.CallExpr)
	if !ok || len(call.Args) != 1 {
		return "", "initialiser is not regexp.MustCompile(constant)"
	}
	fn := Callee(st.info, call)
	if fn == nil || fn.Pkg() == nil || fn.Pkg().Path() != "regexp" || (fn.Name() != "MustCompile" && fn.Name() != "Compile") || !isConstStr(st.info, call.Args[0]) {
		return "", "initialiser is not regexp.MustCompile(constant)"
	}
	re, err := syntax.Parse(constStr(st.info, call.Args[0]), syntax.Perl)
	if err != nil {
		return "", err.Error()
	}
	re = re.Simplify()
	var out []byte
	switch re.Op {
	case syntax.OpCharClass:
		for i := 0; i+1 < len(re.Rune); i += 2 {
			if re.Rune[i+1] > 0x7f {
				return "", "class contains non-ASCII runes"
			}
			for r := re.Rune[i]; r <= re.Rune[i+1]; r++ {
				out = append(out, byte(r))
			}
		}
	case syntax.OpLiteral:
		if len(re.Rune) != 1 || re.Rune[0] > 0x7f || re.Flags&syntax.FoldCase != 0 {
			return "", "literal is not a single ASCII byte"
		}
		out = append(out, byte(re.Rune[0]))
	default:
		return "", "pattern is " + re.Op.String() + ", not a character class"
	}
	return string(out), ""
}
