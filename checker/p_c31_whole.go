package main

import (
	"go/ast"
	"go/types"
)

// checkStatOverWholeContent (C31): git decides text/binary and counts the line endings over the whole buffer
// (convert.c gather_stats). A NUL or a lone CR beyond a leading window, or a CRLF pair cut by the window's edge, changes
// the verdict, and the three places that interpret core.autocrlf (add, status hashing, checkout) then disagree with git
// and with each other. Decided: the reader handed to convert.GetStat at each site derives from the opened file or blob
// reader without a truncating wrapper (io.LimitReader, io.LimitedReader, io.NewSectionReader, io.CopyN into a buffer,
// bufio Peek), following local definitions.
func checkStatOverWholeContent(c *Ctx, rule string) {
	p := c.P
	n := 0
	for _, s := range p.CallSites(func(_ *types.Info, call *ast.CallExpr, callee *types.Func) bool {
		return callee != nil && callee.Name() == "GetStat" && callee.Pkg() != nil && shortPkg(callee.Pkg().Path()) == "utils/convert"
	}) {
		if s.In == nil || p.isTestFile(s.Call.Pos()) || !production(s.In.Pkg) || len(s.Call.Args) != 1 {
			continue
		}
		n++
		c.Analysed(s.In)
		info := s.In.Pkg.TypesInfo
		d := newDeriver(info, s.In.Decl)
		var bad ast.Node
		seen := map[ast.Node]bool{}
		var walk func(e ast.Expr, depth int)
		walk = func(e ast.Expr, depth int) {
			if e == nil || depth > 6 || seen[e] {
				return
			}
			seen[e] = true
			ast.Inspect(e, func(m ast.Node) bool {
				switch x := m.(type) {
				case *ast.CallExpr:
					if fn := Callee(info, x); fn != nil && fn.Pkg() != nil {
						switch fn.Pkg().Path() + "." + fn.Name() {
						case "io.LimitReader", "io.NewSectionReader", "io.CopyN", "bufio.Peek":
							bad = x
						}
						if fn.Name() == "Peek" {
							bad = x
						}
					}
				case *ast.CompositeLit:
					if tv := info.Types[x]; tv.Type != nil && (tv.Type.String() == "io.LimitedReader" || tv.Type.String() == "*io.LimitedReader") {
						bad = x
					}
				case *ast.Ident:
					if o := objOf(info, x); o != nil {
						for _, def := range d.defs[o] {
							walk(def, depth+1)
						}
					}
				}
				return true
			})
		}
		walk(s.Call.Args[0], 0)
		key := s.In.Name() + "->GetStat"
		pos := s.Call.Pos()
		if bad != nil {
			pos = bad.Pos()
		}
		c.Check(bad == nil, rule, key, pos, orStr(ifStr(bad != nil, "the text/binary statistics are taken from a truncated view of the content: a NUL or lone CR beyond the window, or a CRLF pair cut by its edge, flips the verdict, and the blob stored (or the bytes written) differ from git's, which gathers the statistics over the whole buffer"),
			"the statistics are gathered over the whole content"))
	}
	c.Check(n >= 3, rule, "convert.GetStat:callers", 0, itoa(n)+" call sites of convert.GetStat examined (add, checkout, status hashing)")
}
