package main

import (
	"go/ast"
	"go/types"
)

// checkIndexWriteIsLast (C29): the operations whose only lasting effect is the index (add, remove, move and their glob
// forms) are all-or-nothing because they stage into a private copy of the index and store it once, as their last step.
// Storing it per matched path turns "an error is returned" into "the paths handled before the failing one are staged".
// Decided: in each function of that family, after a call that writes the index (SetIndex itself or a package function
// whose static closure reaches it) no call that can fail (last result of type error) is reachable on any path — the
// write is the last fallible step. Deferred calls are not followed.
func checkIndexWriteIsLast(c *Ctx, rule string) {
	p := c.P
	gitPk := p.Pkg("git")
	if gitPk == nil {
		c.Unresolved(rule, "package git", 0, "not loaded")
		return
	}
	info := gitPk.TypesInfo
	isSetIndex := func(fn *types.Func) bool {
		return fn != nil && fn.Name() == "SetIndex" && fn.Pkg() != nil && shortPkg(fn.Pkg().Path()) == "plumbing/storer"
	}
	writes := map[*types.Func]bool{}
	writesIndex := func(fn *types.Func) bool {
		if fn == nil {
			return false
		}
		if isSetIndex(fn) {
			return true
		}
		if v, ok := writes[fn]; ok {
			return v
		}
		writes[fn] = false
		root := p.FuncOf(fn)
		if root == nil || root.Pkg != gitPk || root.Decl.Body == nil {
			return false
		}
		for _, cf := range p.staticClosure([]*FuncInfo{root}) {
			if cf.Pkg != gitPk || cf.Decl.Body == nil {
				continue
			}
			hit := false
			walkCalls(cf.Decl.Body, true, func(call *ast.CallExpr) {
				if isSetIndex(Callee(info, call)) {
					hit = true
				}
			})
			if hit {
				writes[fn] = true
				return true
			}
		}
		return false
	}
	fallible := func(call *ast.CallExpr) bool {
		tv := info.Types[call]
		if tv.Type == nil {
			return false
		}
		last := tv.Type
		if tup, ok := tv.Type.(*types.Tuple); ok {
			if tup.Len() == 0 {
				return false
			}
			last = tup.At(tup.Len() - 1).Type()
		}
		return types.TypeString(last, nil) == "error"
	}
	n := 0
	for _, name := range []string{"Add", "AddGlob", "AddWithOptions", "doAdd", "Remove", "RemoveGlob", "Move"} {
		fi := c.MustFunc(rule, "git.(*Worktree)."+name)
		if fi == nil {
			continue
		}
		c.Analysed(fi)
		f := p.FlowOf(fi)
		var writeCalls []*ast.CallExpr
		walkCalls(fi.Decl.Body, false, func(call *ast.CallExpr) {
			if writesIndex(Callee(info, call)) {
				writeCalls = append(writeCalls, call)
			}
		})
		if len(writeCalls) == 0 {
			c.Unresolved(rule, fi.Name()+":index-write", fi.Decl.Pos(), "no call that stores the index found in an operation whose effect is the index")
			continue
		}
		for i, wc := range writeCalls {
			n++
			wc := wc
			locs := f.Locs(func(nd ast.Node) bool {
				if _, isDefer := nd.(*ast.DeferStmt); isDefer {
					return false
				}
				return nodeHasCall(nd, false, func(cc *ast.CallExpr) bool { return cc == wc }) != nil
			})
			var bad ast.Node
			for _, l := range locs {
				h := f.Search(SearchOpts{Starts: []Loc{After(l)}, Sink: func(nd ast.Node) bool {
					if _, isDefer := nd.(*ast.DeferStmt); isDefer {
						return false
					}
					// the write call itself counts when it is reached again: it sits in a loop, the index is stored per element
					return nodeHasCall(nd, false, func(cc *ast.CallExpr) bool { return fallible(cc) }) != nil
				}})
				if h != nil {
					bad = h.Node
				}
			}
			key := fi.Name() + "->" + calleeNameOf(info, wc) + ifStr(i > 0, "#"+itoa(i+1))
			pos := wc.Pos()
			if bad != nil {
				pos = bad.Pos()
			}
			c.Check(bad == nil, rule, key, pos, orStr(ifStr(bad != nil, "after the index has been stored the operation runs a step that can still fail (at "+p.Pos(pos)+"): when it does, an error is returned although part of the work is already staged — the operation is no longer all-or-nothing"),
				"storing the index is the last step that can fail"))
		}
	}
	c.Floor(rule, 7)
	_ = n
}

func calleeNameOf(info *types.Info, call *ast.CallExpr) string {
	if fn := Callee(info, call); fn != nil {
		return fn.Name()
	}
	return exprString(call.Fun)
}
