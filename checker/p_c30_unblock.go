package main

import (
	"go/ast"
)

// checkUnblockRemovesOnlySymlinks (C30): before a checkout or reset writes an entry it clears what would make the write
// land somewhere else: a symlink among the leading directories or at the entry's own place. That helper runs for
// non-forced checkouts and merge/keep resets too, after the refusal checks, which compare untracked paths with the exact
// paths the switch writes — an untracked regular file `d` is not among them when the switch adds `d/x`. The write then
// fails (ENOTDIR) and the file survives. If the helper removes every non-directory in the way, the untracked file is
// silently deleted instead. Decided: in clearBlockingSymlinks every removal is reachable only across the true edge of a
// test of os.ModeSymlink.
func checkUnblockRemovesOnlySymlinks(c *Ctx, rule string) {
	p := c.P
	fi := c.MustFunc(rule, "git.(*Worktree).clearBlockingSymlinks")
	if fi == nil {
		return
	}
	c.Analysed(fi)
	info := fi.Pkg.TypesInfo
	_ = p
	isRemoval := func(call *ast.CallExpr) bool {
		fn := Callee(info, call)
		return fn != nil && (fn.Name() == "Remove" || fn.Name() == "RemoveAll" || fn.Name() == "Rename")
	}
	pass := FactGuard(func(f *Flow, fact Fact) bool { return fact.Truth && usesObjNamed(f.Info, fact.Atom, "ModeSymlink") })
	n := CallsGuarded(c, rule, fi, pass, isRemoval, "a test that the entry in the way is a symbolic link")
	c.Check(n >= 2, rule, fi.Name()+":removals", fi.Decl.Pos(), itoa(n)+" removal(s) examined (leading component, final component)")
}
