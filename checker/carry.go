package main

import (
	"go/ast"
	"go/token"
	"go/types"

	"golang.org/x/tools/go/cfg"
)

// checkCarryStateUpdated: a streaming converter that keeps a flag between Write calls (what the previous chunk ended
// with) must refresh it on every path that consumes a chunk. For every type of the package with a
// Write([]byte) (int, error) method and every receiver field the method assigns: no return other than an error return is
// reachable from the entry without passing an assignment of that field, except through the edge "the chunk is empty"
// (len(p) == 0), which consumes nothing.
func checkCarryStateUpdated(c *Ctx, rule, short string) {
	p := c.P
	n := 0
	for _, fi := range p.FuncsIn(short) {
		if fi.Decl.Body == nil || fi.Obj.Name() != "Write" || fi.Decl.Recv == nil || p.isTestFile(fi.Decl.Pos()) {
			continue
		}
		sig := fi.Obj.Type().(*types.Signature)
		if sig.Params().Len() != 1 || sig.Results().Len() != 2 || len(fi.Decl.Recv.List) == 0 || len(fi.Decl.Recv.List[0].Names) == 0 {
			continue
		}
		info := fi.Pkg.TypesInfo
		recv := info.Defs[fi.Decl.Recv.List[0].Names[0]]
		param := paramObjs(info, fi.Decl)[0]
		// receiver fields assigned in the method
		fields := map[*types.Var]bool{}
		ast.Inspect(fi.Decl.Body, func(x ast.Node) bool {
			if as, ok := x.(*ast.AssignStmt); ok {
				for _, l := range as.Lhs {
					if sel, ok := unparen(l).(*ast.SelectorExpr); ok && objOf(info, sel.X) == recv {
						if fv, ok := info.Uses[sel.Sel].(*types.Var); ok && fv.IsField() {
							fields[fv] = true
						}
					}
				}
			}
			return true
		})
		f := p.FlowOf(fi)
		for fld := range fields {
			n++
			c.Analysed(fi)
			assigns := func(nd ast.Node) bool {
				as, ok := nd.(*ast.AssignStmt)
				if !ok {
					return false
				}
				for _, l := range as.Lhs {
					if sel, ok := unparen(l).(*ast.SelectorExpr); ok && info.Uses[sel.Sel] == types.Object(fld) {
						return true
					}
				}
				return false
			}
			h := f.Search(SearchOpts{Starts: []Loc{f.Entry()}, Barrier: assigns,
				Sink: func(nd ast.Node) bool {
					r, ok := nd.(*ast.ReturnStmt)
					return ok && !returnsNonNilError(info, fi.Decl.Body, r)
				},
				BlockEdge: func(b *cfg.Block, i int) bool {
					for _, fact := range f.EdgeFacts(b, i) {
						be, ok := unparen(fact.Atom).(*ast.BinaryExpr)
						if !ok || !fact.Truth || be.Op != token.EQL {
							continue
						}
						if call, ok := unparen(be.X).(*ast.CallExpr); ok && len(call.Args) == 1 && objOf(info, call.Args[0]) == types.Object(param) {
							if id, ok := unparen(call.Fun).(*ast.Ident); ok && id.Name == "len" {
								if tv := info.Types[be.Y]; tv.Value != nil && tv.Value.ExactString() == "0" {
									return true
								}
							}
						}
					}
					return false
				}})
			key := fi.Name() + ":" + fld.Name()
			c.Check(h == nil, rule, key, fi.Decl.Pos(), orStr(ifStr(h != nil, "a chunk can be consumed without refreshing the flag carried to the next Write: a line ending split across two chunks is converted wrongly"+hitLines(f, h)), "the carried flag is refreshed on every path that consumes a chunk"))
		}
	}
	if n == 0 {
		c.Unresolved(rule, short+":stateful-writers", 0, "no Write method that assigns a receiver field found")
	}
}
