package main

import (
	"go/ast"
	"go/constant"
	"go/token"
	"go/types"
	"strings"

	"golang.org/x/tools/go/cfg"
)

func init() {
	register(&propSpec{
		ID: "C15",
		Explanation: "Decides structural conditions for 'packing preserves the reference map': (packed-refs-hash-only) in DotGit.PackRefs a line is written to the packed-refs temp file, and a loose file is removed, " +
			"only on the Type()==HashReference edge; (pack-refs-order) packed-refs is locked before the loose refs are read, the temp file replaces packed-refs before any loose ref is removed, and " +
			"rewritePackedRefsWithoutRef replaces the file only when the name was found; (loose-shadows-packed) Refs and PackRefs collect loose refs before packed ones into the same `seen` set; " +
			"(packed-line-shape) processLine rejects lines that do not have exactly two fields; the loose walk marks a name as seen (shadowing the packed value) only behind the success edge of the call that reads the loose file. " +
			"(packed-lookup-scans-until-found) the single-name lookup in packed-refs stops its scan only where an entry's name equals the name looked up — the file is not sorted when PackRefs wrote it. Not decided: map equivalence over operation histories; peeled (^) lines.",
		Assumptions: []string{"billy Rename replaces the destination atomically where the platform does"},
		Run:         runC15,
	})
	register(&propSpec{
		ID: "C16",
		Explanation: "Decides the critical-section shape of reference updates, not linearizability: (no-mutation-before-lock) in every dotgit function that takes a billy.Locker lock on a file, the file is not opened with O_TRUNC and " +
			"no Write/Truncate on it is reachable before the lock (paths on which the filesystem offers no Locker are excluded); (cas-critical-section) in setRefRwfs the compare (checkReferenceAndTruncate) and the write happen after the lock with " +
			"no Unlock/Close in between, no reference value (loose or packed) is read before the lock and the compare takes no pre-fetched value, the lock is released only by the deferred Close, and checkReferenceAndTruncate truncates only on the hash-equal edge and returns ErrReferenceHasChanged otherwise; " +
			"(publish-by-rename) reference content is replaced only by renaming a completely written file — today it is rewritten in place, which is recorded as a known finding; (empty-loose-ref-agreement) every function that reads a loose reference file other than HEAD either tests for ErrEmptyRefFile or never returns the read's error: the empty file is the placeholder a " +
			"compare-and-set creates before comparing and leaves behind when it refuses. Not decided: interleavings, flock semantics across processes.",
		Assumptions: []string{"billy.Locker.Lock is an exclusive advisory lock honoured by every writer"},
		Run:         runC16,
	})
	register(&propSpec{
		ID: "C21",
		Explanation: "Decides write-ordering necessary conditions for crash safety (no crash is simulated): (objects-before-refs) Remote.fetch never updates local references before the pack was fetched, Worktree.Commit never moves HEAD " +
			"before the tree and commit objects are built; (pack-publish) in PackWriter.save no sidecar file (.idx/.rev/.promisor) is created after the .pack rename; (delete-after-close) createNewObjectPack deletes loose objects only after the pack " +
			"writer's Close succeeded and RepackObjects deletes old packs only after createNewObjectPack succeeded; (publish-by-rename) every file creation/truncation in storage/filesystem/dotgit targets a temp file that is later renamed, an append-only log, " +
			"or is listed as a known finding (index, config, shallow, loose refs, packed-refs fallbacks, pack sidecars are written in place); (flushed-before-publish) a bufio.Writer over a file that the function then puts in place is flushed by a non-deferred call on every path before the publishing call; (deferred-error-reaches-result) in dotgit, storage/filesystem and " +
			"package git an error stored by a deferred call for a handle opened for writing lands in a named result; (empty-loose-ref-agreement, shared with C16) every reader of a loose reference file treats the empty file — what a stop between creating and writing it leaves beside the packed value — as absent and falls back to packed-refs. Not decided: behaviour at each crash prefix, torn writes, fsync.",
		Assumptions: []string{"rename is atomic on the underlying filesystem"},
		Run:         runC21,
	})
	register(&propSpec{
		ID: "C22",
		Explanation: "Decides the root-set and guard shape of garbage collection: (gc-root-set) the object walk used by Prune and RepackObjects reaches ReferenceStorer.IterReferences and IndexStorer.Index, and both callers delete only after it succeeded; " +
			"(prune-only-unseen) Prune hands an object to the handler only on the !isSeen edge, repack deletes a loose object only on the isSeen edge; (old-pack-kept-if-same) RepackObjects never deletes the pack it just wrote. " +
			"(deletion-set-fixed-before-walk) RepackObjects lists the packs it will delete before it builds the new pack, so a pack stored by another writer during the walk is not deleted. " +
			"(index-roots-skip-only-gitlinks) in objectWalker.walkIndex an index entry is passed over only for a zero hash, the gitlink mode, an object already marked or one missing from the store — any other test of the entry (its mode in particular) takes staged executables or symlinks out of the root set. " +
			"Not decided: that the walk visits every reachable object; reflog roots.",
		Assumptions: []string{"IterReferences lists HEAD and every reference"},
		Run:         runC22,
	})
}

// litFlows returns a Flow for every function literal in fi (keyed by the literal).
func (p *Prog) litFlows(fi *FuncInfo) map[*ast.FuncLit]*Flow {
	out := map[*ast.FuncLit]*Flow{}
	ast.Inspect(fi.Decl.Body, func(n ast.Node) bool {
		if lit, ok := n.(*ast.FuncLit); ok {
			out[lit] = p.NewFlow(fi.Pkg.TypesInfo, lit.Body)
		}
		return true
	})
	return out
}

// flowContaining returns the innermost flow (declaration body or a literal) whose CFG contains the call.
func (p *Prog) flowContaining(fi *FuncInfo, call *ast.CallExpr) (*Flow, []Loc) {
	best := p.FlowOf(fi)
	var bestLit *ast.FuncLit
	for lit, f := range p.litFlows(fi) {
		if lit.Body.Pos() <= call.Pos() && call.End() <= lit.Body.End() {
			if bestLit == nil || (lit.Body.Pos() >= bestLit.Body.Pos() && lit.Body.End() <= bestLit.Body.End()) {
				best, bestLit = f, lit
			}
		}
	}
	locs := best.sinkSites(true, func(cc *ast.CallExpr) bool { return cc == call })
	return best, locs
}

func callsNamed(info *types.Info, names ...string) func(*ast.CallExpr) bool {
	return func(call *ast.CallExpr) bool {
		fn := Callee(info, call)
		if fn == nil {
			return false
		}
		for _, n := range names {
			if fn.Name() == n {
				return true
			}
		}
		return false
	}
}

func runC15(c *Ctx) {
	p := c.P
	pk := p.Pkg(dotgitShort)
	if pk == nil {
		c.Unresolved("packed-refs-hash-only", "package "+dotgitShort, 0, "not loaded")
		return
	}
	info := pk.TypesInfo
	hashRef := p.lookupObj("plumbing", "HashReference")
	isHashFact := FactGuard(func(_ *Flow, fact Fact) bool {
		be, ok := unparen(fact.Atom).(*ast.BinaryExpr)
		if !ok || !condMentionsObj(hashRef)(info, be) || !condCalls(modPath + "/plumbing.Reference.Type")(info, be) {
			return false
		}
		return (be.Op == token.EQL) == fact.Truth
	})
	const r1 = "packed-refs-hash-only"
	pr := c.MustFunc(r1, dotgitShort+".(*DotGit).PackRefs")
	if pr != nil {
		n := CallsGuarded(c, r1, pr, isHashFact, func(call *ast.CallExpr) bool {
			fn := Callee(info, call)
			if fn == nil {
				return false
			}
			if fn.Name() == "WriteString" || fn.Name() == "Fprintln" || fn.Name() == "Fprintf" {
				return condCalls(modPath + "/plumbing.Reference.String")(info, call)
			}
			if isBillyMethod(fn, "Remove") {
				// removal of a loose ref file (path derived from a reference), not of the temp file
				return condCalls(modPath + "/plumbing.Reference.Name")(info, call) || usesRefDerivedPath(info, pr, call)
			}
			return false
		}, "the Type() == HashReference check")
		if n < 2 {
			c.Unresolved(r1, pr.Name(), pr.Decl.Pos(), "expected a packed-refs line write and a loose-ref removal in PackRefs, found "+itoa(n))
		}
	}
	c.Floor(r1, 2)

	// pack-refs-order
	const r2 = "pack-refs-order"
	if pr != nil {
		f := p.FlowOf(pr)
		lock := CallNode(false, callsNamed(info, "openAndLockPackedRefs"))
		readLoose := CallNode(false, callsNamed(info, "addRefsFromRefDir"))
		replace := CallNode(false, callsNamed(info, "rewritePackedRefsWhileLocked"))
		removeLoose := CallNode(false, func(call *ast.CallExpr) bool {
			return isBillyMethod(Callee(info, call), "Remove") && (condCalls(modPath + "/plumbing.Reference.Name")(info, call) || usesRefDerivedPath(info, pr, call))
		})
		c.Check(f.Search(SearchOpts{Starts: []Loc{f.Entry()}, Sink: readLoose, Barrier: lock}) == nil && len(f.Locs(lock)) > 0 && len(f.Locs(readLoose)) > 0,
			r2, pr.Name()+":lock-before-read", pr.Decl.Pos(), "packed-refs is locked before the loose refs are read")
		c.Check(f.Search(SearchOpts{Starts: []Loc{f.Entry()}, Sink: removeLoose, Barrier: replace}) == nil && len(f.Locs(replace)) > 0 && len(f.Locs(removeLoose)) > 0,
			r2, pr.Name()+":replace-before-remove", pr.Decl.Pos(), "no loose ref is removed before the new packed-refs is in place")
		// replacement succeeded: removal only across its success edge
		CallsGuarded(c, r2, pr, ErrGuard(anyArgs(callsNamed(info, "rewritePackedRefsWhileLocked"))), func(call *ast.CallExpr) bool {
			return isBillyMethod(Callee(info, call), "Remove") && (condCalls(modPath + "/plumbing.Reference.Name")(info, call) || usesRefDerivedPath(info, pr, call))
		}, "a successful rewritePackedRefsWhileLocked")
	}
	if rw := c.MustFunc(r2, dotgitShort+".(*DotGit).rewritePackedRefsWithoutRef"); rw != nil {
		d := newDeriver(info, rw.Decl)
		CallsGuarded(c, r2, rw, FactGuard(func(_ *Flow, fact Fact) bool {
			o := objOf(info, fact.Atom)
			if o == nil || !fact.Truth {
				return false
			}
			// a bool set to true where the name matched
			for _, def := range d.defs[o] {
				if tv := info.Types[def]; tv.Value != nil && tv.Value.Kind() == constant.Bool {
					return true
				}
			}
			return false
		}), callsNamed(info, "rewritePackedRefsWhileLocked"), "the name having been found in packed-refs")
	}
	c.Floor(r2, 4)

	// loose-shadows-packed
	const r3 = "loose-shadows-packed"
	for _, fn := range []string{dotgitShort + ".(*DotGit).Refs", dotgitShort + ".(*DotGit).PackRefs"} {
		fi := c.MustFunc(r3, fn)
		if fi == nil {
			continue
		}
		f := p.FlowOf(fi)
		loose := CallNode(false, callsNamed(info, "addRefsFromRefDir"))
		packed := CallNode(false, callsNamed(info, "addRefsFromPackedRefs", "addRefsFromPackedRefsFile"))
		bad := false
		for _, l := range f.Locs(packed) {
			if f.Search(SearchOpts{Starts: []Loc{After(l)}, Sink: loose}) != nil {
				bad = true
			}
		}
		// same seen object passed to both
		var seenArgs []types.Object
		walkCalls(fi.Decl.Body, false, func(call *ast.CallExpr) {
			if callsNamed(info, "addRefsFromRefDir", "addRefsFromPackedRefs", "addRefsFromPackedRefsFile")(call) && len(call.Args) > 0 {
				seenArgs = append(seenArgs, objOf(info, call.Args[len(call.Args)-1]))
			}
		})
		same := len(seenArgs) >= 2
		for _, o := range seenArgs {
			if o == nil || o != seenArgs[0] {
				same = false
			}
		}
		c.Check(!bad && same && len(f.Locs(loose)) > 0 && len(f.Locs(packed)) > 0, r3, fi.Name(), fi.Decl.Pos(), "loose refs are collected first and packed refs are filtered through the same `seen` set")
	}
	// peel-line-goes-with-its-ref: the rewrite that drops one reference from packed-refs copies lines; a line starting with
	// '^' is the peeled value of the line before it, so the rewrite has a branch that tests for '^' and skips the line
	// (otherwise git reads the orphan as the peeled value of the preceding reference)
	if rw := c.MustFunc("packed-line-shape", dotgitShort+".(*DotGit).rewritePackedRefsWithoutRef"); rw != nil {
		c.Analysed(rw)
		skipsPeel := false
		ast.Inspect(rw.Decl.Body, func(n ast.Node) bool {
			ifs, ok := n.(*ast.IfStmt)
			if !ok {
				return true
			}
			caret := false
			ast.Inspect(ifs.Cond, func(m ast.Node) bool {
				if e, ok := m.(ast.Expr); ok {
					if tv := info.Types[e]; tv.Value != nil {
						if tv.Value.Kind() == constant.String && constant.StringVal(tv.Value) == "^" {
							caret = true
						}
						if tv.Value.Kind() == constant.Int && tv.Value.ExactString() == "94" {
							caret = true
						}
					}
				}
				return true
			})
			if !caret {
				return true
			}
			for _, s := range ifs.Body.List {
				if b, ok := s.(*ast.BranchStmt); ok && b.Tok == token.CONTINUE {
					skipsPeel = true
				}
			}
			return true
		})
		c.Check(skipsPeel, "packed-line-shape", rw.Name()+":peel-line-goes-with-its-ref", rw.Decl.Pos(), orStr(ifStr(!skipsPeel, "the rewrite copies '^' lines unconditionally: the peeled line of a removed annotated tag stays and git attributes it to the preceding reference"),
			"a '^' line is skipped together with the reference line it belongs to"))
	}
	// a loose name shadows the packed value only when its loose file was read successfully: in the loose walk every
	// `seen[...] = true` lies behind the success edge of the call that reads the loose file (an empty, vanished or
	// unreadable loose file must leave the packed value visible)
	if wt := c.MustFunc(r3, dotgitShort+".(*DotGit).walkReferencesTree"); wt != nil {
		c.Analysed(wt)
		f := p.FlowOf(wt)
		readOK := ErrGuard(func(_ *Flow, call *ast.CallExpr) bool {
			fn := Callee(info, call)
			return fn != nil && (fn.Name() == "readReferenceFile" || fn.Name() == "readReferenceFrom")
		})
		marks := f.Locs(func(n ast.Node) bool {
			as, ok := n.(*ast.AssignStmt)
			if !ok {
				return false
			}
			for _, l := range as.Lhs {
				if ix, ok := unparen(l).(*ast.IndexExpr); ok {
					if tv := info.Types[ix.X]; tv.Type != nil {
						if m, isMap := tv.Type.Underlying().(*types.Map); isMap && strings.HasSuffix(m.Key().String(), "ReferenceName") {
							return true
						}
					}
				}
			}
			return false
		})
		ok := len(marks) > 0
		why := ""
		for _, l := range marks {
			if h := f.UnguardedPath(readOK, l); h != nil {
				ok, why = false, "a name is marked as seen without a successful read of its loose file: an empty or unreadable loose file hides the packed value from listings, and the next PackRefs drops the reference"+hitLines(f, h)
			}
		}
		c.Check(ok, r3, wt.Name()+":seen-after-successful-read", wt.Decl.Pos(), orStr(why, "names are marked seen only after their loose file was read successfully"))
	}
	// set-always-writes: a successful SetRef has written the loose file; a successful RemoveRef has consulted both the
	// loose file and packed-refs (a shortcut that "knows" the value is already stored is wrong when a loose file shadows packed-refs)
	const r5 = "set-always-writes"
	if sr := c.MustFunc(r5, dotgitShort+".(*DotGit).SetRef"); sr != nil {
		f := p.FlowOf(sr)
		sink := func(n ast.Node) bool {
			r, ok := n.(*ast.ReturnStmt)
			if !ok || returnsNonNilError(info, sr.Decl.Body, r) {
				return false
			}
			if len(r.Results) == 1 {
				if call, ok := unparen(r.Results[0]).(*ast.CallExpr); ok && callsNamed(info, "setRef")(call) {
					return false
				}
			}
			return true
		}
		h := f.Search(SearchOpts{Starts: []Loc{f.Entry()}, Sink: sink, Barrier: CallNode(false, callsNamed(info, "setRef"))})
		if h != nil {
			c.Violate(r5, sr.Name(), h.Node.Pos(), "SetRef can report success without writing the reference (lines "+f.pathString(h)+")")
		} else {
			c.Hold(r5, sr.Name(), sr.Decl.Pos(), "every successful return is the result of the write")
		}
	}
	if rr := c.MustFunc(r5, dotgitShort+".(*DotGit).RemoveRef"); rr != nil {
		f := p.FlowOf(rr)
		sink := func(n ast.Node) bool {
			r, ok := n.(*ast.ReturnStmt)
			if !ok || returnsNonNilError(info, rr.Decl.Body, r) {
				return false
			}
			if len(r.Results) == 1 {
				if call, ok := unparen(r.Results[0]).(*ast.CallExpr); ok && callsNamed(info, "rewritePackedRefsWithoutRef")(call) {
					return false
				}
			}
			return true
		}
		h := f.Search(SearchOpts{Starts: []Loc{f.Entry()}, Sink: sink, Barrier: CallNode(false, callsNamed(info, "rewritePackedRefsWithoutRef"))})
		if h != nil {
			c.Violate(r5, rr.Name(), h.Node.Pos(), "RemoveRef can report success without removing the name from packed-refs")
		} else {
			c.Hold(r5, rr.Name(), rr.Decl.Pos(), "every successful return went through the packed-refs rewrite")
		}
	}

	// packed-line-shape
	const r4 = "packed-line-shape"
	if pl := c.MustFunc(r4, dotgitShort+".(*DotGit).processLine"); pl != nil {
		RejectRule(c, r4, pl, "two-fields", func(info *types.Info, e ast.Expr) bool {
			return condHasConst("2")(info, e) && nodeHasBuiltin(info, e, "len")
		}, nil)
	}

	// packed-refs is sorted when git writes it and is not when PackRefs does (loose references first, then the lines
	// that were packed before). The single-name lookup therefore scans until it finds the name: the callback it hands
	// to the line scanner stops the scan (returns false) only on the edge where the entry's name equals the name looked
	// up; a stop decided by an ordering of names makes a reference that is still listed unreadable by name.
	const r6 = "packed-lookup-scans-until-found"
	if pr := c.MustFunc(r6, dotgitShort+".(*DotGit).packedRef"); pr != nil {
		c.Analysed(pr)
		params := paramObjs(info, pr.Decl)
		var lit *ast.FuncLit
		walkCalls(pr.Decl.Body, false, func(call *ast.CallExpr) {
			if callsNamed(info, "findPackedRefs")(call) && len(call.Args) == 1 {
				if fl, ok := unparen(call.Args[0]).(*ast.FuncLit); ok {
					lit = fl
				}
			}
		})
		if lit == nil || len(params) == 0 {
			c.Hold(r6, pr.Name(), pr.Decl.Pos(), "not decided: no callback literal handed to findPackedRefs")
		} else {
			f := p.NewFlow(info, lit.Body)
			nameEq := FactGuard(func(_ *Flow, fact Fact) bool {
				be, ok := unparen(fact.Atom).(*ast.BinaryExpr)
				if !ok {
					return false
				}
				eq := (be.Op == token.EQL && fact.Truth) || (be.Op == token.NEQ && !fact.Truth)
				return eq && (objOf(info, be.X) == types.Object(params[0]) || objOf(info, be.Y) == types.Object(params[0]))
			})
			k := 0
			for _, loc := range f.Locs(func(nd ast.Node) bool { _, ok := nd.(*ast.ReturnStmt); return ok }) {
				ret := loc.B.Nodes[loc.Idx].(*ast.ReturnStmt)
				if len(ret.Results) != 1 {
					continue
				}
				tv := info.Types[ret.Results[0]]
				if tv.Value != nil && tv.Value.String() == "true" {
					continue
				}
				k++
				key := pr.Name() + ":stop#" + itoa(k)
				if tv.Value == nil {
					c.Violate(r6, key, ret.Pos(), "the scan of packed-refs can stop on a computed condition ("+exprString(ret.Results[0])+") before the name was found: the file is not sorted when PackRefs wrote it, so a reference that listings still show is reported as not found")
					continue
				}
				h := f.UnguardedPath(nameEq, loc)
				c.Check(h == nil, r6, key, ret.Pos(), orStr(ifStr(h != nil, "the scan of packed-refs is stopped on a path that did not compare the entry's name with the name looked up"), "the scan stops only where the entry's name equals the name looked up"))
			}
			if k == 0 {
				c.Hold(r6, pr.Name(), pr.Decl.Pos(), "the callback never stops the scan")
			}
		}
	}
	c.Floor(r6, 1)
}

// usesRefDerivedPath: the call's argument is a variable whose definition mentions Reference.Name().
func usesRefDerivedPath(info *types.Info, fi *FuncInfo, call *ast.CallExpr) bool {
	d := newDeriver(info, fi.Decl)
	for _, a := range call.Args {
		if o := objOf(info, a); o != nil {
			for _, def := range d.defs[o] {
				if condCalls(modPath + "/plumbing.Reference.Name")(info, def) {
					return true
				}
			}
		}
	}
	return false
}

// checkEmptyLooseRefAgreement (C16, C21): shared by the compare-and-set property (a refused update leaves the empty
// placeholder) and the crash property (a stop between creating and writing the loose file leaves it as well).
func checkEmptyLooseRefAgreement(c *Ctx) {
	p := c.P
	pk := p.Pkg(dotgitShort)
	if pk == nil {
		c.Unresolved("empty-loose-ref-agreement", "package "+dotgitShort, 0, "not loaded")
		return
	}
	info := pk.TypesInfo

	// empty-loose-ref-agreement: a compare-and-set creates the loose file before comparing, so an empty loose file is
	// a state every reader meets (during an update, and for good after a refused one). Every function that reads a
	// loose reference file other than HEAD either tests for ErrEmptyRefFile or never returns the read's error.
	const r0 = "empty-loose-ref-agreement"
	emptyErr := p.lookupObj(dotgitShort, "ErrEmptyRefFile")
	nReaders := 0
	for _, fi := range p.FuncsIn(dotgitShort) {
		if fi.Decl.Body == nil || p.isTestFile(fi.Decl.Pos()) || fi.Obj.Name() == "readReferenceFile" || fi.Obj.Name() == "readReferenceFrom" {
			continue
		}
		var errObjs []types.Object
		isHEAD := true
		ast.Inspect(fi.Decl.Body, func(n ast.Node) bool {
			as, ok := n.(*ast.AssignStmt)
			if !ok || len(as.Rhs) != 1 || len(as.Lhs) != 2 {
				return true
			}
			call, ok := unparen(as.Rhs[0]).(*ast.CallExpr)
			if !ok {
				return true
			}
			fn := Callee(info, call)
			if fn == nil || (fn.Name() != "readReferenceFile" && fn.Name() != "readReferenceFrom") || len(call.Args) != 2 {
				return true
			}
			if constStr(info, call.Args[1]) != "HEAD" {
				isHEAD = false
			}
			if o := objOf(info, as.Lhs[1]); o != nil {
				errObjs = append(errObjs, o)
			}
			return true
		})
		if len(errObjs) == 0 || isHEAD {
			continue
		}
		nReaders++
		c.Analysed(fi)
		handles := emptyErr != nil && usesObj(info, fi.Decl.Body, emptyErr)
		escapes := false
		var at token.Pos
		ast.Inspect(fi.Decl.Body, func(n ast.Node) bool {
			r, ok := n.(*ast.ReturnStmt)
			if !ok || len(r.Results) == 0 {
				return true
			}
			for _, eo := range errObjs {
				if usesObj(info, r.Results[len(r.Results)-1], eo) {
					escapes, at = true, r.Pos()
				}
			}
			return true
		})
		if handles || !escapes {
			c.Hold(r0, fi.Name(), fi.Decl.Pos(), orStr(ifStr(handles, "tests for ErrEmptyRefFile"), "never returns the error of the loose read (falls back)"))
		} else {
			c.Violate(r0, fi.Name(), at, "returns the error of reading a loose reference file without treating the empty file as absent: after a refused compare-and-set on a packed reference the empty placeholder makes this operation fail")
		}
	}
	c.Check(nReaders >= 3, r0, dotgitShort+":loose-readers", 0, itoa(nReaders)+" readers of loose reference files examined")
}

func runC16(c *Ctx) {
	p := c.P
	pk := p.Pkg(dotgitShort)
	if pk == nil {
		c.Unresolved("no-mutation-before-lock", "package "+dotgitShort, 0, "not loaded")
		return
	}
	info := pk.TypesInfo
	oTrunc := p.importedPkg("os").Scope().Lookup("O_TRUNC")
	lockQ := billyPath + ".Locker.Lock"
	checkEmptyLooseRefAgreement(c)

	const r1 = "no-mutation-before-lock"
	for _, fi := range p.FuncsIn(dotgitShort) {
		if fi.Decl.Body == nil || p.isTestFile(fi.Decl.Pos()) {
			continue
		}
		f := p.FlowOf(fi)
		locks := f.Locs(CallNode(false, calleeIs(info, lockQ)))
		if len(locks) == 0 {
			continue
		}
		c.Analysed(fi)
		d := newDeriver(info, fi.Decl)
		// the file the lock belongs to: `locker, ok := f.(billy.Locker)`
		var fileObjs []types.Object
		ast.Inspect(fi.Decl.Body, func(n ast.Node) bool {
			if ta, ok := n.(*ast.TypeAssertExpr); ok && ta.Type != nil {
				if tv := info.Types[ta.Type]; tv.Type != nil && types.TypeString(tv.Type, nil) == billyPath+".Locker" {
					if o := objOf(info, ta.X); o != nil {
						fileObjs = append(fileObjs, o)
					}
				}
			}
			return true
		})
		// O_TRUNC in the open flags of that file
		trunc := false
		var tpos token.Pos
		for _, fo := range fileObjs {
			for _, def := range d.defs[fo] {
				call, ok := unparen(def).(*ast.CallExpr)
				if !ok || !isBillyMethod(Callee(info, call), "OpenFile") || len(call.Args) < 2 {
					continue
				}
				exprs := []ast.Expr{call.Args[1]}
				if o := objOf(info, call.Args[1]); o != nil {
					exprs = append(exprs, d.defs[o]...)
					// also `mode |= os.O_TRUNC`
					ast.Inspect(fi.Decl.Body, func(n ast.Node) bool {
						if as, ok := n.(*ast.AssignStmt); ok && len(as.Lhs) == 1 && objOf(info, as.Lhs[0]) == o {
							exprs = append(exprs, as.Rhs...)
						}
						return true
					})
				}
				for _, e := range exprs {
					if usesObj(info, e, oTrunc) {
						trunc, tpos = true, e.Pos()
					}
				}
			}
		}
		if trunc {
			c.Violate(r1, fi.Name()+":O_TRUNC", tpos, "the file is truncated by the open call, before the lock is taken: this empties it inside another writer's critical section")
		} else {
			c.Hold(r1, fi.Name()+":O_TRUNC", fi.Decl.Pos(), "the locked file is not opened with O_TRUNC")
		}
		// no Write/Truncate on the file before Lock (excluding the no-Locker edge)
		isMut := CallNode(false, func(call *ast.CallExpr) bool {
			sel, ok := unparen(call.Fun).(*ast.SelectorExpr)
			if !ok {
				return false
			}
			for _, fo := range fileObjs {
				if objOf(info, sel.X) == fo && (sel.Sel.Name == "Write" || sel.Sel.Name == "Truncate" || sel.Sel.Name == "WriteString") {
					return true
				}
			}
			// helpers that receive the file and mutate it
			if callsNamed(info, "checkReferenceAndTruncate")(call) {
				return true
			}
			return false
		})
		noLocker := func(b *cfg.Block, i int) bool {
			for _, fact := range f.EdgeFacts(b, i) {
				if o := objOf(info, fact.Atom); o != nil && o.Name() == "ok" && !fact.Truth {
					return true
				}
			}
			return false
		}
		h := f.Search(SearchOpts{Starts: []Loc{f.Entry()}, Sink: isMut, Barrier: CallNode(false, calleeIs(info, lockQ)), BlockEdge: noLocker})
		if len(f.Locs(isMut)) > 0 {
			if h != nil {
				c.Violate(r1, fi.Name()+":write-before-lock", h.Node.Pos(), "the file is written or truncated before the lock is taken (lines "+f.pathString(h)+")")
			} else {
				c.Hold(r1, fi.Name()+":write-before-lock", fi.Decl.Pos(), "every write/truncate of the locked file happens after Lock")
			}
		}
	}
	c.Floor(r1, 2)

	// no-unlink-under-lock: a writer holding the lock must not remove or rename the locked path: writers already
	// blocked on the lock hold the old inode and would then "succeed" on a file nobody can see
	const r1b = "no-unlink-under-lock"
	unlinks := p.ComputeEffect(func(_ *types.Info, _ *ast.CallExpr, callee *types.Func) bool {
		return isBillyMethod(callee, "Remove", "Rename")
	}, EffectOpts{Skip: func(fn *types.Func) bool { return fn.Pkg() == nil || shortPkg(fn.Pkg().Path()) != dotgitShort }})
	for _, fi := range p.FuncsIn(dotgitShort) {
		if fi.Decl.Body == nil || p.isTestFile(fi.Decl.Pos()) || fi.Obj.Name() == "openAndLockPackedRefs" {
			continue
		}
		f := p.FlowOf(fi)
		locks := f.Locs(CallNode(false, calleeIs(info, lockQ)))
		if len(locks) == 0 {
			continue
		}
		isUnlink := func(n ast.Node) bool {
			if _, isDefer := n.(*ast.DeferStmt); isDefer {
				return nodeHasCall(n, true, func(call *ast.CallExpr) bool {
					fn := Callee(info, call)
					return isBillyMethod(fn, "Remove", "Rename") || (fn != nil && unlinks.Has[fn.Origin()])
				}) != nil
			}
			return nodeHasCall(n, true, func(call *ast.CallExpr) bool {
				fn := Callee(info, call)
				return isBillyMethod(fn, "Remove", "Rename") || (fn != nil && unlinks.Has[fn.Origin()])
			}) != nil
		}
		var hit *Hit
		for _, l := range locks {
			if h := f.Search(SearchOpts{Starts: []Loc{After(l)}, Sink: isUnlink}); h != nil {
				hit = h
			}
		}
		// deferred unlinks registered anywhere in a locking function also run while the lock is held
		for _, l := range f.Locs(func(n ast.Node) bool { _, ok := n.(*ast.DeferStmt); return ok && isUnlink(n) }) {
			hit = &Hit{Loc: l, Node: l.B.Nodes[l.Idx], Path: []*cfg.Block{l.B}}
		}
		c.Analysed(fi)
		if hit != nil {
			c.Violate(r1b, fi.Name(), hit.Node.Pos(), "the locked reference file can be removed or renamed while the lock is held; a writer blocked on the lock then updates an orphaned inode and reports success")
		} else {
			c.Hold(r1b, fi.Name(), fi.Decl.Pos(), "nothing removes or renames a file between Lock and the deferred Close")
		}
	}
	c.Floor(r1b, 1)

	// cas-critical-section
	const r2 = "cas-critical-section"
	if sr := c.MustFunc(r2, dotgitShort+".(*DotGit).setRefRwfs"); sr != nil {
		f := p.FlowOf(sr)
		lock := CallNode(false, calleeIs(info, lockQ))
		release := CallNode(false, func(call *ast.CallExpr) bool {
			fn := Callee(info, call)
			return fn != nil && (fn.Name() == "Unlock" || fn.Name() == "Close")
		})
		bad := false
		for _, l := range f.Locs(lock) {
			if f.Search(SearchOpts{Starts: []Loc{After(l)}, Sink: release}) != nil {
				bad = true
			}
		}
		hasDeferClose := len(f.Locs(func(n ast.Node) bool {
			ds, ok := n.(*ast.DeferStmt)
			return ok && nodeHasCall(ds, true, func(cc *ast.CallExpr) bool {
				fn := Callee(info, cc)
				return fn != nil && (fn.Name() == "CheckClose" || fn.Name() == "Close")
			}) != nil
		})) > 0
		c.Check(!bad && hasDeferClose && len(f.Locs(lock)) > 0, r2, sr.Name()+":held-until-deferred-close", sr.Decl.Pos(), "after Lock nothing releases the file before the deferred Close")
		// compare happens after the lock, write after the compare
		cmp := CallNode(false, callsNamed(info, "checkReferenceAndTruncate"))
		c.Check(f.Search(SearchOpts{Starts: []Loc{f.Entry()}, Sink: cmp, Barrier: lock, BlockEdge: func(b *cfg.Block, i int) bool {
			for _, fact := range f.EdgeFacts(b, i) {
				if o := objOf(info, fact.Atom); o != nil && o.Name() == "ok" && !fact.Truth {
					return true
				}
			}
			return false
		}}) == nil && len(f.Locs(cmp)) > 0, r2, sr.Name()+":compare-under-lock", sr.Decl.Pos(), "the old value is compared after the lock is held")
		CallsGuarded(c, r2, sr, ErrGuard(anyArgs(callsNamed(info, "checkReferenceAndTruncate", "Truncate"))), func(call *ast.CallExpr) bool {
			sel, ok := unparen(call.Fun).(*ast.SelectorExpr)
			return ok && sel.Sel.Name == "Write"
		}, "a successful compare/truncate")
		// no-read-before-lock: everything the compare looks at is read inside the critical section: no call that reads
		// a reference (loose or packed) is reachable in setRefRwfs before the lock is taken, and the compare receives no
		// pre-fetched reference (its only *plumbing.Reference argument is the caller's expected value)
		readsRef := CallNode(false, func(call *ast.CallExpr) bool {
			fn := Callee(info, call)
			if fn == nil {
				return false
			}
			switch fn.Name() {
			case "packedRef", "Ref", "readReferenceFile", "readReferenceFrom", "findPackedRefs", "Refs":
				return recvTypeName(fn) != nil && recvTypeName(fn).Name() == "DotGit"
			}
			return false
		})
		h := f.Search(SearchOpts{Starts: []Loc{f.Entry()}, Sink: readsRef, Barrier: lock})
		c.Check(h == nil, r2, sr.Name()+":no-read-before-lock", sr.Decl.Pos(), orStr(ifStr(h != nil, "a reference value is read before the lock is held: a concurrent PackRefs or update can change it before the compare, which then accepts a stale expectation"+hitLines(f, h)),
			"no reference value is read before the lock is held"))
		if ct := p.Func(dotgitShort + ".(*DotGit).checkReferenceAndTruncate"); ct != nil {
			nRefParams := 0
			for _, pv := range paramObjs(info, ct.Decl) {
				if strings.HasSuffix(pv.Type().String(), "plumbing.Reference") {
					nRefParams++
				}
			}
			c.Check(nRefParams == 1, r2, ct.Name()+":no-prefetched-value", ct.Decl.Pos(), "the compare takes the expected value only; the current value is read inside it, under the caller's lock")
		}
	}
	if ct := c.MustFunc(r2, dotgitShort+".(*DotGit).checkReferenceAndTruncate"); ct != nil {
		changed := p.lookupObj("storage", "ErrReferenceHasChanged")
		RejectRule(c, r2, ct, "hash-mismatch-rejected", func(info *types.Info, e ast.Expr) bool {
			be, ok := unparen(e).(*ast.BinaryExpr)
			return ok && be.Op == token.NEQ && condCalls(modPath + "/plumbing.Reference.Hash")(info, e)
		}, nil)
		usesChanged := false
		ast.Inspect(ct.Decl.Body, func(n ast.Node) bool {
			if r, ok := n.(*ast.ReturnStmt); ok && usesObj(info, r, changed) {
				usesChanged = true
			}
			return true
		})
		c.Check(usesChanged, r2, ct.Name()+":returns-ErrReferenceHasChanged", ct.Decl.Pos(), "a mismatch is reported as storage.ErrReferenceHasChanged")
		CallsGuarded(c, r2, ct, FactGuard(func(_ *Flow, fact Fact) bool {
			be, ok := unparen(fact.Atom).(*ast.BinaryExpr)
			return ok && condCalls(modPath + "/plumbing.Reference.Hash")(info, be) && (be.Op == token.NEQ) == !fact.Truth
		}), func(call *ast.CallExpr) bool {
			sel, ok := unparen(call.Fun).(*ast.SelectorExpr)
			return ok && sel.Sel.Name == "Truncate"
		}, "the stored hash being equal to the expected old hash")
	}
	c.Floor(r2, 6)

	// publish-by-rename for references (shared inventory with C21)
	inPlaceInventory(c, "publish-by-rename", func(fn string) bool {
		switch fn {
		case dotgitShort + ".(*DotGit).setRefRwfs", dotgitShort + ".(*DotGit).setRefNorwfs", dotgitShort + ".(*DotGit).checkReferenceAndTruncate":
			return true
		}
		return false
	})
}

// inPlaceInventory lists every creation/truncation in package dotgit and classifies it: temp file (later renamed),
// append-only log, or in-place write of a final path (violation; today recorded as known findings).
func inPlaceInventory(c *Ctx, rule string, only func(fn string) bool) {
	p := c.P
	pk := p.Pkg(dotgitShort)
	info := pk.TypesInfo
	osPkg := p.importedPkg("os")
	oTrunc, oAppend := osPkg.Scope().Lookup("O_TRUNC"), osPkg.Scope().Lookup("O_APPEND")
	n := 0
	for _, fi := range p.FuncsIn(dotgitShort) {
		if fi.Decl.Body == nil || p.isTestFile(fi.Decl.Pos()) || (only != nil && !only(fi.Name())) {
			continue
		}
		if tn := recvTypeName(fi.Obj); tn != nil && tn.Name() == "RepositoryFilesystem" {
			continue // a billy.Filesystem adapter, not a writer of repository files
		}
		d := newDeriver(info, fi.Decl)
		seen := map[string]int{}
		walkCalls(fi.Decl.Body, true, func(call *ast.CallExpr) {
			fn := Callee(info, call)
			if fn == nil {
				return
			}
			kind := ""
			switch {
			case isBillyMethod(fn, "Create"):
				kind = "Create"
			case isBillyMethod(fn, "OpenFile") && len(call.Args) >= 2:
				exprs := []ast.Expr{call.Args[1]}
				if o := objOf(info, call.Args[1]); o != nil {
					exprs = append(exprs, d.defs[o]...)
				}
				tr, ap := false, false
				for _, e := range exprs {
					if usesObj(info, e, oTrunc) {
						tr = true
					}
					if usesObj(info, e, oAppend) {
						ap = true
					}
				}
				if ap {
					n++
					c.Hold(rule, fi.Name()+"->OpenFile(O_APPEND)", call.Pos(), "append-only log: existing content is never rewritten")
					return
				}
				if tr {
					kind = "OpenFile(O_TRUNC)"
				}
			case fn.Name() == "Truncate" && fn.Pkg() != nil && fn.Pkg().Path() == billyPath:
				kind = "Truncate"
			}
			if kind == "" {
				return
			}
			n++
			c.Analysed(fi)
			key := fi.Name() + "->" + kind
			seen[key]++
			if seen[key] > 1 {
				key += "#" + itoa(seen[key])
			}
			c.Violate(rule, key, call.Pos(), "the final path is created/truncated and then written in place: a crash or a concurrent reader sees an empty or partial file (temp file + rename would publish atomically)")
		})
	}
	if n == 0 {
		c.Unresolved(rule, dotgitShort+":in-place-writers", 0, "no file creation found at all: the inventory rule no longer matches anything")
	}
}

func runC21(c *Ctx) {
	p := c.P
	gitPk := p.Pkg("git")
	if gitPk == nil {
		c.Unresolved("objects-before-refs", "package git", 0, "not loaded")
		return
	}
	info := gitPk.TypesInfo
	// deferred-error-reaches-result: an operation whose last write failed at Flush/Close must not report success
	nDef := DeferredErrorsReachResult(c, "deferred-error-reaches-result", dotgitShort, "git", "storage/filesystem")
	c.Check(nDef >= 5, "deferred-error-reaches-result", "writers", 0, itoa(nDef)+" functions that close or flush a write handle in a deferred call examined")
	// a stop between creating a loose reference file and writing it leaves an empty file beside the packed value
	checkEmptyLooseRefAgreement(c)
	const r1 = "objects-before-refs"
	if fe := c.MustFunc(r1, "git.(*Remote).fetch"); fe != nil {
		f := p.FlowOf(fe)
		upd := CallNode(false, callsNamed(info, "updateLocalReferenceStorage"))
		fetch := CallNode(false, func(call *ast.CallExpr) bool {
			fn := Callee(info, call)
			return fn != nil && fn.Name() == "Fetch" && fn.Pkg() != nil && shortPkg(fn.Pkg().Path()) == trShort
		})
		bad := false
		for _, l := range f.Locs(upd) {
			if f.Search(SearchOpts{Starts: []Loc{After(l)}, Sink: fetch}) != nil {
				bad = true
			}
		}
		c.Check(!bad && len(f.Locs(upd)) > 0 && len(f.Locs(fetch)) > 0, r1, fe.Name(), fe.Decl.Pos(), "local references are never updated before the pack is fetched")
	}
	if cm := c.MustFunc(r1, "git.(*Worktree).Commit"); cm != nil {
		f := p.FlowOf(cm)
		head := CallNode(false, callsNamed(info, "updateHEAD"))
		build := CallNode(false, callsNamed(info, "buildCommitObject"))
		tree := CallNode(false, callsNamed(info, "BuildTree"))
		ok := len(f.Locs(head)) > 0 && len(f.Locs(build)) > 0 && len(f.Locs(tree)) > 0 &&
			f.Search(SearchOpts{Starts: []Loc{f.Entry()}, Sink: head, Barrier: build}) == nil
		// updateHEAD only after buildCommitObject succeeded
		for _, l := range f.Locs(head) {
			if f.UnguardedPath(ErrGuard(anyArgs(callsNamed(info, "buildCommitObject"))), l) != nil {
				ok = false
			}
		}
		c.Check(ok, r1, cm.Name(), cm.Decl.Pos(), "HEAD moves only after the tree and the commit object were stored successfully")
	}
	// pack-publish
	const r2 = "pack-publish"
	dinfo := p.Pkg(dotgitShort).TypesInfo
	if sv := c.MustFunc(r2, dotgitShort+".(*PackWriter).save"); sv != nil {
		f := p.FlowOf(sv)
		rename := CallNode(false, func(call *ast.CallExpr) bool { return isBillyMethod(Callee(dinfo, call), "Rename") })
		create := CallNode(false, func(call *ast.CallExpr) bool { return isBillyMethod(Callee(dinfo, call), "Create") })
		bad := false
		for _, l := range f.Locs(rename) {
			if f.Search(SearchOpts{Starts: []Loc{After(l)}, Sink: create}) != nil {
				bad = true
			}
		}
		c.Check(!bad && len(f.Locs(rename)) == 1 && len(f.Locs(create)) >= 2, r2, sv.Name(), sv.Decl.Pos(), "the .pack rename is the last step: every sidecar is written before it")
	}
	// pack-unpublish: a pack is discovered by its .pack file, so when a pack is deleted the .pack goes first;
	// an .idx without its pack is ignored, a pack without its .idx makes every lookup fail
	if del := c.MustFunc(r2, dotgitShort+".(*DotGit).DeleteOldObjectPackAndIndex"); del != nil {
		f := p.FlowOf(del)
		d := newDeriver(dinfo, del.Decl)
		isPackPath := func(e ast.Expr) bool {
			exprs := []ast.Expr{e}
			if o := objOf(dinfo, e); o != nil {
				exprs = append(exprs, d.defs[o]...)
			}
			for _, x := range exprs {
				if call, ok := unparen(x).(*ast.CallExpr); ok && callsNamed(dinfo, "objectPackPath")(call) && len(call.Args) == 2 {
					if tv := dinfo.Types[call.Args[1]]; tv.Value != nil && tv.Value.ExactString() == `"pack"` {
						return true
					}
				}
			}
			return false
		}
		rmPack := CallNode(false, func(call *ast.CallExpr) bool {
			return isBillyMethod(Callee(dinfo, call), "Remove") && len(call.Args) == 1 && isPackPath(call.Args[0])
		})
		rmOther := CallNode(false, func(call *ast.CallExpr) bool {
			return isBillyMethod(Callee(dinfo, call), "Remove") && len(call.Args) == 1 && !isPackPath(call.Args[0])
		})
		h := f.Search(SearchOpts{Starts: []Loc{f.Entry()}, Sink: rmOther, Barrier: rmPack})
		c.Check(h == nil && len(f.Locs(rmPack)) > 0 && len(f.Locs(rmOther)) > 0, r2, del.Name()+":pack-removed-first", del.Decl.Pos(),
			"when a pack is deleted its .pack file is removed before the .idx/.rev/.promisor sidecars (a crash in between leaves an ignorable orphan index, not an unindexed pack)")
	}

	// flushed-before-publish: a buffered writer over the temporary file is flushed (not in a deferred call) on every
	// path before the call that puts the file in place; otherwise the published file is empty until the function returns
	const r2f = "flushed-before-publish"
	{
		dinfo := p.Pkg(dotgitShort).TypesInfo
		nW := 0
		for _, fi := range p.FuncsIn(dotgitShort) {
			if fi.Decl.Body == nil || p.isTestFile(fi.Decl.Pos()) {
				continue
			}
			// buffered writers created in the function
			var writers []types.Object
			ast.Inspect(fi.Decl.Body, func(n ast.Node) bool {
				as, ok := n.(*ast.AssignStmt)
				if !ok || len(as.Lhs) != 1 || len(as.Rhs) != 1 {
					return true
				}
				if call, ok := unparen(as.Rhs[0]).(*ast.CallExpr); ok {
					if fn := Callee(dinfo, call); fn != nil && fn.Pkg() != nil && fn.Pkg().Path() == "bufio" && (fn.Name() == "NewWriter" || fn.Name() == "NewWriterSize") {
						if o := objOf(dinfo, as.Lhs[0]); o != nil {
							writers = append(writers, o)
						}
					}
				}
				return true
			})
			if len(writers) == 0 {
				continue
			}
			isPublish := func(n ast.Node) bool {
				if _, isDefer := n.(*ast.DeferStmt); isDefer {
					return false
				}
				return nodeHasCall(n, false, func(call *ast.CallExpr) bool {
					fn := Callee(dinfo, call)
					return fn != nil && (fn.Name() == "rewritePackedRefsWhileLocked" || (fn.Name() == "Rename" && isBillyMethod(fn)))
				}) != nil
			}
			f := p.FlowOf(fi)
			if len(f.Locs(isPublish)) == 0 {
				continue
			}
			for _, w := range writers {
				w := w
				nW++
				c.Analysed(fi)
				flushes := func(n ast.Node) bool {
					if _, isDefer := n.(*ast.DeferStmt); isDefer {
						return false
					}
					return nodeHasCall(n, false, func(call *ast.CallExpr) bool {
						sel, ok := unparen(call.Fun).(*ast.SelectorExpr)
						return ok && sel.Sel.Name == "Flush" && objOf(dinfo, sel.X) == w
					}) != nil
				}
				h := f.Search(SearchOpts{Starts: []Loc{f.Entry()}, Sink: isPublish, Barrier: flushes})
				c.Check(h == nil, r2f, fi.Name()+":"+w.Name(), fi.Decl.Pos(), orStr(ifStr(h != nil, "the file is put in place while the buffered writer "+w.Name()+" may still hold its content (no Flush before the publishing call; a deferred Flush runs after it): a crash leaves an empty or cut file under the final name"+hitLines(f, h)),
					"the buffered writer is flushed on every path before the file is put in place"))
			}
		}
		c.Check(nW >= 1, r2f, dotgitShort+":buffered-publishers", 0, itoa(nW)+" buffered writers over files that are then published examined")
	}

	// delete-after-close
	const r3 = "delete-after-close"
	if cn := c.MustFunc(r3, "git.(*Repository).createNewObjectPack"); cn != nil {
		f := p.FlowOf(cn)
		// the node that (possibly inside a callback) deletes loose objects
		del := func(n ast.Node) bool {
			if _, isDefer := n.(*ast.DeferStmt); isDefer {
				return false
			}
			return nodeHasCall(n, true, callsNamed(info, "DeleteLooseObject")) != nil
		}
		closeOK := ErrGuard(func(_ *Flow, call *ast.CallExpr) bool {
			fn := Callee(info, call)
			return fn != nil && fn.Name() == "Close" && len(call.Args) == 0
		})
		ok := len(f.Locs(del)) > 0
		why := ""
		for _, l := range f.Locs(del) {
			if h := f.UnguardedPath(closeOK, l); h != nil {
				ok, why = false, "loose objects are deleted while the pack writer has not been closed successfully (lines "+f.pathString(h)+"): if the pack is not published they are lost"
			}
		}
		c.Check(ok, r3, cn.Name(), cn.Decl.Pos(), orStr(why, "loose objects are deleted only after the pack writer's Close succeeded"))
	}
	if rp := c.MustFunc(r3, "git.(*Repository).RepackObjects"); rp != nil {
		n := CallsGuarded(c, r3, rp, ErrGuard(anyArgs(callsNamed(info, "createNewObjectPack"))), callsNamed(info, "DeleteOldObjectPackAndIndex"), "a successful createNewObjectPack")
		if n == 0 {
			c.Unresolved(r3, rp.Name()+"->DeleteOldObjectPackAndIndex", rp.Decl.Pos(), "call not found")
		}
	}
	// publish-by-rename inventory (whole package)
	inPlaceInventory(c, "publish-by-rename", nil)
}

func runC22(c *Ctx) {
	p := c.P
	gitPk := p.Pkg("git")
	if gitPk == nil {
		c.Unresolved("gc-root-set", "package git", 0, "not loaded")
		return
	}
	info := gitPk.TypesInfo
	checkIndexRootsSkipOnlyGitlinks(c, "index-roots-skip-only-gitlinks")
	const r1 = "gc-root-set"
	walk := p.Func("git.(*objectWalker).walkAllRefs")
	if walk == nil {
		c.Unresolved(r1, "git.(*objectWalker).walkAllRefs", 0, "anchor not found")
		return
	}
	refsEff := p.ComputeEffect(func(_ *types.Info, _ *ast.CallExpr, callee *types.Func) bool {
		return calleeQName(callee) == modPath+"/plumbing/storer.ReferenceStorer.IterReferences"
	}, EffectOpts{})
	idxEff := p.ComputeEffect(func(_ *types.Info, _ *ast.CallExpr, callee *types.Func) bool {
		return calleeQName(callee) == modPath+"/plumbing/storer.IndexStorer.Index"
	}, EffectOpts{})
	c.Analysed(walk)
	c.Check(refsEff.Has[walk.Obj], r1, walk.Name()+":references", walk.Decl.Pos(), orStr(ifStr(refsEff.Has[walk.Obj], "roots include every reference: "+refsEff.Chain(walk.Obj)), "the walk never lists the references"))
	c.Check(idxEff.Has[walk.Obj], r1, walk.Name()+":index", walk.Decl.Pos(), orStr(ifStr(idxEff.Has[walk.Obj], "roots include the index (staged content): "+idxEff.Chain(walk.Obj)), "the walk never reads the index: staged-only objects are unreachable from its roots and get deleted"))
	walkOK := ErrGuard(func(_ *Flow, call *ast.CallExpr) bool { return Callee(info, call) == walk.Obj })
	for _, fn := range []string{"git.(*Repository).Prune", "git.(*Repository).createNewObjectPack"} {
		fi := c.MustFunc(r1, fn)
		if fi == nil {
			continue
		}
		f := p.FlowOf(fi)
		del := func(n ast.Node) bool {
			if _, isDefer := n.(*ast.DeferStmt); isDefer {
				return false
			}
			return nodeHasCall(n, true, func(call *ast.CallExpr) bool {
				if callsNamed(info, "DeleteLooseObject")(call) {
					return true
				}
				sel, ok := unparen(call.Fun).(*ast.SelectorExpr)
				return ok && sel.Sel.Name == "Handler"
			}) != nil
		}
		ok := len(f.Locs(del)) > 0
		for _, l := range f.Locs(del) {
			if f.UnguardedPath(walkOK, l) != nil {
				ok = false
			}
		}
		c.Check(ok, r1, fi.Name()+":delete-after-walk", fi.Decl.Pos(), "objects are deleted only after the reachability walk succeeded")
	}
	c.Floor(r1, 4)

	// walk-covers-links: in the walker, once a commit's tree has been walked, no successful return is reachable without
	// entering the loop over its parents (except on the shallow-boundary edge); tree entries and tag targets are walked too
	const r1c = "walk-covers-links"
	commitT := p.lookupType("plumbing/object", "Commit")
	parentsF, treeHashF := fieldOf(commitT, "ParentHashes"), fieldOf(commitT, "TreeHash")
	nWalk := 0
	for _, fi := range p.FuncsIn("git") {
		if tn := recvTypeName(fi.Obj); tn == nil || tn.Name() != "objectWalker" || fi.Decl.Body == nil {
			continue
		}
		mentions := func(n ast.Node, fld *types.Var) bool {
			found := false
			ast.Inspect(n, func(x ast.Node) bool {
				if sel, ok := x.(*ast.SelectorExpr); ok && info.Uses[sel.Sel] == fld {
					found = true
				}
				return !found
			})
			return found
		}
		if parentsF == nil || !mentions(fi.Decl.Body, parentsF) {
			continue
		}
		nWalk++
		c.Analysed(fi)
		f := p.FlowOf(fi)
		starts := f.Locs(func(n ast.Node) bool {
			if _, isCase := n.(*ast.CaseClause); isCase {
				return false
			}
			return mentions(n, treeHashF)
		})
		isParentLoop := func(b *cfg.Block) bool {
			rs, ok := b.Stmt.(*ast.RangeStmt)
			return ok && (b.Kind == cfg.KindRangeLoop || b.Kind == cfg.KindRangeBody) && mentions(rs.X, parentsF) && !isSubSlice(rs.X)
		}
		okCover := len(starts) > 0
		why := ""
		for _, s := range starts {
			h := f.Search(SearchOpts{Starts: []Loc{After(s)},
				Sink: func(n ast.Node) bool {
					r, ok := n.(*ast.ReturnStmt)
					return ok && !returnsNonNilError(info, fi.Decl.Body, r) && !(len(r.Results) == 1 && objOf(info, r.Results[0]) != nil && objOf(info, r.Results[0]).Name() == "err")
				},
				BlockEdge: func(b *cfg.Block, i int) bool {
					if isParentLoop(b.Succs[i]) {
						return true
					}
					for _, fact := range f.EdgeFacts(b, i) {
						if o := objOf(info, fact.Atom); o != nil && o.Name() == "shallow" && fact.Truth {
							return true
						}
					}
					return false
				}})
			if h != nil {
				okCover, why = false, "after walking a commit's tree the walk can finish successfully without visiting all of its parents (lines "+f.pathString(h)+")"
			}
		}
		c.Check(okCover, r1c, fi.Name()+":commit-parents", fi.Decl.Pos(), orStr(why, "every parent of a walked commit is visited (except beyond the shallow boundary)"))
	}
	if nWalk == 0 {
		c.Unresolved(r1c, "git.objectWalker:commit-walk", 0, "no objectWalker method handling Commit.ParentHashes found")
	}
	if wt := p.Func("git.(*objectWalker).walkObjectTree"); wt != nil {
		tagT := p.lookupType("plumbing/object", "Tag")
		treeT := p.lookupType("plumbing/object", "Tree")
		for name, fld := range map[string]*types.Var{"tag-target": fieldOf(tagT, "Target"), "tree-entries": fieldOf(treeT, "Entries")} {
			used := false
			ast.Inspect(wt.Decl.Body, func(x ast.Node) bool {
				if sel, ok := x.(*ast.SelectorExpr); ok && info.Uses[sel.Sel] == fld {
					used = true
				}
				return !used
			})
			c.Check(used && fld != nil, r1c, wt.Name()+":"+name, wt.Decl.Pos(), "the walk follows "+name)
		}
	}

	// prune-only-unseen
	const r2 = "prune-only-unseen"
	isSeenFact := func(want bool) PassEdge {
		return FactGuard(func(_ *Flow, fact Fact) bool {
			call, ok := unparen(fact.Atom).(*ast.CallExpr)
			return ok && callsNamed(info, "isSeen")(call) && fact.Truth == want
		})
	}
	type spec struct {
		fn     string
		sink   func(*ast.CallExpr) bool
		want   bool
		desc   string
	}
	for _, s := range []spec{
		{"git.(*Repository).Prune", func(call *ast.CallExpr) bool {
			sel, ok := unparen(call.Fun).(*ast.SelectorExpr)
			return ok && sel.Sel.Name == "Handler"
		}, false, "the !isSeen(hash) edge"},
		{"git.(*Repository).createNewObjectPack", callsNamed(info, "DeleteLooseObject"), true, "the isSeen(hash) edge (the object is in the new pack)"},
	} {
		fi := c.MustFunc(r2, s.fn)
		if fi == nil {
			continue
		}
		found := false
		walkCalls(fi.Decl.Body, true, func(call *ast.CallExpr) {
			if !s.sink(call) {
				return
			}
			found = true
			fl, locs := p.flowContaining(fi, call)
			ok := len(locs) > 0
			for _, l := range locs {
				if fl.UnguardedPath(isSeenFact(s.want), l) != nil {
					ok = false
				}
			}
			c.Check(ok, r2, fi.Name(), call.Pos(), "reached only on "+s.desc)
		})
		if !found {
			c.Unresolved(r2, fi.Name(), fi.Decl.Pos(), "delete/handler call not found")
		}
	}
	c.Floor(r2, 2)

	// old-pack-kept-if-same
	const r3 = "old-pack-kept-if-same"
	if rp := c.MustFunc(r3, "git.(*Repository).RepackObjects"); rp != nil {
		CallsGuarded(c, r3, rp, FactGuard(func(_ *Flow, fact Fact) bool {
			be, ok := unparen(fact.Atom).(*ast.BinaryExpr)
			if !ok {
				return false
			}
			return (be.Op == token.EQL && !fact.Truth) || (be.Op == token.NEQ && fact.Truth)
		}), callsNamed(info, "DeleteOldObjectPackAndIndex"), "the old pack's hash differing from the new pack's")
		// deletion-set-fixed-before-walk: the packs to delete are listed before the new pack is built (before the
		// reachability walk). A pack that another writer stores while the walk runs is then not in the list; listed
		// afterwards, it would be deleted although its objects were never walked into the new pack.
		f := p.FlowOf(rp)
		build := f.Locs(CallNode(false, callsNamed(info, "createNewObjectPack")))
		lists := CallNode(false, callsNamed(info, "ObjectPacks"))
		var h *Hit
		for _, b := range build {
			if hh := f.Search(SearchOpts{Starts: []Loc{After(b)}, Sink: lists}); hh != nil {
				h = hh
			}
		}
		c.Check(h == nil && len(build) > 0 && len(f.Locs(lists)) > 0, "deletion-set-fixed-before-walk", rp.Name(), rp.Decl.Pos(), orStr(ifStr(h != nil, "the packs to delete are listed after the new pack was built: a pack received while the walk ran is deleted although nothing of it was copied"+hitLines(f, h)),
			"the packs to delete are listed before the new pack is built"))
	}
	c.Floor("deletion-set-fixed-before-walk", 1)
}
