package main

import (
	"go/ast"
	"go/token"
	"go/types"
)

// checkSiblingOrder (C27, C44): DiffTree walks two tries in step. Each iterator hands out the children of a node in the
// order of frame.byName, and DiffTree decides which side is behind with noder.Path.Compare. The walk is only aligned if
// both orders are the same total order on names; they are today because both compare nothing but the noders' Name()
// byte-wise. Decided: every key compared in byName.Less and in Path.Compare (arguments of strings.Compare, operands of
// an ordering operator on strings) is a direct Name() call on an element (or a local holding one). Ordering directories
// as name+"/" in one of them (git's tree order) mis-aligns `lib` and `lib.go` and reports a whole directory as
// inserted and deleted.
func checkSiblingOrder(c *Ctx, rule string) {
	p := c.P
	n := 0
	for _, name := range []string{"utils/merkletrie/internal/frame.byName.Less", "utils/merkletrie/noder.Path.Compare"} {
		fi := c.MustFunc(rule, name)
		if fi == nil {
			continue
		}
		c.Analysed(fi)
		info := fi.Pkg.TypesInfo
		d := newDeriver(info, fi.Decl)
		var isNameKey func(e ast.Expr, depth int) bool
		isNameKey = func(e ast.Expr, depth int) bool {
			e = unparen(e)
			if call, ok := e.(*ast.CallExpr); ok {
				sel, ok := unparen(call.Fun).(*ast.SelectorExpr)
				if !ok || sel.Sel.Name != "Name" || len(call.Args) != 0 {
					return false
				}
				fn, _ := info.Uses[sel.Sel].(*types.Func)
				return fn != nil && fn.Pkg() != nil && shortPkg(fn.Pkg().Path()) == "utils/merkletrie/noder"
			}
			if o := objOf(info, e); o != nil && depth < 3 {
				defs := d.defs[o]
				if len(defs) == 0 {
					return false
				}
				for _, def := range defs {
					if !isNameKey(def, depth+1) {
						return false
					}
				}
				return true
			}
			return false
		}
		var keys []ast.Expr
		ast.Inspect(fi.Decl.Body, func(nd ast.Node) bool {
			switch x := nd.(type) {
			case *ast.CallExpr:
				if fn := Callee(info, x); fn != nil && fn.Pkg() != nil && (fn.Pkg().Path() == "strings" || fn.Pkg().Path() == "bytes" || fn.Pkg().Path() == "cmp") && fn.Name() == "Compare" {
					keys = append(keys, x.Args...)
				}
			case *ast.BinaryExpr:
				switch x.Op {
				case token.LSS, token.GTR, token.LEQ, token.GEQ:
					if tv := info.Types[x.X]; tv.Type != nil {
						if b, ok := tv.Type.Underlying().(*types.Basic); ok && b.Info()&types.IsString != 0 {
							keys = append(keys, x.X, x.Y)
						}
					}
				}
			}
			return true
		})
		bad := token.NoPos
		for _, k := range keys {
			if !isNameKey(k, 0) {
				bad = k.Pos()
			}
		}
		n += len(keys)
		ok := len(keys) >= 2 && !bad.IsValid()
		c.Check(ok, rule, fi.Name(), orPos(bad, fi.Decl.Pos()), orStr(ifStr(!ok, ifElse(len(keys) < 2, "no comparison of names found: the order of siblings is not the byte order of their names",
			"a compared key is not the noder's plain Name(): the order in which an iterator hands out siblings and the order by which DiffTree aligns the two sides are then different orders (a directory `lib` and a file `lib.go` change places), and the walk reports unchanged entries as inserted and deleted")),
			"compares the plain names byte-wise"))
	}
	c.Floor(rule, 2)
	_ = p
}

// checkTimeGuardResolution (C27): the shortcut that takes a file's hash from the index rests on two time tests that work
// together — the file's mtime equals the entry's, and the file is older than the index file (racy git). They only cover
// each other if they look at the times at one resolution: a file rewritten within the same second as its entry passes an
// mtime test on whole seconds, and passes a nanosecond racy test if the index was rewritten later in that second.
// Decided: in metadataMatches the time.Time values are not compared at mixed resolutions — either every comparison is a
// full-resolution one (Equal/Before/After/Compare/UnixNano), or every one goes through the same truncating accessor.
func checkTimeGuardResolution(c *Ctx, rule string) {
	fi := c.MustFunc(rule, "utils/merkletrie/filesystem.(*node).metadataMatches")
	if fi == nil {
		return
	}
	c.Analysed(fi)
	info := fi.Pkg.TypesInfo
	full, coarse := 0, map[string]token.Pos{}
	ast.Inspect(fi.Decl.Body, func(n ast.Node) bool {
		call, ok := n.(*ast.CallExpr)
		if !ok {
			return true
		}
		fn := Callee(info, call)
		if fn == nil || fn.Pkg() == nil || fn.Pkg().Path() != "time" {
			return true
		}
		if tn := recvTypeName(fn); tn == nil || tn.Name() != "Time" {
			return true
		}
		switch fn.Name() {
		case "Equal", "Before", "After", "Compare", "UnixNano":
			full++
		case "Unix", "UnixMilli", "UnixMicro", "Truncate", "Round", "Second", "Minute", "Hour", "Format", "Date", "Clock", "YearDay":
			coarse[fn.Name()] = call.Pos()
		}
		return true
	})
	bad := token.NoPos
	names := ""
	for k, pos := range coarse {
		if full > 0 || len(coarse) > 1 {
			bad = pos
		}
		names += k + " "
	}
	ok := !bad.IsValid() && (full > 0 || len(coarse) > 0)
	c.Check(ok, rule, fi.Name(), orPos(bad, fi.Decl.Pos()), orStr(ifStr(!ok, ifElse(full == 0 && len(coarse) == 0, "no comparison of times found",
		"the times are compared at mixed resolutions ("+names+"beside full-resolution comparisons): a file rewritten in the same second as its index entry passes the coarse test, and the full-resolution racy test no longer covers it once the index is rewritten later in that second")),
		"every time comparison of the shortcut is made at full resolution"))
}
