package main

import (
	"go/ast"
	"go/token"
	"go/types"
)

// checkContinuationBySeparator (C02): an extra header of a commit may continue on following lines (each starting with a
// blank) exactly when its first line has the separating blank — `key \n` with an empty first line is a multi-line header
// like any other, a bare `key\n` is not. A parser that decides it from the length of the value confuses the two: the
// continuation lines of `x-note \n line one` become a header of their own with an empty key and the re-encoded commit
// loses the blank after the key. Decided: in parseExtraHeader no condition tests the length of a byte string or string
// (only the number of pieces of the split, a found flag or an index may decide), and some condition of that second
// kind is there.
func checkContinuationBySeparator(c *Ctx, rule string) {
	fi := c.MustFunc(rule, objShort+".parseExtraHeader")
	if fi == nil {
		return
	}
	c.Analysed(fi)
	info := fi.Pkg.TypesInfo
	isByteString := func(t types.Type) bool {
		if t == nil {
			return false
		}
		if b, ok := t.Underlying().(*types.Basic); ok && b.Info()&types.IsString != 0 {
			return true
		}
		if sl, ok := t.Underlying().(*types.Slice); ok {
			if b, ok := sl.Elem().Underlying().(*types.Basic); ok && b.Kind() == types.Uint8 {
				return true
			}
		}
		return false
	}
	bad := token.NoPos
	sepTest := false
	ast.Inspect(fi.Decl.Body, func(n ast.Node) bool {
		ifs, ok := n.(*ast.IfStmt)
		if !ok {
			return true
		}
		ast.Inspect(ifs.Cond, func(m ast.Node) bool {
			switch x := m.(type) {
			case *ast.CallExpr:
				if id, ok := unparen(x.Fun).(*ast.Ident); ok && id.Name == "len" && len(x.Args) == 1 {
					t := info.Types[x.Args[0]].Type
					if isByteString(t) {
						bad = x.Pos()
					} else if t != nil {
						if _, isSlice := t.Underlying().(*types.Slice); isSlice {
							sepTest = true // number of pieces
						}
					}
				}
			case *ast.Ident:
				if v, ok := info.Uses[x].(*types.Var); ok {
					if b, ok := v.Type().Underlying().(*types.Basic); ok && (b.Kind() == types.Bool || b.Info()&types.IsInteger != 0) {
						sepTest = true // a found flag or an index
					}
				}
			}
			return true
		})
		return true
	})
	ok := !bad.IsValid() && sepTest
	c.Check(ok, rule, fi.Name(), orPos(bad, fi.Decl.Pos()), orStr(ifStr(!ok, ifElse(bad.IsValid(), "whether the header may continue on the next line is decided from the length of its value: `key \\n` (separator, empty first line) is taken for a bare `key\\n`, its continuation lines become a header with an empty key and the re-encoded commit has another ID",
		"no test of the separator's presence found")),
		"whether the header may continue is decided by the presence of the separator"))
}
