package main

import (
	"go/ast"
	"go/token"
	"go/types"
	"sort"
)

// callEdge is one resolved call inside a declared function.
type callEdge struct {
	Call   *ast.CallExpr
	Callee *types.Func // may be an interface method
	InLit  bool        // inside a function literal
	Defer  bool
}

type callGraph struct {
	edges  map[*types.Func][]callEdge
	impls  map[*types.Func][]*types.Func // interface method -> concrete repo methods (CHA)
	namedT []*types.Named
}

func (p *Prog) callGraph() *callGraph {
	if p.cg != nil {
		return p.cg
	}
	cg := &callGraph{edges: map[*types.Func][]callEdge{}, impls: map[*types.Func][]*types.Func{}}
	for _, pk := range p.Pkgs {
		sc := pk.Types.Scope()
		for _, n := range sc.Names() {
			if tn, ok := sc.Lookup(n).(*types.TypeName); ok && !tn.IsAlias() {
				if nt, ok := tn.Type().(*types.Named); ok {
					if _, isIface := nt.Underlying().(*types.Interface); !isIface {
						cg.namedT = append(cg.namedT, nt)
					}
				}
			}
		}
	}
	for _, fi := range p.funcsL {
		if fi.Decl.Body == nil {
			continue
		}
		info := fi.Pkg.TypesInfo
		var edges []callEdge
		var walk func(n ast.Node, inLit bool)
		walk = func(n ast.Node, inLit bool) {
			ast.Inspect(n, func(x ast.Node) bool {
				switch v := x.(type) {
				case *ast.FuncLit:
					if x != n {
						walk(v.Body, true)
						return false
					}
				case *ast.DeferStmt:
					if fn := Callee(info, v.Call); fn != nil {
						edges = append(edges, callEdge{v.Call, fn, inLit, true})
					}
					for _, a := range v.Call.Args {
						walk(a, inLit)
					}
					if fl, ok := v.Call.Fun.(*ast.FuncLit); ok {
						walk(fl.Body, true)
					} else {
						walk(v.Call.Fun, inLit)
					}
					return false
				case *ast.CallExpr:
					if fn := Callee(info, v); fn != nil {
						edges = append(edges, callEdge{v, fn, inLit, false})
					}
				}
				return true
			})
		}
		walk(fi.Decl.Body, false)
		cg.edges[fi.Obj] = edges
	}
	p.cg = cg
	return cg
}

// implementations returns the concrete repository methods that an interface method call may dispatch to.
func (p *Prog) implementations(m *types.Func) []*types.Func {
	cg := p.callGraph()
	if r, ok := cg.impls[m]; ok {
		return r
	}
	var out []*types.Func
	sig, _ := m.Type().(*types.Signature)
	if sig == nil || sig.Recv() == nil {
		cg.impls[m] = nil
		return nil
	}
	iface, _ := sig.Recv().Type().Underlying().(*types.Interface)
	if iface == nil {
		cg.impls[m] = nil
		return nil
	}
	for _, nt := range cg.namedT {
		for _, t := range []types.Type{nt, types.NewPointer(nt)} {
			if !types.Implements(t, iface) {
				continue
			}
			sel := types.NewMethodSet(t).Lookup(m.Pkg(), m.Name())
			if sel == nil {
				continue
			}
			if cf, ok := sel.Obj().(*types.Func); ok && p.FuncOf(cf) != nil {
				out = append(out, cf)
			}
			break
		}
	}
	cg.impls[m] = out
	return out
}

// Effect is the set of repository functions from which a call matching a predicate is reachable
// through static calls (and, optionally, interface dispatch resolved by CHA over repository types).
type Effect struct {
	p      *Prog
	Direct map[*types.Func]*ast.CallExpr
	Has    map[*types.Func]bool
	Via    map[*types.Func]*types.Func
}

type EffectOpts struct {
	FollowIfaces bool
	// Skip: functions whose bodies are not entered (treated as opaque).
	Skip func(fn *types.Func) bool
}

func (p *Prog) ComputeEffect(pred func(info *types.Info, call *ast.CallExpr, callee *types.Func) bool, o EffectOpts) *Effect {
	cg := p.callGraph()
	e := &Effect{p: p, Direct: map[*types.Func]*ast.CallExpr{}, Has: map[*types.Func]bool{}, Via: map[*types.Func]*types.Func{}}
	callers := map[*types.Func][]*types.Func{}
	var work []*types.Func
	for _, fi := range p.funcsL {
		if o.Skip != nil && o.Skip(fi.Obj) {
			continue
		}
		for _, ed := range cg.edges[fi.Obj] {
			if pred(fi.Pkg.TypesInfo, ed.Call, ed.Callee) {
				if _, ok := e.Direct[fi.Obj]; !ok {
					e.Direct[fi.Obj] = ed.Call
				}
			}
			targets := []*types.Func{ed.Callee}
			if o.FollowIfaces {
				targets = append(targets, p.implementations(ed.Callee)...)
			}
			for _, t := range targets {
				t = t.Origin()
				if p.funcs[t] != nil {
					callers[t] = append(callers[t], fi.Obj)
				}
			}
		}
		if _, ok := e.Direct[fi.Obj]; ok {
			e.Has[fi.Obj] = true
			work = append(work, fi.Obj)
		}
	}
	for len(work) > 0 {
		f := work[0]
		work = work[1:]
		for _, c := range callers[f] {
			if !e.Has[c] {
				e.Has[c] = true
				e.Via[c] = f
				work = append(work, c)
			}
		}
	}
	return e
}

// Chain explains why fn has the effect: fn → g → … → direct call site.
func (e *Effect) Chain(fn *types.Func) string {
	s := ""
	for i := 0; fn != nil && i < 12; i++ {
		if s != "" {
			s += " → "
		}
		s += funcName(fn)
		if c, ok := e.Direct[fn]; ok {
			s += " [" + e.p.Pos(c.Pos()) + "]"
			break
		}
		fn = e.Via[fn]
	}
	return s
}

// CallHas reports whether a call (by its resolved callee) has the effect, either directly by pred
// or because the callee (or an implementation) is in the effect set.
func (e *Effect) CalleeHas(callee *types.Func, followIfaces bool) bool {
	if callee == nil {
		return false
	}
	if e.Has[callee.Origin()] {
		return true
	}
	if followIfaces {
		for _, m := range e.p.implementations(callee) {
			if e.Has[m.Origin()] {
				return true
			}
		}
	}
	return false
}

// Callers returns, sorted, the declared functions that contain a call whose callee satisfies pred.
func (p *Prog) CallSites(pred func(info *types.Info, call *ast.CallExpr, callee *types.Func) bool) []siteRef {
	cg := p.callGraph()
	var out []siteRef
	for _, fi := range p.funcsL {
		for _, ed := range cg.edges[fi.Obj] {
			if pred(fi.Pkg.TypesInfo, ed.Call, ed.Callee) {
				out = append(out, siteRef{fi, ed.Call, ed.Callee})
			}
		}
	}
	sort.SliceStable(out, func(i, j int) bool {
		if out[i].In.Name() != out[j].In.Name() {
			return out[i].In.Name() < out[j].In.Name()
		}
		return out[i].Call.Pos() < out[j].Call.Pos()
	})
	return out
}

type siteRef struct {
	In     *FuncInfo
	Call   *ast.CallExpr
	Callee *types.Func
}

var _ = token.NoPos
