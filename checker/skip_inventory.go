package main

import (
	"go/ast"
	"go/token"
	"go/types"
)

// loopSkips lists the `continue` statements that skip the rest of loop's body for the current element, with the
// conditions they sit under (innermost first). Nested loops and function literals are not entered; a continue with a
// label is attributed to the labelled loop only.
type loopSkip struct {
	stmt  *ast.BranchStmt
	conds []ast.Expr // conditions of the enclosing if statements inside the loop body, innermost first
	inits []ast.Stmt // their init statements
	elses []bool     // whether the continue sits in the else branch of that if
}

func loopSkips(body *ast.BlockStmt, label string) []loopSkip {
	var out []loopSkip
	type frame struct {
		cond ast.Expr
		init ast.Stmt
		els  bool
	}
	var walk func(n ast.Node, stack []frame)
	walk = func(n ast.Node, stack []frame) {
		switch v := n.(type) {
		case nil:
			return
		case *ast.FuncLit, *ast.ForStmt, *ast.RangeStmt:
			if n != ast.Node(body) {
				// a labelled continue inside a nested loop can still target our loop
				if label != "" {
					ast.Inspect(n, func(m ast.Node) bool {
						if _, isLit := m.(*ast.FuncLit); isLit {
							return false
						}
						if br, ok := m.(*ast.BranchStmt); ok && br.Tok == token.CONTINUE && br.Label != nil && br.Label.Name == label {
							out = append(out, loopSkip{stmt: br})
						}
						return true
					})
				}
				return
			}
		case *ast.BranchStmt:
			if v.Tok == token.CONTINUE && (v.Label == nil || v.Label.Name == label) {
				s := loopSkip{stmt: v}
				for i := len(stack) - 1; i >= 0; i-- {
					s.conds = append(s.conds, stack[i].cond)
					s.inits = append(s.inits, stack[i].init)
					s.elses = append(s.elses, stack[i].els)
				}
				out = append(out, s)
			}
			return
		case *ast.IfStmt:
			walk(v.Body, append(stack[:len(stack):len(stack)], frame{v.Cond, v.Init, false}))
			if v.Else != nil {
				walk(v.Else, append(stack[:len(stack):len(stack)], frame{v.Cond, v.Init, true}))
			}
			return
		case *ast.BlockStmt:
			for _, s := range v.List {
				walk(s, stack)
			}
			return
		case *ast.SwitchStmt:
			for _, cl := range v.Body.List {
				cc := cl.(*ast.CaseClause)
				var cond ast.Expr
				if len(cc.List) > 0 {
					cond = cc.List[0]
				}
				for _, s := range cc.Body {
					walk(s, append(stack[:len(stack):len(stack)], frame{cond, nil, false}))
				}
			}
			return
		case *ast.LabeledStmt:
			walk(v.Stmt, stack)
			return
		}
	}
	walk(body, nil)
	return out
}

// checkSkippedEntriesRemoved (C32): after a reset or checkout with a sparse selection every entry marked skip-worktree
// has to be absent from the worktree. resetWorktreeToTree's last step is the only place that removes such files (the
// diff of step 2 does not see skip-worktree entries), so in the loop over the index entries that calls the removal
// helper, an entry may be passed over only because (a) it is not marked skip-worktree, (b) the caller restricted the
// reset to named files, or (c) the file is already absent. Any other reason to `continue` leaves a file outside the
// selection on disk.
func checkSkippedEntriesRemoved(c *Ctx, rule string) {
	fi := c.MustFunc(rule, "git.(*Worktree).resetWorktreeToTree")
	if fi == nil {
		return
	}
	info := fi.Pkg.TypesInfo
	c.Analysed(fi)
	isRemoval := func(call *ast.CallExpr) bool {
		fn := Callee(info, call)
		return fn != nil && (fn.Name() == "rmFileAndDirsIfEmpty" || isBillyMethod(fn, "Remove"))
	}
	var loop *ast.RangeStmt
	ast.Inspect(fi.Decl.Body, func(n ast.Node) bool {
		rs, ok := n.(*ast.RangeStmt)
		if !ok || rs.Value == nil {
			return true
		}
		// ranges over index entries and removes
		tv := info.Types[rs.X]
		if tv.Type == nil || types.TypeString(tv.Type, nil) != "[]*"+modPath+"/plumbing/format/index.Entry" {
			return true
		}
		if nodeHasCall(rs.Body, false, isRemoval) != nil {
			loop = rs
		}
		return true
	})
	if loop == nil {
		c.Unresolved(rule, fi.Name()+":removal-loop", fi.Decl.Pos(), "no loop over the index entries that removes files found")
		return
	}
	entry := objOf(info, loop.Value)
	var filesParam types.Object
	for _, po := range paramObjs(info, fi.Decl) {
		if types.TypeString(po.Type(), nil) == "[]string" {
			filesParam = po
		}
	}
	classify := func(s loopSkip) string {
		if len(s.conds) == 0 {
			return ""
		}
		cond, init := s.conds[0], s.inits[0]
		if cond == nil {
			return ""
		}
		mentionsSkip := false
		ast.Inspect(cond, func(n ast.Node) bool {
			if sel, ok := n.(*ast.SelectorExpr); ok && sel.Sel.Name == "SkipWorktree" && objOf(info, sel.X) == entry {
				mentionsSkip = true
			}
			return true
		})
		if mentionsSkip {
			return "the entry is not marked skip-worktree"
		}
		if filesParam != nil && usesObj(info, cond, filesParam) {
			return "the reset is restricted to named files"
		}
		notExist := nodeHasCall(cond, false, func(call *ast.CallExpr) bool {
			fn := Callee(info, call)
			return fn != nil && fn.Pkg() != nil && (fn.Name() == "IsNotExist" || (fn.Name() == "Is" && fn.Pkg().Path() == "errors" && usesObjNamed(info, call, "ErrNotExist")))
		}) != nil
		if notExist && !s.elses[0] {
			// the error tested comes from a stat of the entry's path
			stat := false
			for _, n := range []ast.Node{init, cond} {
				if n == nil {
					continue
				}
				if nodeHasCall(n, false, func(call *ast.CallExpr) bool {
					fn := Callee(info, call)
					return fn != nil && (fn.Name() == "Lstat" || fn.Name() == "Stat") && len(call.Args) == 1 && usesObj(info, call.Args[0], entry)
				}) != nil {
					stat = true
				}
			}
			if stat {
				return "the file is already absent"
			}
		}
		return ""
	}
	skips := loopSkips(loop.Body, "")
	for i, s := range skips {
		why := classify(s)
		desc := "unconditional"
		if len(s.conds) > 0 && s.conds[0] != nil {
			desc = exprString(s.conds[0])
		}
		c.Check(why != "", rule, fi.Name()+":continue#"+itoa(i+1)+" ["+desc+"]", s.stmt.Pos(), orStr(ifStr(why == "", "a skip-worktree entry is passed over in the only loop that removes such files, for a reason other than 'not marked', 'not among the named files' or 'already absent': the file stays in the worktree outside the sparse selection"), why))
	}
	// the removal itself is a statement of the loop body (or the init of the `if err := …` that reports its error), not
	// nested under a further condition
	direct := false
	for _, st := range loop.Body.List {
		switch v := st.(type) {
		case *ast.IfStmt:
			if v.Init != nil && nodeHasCall(v.Init, false, isRemoval) != nil {
				direct = true
			}
		case *ast.ExprStmt, *ast.AssignStmt:
			if nodeHasCall(v, false, isRemoval) != nil {
				direct = true
			}
		}
	}
	c.Check(direct, rule, fi.Name()+":removal-loop", loop.Pos(), orStr(ifStr(!direct, "the removal is nested under a further condition inside the loop: entries for which it does not hold stay on disk"), "every entry the loop does not pass over is removed"))
}
