package main

import (
	"fmt"
	"go/ast"
	"go/constant"
	"go/token"
	"go/types"
	"math/bits"
)

// checkDateFieldWidth (C51): a commit-data record ends in eight bytes that hold the topological level in the upper bits
// and the commit time in the lower S bits (git: S = 34). The encoder fixes S by shifting the level (`level << S`). The
// reader must hand time.Unix a value that can carry S bits and shift the level down by S: a reader that takes the
// low 32-bit word for the time silently loses dates from 2106 on (and every corrected commit date computed from
// them). The bit width of the expression given to time.Unix is computed from the expression itself (masks, shifts,
// conversions of fixed-width integers, local definitions).
func checkDateFieldWidth(c *Ctx, rule string) {
	p := c.P
	const cg = "plumbing/format/commitgraph"
	pk := p.Pkg(cg)
	if pk == nil {
		c.Unresolved(rule, "package "+cg, 0, "not loaded")
		return
	}
	info := pk.TypesInfo
	// S from the encoder: the constant shift applied to a Generation field
	S := -1
	var sPos token.Pos
	for _, fi := range p.FuncsIn(cg) {
		if fi.Decl.Body == nil || p.isTestFile(fi.Decl.Pos()) || recvTypeNameStr(fi) != "Encoder" {
			continue
		}
		ast.Inspect(fi.Decl.Body, func(n ast.Node) bool {
			be, ok := n.(*ast.BinaryExpr)
			if !ok || be.Op != token.SHL {
				return true
			}
			mentionsGen := false
			ast.Inspect(be.X, func(m ast.Node) bool {
				if sel, ok := m.(*ast.SelectorExpr); ok && sel.Sel.Name == "Generation" {
					mentionsGen = true
				}
				return true
			})
			if tv := info.Types[be.Y]; mentionsGen && tv.Value != nil {
				if v, ok := constant.Int64Val(constant.ToInt(tv.Value)); ok {
					S, sPos = int(v), be.Pos()
				}
			}
			return true
		})
	}
	if S < 0 {
		c.Unresolved(rule, cg+".Encoder:level-shift", 0, "no `Generation << constant` found in the encoder")
		return
	}
	rd := c.MustFunc(rule, cg+".(*fileIndex).GetCommitDataByIndex")
	if rd == nil {
		return
	}
	c.Analysed(rd)
	d := newDeriver(info, rd.Decl)
	var width func(e ast.Expr, depth int) int
	width = func(e ast.Expr, depth int) int {
		e = unparen(e)
		if depth > 8 {
			return 64
		}
		if tv := info.Types[e]; tv.Value != nil {
			if u, ok := constant.Uint64Val(constant.ToInt(tv.Value)); ok {
				return bits.Len64(u)
			}
		}
		typeWidth := func(t types.Type) int {
			if b, ok := t.Underlying().(*types.Basic); ok {
				switch b.Kind() {
				case types.Uint8, types.Int8:
					return 8
				case types.Uint16, types.Int16:
					return 16
				case types.Uint32, types.Int32:
					return 32
				}
			}
			return 64
		}
		switch v := e.(type) {
		case *ast.Ident:
			o := objOf(info, v)
			w := 64
			if o != nil {
				w = typeWidth(o.Type())
				defs := d.defs[o]
				if len(defs) > 0 {
					m := 0
					for _, def := range defs {
						if _, isCall := unparen(def).(*ast.CallExpr); isCall {
							if tv := info.Types[def]; tv.IsValue() {
								// a call result: bounded by its (first) result type
								m = max(m, min(w, width(def, depth+1)))
								continue
							}
						}
						m = max(m, width(def, depth+1))
					}
					w = min(w, m)
				}
			}
			return w
		case *ast.CallExpr:
			if tv := info.Types[v.Fun]; tv.IsType() && len(v.Args) == 1 {
				return min(typeWidth(tv.Type), width(v.Args[0], depth+1))
			}
			if tv := info.Types[e]; tv.Type != nil {
				if tup, ok := tv.Type.(*types.Tuple); ok && tup.Len() > 0 {
					return typeWidth(tup.At(0).Type())
				}
				return typeWidth(tv.Type)
			}
		case *ast.BinaryExpr:
			l, r := width(v.X, depth+1), width(v.Y, depth+1)
			switch v.Op {
			case token.AND:
				return min(l, r)
			case token.OR, token.XOR, token.ADD:
				return min(64, max(l, r)+ifInt(v.Op == token.ADD, 1, 0))
			case token.SHL:
				if tv := info.Types[v.Y]; tv.Value != nil {
					if k, ok := constant.Int64Val(constant.ToInt(tv.Value)); ok {
						return min(64, l+int(k))
					}
				}
				return 64
			case token.SHR:
				if tv := info.Types[v.Y]; tv.Value != nil {
					if k, ok := constant.Int64Val(constant.ToInt(tv.Value)); ok {
						return max(0, l-int(k))
					}
				}
				return l
			}
		}
		if tv := info.Types[e]; tv.Type != nil {
			return typeWidth(tv.Type)
		}
		return 64
	}
	n := 0
	walkCalls(rd.Decl.Body, false, func(call *ast.CallExpr) {
		fn := Callee(info, call)
		if fn == nil || fn.Pkg() == nil || fn.Pkg().Path() != "time" || fn.Name() != "Unix" || len(call.Args) != 2 {
			return
		}
		n++
		w := width(call.Args[0], 0)
		c.Check(w >= S, rule, rd.Name()+":time.Unix#"+itoa(n), call.Pos(), orStr(ifStr(w < S, fmt.Sprintf("the commit time handed to time.Unix can carry %d bits, the encoder stores %d (level << %d at %s): dates from 2^%d seconds on are read back truncated, and the corrected commit dates built on them are wrong", w, S, S, p.Pos(sPos), w)),
			fmt.Sprintf("the commit time can carry %d bits (the encoder stores %d)", w, S)))
	})
	if n == 0 {
		c.Unresolved(rule, rd.Name()+":time.Unix", rd.Decl.Pos(), "no time.Unix call found in the reader")
	}
	// the level is shifted down by S
	okShift := false
	ast.Inspect(rd.Decl.Body, func(nd ast.Node) bool {
		be, ok := nd.(*ast.BinaryExpr)
		if !ok || be.Op != token.SHR {
			return true
		}
		if tv := info.Types[be.Y]; tv.Value != nil {
			if k, ok := constant.Int64Val(constant.ToInt(tv.Value)); ok && width(be.X, 0)-int(k) == 64-S {
				okShift = true
			}
		}
		return true
	})
	c.Check(okShift, rule, rd.Name()+":level-shift", rd.Decl.Pos(), orStr(ifStr(!okShift, fmt.Sprintf("no expression of the reader recovers the %d level bits above the %d date bits", 64-S, S)), fmt.Sprintf("the level is the %d bits above the %d date bits", 64-S, S)))
}

func ifInt(c bool, a, b int) int {
	if c {
		return a
	}
	return b
}

func recvTypeNameStr(fi *FuncInfo) string {
	if fi.Obj == nil {
		return ""
	}
	if tn := recvTypeName(fi.Obj); tn != nil {
		return tn.Name()
	}
	return ""
}
