package main

import (
	"go/ast"
	"go/constant"
	"go/token"
	"go/types"
	"sort"
	"strings"
)

// checkArchiveTimeIsCommitterDate (C50): git archive stamps every entry with the commit's committer date. In the archive
// package no Author field of a commit is read, and ResolveTreeish reads Committer.When.
func checkArchiveTimeIsCommitterDate(c *Ctx, rule string) {
	p := c.P
	const ar = "internal/archive"
	fi := c.MustFunc(rule, ar+".ResolveTreeish")
	if fi == nil {
		return
	}
	c.Analysed(fi)
	isCommit := func(t types.Type) bool {
		return t != nil && strings.HasSuffix(strings.TrimPrefix(t.String(), "*"), "plumbing/object.Commit")
	}
	bad := token.NoPos
	committer := false
	for _, f := range p.FuncsIn(ar) {
		if f.Decl.Body == nil || p.isTestFile(f.Decl.Pos()) {
			continue
		}
		info := f.Pkg.TypesInfo
		ast.Inspect(f.Decl.Body, func(n ast.Node) bool {
			sel, ok := n.(*ast.SelectorExpr)
			if !ok || !isCommit(info.Types[sel.X].Type) {
				return true
			}
			switch sel.Sel.Name {
			case "Author":
				bad = sel.Pos()
			case "Committer":
				if f.Obj == fi.Obj {
					committer = true
				}
			}
			return true
		})
	}
	ok := !bad.IsValid() && committer
	c.Check(ok, rule, fi.Name(), orPos(bad, fi.Decl.Pos()), orStr(ifStr(!ok, ifElse(bad.IsValid(), "the archive package reads a commit's author signature: entries are stamped with the author date where git archive uses the committer date (they differ for amended, rebased and cherry-picked commits)", "ResolveTreeish no longer reads Committer.When")),
		"the archive time is the committer date"))
}

// checkBangOnlyAtRegexStart (C47): in `<rev>^{/regex}` the exclamation mark is special only right after the slash (`/!!` a
// literal `!`, `/!-` negation); elsewhere the text is the regex as written. Every case of parseCaretBraces that looks at
// the emark token also requires the regex accumulated so far to be empty.
func checkBangOnlyAtRegexStart(c *Ctx, rule string) {
	fi := c.MustFunc(rule, "internal/revision.(*Parser).parseCaretBraces")
	if fi == nil {
		return
	}
	c.Analysed(fi)
	info := fi.Pkg.TypesInfo
	n := 0
	ast.Inspect(fi.Decl.Body, func(nd ast.Node) bool {
		cc, ok := nd.(*ast.CaseClause)
		if !ok || len(cc.List) != 1 || !usesObjNamed(info, cc.List[0], "emark") {
			return true
		}
		n++
		emptyTest := false
		ast.Inspect(cc.List[0], func(m ast.Node) bool {
			be, ok := m.(*ast.BinaryExpr)
			if !ok || be.Op != token.EQL {
				return true
			}
			for _, pair := range [][2]ast.Expr{{be.X, be.Y}, {be.Y, be.X}} {
				if tv := info.Types[pair[1]]; tv.Value != nil && tv.Value.Kind() == constant.String && constant.StringVal(tv.Value) == "" {
					if o := objOf(info, pair[0]); o != nil {
						emptyTest = true
					}
				}
			}
			return true
		})
		c.Check(emptyTest, rule, fi.Name()+":case#"+itoa(n), cc.Pos(), orStr(ifStr(!emptyTest, "an exclamation mark is given its special meaning wherever it stands in the regex (`"+exprString(cc.List[0])+"`): `^{/foo!!bar}` is searched as `foo!bar`, git searches `foo!!bar`"),
			"the exclamation mark is special only while the regex is still empty"))
		return true
	})
	c.Check(n >= 3, rule, fi.Name()+":emark-cases", fi.Decl.Pos(), itoa(n)+" cases that look at the exclamation mark examined")

	// type-peel-only-at-start: `^{commit}` is a type peel, `^{/fix commit}` is a regex that happens to end in the word. The
	// case that returns a CaretType for a type word is taken only for the first thing inside the braces: its condition
	// reads a boolean local that the loop clears after its first round (or tests the regex read so far against "").
	const r2 = "type-peel-only-at-start"
	k := 0
	ast.Inspect(fi.Decl.Body, func(nd ast.Node) bool {
		cc, ok := nd.(*ast.CaseClause)
		if !ok || len(cc.List) != 1 {
			return true
		}
		mentionsType := false
		ast.Inspect(cc.List[0], func(m ast.Node) bool {
			if e, ok := m.(ast.Expr); ok {
				if tv := info.Types[e]; tv.Value != nil && tv.Value.Kind() == constant.String {
					switch constant.StringVal(tv.Value) {
					case "commit", "tree", "blob":
						mentionsType = true
					}
				}
			}
			return true
		})
		if !mentionsType {
			return true
		}
		k++
		guarded := false
		ast.Inspect(cc.List[0], func(m ast.Node) bool {
			switch x := m.(type) {
			case *ast.Ident:
				if v, ok := info.Uses[x].(*types.Var); ok {
					if b, ok := v.Type().Underlying().(*types.Basic); ok && b.Kind() == types.Bool {
						// a flag that some assignment in the loop sets to false
						ast.Inspect(fi.Decl.Body, func(a ast.Node) bool {
							if as, ok := a.(*ast.AssignStmt); ok && len(as.Lhs) == 1 && len(as.Rhs) == 1 && objOf(info, as.Lhs[0]) == types.Object(v) {
								if tv := info.Types[as.Rhs[0]]; tv.Value != nil && tv.Value.Kind() == constant.Bool && !constant.BoolVal(tv.Value) {
									guarded = true
								}
							}
							return true
						})
					}
				}
			case *ast.BinaryExpr:
				if x.Op == token.EQL {
					for _, side := range []ast.Expr{x.X, x.Y} {
						if tv := info.Types[side]; tv.Value != nil && tv.Value.Kind() == constant.String && constant.StringVal(tv.Value) == "" {
							guarded = true
						}
					}
				}
			}
			return true
		})
		c.Check(guarded, r2, fi.Name()+":type-word-case", cc.Pos(), orStr(ifStr(!guarded, "a type word followed by `}` is taken for a type peel wherever it stands: `HEAD^{/fix commit}` is parsed as `HEAD^{commit}`, the regex is dropped and the revision resolves to HEAD"),
			"a type word is a type peel only as the first thing inside the braces"))
		return true
	})
	if k == 0 {
		c.Unresolved(r2, fi.Name()+":type-word-case", fi.Decl.Pos(), "the case that recognises ^{commit}, ^{tree} … was not found")
	}
}

// checkCleanDescendsEverywhere (C28): git clean -d removes untracked directories, already empty ones included. doClean
// passes an entry over only for the .git directory and, for directories, when the Dir option is off: any other skip
// leaves directories unvisited, and an empty one among them stays behind.
func checkCleanDescendsEverywhere(c *Ctx, rule string) {
	fi := c.MustFunc(rule, "git.(*Worktree).doClean")
	if fi == nil {
		return
	}
	c.Analysed(fi)
	info := fi.Pkg.TypesInfo
	var loop *ast.RangeStmt
	ast.Inspect(fi.Decl.Body, func(n ast.Node) bool {
		if rs, ok := n.(*ast.RangeStmt); ok && loop == nil {
			loop = rs
		}
		return loop == nil
	})
	if loop == nil {
		c.Unresolved(rule, fi.Name()+":loop", fi.Decl.Pos(), "no loop over the directory entries found")
		return
	}
	n := 0
	for _, s := range loopSkips(loop.Body, "") {
		n++
		why := ""
		if len(s.conds) > 0 && s.conds[0] != nil {
			cond := s.conds[0]
			switch {
			case usesObjNamed(info, cond, "GitDirName"):
				why = "the .git directory"
			default:
				ast.Inspect(cond, func(m ast.Node) bool {
					if sel, ok := m.(*ast.SelectorExpr); ok && sel.Sel.Name == "Dir" {
						if fv, ok := info.Uses[sel.Sel].(*types.Var); ok && fv.IsField() {
							why = "directories are left alone without the Dir option"
						}
					}
					return true
				})
			}
		}
		c.Check(why != "", rule, fi.Name()+":skip#"+itoa(n), s.stmt.Pos(), orStr(ifStr(why == "", "an entry is passed over for another reason than being .git or a directory without the Dir option: directories skipped here are never visited, and an untracked directory that is already empty is not removed (git clean -d removes it)"),
			"skipped only for: "+why))
	}
	reaches := nodeHasCall(fi.Decl.Body, false, callsNamed(info, "removeDirIfEmpty")) != nil
	c.Check(reaches && n >= 1, rule, fi.Name()+":removes-empty-directory", fi.Decl.Pos(), orStr(ifStr(!reaches, "the visited directory is not removed when it is empty"), "a visited directory is removed when it is (or has become) empty"))
}

// checkHunkStatePerFile (C45): the lines of context kept for the next hunk belong to one file. UnifiedEncoder.Encode makes a
// new hunks generator for every file patch, or — when it reuses one — re-arms it with a method that assigns every field
// of the generator; a field left over from the previous file (beforeContext) becomes leading context of the next file's
// first hunk, with wrong counts and a negative start line, and git apply calls the patch corrupt.
func checkHunkStatePerFile(c *Ctx, rule string) {
	p := c.P
	fi := c.MustFunc(rule, fdiffShort+".(*UnifiedEncoder).Encode")
	if fi == nil {
		return
	}
	c.Analysed(fi)
	info := fi.Pkg.TypesInfo
	gen := p.lookupType(fdiffShort, "hunksGenerator")
	if gen == nil {
		c.Unresolved(rule, fdiffShort+".hunksGenerator", fi.Decl.Pos(), "type not found")
		return
	}
	var loop *ast.RangeStmt
	ast.Inspect(fi.Decl.Body, func(n ast.Node) bool {
		if rs, ok := n.(*ast.RangeStmt); ok && loop == nil && nodeHasCall(rs.X, false, callsNamed(info, "FilePatches")) != nil {
			loop = rs
		}
		return loop == nil
	})
	if loop == nil {
		c.Unresolved(rule, fi.Name()+":file-loop", fi.Decl.Pos(), "no loop over the file patches found")
		return
	}
	makesGen := func(n ast.Node) bool {
		found := false
		ast.Inspect(n, func(m ast.Node) bool {
			switch x := m.(type) {
			case *ast.CallExpr:
				if tv := info.Types[x]; tv.Type != nil && strings.HasSuffix(tv.Type.String(), "diff.hunksGenerator") {
					found = true
				}
			case *ast.CompositeLit:
				if tv := info.Types[x]; tv.Type != nil && strings.HasSuffix(tv.Type.String(), "diff.hunksGenerator") {
					found = true
				}
			}
			return !found
		})
		return found
	}
	if makesGen(loop.Body) {
		c.Hold(rule, fi.Name(), loop.Pos(), "every file patch gets a hunks generator of its own")
		return
	}
	// reused generator: the methods called on it inside the loop must together assign every field
	st, _ := gen.Type().Underlying().(*types.Struct)
	assigned := map[string]bool{}
	walkCalls(loop.Body, false, func(call *ast.CallExpr) {
		fn := Callee(info, call)
		if fn == nil || recvTypeName(fn) != gen {
			return
		}
		m := p.FuncOf(fn)
		if m == nil || m.Decl.Body == nil || fn.Name() == "Generate" {
			return
		}
		ast.Inspect(m.Decl.Body, func(nd ast.Node) bool {
			as, ok := nd.(*ast.AssignStmt)
			if !ok {
				return true
			}
			for _, l := range as.Lhs {
				if sel, ok := unparen(l).(*ast.SelectorExpr); ok {
					if fv, ok := m.Pkg.TypesInfo.Uses[sel.Sel].(*types.Var); ok && fv.IsField() {
						assigned[fv.Name()] = true
					}
				}
				if star, ok := unparen(l).(*ast.StarExpr); ok && star != nil {
					for i := 0; st != nil && i < st.NumFields(); i++ {
						assigned[st.Field(i).Name()] = true // *g = hunksGenerator{…}
					}
				}
			}
			return true
		})
	})
	// fields no method ever changes are configuration (the number of context lines), not state
	mutable := map[string]bool{}
	for _, m := range p.FuncsIn(fdiffShort) {
		if m.Decl.Body == nil || recvTypeName(m.Obj) != gen || p.isTestFile(m.Decl.Pos()) {
			continue
		}
		ast.Inspect(m.Decl.Body, func(nd ast.Node) bool {
			var lhs []ast.Expr
			switch x := nd.(type) {
			case *ast.AssignStmt:
				lhs = x.Lhs
			case *ast.IncDecStmt:
				lhs = []ast.Expr{x.X}
			}
			for _, l := range lhs {
				if sel, ok := unparen(l).(*ast.SelectorExpr); ok {
					if fv, ok := m.Pkg.TypesInfo.Uses[sel.Sel].(*types.Var); ok && fv.IsField() {
						mutable[fv.Name()] = true
					}
				}
			}
			return true
		})
	}
	var missing []string
	for i := 0; st != nil && i < st.NumFields(); i++ {
		if mutable[st.Field(i).Name()] && !assigned[st.Field(i).Name()] {
			missing = append(missing, st.Field(i).Name())
		}
	}
	sort.Strings(missing)
	c.Check(len(missing) == 0, rule, fi.Name(), loop.Pos(), orStr(ifStr(len(missing) > 0, "one hunks generator serves all file patches and its fields "+strings.Join(missing, ", ")+" are not re-initialised between files: state of the previous file (its trailing context lines) flows into the next file's first hunk, whose counts and start line are then wrong — git apply: corrupt patch"),
		"the reused generator is fully re-initialised for every file"))
}
