package main

import (
	"go/ast"
	"go/token"
	"go/types"
	"sort"
	"strings"
)

func init() {
	register(&propSpec{
		ID: "C06",
		Explanation: "Decides sibling agreement and result-use conditions for the three delta appliers (patchDelta, ReaderFromDelta's goroutine, patchDeltaWriter), not byte equality with git: " +
			"(bounded-copy-count) every size-bounded copy (io.CopyBuffer / CopyBufferPool / io.Copy from an io.LimitedReader or io.LimitReader) in the appliers keeps its byte count and compares it — a short copy " +
			"means the delta or the base ended inside an instruction and must not be reported as success; (delta-guard-agreement) each applier consults invalidSize for both instruction kinds and invalidOffsetSize for copies, " +
			"rejects the zero command with ErrDeltaCmd, checks the declared source size, and rejects trailing bytes after the instruction loop; the guard sets of the three appliers are equal. " +
			"(base-size-known) patchDeltaWriter compares the declared source size with the base only behind a *bytes.Reader type assertion, so every base handed to it is statically a *bytes.Reader (argument type, or all returns of the producing function). " +
			"(copy-flag-bits-agree) the set of command bits encodeCopyOperation can set — evaluated over its counting loops with constant bounds — equals the set of bits the four offset/size decoders consult, and the slice and ByteReader decoders consult the same bits, " +
			"so no offset or size byte is dropped from every encoded instruction (offsets >= 2^24) or read by one applier and not the other; (cursor-follows-reader) a position counter fed by a buffered reader's Discard is re-initialised whenever that reader is Reset, before it is read again " +
			"(found and fixed: ReaderFromDelta kept the old position after re-opening the base for a backwards copy and then streamed the wrong region). " +
			"Not decided: DiffDelta∘PatchDelta = identity beyond the flag-bit condition; equality with git's patch_delta on all streams.",
		Assumptions: []string{"invalidSize/invalidOffsetSize compute what their names say"},
		Run:         runC06,
	})
	register(&propSpec{
		ID: "C09",
		Explanation: "Decides necessary guards of 'corrupt packs never yield wrong objects': (exact-inflate) every copy into a boundedWriter (pack entry inflated against its declared size) keeps the byte count and compares it with the " +
			"declared size, so both overrun (boundedWriter) and underrun are rejected; boundedWriter itself still rejects an overrun; (footer-checksum) packFooter reaches its success state only across the checksum-equal edge and " +
			"Parser.Parse returns a hash only after scanner.Error() was consulted; (ofs-base) OffsetReference is assigned only after ValidateOFSDeltaBase succeeded and that predicate keeps both bounds; " +
			"(chain-depth) processDelta checks the chain depth before resolving content and the bound is 4095. The exact-inflate comparison is on every path: no successful return is reachable from the inflate without crossing the fact 'count == declared size', whatever the entry type. Not decided: rejection parity with git index-pack for every mutation.",
		Assumptions: []string{"compress/zlib reports truncated streams as errors"},
		Run:         runC09,
	})
}

const pfShort = "plumbing/format/packfile"

// copyCall recognises io.Copy / io.CopyBuffer / ioutil.CopyBufferPool and returns (dst, src).
func copyCall(info *types.Info, call *ast.CallExpr) (dst, src ast.Expr, ok bool) {
	fn := Callee(info, call)
	if fn == nil || fn.Pkg() == nil {
		return nil, nil, false
	}
	q := fn.Pkg().Path() + "." + fn.Name()
	switch q {
	case "io.Copy", "io.CopyBuffer", modPath + "/utils/ioutil.CopyBufferPool":
		if len(call.Args) >= 2 {
			return call.Args[0], call.Args[1], true
		}
	}
	return nil, nil, false
}

// countCompared: the first result of the copy call is bound to a non-blank variable that is compared somewhere in body.
func countCompared(info *types.Info, body ast.Node, call *ast.CallExpr) (bool, string) {
	var lhs ast.Expr
	ast.Inspect(body, func(n ast.Node) bool {
		if as, ok := n.(*ast.AssignStmt); ok && len(as.Rhs) == 1 && unparen(as.Rhs[0]) == ast.Expr(call) && len(as.Lhs) >= 1 {
			lhs = as.Lhs[0]
		}
		return true
	})
	if lhs == nil {
		return false, "the copy's results are not assigned (count discarded)"
	}
	id, ok := unparen(lhs).(*ast.Ident)
	if !ok || id.Name == "_" {
		return false, "the byte count is discarded (`_`)"
	}
	obj := objOf(info, id)
	compared := false
	ast.Inspect(body, func(n ast.Node) bool {
		if be, ok := n.(*ast.BinaryExpr); ok {
			switch be.Op {
			case token.NEQ, token.EQL, token.LSS, token.GTR, token.LEQ, token.GEQ:
				if usesObj(info, be, obj) && be.Pos() > call.Pos() {
					compared = true
				}
			}
		}
		return true
	})
	if !compared {
		return false, "the byte count is never compared with the expected size"
	}
	return true, ""
}

func runC06(c *Ctx) {
	p := c.P
	PackagesStateFree(c, "codec-state-free", pfShort)
	pk := p.Pkg(pfShort)
	if pk == nil {
		c.Unresolved("bounded-copy-count", "package "+pfShort, 0, "not loaded")
		return
	}
	info := pk.TypesInfo
	appliers := []string{pfShort + ".patchDelta", pfShort + ".ReaderFromDelta", pfShort + ".patchDeltaWriter"}
	const r1 = "bounded-copy-count"
	isLimited := func(fi *FuncInfo, e ast.Expr) bool {
		e = unparen(e)
		if tv, ok := info.Types[e]; ok && tv.Type != nil && strings.HasSuffix(types.TypeString(tv.Type, nil), "io.LimitedReader") {
			return true
		}
		if call, ok := e.(*ast.CallExpr); ok {
			if fn := Callee(info, call); fn != nil && fn.Pkg() != nil && fn.Pkg().Path() == "io" && fn.Name() == "LimitReader" {
				return true
			}
		}
		return false
	}
	n1 := 0
	for _, name := range appliers {
		fi := c.MustFunc(r1, name)
		if fi == nil {
			continue
		}
		seen := map[string]int{}
		walkCalls(fi.Decl.Body, true, func(call *ast.CallExpr) {
			_, src, ok := copyCall(info, call)
			if !ok || !isLimited(fi, src) {
				return
			}
			n1++
			key := fi.Name() + "->copy(" + exprString(src) + ")"
			seen[key]++
			if seen[key] > 1 {
				key += "#" + itoa(seen[key])
			}
			ok2, why := countCompared(info, fi.Decl.Body, call)
			c.Check(ok2, r1, key, call.Pos(), orStr(why, "the copied byte count is compared with the instruction size"))
		})
	}
	c.Floor(r1, 4)

	// delta-guard-agreement
	const r2 = "delta-guard-agreement"
	errCmd := p.lookupObj(pfShort, "ErrDeltaCmd")
	errInv := p.lookupObj(pfShort, "ErrInvalidDelta")
	sets := map[string][]string{}
	for _, name := range appliers {
		fi := p.Func(name)
		if fi == nil {
			continue
		}
		// the instruction loop: the for statement whose body switches on isCopyFromSrc
		var loop *ast.ForStmt
		ast.Inspect(fi.Decl.Body, func(n ast.Node) bool {
			if fs, ok := n.(*ast.ForStmt); ok && loop == nil {
				if nodeHasCall(fs.Body, true, callsNamed(info, "isCopyFromSrc")) != nil {
					loop = fs
				}
			}
			return true
		})
		if loop == nil {
			c.Unresolved(r2, fi.Name()+":instruction-loop", fi.Decl.Pos(), "loop over delta instructions not found")
			continue
		}
		count := func(name string) int {
			k := 0
			walkCalls(loop.Body, true, func(call *ast.CallExpr) {
				if callsNamed(info, name)(call) {
					k++
				}
			})
			return k
		}
		var set []string
		nSize, nOff := count("invalidSize"), count("invalidOffsetSize")
		c.Check(nSize >= 2, r2, fi.Name()+":invalidSize", loop.Pos(), "invalidSize consulted for copy and insert ("+itoa(nSize)+" uses)")
		c.Check(nOff >= 1, r2, fi.Name()+":invalidOffsetSize", loop.Pos(), "invalidOffsetSize consulted for copy")
		if nSize > 0 {
			set = append(set, "invalidSize")
		}
		if nOff > 0 {
			set = append(set, "invalidOffsetSize")
		}
		c.Check(usesObj(info, loop.Body, errCmd), r2, fi.Name()+":ErrDeltaCmd", loop.Pos(), "the reserved zero command is rejected")
		if usesObj(info, loop.Body, errCmd) {
			set = append(set, "ErrDeltaCmd")
		}
		// trailing bytes rejected after the loop: a statement after the loop, in the same block, that mentions ErrInvalidDelta
		trailing := false
		parent := pathTo(fi.Decl.Body, loop)
		if len(parent) >= 2 {
			if blk, ok := parent[len(parent)-2].(*ast.BlockStmt); ok {
				after := false
				for _, s := range blk.List {
					if s == ast.Stmt(loop) {
						after = true
						continue
					}
					if after && usesObj(info, s, errInv) {
						// the test must look at the input itself: an actual read for the streaming appliers (what is
						// already buffered says nothing about what the source still holds), len(delta) for the slice applier
						reads := nodeHasCall(s, true, func(cc *ast.CallExpr) bool {
							fn := Callee(info, cc)
							if fn == nil || fn.Pkg() == nil || fn.Pkg().Path() != "bufio" {
								return false
							}
							switch fn.Name() {
							case "ReadByte", "Read", "Peek", "ReadSlice", "ReadBytes", "Discard":
								return true
							}
							return false
						}) != nil
						if reads || nodeHasBuiltin(info, s, "len") {
							trailing = true
						}
					}
				}
			}
		}
		c.Check(trailing, r2, fi.Name()+":trailing-bytes", loop.Pos(), "data left after the last instruction is rejected")
		if trailing {
			set = append(set, "trailing-bytes")
		}
		// source size checked before the loop
		srcChecked := false
		ast.Inspect(fi.Decl.Body, func(n ast.Node) bool {
			if ifs, ok := n.(*ast.IfStmt); ok && ifs.Pos() < loop.Pos() {
				if condHasNeqWith(info, ifs.Cond, "srcSz") && usesObj(info, ifs.Body, errInv) {
					srcChecked = true
				}
			}
			return true
		})
		c.Check(srcChecked, r2, fi.Name()+":source-size", fi.Decl.Pos(), "the declared source size is compared with the base")
		if srcChecked {
			set = append(set, "source-size")
		}
		sort.Strings(set)
		sets[fi.Name()] = set
		c.Analysed(fi)
	}
	var ref []string
	agree := true
	for _, name := range appliers {
		s := sets[name]
		if ref == nil {
			ref = s
		} else if strings.Join(ref, ",") != strings.Join(s, ",") {
			agree = false
		}
	}
	c.Check(agree && len(sets) == 3, r2, "appliers:same-guard-set", token.NoPos, "the three appliers consult the same guard set: "+strings.Join(ref, ","))
	c.Floor(r2, 16)

	// base-size-known: patchDeltaWriter can compare the delta's declared source size with the real base only when the
	// base is a *bytes.Reader (the comparison sits behind that type assertion). Every base handed to it is therefore
	// statically a *bytes.Reader: an argument of that type, or the result of a package function all of whose returns are.
	const r2s = "base-size-known"
	if pdw := c.MustFunc(r2s, pfShort+".patchDeltaWriter"); pdw != nil {
		c.Analysed(pdw)
		conditional := false
		ast.Inspect(pdw.Decl.Body, func(n ast.Node) bool {
			if ifs, ok := n.(*ast.IfStmt); ok {
				if as, ok := ifs.Init.(*ast.AssignStmt); ok && len(as.Rhs) == 1 {
					if ta, ok := unparen(as.Rhs[0]).(*ast.TypeAssertExpr); ok && ta.Type != nil && strings.HasSuffix(info.Types[ta.Type].Type.String(), "bytes.Reader") {
						conditional = true
					}
				}
			}
			return true
		})
		baseIdx := -1
		for i, pv := range paramObjs(info, pdw.Decl) {
			if strings.HasSuffix(pv.Type().String(), "io.ReaderAt") {
				baseIdx = i
			}
		}
		isBytesReader := func(t types.Type) bool { return t != nil && t.String() == "*bytes.Reader" }
		if !conditional {
			c.Hold(r2s, pdw.Name(), pdw.Decl.Pos(), "the source-size comparison does not depend on the base's dynamic type")
		} else if baseIdx < 0 {
			c.Unresolved(r2s, pdw.Name(), pdw.Decl.Pos(), "io.ReaderAt parameter not found")
		} else {
			cg := p.callGraph()
			nCalls := 0
			for _, fi := range p.FuncsIn(pfShort) {
				for _, e := range cg.edges[fi.Obj] {
					if e.Callee != pdw.Obj || baseIdx >= len(e.Call.Args) {
						continue
					}
					nCalls++
					c.Analysed(fi)
					arg := e.Call.Args[baseIdx]
					ok, why := false, ""
					if isBytesReader(info.Types[arg].Type) {
						ok = true
					} else if obj := objOf(info, arg); obj != nil {
						// a local assigned from a package function: all its returns must be *bytes.Reader or nil
						ast.Inspect(fi.Decl.Body, func(n ast.Node) bool {
							as, isAs := n.(*ast.AssignStmt)
							if !isAs || len(as.Rhs) != 1 || objOf(info, as.Lhs[0]) != obj {
								return true
							}
							call, isCall := unparen(as.Rhs[0]).(*ast.CallExpr)
							if !isCall {
								return true
							}
							g := p.FuncOf(Callee(info, call))
							if g == nil || g.Decl.Body == nil {
								why = "produced by a call that cannot be followed"
								return true
							}
							ok = true
							ast.Inspect(g.Decl.Body, func(m ast.Node) bool {
								if _, isLit := m.(*ast.FuncLit); isLit {
									return false
								}
								if r, isRet := m.(*ast.ReturnStmt); isRet && len(r.Results) > 0 && !isNil(info, r.Results[0]) && !isBytesReader(info.Types[r.Results[0]].Type) {
									ok = false
									why = g.Name() + " can return a base of static type " + info.Types[r.Results[0]].Type.String() + " (" + p.Pos(r.Pos()) + "): patchDeltaWriter then skips the source-size comparison and applies a delta whose declared source size disagrees with its base"
								}
								return true
							})
							return true
						})
					}
					c.Check(ok, r2s, fi.Name()+"->patchDeltaWriter:base", e.Call.Pos(), orStr(why, "the base is statically a *bytes.Reader, so the declared source size is compared with the real one"))
				}
			}
			if nCalls == 0 {
				c.Unresolved(r2s, pdw.Name()+":callers", pdw.Decl.Pos(), "no caller found")
			}
		}
	}
	c.Floor(r2s, 1)
	checkCopyFlagBits(c)
	c.Floor("copy-flag-bits-agree", 3)
	for _, fi := range p.FuncsIn(pfShort) {
		if fi.Decl.Body != nil && !p.isTestFile(fi.Decl.Pos()) {
			CursorFollowsReader(c, "cursor-follows-reader", fi)
		}
	}
	c.Floor("cursor-follows-reader", 1)
}

func condHasNeqWith(info *types.Info, e ast.Expr, varName string) bool {
	found := false
	ast.Inspect(e, func(n ast.Node) bool {
		if be, ok := n.(*ast.BinaryExpr); ok && be.Op == token.NEQ {
			if id, ok := unparen(be.X).(*ast.Ident); ok && id.Name == varName {
				found = true
			}
			if id, ok := unparen(be.Y).(*ast.Ident); ok && id.Name == varName {
				found = true
			}
		}
		return !found
	})
	return found
}

func runC09(c *Ctx) {
	p := c.P
	pk := p.Pkg(pfShort)
	if pk == nil {
		c.Unresolved("exact-inflate", "package "+pfShort, 0, "not loaded")
		return
	}
	info := pk.TypesInfo
	const r1 = "exact-inflate"
	bw := p.lookupType(pfShort, "boundedWriter")
	if bw == nil {
		c.Unresolved(r1, pfShort+".boundedWriter", 0, "type not found")
	} else {
		n := 0
		for _, fi := range p.FuncsIn(pfShort) {
			if fi.Decl.Body == nil || p.isTestFile(fi.Decl.Pos()) {
				continue
			}
			d := newDeriver(info, fi.Decl)
			walkCalls(fi.Decl.Body, true, func(call *ast.CallExpr) {
				dst, _, ok := copyCall(info, call)
				if !ok {
					return
				}
				isBounded := func(e ast.Expr) bool {
					tv, ok := info.Types[e]
					if ok && tv.Type != nil && strings.HasSuffix(types.TypeString(tv.Type, nil), "packfile.boundedWriter") {
						return true
					}
					// interface-typed variable last assigned a *boundedWriter literal
					if o := objOf(info, e); o != nil {
						for _, def := range d.defs[o] {
							if tv, ok := info.Types[def]; ok && tv.Type != nil && strings.HasSuffix(types.TypeString(tv.Type, nil), "packfile.boundedWriter") {
								return true
							}
						}
					}
					return false
				}
				if !isBounded(dst) {
					return
				}
				n++
				c.Analysed(fi)
				ok2, why := countCompared(info, fi.Decl.Body, call)
				c.Check(ok2, r1, fi.Name()+"->copy-into-boundedWriter", call.Pos(), orStr(why, "the inflated length is compared with the declared size (underrun rejected)"))
				// … and on every path: no successful return is reachable from the copy without crossing the edge on
				// which the count is known to equal the declared size (a check that sits inside a branch for some entry
				// types only lets the other types through)
				if ok2 {
					exactInflateAllPaths(c, r1, fi, call)
				}
			})
		}
		if n < 2 {
			c.Unresolved(r1, pfShort+":bounded-inflate-sites", 0, "found "+itoa(n)+" inflate-into-boundedWriter sites, 2 confirmed by hand")
		}
		if w := c.MustFunc(r1, pfShort+".(*boundedWriter).Write"); w != nil {
			mismatch := p.lookupObj(pfShort, "ErrInflatedSizeMismatch")
			RejectRuleCond(c, r1, w, "overrun-rejected", func(e ast.Expr) bool {
				be, ok := unparen(e).(*ast.BinaryExpr)
				return ok && be.Op == token.GTR && usesObjNamed(info, be, "limit")
			}, mismatch)
		}
	}
	c.Floor(r1, 3)

	// footer-checksum
	const r2 = "footer-checksum"
	if pf := c.MustFunc(r2, pfShort+".packFooter"); pf != nil {
		f := p.FlowOf(pf)
		// success = return with nil error; must cross the Compare(...) == 0 edge
		equal := FactGuard(func(_ *Flow, fact Fact) bool {
			be, ok := unparen(fact.Atom).(*ast.BinaryExpr)
			if !ok || nodeHasCall(be, false, callsNamed(info, "Compare", "Equal")) == nil {
				return false
			}
			switch be.Op {
			case token.NEQ:
				return !fact.Truth
			case token.EQL:
				return fact.Truth
			}
			return false
		})
		sink := func(n ast.Node) bool {
			r, ok := n.(*ast.ReturnStmt)
			return ok && len(r.Results) == 2 && isNil(info, r.Results[1])
		}
		h := f.GuardedSink(equal, sink)
		c.Check(h == nil && f.HasPassEdge(equal), r2, pf.Name(), pf.Decl.Pos(), "the scanner accepts the pack only on the checksum-equal edge")
	}
	if pa := c.MustFunc(r2, pfShort+".(*Parser).Parse"); pa != nil {
		f := p.FlowOf(pa)
		errCall := CallNode(false, func(call *ast.CallExpr) bool {
			fn := Callee(info, call)
			return fn != nil && fn.Name() == "Error" && recvTypeName(fn) != nil && recvTypeName(fn).Name() == "Scanner"
		})
		sink := func(n ast.Node) bool {
			r, ok := n.(*ast.ReturnStmt)
			return ok && len(r.Results) == 2 && isNil(info, r.Results[1])
		}
		h := f.Search(SearchOpts{Starts: []Loc{f.Entry()}, Sink: sink, Barrier: errCall})
		c.Check(h == nil && len(f.Locs(errCall)) > 0, r2, pa.Name(), pa.Decl.Pos(), "Parse returns success only after consulting scanner.Error()")
	}

	// ofs-base
	const r3 = "ofs-base"
	validate := p.Func(pfShort + ".ValidateOFSDeltaBase")
	ohT := p.lookupType(pfShort, "ObjectHeader")
	offRef := fieldOf(ohT, "OffsetReference")
	if validate == nil || offRef == nil {
		c.Unresolved(r3, pfShort+".ValidateOFSDeltaBase", 0, "anchor not found")
	} else {
		n := 0
		for _, fi := range p.FuncsIn(pfShort) {
			if fi.Decl.Body == nil || p.isTestFile(fi.Decl.Pos()) {
				continue
			}
			f := p.FlowOf(fi)
			for _, loc := range f.Locs(func(nd ast.Node) bool {
				as, ok := nd.(*ast.AssignStmt)
				if !ok {
					return false
				}
				for _, l := range as.Lhs {
					if sel, ok := unparen(l).(*ast.SelectorExpr); ok && info.Uses[sel.Sel] == offRef {
						return true
					}
				}
				return false
			}) {
				n++
				c.Analysed(fi)
				pass := ErrGuard(func(_ *Flow, call *ast.CallExpr) bool { return Callee(info, call) == validate.Obj })
				if h := f.UnguardedPath(pass, loc); h != nil {
					c.Violate(r3, fi.Name()+":OffsetReference", loc.B.Nodes[loc.Idx].Pos(), "the OFS-delta base offset is used without ValidateOFSDeltaBase")
				} else {
					c.Hold(r3, fi.Name()+":OffsetReference", loc.B.Nodes[loc.Idx].Pos(), "assigned only after ValidateOFSDeltaBase succeeded")
				}
			}
		}
		if n == 0 {
			c.Unresolved(r3, pfShort+":OffsetReference-writers", 0, "no assignment to ObjectHeader.OffsetReference found")
		}
		RejectRuleCond(c, r3, validate, "non-positive-base", func(e ast.Expr) bool { return hasCmp(e, token.LEQ) }, nil)
		RejectRuleCond(c, r3, validate, "base-not-before-delta", func(e ast.Expr) bool { return hasCmp(e, token.GEQ) }, nil)
	}
	c.Floor(r3, 3)

	// chain-depth
	const r4 = "chain-depth"
	if pd := c.MustFunc(r4, pfShort+".(*Parser).processDelta"); pd != nil {
		n := CallsGuarded(c, r4, pd, ErrGuard(anyArgs(callsNamed(info, "checkDeltaChainDepth"))), callsNamed(info, "ensureContent"), "a successful checkDeltaChainDepth")
		if n == 0 {
			c.Unresolved(r4, pd.Name()+"->ensureContent", pd.Decl.Pos(), "call not found")
		}
	}
	if k, ok := p.lookupObj(pfShort, "maxDeltaChainDepth").(*types.Const); ok {
		c.Check(k.Val().ExactString() == "4095", r4, pfShort+".maxDeltaChainDepth", k.Pos(), "bound is "+k.Val().ExactString()+" (git's limit is 4095)")
	} else {
		c.Unresolved(r4, pfShort+".maxDeltaChainDepth", 0, "constant not found")
	}
	// the cached depth is written in one place only, by the walk over parents, and never from a constant: a second
	// writer (for instance "deltas whose base is outside the pack have depth 1") makes chains through it uncounted
	if depthF := fieldOf(ohT, "chainDepth"); depthF == nil {
		c.Unresolved(r4, pfShort+".ObjectHeader.chainDepth", 0, "field not found")
	} else {
		nw := 0
		for _, u := range p.fieldUses(depthF) {
			if !isWriteAccess(u.File, u.Sel) {
				continue
			}
			nw++
			in := funcNameOr(u.In, "<pkg>")
			rhs, _ := assignedIn(u.File, u.Sel)
			isConst := false
			if rhs != nil {
				if tv := info.Types[rhs]; tv.Value != nil {
					isConst = true
				}
			}
			c.Check(in == pfShort+".checkDeltaChainDepth" && !isConst, r4, in+":writes-chainDepth", u.Sel.Pos(),
				orStr(ifStr(isConst, "a delta's chain depth is set to a constant instead of being derived from its parents"), orStr(ifStr(in != pfShort+".checkDeltaChainDepth", "chain depth is assigned outside checkDeltaChainDepth (the walk that counts parents)"), "depth is cached only by the parent walk")))
		}
		if nw == 0 {
			c.Unresolved(r4, pfShort+".ObjectHeader.chainDepth:writers", 0, "no writer of chainDepth found")
		}
	}
	if cd := c.MustFunc(r4, pfShort+".checkDeltaChainDepth"); cd != nil {
		RejectRule(c, r4, cd, "depth-exceeded", condMentionsObj(p.lookupObj(pfShort, "maxDeltaChainDepth")), nil)
	}
}

func hasCmp(e ast.Expr, op token.Token) bool {
	found := false
	ast.Inspect(e, func(n ast.Node) bool {
		if be, ok := n.(*ast.BinaryExpr); ok && be.Op == op {
			found = true
		}
		return !found
	})
	return found
}

// RejectRuleCond: like RejectRule with a plain predicate; when errObj is non-nil the rejecting branch must mention it.
func RejectRuleCond(c *Ctx, rule string, fi *FuncInfo, name string, cond func(e ast.Expr) bool, errObj types.Object) {
	info := fi.Pkg.TypesInfo
	ok := false
	var at token.Pos
	ast.Inspect(fi.Decl.Body, func(n ast.Node) bool {
		ifs, isIf := n.(*ast.IfStmt)
		if !isIf || ok || !cond(ifs.Cond) {
			return true
		}
		rej := false
		ast.Inspect(ifs.Body, func(m ast.Node) bool {
			if r, isRet := m.(*ast.ReturnStmt); isRet && (returnsNonNilError(info, fi.Decl.Body, r) || (errObj != nil && usesObj(info, r, errObj))) {
				rej = true
			}
			if as, isAs := m.(*ast.AssignStmt); isAs && errObj != nil && usesObj(info, as, errObj) {
				rej = true
			}
			if vs, isVs := m.(*ast.ValueSpec); isVs && errObj != nil && usesObj(info, vs, errObj) {
				rej = true
			}
			return true
		})
		if rej {
			ok, at = true, ifs.Pos()
		}
		return true
	})
	if ok {
		c.Hold(rule, fi.Name()+":"+name, at, "rejecting branch present")
	} else {
		c.Violate(rule, fi.Name()+":"+name, fi.Decl.Pos(), "no rejecting branch for this rule found")
	}
}
