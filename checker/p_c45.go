package main

import (
	"go/ast"
	"go/constant"
	"go/token"
	"go/types"
	"sort"
	"strings"

	"golang.org/x/tools/go/cfg"
)

const fdiffShort = "plumbing/format/diff"

func init() {
	register(&propSpec{
		ID: "C45",
		Explanation: "Decides seven structural conditions of 'the unified diff is accepted by git apply and reproduces the target', not the diff itself (which lines are paired is a value question): " +
			"(binary-flag-independent-of-chunks) no implementation of FilePatch.IsBinary reads the chunk list: a text change with no chunks (an empty file added or removed) is not a binary change — " +
			"found and fixed (faa8fad): `Binary files /dev/null and b/e.txt differ` was written for an empty new file and git apply refused the patch; " +
			"(binary-flag-from-content-sniffing) in filePatchWithContext the patch marked binary is returned only across the true edge of a test of a content sniff (second result of fileContent) and the text patch only across the false edge of both; " +
			"(hunk-counts-follow-ops) hunk.AddOp adds the number of lines to toCount for Add, fromCount for Delete and both for Equal, and nothing else writes the counts or the list of lines: the `@@ -a,b +c,d @@` header must agree with the body or git apply calls the patch corrupt; " +
			"(line-cursor-follows-kind) in hunksGenerator.Generate an Equal chunk advances both line cursors, a Delete chunk only the old one, an Add chunk only the new one; " +
			"(stats-count-by-kind) the line statistics count an Add chunk under Addition only and a Delete chunk under Deletion only, and an unterminated last line counts as a line; " +
			"(no-newline-marker) a line without a final newline is followed by git's `\\ No newline at end of file` marker, and only such a line; " +
			"(header-side-agreement) in the file header `old mode`, `rename from`, `deleted file mode` and the left of `index a..b` and of the path lines are computed from the old file only, `new mode`, `rename to`, `new file mode` and the right-hand parts from the new file only, the missing side being the zero hash and /dev/null. " +
			"(chunks-are-whole-lines-by-construction) utils/diff hands both whole texts to diffmatchpatch's line mode and returns what DiffCharsToLines gives back, and builds no chunk by hand (anything else is reported as unresolved: line alignment of a hand-made chunk is a value question); and within no-newline-marker, every path of op.writeTo that has not found the line terminated writes the marker (the decision depends on the line's own text only). " +
			"(hunk-state-per-file) UnifiedEncoder.Encode makes a hunks generator per file patch, or re-initialises every mutable field of a reused one, so no context line of one file reaches the next file's first hunk. " +
			"Not decided: the pairing of lines (utils/diff), hunk boundaries and context, that numstat equals git's for inputs where git's diff algorithm picks another pairing.",
		Assumptions: []string{},
		Run:         runC45,
	})
}

func runC45(c *Ctx) {
	p := c.P
	checkLineModePipeline(c, "chunks-are-whole-lines-by-construction")
	checkHunkStatePerFile(c, "hunk-state-per-file")
	const r1 = "binary-flag-independent-of-chunks"
	const r2 = "binary-flag-from-content-sniffing"
	const r3 = "hunk-counts-follow-ops"
	const r4 = "line-cursor-follows-kind"
	const r5 = "stats-count-by-kind"
	const r6 = "no-newline-marker"
	const r7 = "header-side-agreement"

	dpk := p.Pkg(fdiffShort)
	opk := p.Pkg(objShort)
	if dpk == nil || opk == nil {
		c.Unresolved(r1, "packages", 0, "plumbing/format/diff or plumbing/object not loaded")
		return
	}
	fpTN := p.lookupType(fdiffShort, "FilePatch")
	chunkTN := p.lookupType(fdiffShort, "Chunk")
	if fpTN == nil || chunkTN == nil {
		c.Unresolved(r1, "diff.FilePatch", 0, "interface not found")
		return
	}
	fpIface, _ := fpTN.Type().Underlying().(*types.Interface)
	if fpIface == nil {
		c.Unresolved(r1, "diff.FilePatch", 0, "not an interface")
		return
	}
	isChunkList := func(t types.Type) bool {
		sl, ok := t.Underlying().(*types.Slice)
		return ok && types.Identical(sl.Elem(), chunkTN.Type())
	}

	// ---- r1: IsBinary of every implementation does not read the chunks
	n1 := 0
	var textPatchTN *types.TypeName
	var binField *types.Var
	for _, fi := range p.Funcs() {
		if fi.Decl.Body == nil || fi.Decl.Recv == nil || fi.Obj.Name() != "IsBinary" || p.isTestFile(fi.Decl.Pos()) {
			continue
		}
		tn := recvTypeName(fi.Obj)
		if tn == nil || !(types.Implements(tn.Type(), fpIface) || types.Implements(types.NewPointer(tn.Type()), fpIface)) {
			continue
		}
		n1++
		c.Analysed(fi)
		info := fi.Pkg.TypesInfo
		bad := token.NoPos
		ast.Inspect(fi.Decl.Body, func(n ast.Node) bool {
			switch x := n.(type) {
			case *ast.SelectorExpr:
				if tv, ok := info.Types[x]; ok && tv.Type != nil && isChunkList(tv.Type) {
					bad = x.Pos()
				}
			case *ast.CallExpr:
				if fn := Callee(info, x); fn != nil && fn.Name() == "Chunks" {
					bad = x.Pos()
				}
			}
			return true
		})
		c.Check(!bad.IsValid(), r1, fi.Name(), orPos(bad, fi.Decl.Pos()), orStr(ifStr(bad.IsValid(), "whether the change is binary is read off the chunk list: a text change without chunks (an empty file added or removed) is then written as `Binary files … differ`, which git apply refuses"),
			"the binary flag does not depend on the chunk list"))
		if fi.Pkg == opk {
			textPatchTN = tn
			ast.Inspect(fi.Decl.Body, func(n ast.Node) bool {
				if r, ok := n.(*ast.ReturnStmt); ok && len(r.Results) == 1 {
					if sel, ok := unparen(r.Results[0]).(*ast.SelectorExpr); ok {
						if fv, ok := info.Uses[sel.Sel].(*types.Var); ok && fv.IsField() {
							binField = fv
						}
					}
				}
				return true
			})
		}
	}
	c.Floor(r1, 1)

	// ---- r2: the flag is set exactly where the content was sniffed binary
	if fi := c.MustFunc(r2, objShort+".filePatchWithContext"); fi != nil {
		c.Analysed(fi)
		info := fi.Pkg.TypesInfo
		if textPatchTN == nil || binField == nil {
			c.Unresolved(r2, fi.Name()+":flag", fi.Decl.Pos(), "the object package's FilePatch does not return a field from IsBinary")
		} else {
			// sniff results: second result of calls to fileContent
			var sniffs []types.Object
			ast.Inspect(fi.Decl.Body, func(n ast.Node) bool {
				as, ok := n.(*ast.AssignStmt)
				if !ok || len(as.Rhs) != 1 || len(as.Lhs) < 2 {
					return true
				}
				call, ok := unparen(as.Rhs[0]).(*ast.CallExpr)
				if !ok {
					return true
				}
				if fn := Callee(info, call); fn != nil && fn.Name() == "fileContent" {
					if o := objOf(info, as.Lhs[1]); o != nil {
						sniffs = append(sniffs, o)
					}
				}
				return true
			})
			if len(sniffs) < 2 {
				c.Unresolved(r2, fi.Name()+":sniff", fi.Decl.Pos(), "the two content sniffs (second result of fileContent for each side) were not found")
			} else {
				f := p.FlowOf(fi)
				mentionsSniff := func(info *types.Info, e ast.Expr) bool {
					for _, s := range sniffs {
						if usesObj(info, e, s) {
							return true
						}
					}
					return false
				}
				nb, nt := 0, 0
				for _, loc := range f.Locs(isReturn) {
					ret := loc.B.Nodes[loc.Idx].(*ast.ReturnStmt)
					var lit *ast.CompositeLit
					ast.Inspect(ret, func(n ast.Node) bool {
						if cl, ok := n.(*ast.CompositeLit); ok {
							if tv := info.Types[cl]; tv.Type != nil && types.Identical(tv.Type, textPatchTN.Type()) {
								lit = cl
							}
						}
						return true
					})
					if lit == nil {
						continue
					}
					setsTrue := false
					for _, el := range lit.Elts {
						kv, ok := el.(*ast.KeyValueExpr)
						if !ok {
							continue
						}
						if id, ok := kv.Key.(*ast.Ident); ok && info.Uses[id] == types.Object(binField) {
							if tv := info.Types[kv.Value]; tv.Value == nil || constant.BoolVal(tv.Value) {
								setsTrue = true
							}
						}
					}
					if setsTrue {
						nb++
						// impliesSniff: the condition e having the value truth implies that some sniff said binary
						var impliesSniff func(e ast.Expr, truth bool) bool
						impliesSniff = func(e ast.Expr, truth bool) bool {
							e = unparen(e)
							switch x := e.(type) {
							case *ast.UnaryExpr:
								if x.Op == token.NOT {
									return impliesSniff(x.X, !truth)
								}
							case *ast.BinaryExpr:
								if (x.Op == token.LOR && truth) || (x.Op == token.LAND && !truth) {
									return impliesSniff(x.X, truth) && impliesSniff(x.Y, truth)
								}
								if (x.Op == token.LAND && truth) || (x.Op == token.LOR && !truth) {
									return impliesSniff(x.X, truth) || impliesSniff(x.Y, truth)
								}
							}
							return truth && objOf(info, e) != nil && mentionsSniff(info, e)
						}
						h := f.UnguardedPath(func(f *Flow, b *cfg.Block, i int) bool {
							if len(b.Succs) != 2 || len(b.Nodes) == 0 {
								return false
							}
							e, ok := b.Nodes[len(b.Nodes)-1].(ast.Expr)
							return ok && impliesSniff(e, i == 0)
						}, loc)
						c.Check(h == nil, r2, fi.Name()+":binary-return"+ifStr(nb > 1, "#"+itoa(nb)), ret.Pos(), orStr(ifStr(h != nil, "a patch marked binary is returned on a path that never found either side's content binary"),
							"the patch marked binary is returned only after a content sniff said so"))
					} else {
						nt++
						ok := true
						for _, s := range sniffs {
							s := s
							if h := f.UnguardedPath(FactGuard(func(f *Flow, fact Fact) bool { return !fact.Truth && usesObj(f.Info, fact.Atom, s) }), loc); h != nil {
								ok = false
							}
						}
						c.Check(ok, r2, fi.Name()+":text-return"+ifStr(nt > 1, "#"+itoa(nt)), ret.Pos(), orStr(ifStr(!ok, "a patch not marked binary is returned on a path that has not excluded binary content on both sides: the encoder then writes ---/+++ lines and no hunks for a binary change"),
							"the text patch is returned only after both sniffs said text"))
					}
				}
				c.Check(nb >= 1, r2, fi.Name()+":marks-binary", fi.Decl.Pos(), orStr(ifStr(nb == 0, "no return marks the patch binary: binary changes are written as text patches without hunks"), "a return marks the patch binary"))
				c.Check(nt >= 1, r2, fi.Name()+":returns-text", fi.Decl.Pos(), "a return builds the text patch")
			}
		}
	}

	// opWrites: for a switch over an Operation value in fn, the set of fields (by name) modified directly in each case body, keyed by the case constant's name
	opTN := p.lookupType(fdiffShort, "Operation")
	type caseW struct {
		pos    token.Pos
		fields map[string]bool
	}
	opWrites := func(info *types.Info, body ast.Node) map[string]*caseW {
		out := map[string]*caseW{}
		ast.Inspect(body, func(n ast.Node) bool {
			sw, ok := n.(*ast.SwitchStmt)
			if !ok || sw.Tag == nil || opTN == nil {
				return true
			}
			if tv := info.Types[sw.Tag]; tv.Type == nil || !types.Identical(tv.Type, opTN.Type()) {
				return true
			}
			for _, st := range sw.Body.List {
				cc := st.(*ast.CaseClause)
				for _, ce := range cc.List {
					o := objOf(info, ce)
					if sel, ok := unparen(ce).(*ast.SelectorExpr); ok {
						o = info.Uses[sel.Sel] // a qualified constant (diff.Add)
					}
					if o == nil {
						continue
					}
					w := out[o.Name()]
					if w == nil {
						w = &caseW{pos: cc.Pos(), fields: map[string]bool{}}
						out[o.Name()] = w
					}
					for _, s := range cc.Body {
						ast.Inspect(s, func(m ast.Node) bool {
							var lhs []ast.Expr
							switch x := m.(type) {
							case *ast.AssignStmt:
								lhs = x.Lhs
							case *ast.IncDecStmt:
								lhs = []ast.Expr{x.X}
							}
							for _, l := range lhs {
								if sel, ok := unparen(l).(*ast.SelectorExpr); ok {
									if fv, ok := info.Uses[sel.Sel].(*types.Var); ok && fv.IsField() {
										w.fields[fv.Name()] = true
									}
								}
							}
							return true
						})
					}
				}
			}
			return true
		})
		return out
	}
	setStr := func(m map[string]bool) string {
		var ks []string
		for k := range m {
			ks = append(ks, k)
		}
		sort.Strings(ks)
		return "{" + strings.Join(ks, ",") + "}"
	}
	// expectWrites: within the fields of interest, case k writes exactly want[k]
	expectWrites := func(rule string, fi *FuncInfo, interest []string, want map[string][]string, why string) {
		info := fi.Pkg.TypesInfo
		got := opWrites(info, fi.Decl.Body)
		for _, k := range []string{"Equal", "Add", "Delete"} {
			w := got[k]
			have := map[string]bool{}
			pos := fi.Decl.Pos()
			if w != nil {
				pos = w.pos
				for _, f := range interest {
					if w.fields[f] {
						have[f] = true
					}
				}
			}
			exp := map[string]bool{}
			for _, f := range want[k] {
				exp[f] = true
			}
			ok := setStr(have) == setStr(exp)
			c.Check(ok, rule, fi.Name()+":case-"+k, pos, orStr(ifStr(!ok, "an "+k+" chunk updates "+setStr(have)+", expected "+setStr(exp)+": "+why),
				"an "+k+" chunk updates "+setStr(exp)))
		}
	}

	// ---- r3
	if fi := c.MustFunc(r3, fdiffShort+".(*hunk).AddOp"); fi != nil {
		c.Analysed(fi)
		expectWrites(r3, fi, []string{"fromCount", "toCount"}, map[string][]string{"Equal": {"fromCount", "toCount"}, "Add": {"toCount"}, "Delete": {"fromCount"}},
			"the counts in the hunk header must equal the number of old-side and new-side lines in its body")
		// single writer of counts and ops
		hunkTN := p.lookupType(fdiffShort, "hunk")
		if hunkTN == nil {
			c.Unresolved(r3, "diff.hunk", fi.Decl.Pos(), "type not found")
		} else {
			for _, fname := range []string{"fromCount", "toCount", "ops"} {
				fv := fieldOf(hunkTN, fname)
				if fv == nil {
					c.Unresolved(r3, "hunk."+fname, fi.Decl.Pos(), "field not found")
					continue
				}
				var others []string
				pos := fi.Decl.Pos()
				for _, u := range p.fieldUses(fv) {
					if p.isTestFile(u.Sel.Pos()) || (u.In != nil && u.In.Obj == fi.Obj) {
						continue
					}
					written := false
					ast.Inspect(u.File, func(n ast.Node) bool {
						switch x := n.(type) {
						case *ast.AssignStmt:
							for _, l := range x.Lhs {
								if unparen(l) == ast.Expr(u.Sel) {
									written = true
								}
							}
						case *ast.IncDecStmt:
							if unparen(x.X) == ast.Expr(u.Sel) {
								written = true
							}
						}
						return !written
					})
					if !written {
						continue
					}
					others = append(others, funcNameOr(u.In, "?"))
					pos = u.Sel.Pos()
				}
				c.Check(len(others) == 0, r3, "hunk."+fname+":single-writer", pos, orStr(ifStr(len(others) > 0, "written outside AddOp ("+strings.Join(others, ", ")+"): the header counts and the body lines are no longer updated together"),
					"written only by AddOp"))
			}
		}
	}
	// ---- r4
	if fi := c.MustFunc(r4, fdiffShort+".(*hunksGenerator).Generate"); fi != nil {
		c.Analysed(fi)
		expectWrites(r4, fi, []string{"fromLine", "toLine"}, map[string][]string{"Equal": {"fromLine", "toLine"}, "Add": {"toLine"}, "Delete": {"fromLine"}},
			"the start line of the next hunk on each side is the number of lines consumed from that side")
	}
	// ---- r5
	if fi := c.MustFunc(r5, objShort+".getFileStatsFromFilePatches"); fi != nil {
		c.Analysed(fi)
		expectWrites(r5, fi, []string{"Addition", "Deletion"}, map[string][]string{"Equal": {}, "Add": {"Addition"}, "Delete": {"Deletion"}},
			"numstat counts added lines and deleted lines separately")
		// the unterminated last line counts: each of the two cases holds an increment guarded by a comparison with '\n'
		info := fi.Pkg.TypesInfo
		n := 0
		ast.Inspect(fi.Decl.Body, func(nd ast.Node) bool {
			ifs, ok := nd.(*ast.IfStmt)
			if !ok {
				return true
			}
			cmpNL := false
			ast.Inspect(ifs.Cond, func(m ast.Node) bool {
				if be, ok := m.(*ast.BinaryExpr); ok && (be.Op == token.NEQ || be.Op == token.EQL) {
					for _, s := range []ast.Expr{be.X, be.Y} {
						if tv := info.Types[s]; tv.Value != nil && tv.Value.Kind() == constant.Int {
							if v, ok := constant.Int64Val(tv.Value); ok && v == '\n' {
								cmpNL = true
							}
						}
					}
				}
				return true
			})
			if !cmpNL {
				return true
			}
			ast.Inspect(ifs.Body, func(m ast.Node) bool {
				if _, ok := m.(*ast.IncDecStmt); ok {
					n++
				}
				return true
			})
			return true
		})
		c.Check(n >= 2, r5, fi.Name()+":unterminated-last-line", fi.Decl.Pos(), orStr(ifStr(n < 2, "an added or deleted last line without a newline is not counted (found "+itoa(n)+" of the 2 increments guarded by a test of the last byte)"),
			"a last line without a newline counts as a line on both sides"))
	}
	// ---- r6
	if fi := c.MustFunc(r6, fdiffShort+".(*op).writeTo"); fi != nil {
		c.Analysed(fi)
		info := fi.Pkg.TypesInfo
		f := p.FlowOf(fi)
		const marker = `\ No newline at end of file`
		hasMarker := func(n ast.Node) bool {
			found := false
			ast.Inspect(n, func(m ast.Node) bool {
				if e, ok := m.(ast.Expr); ok {
					if tv := info.Types[e]; tv.Value != nil && tv.Value.Kind() == constant.String && strings.Contains(constant.StringVal(tv.Value), marker) {
						found = true
					}
				}
				return !found
			})
			return found
		}
		// the flag saying the text ends in a newline: second result of strings.CutSuffix / result of HasSuffix with "\n"
		endsNL := func(info *types.Info, e ast.Expr) bool {
			ok := false
			ast.Inspect(e, func(m ast.Node) bool {
				switch x := m.(type) {
				case *ast.Ident:
					if v, isVar := info.Uses[x].(*types.Var); isVar {
						for _, def := range newDeriver(info, fi.Decl).defs[v] {
							if call, isCall := unparen(def).(*ast.CallExpr); isCall {
								if fn := Callee(info, call); fn != nil && (fn.Name() == "CutSuffix" || fn.Name() == "HasSuffix") {
									ok = true
								}
							}
						}
					}
				case *ast.CallExpr:
					if fn := Callee(info, x); fn != nil && (fn.Name() == "HasSuffix" || fn.Name() == "CutSuffix") {
						ok = true
					}
				}
				return !ok
			})
			return ok
		}
		locs := f.Locs(func(n ast.Node) bool {
			if _, ok := n.(ast.Stmt); !ok {
				return false
			}
			return hasMarker(n)
		})
		// every path on which the line was not found terminated writes the marker: the decision depends on the line's own text only
		{
			terminated := func(b *cfg.Block, i int) bool {
				for _, fact := range f.EdgeFacts(b, i) {
					if fact.Truth && endsNL(info, fact.Atom) {
						return true
					}
				}
				return false
			}
			isExitNode := func(n ast.Node) bool {
				if isReturn(n) {
					return true
				}
				for _, b := range f.G.Blocks {
					if b.Live && len(b.Succs) == 0 && len(b.Nodes) > 0 && b.Nodes[len(b.Nodes)-1] == n {
						return true
					}
				}
				return false
			}
			stmtHasMarker := func(n ast.Node) bool {
				_, ok := n.(ast.Stmt)
				return ok && hasMarker(n)
			}
			h := f.Search(SearchOpts{Starts: []Loc{f.Entry()}, Sink: isExitNode, Barrier: stmtHasMarker, BlockEdge: terminated,
				BlockSink: func(b *cfg.Block) bool { return b.Live && len(b.Succs) == 0 && len(b.Nodes) == 0 }})
			c.Check(h == nil, r6, fi.Name()+":marker-follows-every-unterminated-line", fi.Decl.Pos(), orStr(ifStr(h != nil, "a path on which the line was not found to end in a newline leaves the function without writing the marker: whether a line gets its marker depends on something else than its own text, and git apply reads the old or new file as newline-terminated"),
				"every path that has not found the line terminated writes the marker"))
		}
		c.Check(len(locs) > 0, r6, fi.Name()+":marker-written", fi.Decl.Pos(), orStr(ifStr(len(locs) == 0, "nothing writes `"+marker+"`: a last line without a newline is indistinguishable from one with it, and git apply appends a newline"), "the marker is written"))
		for i, loc := range locs {
			h := f.UnguardedPath(FactGuard(func(f *Flow, fact Fact) bool { return !fact.Truth && endsNL(f.Info, fact.Atom) }), loc)
			c.Check(h == nil, r6, fi.Name()+":marker-only-without-newline"+ifStr(i > 0, "#"+itoa(i+1)), loc.B.Nodes[loc.Idx].Pos(), orStr(ifStr(h != nil, "the marker is written on a path on which the line was found to end in a newline (or was not tested)"),
				"the marker is written only across the not-found edge of the newline-suffix test"))
		}
	}
	// ---- r7
	if fi := c.MustFunc(r7, fdiffShort+".(*UnifiedEncoder).writeFilePatchHeader"); fi != nil {
		c.Analysed(fi)
		info := fi.Pkg.TypesInfo
		var from, to types.Object
		ast.Inspect(fi.Decl.Body, func(n ast.Node) bool {
			as, ok := n.(*ast.AssignStmt)
			if !ok || len(as.Lhs) != 2 || len(as.Rhs) != 1 || from != nil {
				return true
			}
			if call, ok := unparen(as.Rhs[0]).(*ast.CallExpr); ok {
				if fn := Callee(info, call); fn != nil && fn.Name() == "Files" {
					from, to = objOf(info, as.Lhs[0]), objOf(info, as.Lhs[1])
				}
			}
			return true
		})
		if from == nil || to == nil {
			c.Unresolved(r7, fi.Name()+":sides", fi.Decl.Pos(), "the two sides (results of FilePatch.Files) were not found")
		} else {
			// side(e): which of from/to the expression reads; zero: the zero hash or "/dev/null"
			type sideT struct{ from, to, zero bool }
			side := func(e ast.Expr) sideT {
				s := sideT{from: usesObj(info, e, from), to: usesObj(info, e, to)}
				if tv := info.Types[e]; tv.Value != nil && tv.Value.Kind() == constant.String && constant.StringVal(tv.Value) == "/dev/null" {
					s.zero = true
				}
				o := objOf(info, e)
				if sel, ok := unparen(e).(*ast.SelectorExpr); ok {
					o = info.Uses[sel.Sel]
				}
				if o != nil && o.Name() == "ZeroHash" {
					s.zero = true
				}
				return s
			}
			only := func(s sideT, wantFrom bool) bool {
				if wantFrom {
					return s.from && !s.to
				}
				return s.to && !s.from
			}
			keyword := map[string]bool{"old mode": true, "rename from": true, "deleted file mode": true, "new mode": false, "rename to": false, "new file mode": false}
			nk, ni, np := 0, 0, 0
			walkCalls(fi.Decl.Body, true, func(call *ast.CallExpr) {
				fn := Callee(info, call)
				if fn == nil {
					return
				}
				if fn.Pkg() != nil && fn.Pkg().Path() == "fmt" && fn.Name() == "Sprintf" && len(call.Args) >= 2 {
					tv := info.Types[call.Args[0]]
					if tv.Value == nil || tv.Value.Kind() != constant.String {
						return
					}
					format := constant.StringVal(tv.Value)
					for kw, wantFrom := range keyword {
						if !strings.HasPrefix(format, kw+" ") {
							continue
						}
						nk++
						ok := true
						for _, a := range call.Args[1:] {
							if !only(side(a), wantFrom) {
								ok = false
							}
						}
						c.Check(ok, r7, fi.Name()+":"+strings.ReplaceAll(kw, " ", "-"), call.Pos(), orStr(ifStr(!ok, "the `"+kw+"` line is not computed from the "+ifElse(wantFrom, "old", "new")+" file alone"),
							"`"+kw+"` is computed from the "+ifElse(wantFrom, "old", "new")+" file"))
					}
					if strings.HasPrefix(format, "index ") && len(call.Args) >= 3 {
						ni++
						a, b := side(call.Args[1]), side(call.Args[2])
						ok := (only(a, true) || (a.zero && !a.to)) && (only(b, false) || (b.zero && !b.from)) && !(a.zero && b.zero)
						for _, x := range call.Args[3:] {
							if s := side(x); s.to && !s.from {
								ok = false // the trailing mode of an index line is the (unchanged) old mode
							}
						}
						c.Check(ok, r7, fi.Name()+":index#"+itoa(ni), call.Pos(), orStr(ifStr(!ok, "the `index a..b` line does not put the old blob (or the zero hash) left and the new blob (or the zero hash) right"),
							"`index a..b`: old blob left, new blob right"))
					}
					return
				}
				if fn.Name() == "appendPathLines" && len(call.Args) >= 3 {
					np++
					a, b := side(call.Args[1]), side(call.Args[2])
					ok := (only(a, true) || (a.zero && !a.to)) && (only(b, false) || (b.zero && !b.from)) && !(a.zero && b.zero)
					c.Check(ok, r7, fi.Name()+":paths#"+itoa(np), call.Pos(), orStr(ifStr(!ok, "the ---/+++ lines do not name the old file (or /dev/null) first and the new file (or /dev/null) second"),
						"---/+++: old path first, new path second"))
				}
			})
			c.Check(nk >= 6, r7, fi.Name()+":keyword-lines", fi.Decl.Pos(), orStr(ifStr(nk < 6, "only "+itoa(nk)+" of the 6 extended-header lines (old/new mode, rename from/to, new/deleted file mode) were found"), "all 6 extended-header lines found"))
			c.Check(ni >= 3 && np >= 3, r7, fi.Name()+":index-and-path-lines", fi.Decl.Pos(), orStr(ifStr(ni < 3 || np < 3, "index lines "+itoa(ni)+"/3, path lines "+itoa(np)+"/3 found"), "index and path lines found for change, addition and deletion"))
		}
	}
}

// checkLineModePipeline (C45): the unified encoder prints one patch line per line of a chunk, so every chunk must consist
// of whole lines. utils/diff guarantees that by construction: both texts go, whole, through diffmatchpatch's line mode
// (DiffLinesToRunes/DiffLinesToChars → DiffMain → DiffCharsToLines), whose output texts are concatenations of input
// lines. Decided: in DoWithTimeout the arguments of the line-mode front end are the function's own text parameters, what
// is returned comes from DiffCharsToLines, and no function of the package builds a diffmatchpatch.Diff by hand. A chunk
// assembled outside that pipeline (a stripped common prefix or suffix re-attached) is reported as unresolved, not as a
// violation: whether its boundaries are line boundaries is a value question this rule cannot decide.
func checkLineModePipeline(c *Ctx, rule string) {
	p := c.P
	const short = "utils/diff"
	fi := c.MustFunc(rule, short+".DoWithTimeout")
	if fi == nil {
		return
	}
	c.Analysed(fi)
	info := fi.Pkg.TypesInfo
	params := map[types.Object]bool{}
	for _, po := range paramObjs(info, fi.Decl) {
		if b, ok := po.Type().Underlying().(*types.Basic); ok && b.Info()&types.IsString != 0 {
			params[po] = true
		}
	}
	nFront, back := 0, false
	bad := token.NoPos
	ast.Inspect(fi.Decl.Body, func(n ast.Node) bool {
		call, ok := n.(*ast.CallExpr)
		if !ok {
			return true
		}
		fn := Callee(info, call)
		if fn == nil {
			return true
		}
		switch fn.Name() {
		case "DiffLinesToRunes", "DiffLinesToChars":
			nFront++
			for _, a := range call.Args {
				if o := objOf(info, a); o == nil || !params[o] {
					bad = a.Pos()
				}
			}
		case "DiffCharsToLines":
			back = true
		}
		return true
	})
	ok := nFront == 1 && back && !bad.IsValid()
	if ok {
		c.Hold(rule, fi.Name()+":whole-texts-through-line-mode", fi.Decl.Pos(), "both texts go whole through the line-mode front end and the result comes back through DiffCharsToLines")
	} else {
		c.Unresolved(rule, fi.Name()+":whole-texts-through-line-mode", orPos(bad, fi.Decl.Pos()), "the texts handed to diffmatchpatch's line mode are not the function's whole parameters (or the line-mode round trip is gone): chunks are no longer whole lines by construction, and whether they still are is not decidable here; a chunk that ends mid-line is printed as separate patch lines and git apply refuses the patch")
	}
	// no hand-made chunk in the package
	dmp := p.importedPkg("github.com/sergi/go-diff/diffmatchpatch")
	n := 0
	for _, f := range p.FuncsIn(short) {
		if f.Decl.Body == nil || p.isTestFile(f.Decl.Pos()) {
			continue
		}
		finfo := f.Pkg.TypesInfo
		ast.Inspect(f.Decl.Body, func(nd ast.Node) bool {
			cl, ok := nd.(*ast.CompositeLit)
			if !ok || dmp == nil {
				return true
			}
			tv := finfo.Types[cl]
			if nt, ok := tv.Type.(*types.Named); ok && nt.Obj().Pkg() == dmp && nt.Obj().Name() == "Diff" {
				n++
				c.Unresolved(rule, f.Name()+":hand-made-chunk"+ifStr(n > 1, "#"+itoa(n)), cl.Pos(), "a diff chunk is built by hand instead of coming out of the line-mode conversion: whether its text consists of whole lines is not decidable here")
			}
			return true
		})
	}
	if n == 0 {
		c.Hold(rule, short+":no-hand-made-chunks", fi.Decl.Pos(), "every chunk comes out of the line-mode conversion")
	}
}

func ifElse(b bool, x, y string) string {
	if b {
		return x
	}
	return y
}
