package main

import (
	"go/ast"
	"go/constant"
	"go/token"
	"go/types"
	"strings"
)

func init() {
	register(&propSpec{
		ID: "C10",
		Explanation: "Decides writer/reader table agreement and validation-before-use for pack indexes, not answer equality: (offset64-marker-agreement) the three readers (MemoryIndex, LazyIndex, mmap.PackScanner) use the same 64-bit-offset marker " +
			"(1<<31), the writer routes an offset to the 64-bit table exactly from that value on (its comparison constant, adjusted for > / >=, equals the marker) and tags the slot index with the same bit; " +
			"(idx-section-order) the encoder's state chain and the decoder's flows name the same sections in the same order (header, fanout, names, crc, offsets, checksums); " +
			"(idx-validated-before-use) Decoder.Decode allocates the name/crc/offset tables only after validateIdxV2Size succeeded and returns success only on the checksum-equal edge; readFanout and LazyIndex.init keep the " +
			"fanout monotonicity rejection; LazyIndex.init accepts the file only on the pack-checksum-equal edge; mmap.loadIdxFile compares the tables implied by the object count with the mapping length before any lookup can slice it. " +
			"(parallel-table-views) every composite literal that hands views of a bucket's Names, Offset32 and CRC32 tables to an iterator takes them all whole or all re-sliced, so one cursor indexes all of them. " +
			"(key-successor-carries) no index reader builds a search bound by incrementing a byte of a key without a test for 0xff or a carry. Not decided: equality of answers across implementations on all entry sets.",
		Assumptions: []string{},
		Run:         runC10,
	})
}

const idxfShort = "plumbing/format/idxfile"

func constUint(p *Prog, short, name string) (string, token.Pos, bool) {
	if k, ok := p.lookupObj(short, name).(*types.Const); ok {
		return k.Val().ExactString(), k.Pos(), true
	}
	return "", 0, false
}

func runC10(c *Ctx) {
	p := c.P
	PackagesStateFree(c, "codec-state-free", "plumbing/format/idxfile", "plumbing/format/revfile")
	const r1 = "offset64-marker-agreement"
	want := "2147483648"
	for _, m := range []struct{ pkg, name string }{{idxfShort, "isO64Mask"}, {idxfShort, "is64bitsMask"}, {"storage/filesystem/mmap", "is64bitsMask"}} {
		v, pos, ok := constUint(p, m.pkg, m.name)
		if !ok {
			c.Unresolved(r1, m.pkg+"."+m.name, 0, "marker constant not found")
			continue
		}
		c.Check(v == want, r1, m.pkg+"."+m.name, pos, "reader marker = "+v+" (1<<31 = "+want+")")
	}
	if ci := c.MustFunc(r1, idxfShort+".(*Writer).createIndex"); ci != nil {
		info := ci.Pkg.TypesInfo
		found := false
		ast.Inspect(ci.Decl.Body, func(n ast.Node) bool {
			ifs, ok := n.(*ast.IfStmt)
			if !ok || nodeHasCall(ifs.Body, false, callsNamed(info, "addOffset64")) == nil {
				return true
			}
			be, ok := unparen(ifs.Cond).(*ast.BinaryExpr)
			if !ok {
				return true
			}
			tv := info.Types[be.Y]
			if tv.Value == nil {
				return true
			}
			k, exact := constant.Uint64Val(constant.ToInt(tv.Value))
			if !exact {
				return true
			}
			found = true
			var threshold uint64
			switch be.Op {
			case token.GTR:
				threshold = k + 1
			case token.GEQ:
				threshold = k
			default:
				c.Violate(r1, ci.Name()+":inline-limit", be.Pos(), "unrecognised comparison deciding between the 32-bit and the 64-bit offset table")
				return true
			}
			c.Check(threshold == 1<<31, r1, ci.Name()+":inline-limit", be.Pos(),
				"offsets from "+utoa(threshold)+" on go to the 64-bit table; readers treat values with bit 31 set (>= 2147483648) as table indexes")
			return true
		})
		if !found {
			c.Unresolved(r1, ci.Name()+":inline-limit", ci.Decl.Pos(), "comparison guarding addOffset64 not found")
		}
	}
	if ao := c.MustFunc(r1, idxfShort+".(*Writer).addOffset64"); ao != nil {
		info := ao.Pkg.TypesInfo
		ok := false
		ast.Inspect(ao.Decl.Body, func(n ast.Node) bool {
			if be, isBin := n.(*ast.BinaryExpr); isBin && be.Op == token.OR {
				for _, e := range []ast.Expr{be.X, be.Y} {
					if tv := info.Types[e]; tv.Value != nil && constant.ToInt(tv.Value).ExactString() == want {
						ok = true
					}
				}
			}
			return true
		})
		c.Check(ok, r1, ao.Name()+":slot-tag", ao.Decl.Pos(), "the 64-bit slot index is tagged with bit 31")
	}
	c.Floor(r1, 5)

	// idx-section-order
	const r2 = "idx-section-order"
	section := func(fn string) string {
		l := strings.ToLower(fn)
		switch {
		case strings.Contains(l, "header") || strings.Contains(l, "version"):
			return "header"
		case strings.Contains(l, "fanout"):
			return "fanout"
		case strings.Contains(l, "hashes") || strings.Contains(l, "names"):
			return "names"
		case strings.Contains(l, "crc"):
			return "crc"
		case strings.Contains(l, "offset"):
			return "offsets"
		case strings.Contains(l, "checksum"):
			return "checksums"
		}
		return "?" + fn
	}
	dedupe := func(in []string) []string {
		var out []string
		for _, s := range in {
			if len(out) == 0 || out[len(out)-1] != s {
				out = append(out, s)
			}
		}
		return out
	}
	// encoder: follow the state chain writeHeader -> … via `return <nextState>, nil`
	var encOrder []string
	if pk := p.Pkg(idxfShort); pk != nil {
		info := pk.TypesInfo
		cur := p.Func(idxfShort + ".writeHeader")
		for i := 0; cur != nil && i < 12; i++ {
			encOrder = append(encOrder, section(cur.Obj.Name()))
			var next *FuncInfo
			ast.Inspect(cur.Decl.Body, func(n ast.Node) bool {
				if r, ok := n.(*ast.ReturnStmt); ok && len(r.Results) == 2 && isNil(info, r.Results[1]) {
					if fn, ok := objOf(info, r.Results[0]).(*types.Func); ok {
						next = p.FuncOf(fn)
					}
				}
				return true
			})
			cur = next
		}
		// decoder: validateHeader, then the function lists of Decode in source order, then readIdxChecksum
		var decOrder []string
		if dec := p.Func(idxfShort + ".(*Decoder).Decode"); dec != nil {
			c.Analysed(dec)
			ast.Inspect(dec.Decl.Body, func(n ast.Node) bool {
				switch v := n.(type) {
				case *ast.CompositeLit:
					for _, el := range v.Elts {
						if fn, ok := objOf(info, el).(*types.Func); ok {
							decOrder = append(decOrder, section(fn.Name()))
						}
					}
				case *ast.CallExpr:
					if fn := Callee(info, v); fn != nil && fn.Pkg() == pk.Types && (strings.HasPrefix(fn.Name(), "read") || fn.Name() == "validateHeader") {
						decOrder = append(decOrder, section(fn.Name()))
					}
				}
				return true
			})
		}
		e, d := dedupe(encOrder), dedupe(decOrder)
		c.Check(strings.Join(e, ",") == strings.Join(d, ",") && len(e) >= 6, r2, "encoder==decoder", token.NoPos,
			"encoder sections ["+strings.Join(e, ",")+"] vs decoder sections ["+strings.Join(d, ",")+"]")
	}

	// idx-validated-before-use
	const r3 = "idx-validated-before-use"
	if dec := c.MustFunc(r3, idxfShort+".(*Decoder).Decode"); dec != nil {
		info := dec.Pkg.TypesInfo
		f := p.FlowOf(dec)
		sizeOK := ErrGuard(anyArgs(callsNamed(info, "validateIdxV2Size")))
		// the node that mentions the allocating readers (the body flow literal)
		alloc := func(n ast.Node) bool {
			found := false
			ast.Inspect(n, func(x ast.Node) bool {
				if id, ok := x.(*ast.Ident); ok {
					if fn, ok := info.Uses[id].(*types.Func); ok && (fn.Name() == "readObjectNames" || fn.Name() == "readCRC32" || fn.Name() == "readOffsets") {
						found = true
					}
				}
				return !found
			})
			return found
		}
		ok := len(f.Locs(alloc)) > 0
		for _, l := range f.Locs(alloc) {
			if f.UnguardedPath(sizeOK, l) != nil {
				ok = false
			}
		}
		c.Check(ok, r3, dec.Name()+":size-before-tables", dec.Decl.Pos(), "the tables sized by the object count are read only after validateIdxV2Size accepted the count against the file size")
		equal := FactGuard(func(_ *Flow, fact Fact) bool {
			be, isBin := unparen(fact.Atom).(*ast.BinaryExpr)
			if !isBin || nodeHasCall(be, false, callsNamed(info, "Compare", "Equal")) == nil {
				return false
			}
			return (be.Op == token.EQL) == fact.Truth
		})
		h := f.GuardedSink(equal, func(n ast.Node) bool {
			r, isRet := n.(*ast.ReturnStmt)
			return isRet && len(r.Results) == 1 && isNil(info, r.Results[0])
		})
		c.Check(h == nil && f.HasPassEdge(equal), r3, dec.Name()+":checksum", dec.Decl.Pos(), "Decode succeeds only on the idx-checksum-equal edge")
	}
	monotone := func(info *types.Info, e ast.Expr) bool {
		be, ok := unparen(e).(*ast.BinaryExpr)
		if !ok {
			return false
		}
		if be.Op == token.LAND {
			return hasCmp(be, token.LSS) || hasCmp(be, token.GTR)
		}
		return be.Op == token.LSS || be.Op == token.GTR
	}
	if rf := c.MustFunc(r3, idxfShort+".readFanout"); rf != nil {
		RejectRule(c, r3, rf, "fanout-monotonic", monotone, nil)
	}
	if li := c.MustFunc(r3, idxfShort+".(*LazyIndex).init"); li != nil {
		info := li.Pkg.TypesInfo
		RejectRule(c, r3, li, "fanout-monotonic", monotone, nil)
		RejectRule(c, r3, li, "pack-checksum", func(info *types.Info, e ast.Expr) bool {
			return nodeHasCall(e, false, callsNamed(info, "Compare", "Equal")) != nil
		}, nil)
		_ = info
	}
	if lm :=c.MustFunc(r3, "storage/filesystem/mmap.(*PackScanner).loadIdxFile"); lm != nil {
		info := lm.Pkg.TypesInfo
		st := p.lookupType("storage/filesystem/mmap", "PackScanner")
		off64, trailer := fieldOf(st, "off64Start"), fieldOf(st, "trailerStart")
		RejectRule(c, r3, lm, "count-fits-mapping", func(info *types.Info, e ast.Expr) bool {
			return condMentionsObj(off64)(info, e) && condMentionsObj(trailer)(info, e)
		}, nil)
		_ = info
	}
	c.Floor(r3, 6)

	// parallel-table-views: an iterator over one fanout bucket indexes the bucket's name, offset and CRC tables with the
	// same position; in every composite literal that hands views of these tables to an iterator they are all taken whole
	// or all re-sliced (a cursor that is right for two of them and wrong for the third yields another object's CRC)
	const r4 = "parallel-table-views"
	if pk := p.Pkg(idxfShort); pk != nil {
		info := pk.TypesInfo
		mi := p.lookupType(idxfShort, "MemoryIndex")
		tables := map[types.Object]string{}
		for _, n := range []string{"Names", "Offset32", "CRC32"} {
			if f := fieldOf(mi, n); f != nil {
				tables[f] = n
			}
		}
		nLits := 0
		for _, fi := range p.FuncsIn(idxfShort) {
			if fi.Decl.Body == nil || p.isTestFile(fi.Decl.Pos()) {
				continue
			}
			// locals that alias a bucket table: x := idx.Names[bucket]
			alias := map[types.Object]string{}
			tableOf := func(e ast.Expr) (string, bool) {
				sliced := false
				e = unparen(e)
				for {
					if se, ok := e.(*ast.SliceExpr); ok {
						if se.Low != nil {
							sliced = true
						}
						e = unparen(se.X)
						continue
					}
					break
				}
				if id, ok := e.(*ast.Ident); ok {
					if t, ok := alias[objOf(info, id)]; ok {
						return t, sliced
					}
				}
				if ix, ok := e.(*ast.IndexExpr); ok {
					if sel, ok := unparen(ix.X).(*ast.SelectorExpr); ok {
						if t, ok := tables[info.Uses[sel.Sel]]; ok {
							return t, sliced
						}
					}
				}
				return "", false
			}
			ast.Inspect(fi.Decl.Body, func(n ast.Node) bool {
				if as, ok := n.(*ast.AssignStmt); ok && len(as.Lhs) == 1 && len(as.Rhs) == 1 {
					if t, sliced := tableOf(as.Rhs[0]); t != "" && !sliced {
						if o := objOf(info, as.Lhs[0]); o != nil {
							alias[o] = t
						}
					}
				}
				return true
			})
			ast.Inspect(fi.Decl.Body, func(n ast.Node) bool {
				cl, ok := n.(*ast.CompositeLit)
				if !ok {
					return true
				}
				views := map[string]bool{}
				for _, el := range cl.Elts {
					kv, ok := el.(*ast.KeyValueExpr)
					if !ok {
						continue
					}
					if t, sliced := tableOf(kv.Value); t != "" {
						views[t] = sliced
					}
				}
				if len(views) < 2 {
					return true
				}
				nLits++
				c.Analysed(fi)
				same := true
				var first *bool
				for _, s := range views {
					s := s
					if first == nil {
						first = &s
					} else if *first != s {
						same = false
					}
				}
				c.Check(same, r4, fi.Name()+":iterator-views", cl.Pos(), orStr(ifStr(!same, "the bucket's tables are handed to the iterator with different origins (some re-sliced, some whole): one cursor cannot be right for all of them"),
					"the bucket's tables are all handed over whole or all re-sliced"))
				return true
			})
		}
		c.Check(nLits >= 1, r4, idxfShort+":iterator-literals", 0, itoa(nLits)+" iterator literals that view at least two of the bucket tables examined")
	}

	// A search key's successor ("the next prefix of this length") computed by incrementing one byte of the key is wrong
	// for 0xff: the byte wraps to 0x00 and the successor sorts before the key, so the range it bounds is empty. In the
	// index readers a byte element is incremented only under a test of that byte against 0xff (or the carry is handled:
	// a test of the byte against 0 follows).
	const r5 = "key-successor-carries"
	n5 := 0
	for _, fi := range p.FuncsIn(idxfShort) {
		if fi.Decl.Body == nil || p.isTestFile(fi.Decl.Pos()) {
			continue
		}
		pinfo := fi.Pkg.TypesInfo
		k := 0
		var walk func(n ast.Node, conds []ast.Expr)
		walk = func(n ast.Node, conds []ast.Expr) {
			switch v := n.(type) {
			case nil:
				return
			case *ast.IfStmt:
				cs := append(conds[:len(conds):len(conds)], v.Cond)
				walk(v.Body, cs)
				walk(v.Else, cs)
				return
			case *ast.ForStmt:
				cs := conds
				if v.Cond != nil {
					cs = append(conds[:len(conds):len(conds)], v.Cond)
				}
				walk(v.Body, cs)
				return
			case *ast.BlockStmt:
				for i, s := range v.List {
					if inc, ok := s.(*ast.IncDecStmt); ok && inc.Tok == token.INC {
						if ix, ok := unparen(inc.X).(*ast.IndexExpr); ok {
							if tv := pinfo.Types[ix]; tv.Type != nil {
								if b, ok := tv.Type.Underlying().(*types.Basic); ok && b.Kind() == types.Uint8 {
									k++
									n5++
									c.Analysed(fi)
									guarded := false
									mentions255or0 := func(e ast.Node, want string) bool {
										found := false
										ast.Inspect(e, func(m ast.Node) bool {
											if x, ok := m.(ast.Expr); ok {
												if cv := pinfo.Types[x]; cv.Value != nil && cv.Value.ExactString() == want {
													found = true
												}
											}
											return !found
										})
										return found
									}
									for _, cnd := range conds {
										if mentions255or0(cnd, "255") {
											guarded = true
										}
									}
									// carry handled afterwards: a following statement tests the byte against 0
									for _, later := range v.List[i+1:] {
										if ifs, ok := later.(*ast.IfStmt); ok && mentions255or0(ifs.Cond, "0") && usesObj(pinfo, ifs.Cond, objOf(pinfo, ix.X)) {
											guarded = true
										}
									}
									c.Check(guarded, r5, fi.Name()+":"+exprString(inc.X)+"++"+ifStr(k > 1, "#"+itoa(k)), inc.Pos(), orStr(ifStr(!guarded, "a byte of a key is incremented with no test for 0xff and no carry: for a key ending in 0xff the successor wraps to 0x00 and sorts before the key, so the range it is meant to bound is empty (prefixes such as 12ff find nothing)"),
										"the increment is guarded against 0xff or its carry is handled"))
								}
							}
						}
					}
					walk(s, conds)
				}
				return
			case *ast.SwitchStmt:
				walk(v.Body, conds)
				return
			case *ast.CaseClause:
				for _, s := range v.Body {
					walk(s, conds)
				}
				return
			}
		}
		walk(fi.Decl.Body, nil)
	}
	if n5 == 0 {
		c.Hold(r5, idxfShort+":no-byte-increment", 0, "no index reader computes a key by incrementing one of its bytes")
	}
	c.Floor(r5, 1)
}

func utoa(u uint64) string {
	if u == 0 {
		return "0"
	}
	var b []byte
	for u > 0 {
		b = append([]byte{byte('0' + u%10)}, b...)
		u /= 10
	}
	return string(b)
}
