package main

import (
	"go/ast"
	"go/token"
	"go/types"
)

func init() {
	register(&propSpec{
		ID: "C27",
		Explanation: "Decides four structural conditions of 'status agrees with git status', not the status of every path: " +
			"(both-advance-only-on-equal-paths) status is a merkletrie diff of the index against the worktree; that diff advances both of its iterators together only where their full paths are equal " +
			"(found and fixed: a skip-worktree entry a/z was matched with a top-level z by base name and status reported ' D z'; shared with C44); " +
			"(unchanged-shortcut-guards) the worktree noder takes a file's hash from the index instead of hashing the file only behind rejecting tests of the entry's size, modification time and mode and of the racy-git condition " +
			"(the file is older than the index file, and the index file's time is known): each of the four has a branch that returns false, and true is returned in one place, after them; " +
			"(status-code-table) both loops of Worktree.status dispatch on all three merkletrie actions, the staging loop writes the Staging column and the worktree loop the Worktree column; " +
			"(untracked-both-columns) an insertion on the worktree side sets both columns to Untracked (git's '??'); (sibling-order-is-path-order, shared with C44) the order in which an iterator hands out siblings (frame.byName.Less) and the order by which DiffTree aligns the two sides (noder.Path.Compare) both compare nothing but the plain Name() byte-wise, so they are one order; (time-guards-one-resolution) the mtime test and the racy-git test of the shortcut compare times at one resolution (today: full), because a whole-second mtime test beside a nanosecond racy test lets a same-second rewrite through. Not decided: ignore rules (C49), the diff of commit and index, submodules, intent-to-add entries, empty directories.",
		Assumptions: []string{},
		Run:         runC27,
	})
}

func runC27(c *Ctx) {
	p := c.P
	checkBothAdvanceOnEqualPaths(c, "both-advance-only-on-equal-paths")
	c.Floor("both-advance-only-on-equal-paths", 3)
	checkSiblingOrder(c, "sibling-order-is-path-order")
	checkTimeGuardResolution(c, "time-guards-one-resolution")

	const r2 = "unchanged-shortcut-guards"
	if mm := c.MustFunc(r2, "utils/merkletrie/filesystem.(*node).metadataMatches"); mm != nil {
		info := mm.Pkg.TypesInfo
		c.Analysed(mm)
		// rejecting branches: if <cond> { return false }
		type rej struct {
			cond ast.Expr
			pos  token.Pos
		}
		var rejs []rej
		trues := 0
		var lastStmtTrue bool
		ast.Inspect(mm.Decl.Body, func(n ast.Node) bool {
			switch v := n.(type) {
			case *ast.IfStmt:
				for _, st := range v.Body.List {
					if r, ok := st.(*ast.ReturnStmt); ok && len(r.Results) == 1 {
						if tv := info.Types[r.Results[0]]; tv.Value != nil && tv.Value.String() == "false" {
							rejs = append(rejs, rej{v.Cond, v.Pos()})
						}
					}
				}
			case *ast.ReturnStmt:
				if len(v.Results) == 1 {
					if tv := info.Types[v.Results[0]]; tv.Value != nil && tv.Value.String() == "true" {
						trues++
					}
				}
			}
			return true
		})
		if l := mm.Decl.Body.List; len(l) > 0 {
			if r, ok := l[len(l)-1].(*ast.ReturnStmt); ok && len(r.Results) == 1 {
				if tv := info.Types[r.Results[0]]; tv.Value != nil && tv.Value.String() == "true" {
					lastStmtTrue = true
				}
			}
		}
		mentions := func(e ast.Expr, field string) bool {
			found := false
			ast.Inspect(e, func(m ast.Node) bool {
				if sel, ok := m.(*ast.SelectorExpr); ok && sel.Sel.Name == field {
					found = true
				}
				return !found
			})
			return found
		}
		for _, g := range []struct{ name, field, why string }{
			{"size", "Size", "a file of another size is not unchanged"},
			{"mtime", "ModifiedAt", "a file written since it was indexed is hashed again"},
			{"mode", "Mode", "a mode change is a change"},
			{"racy", "ModTime", "a file not older than the index file itself may have been written in the same tick as the index (racy git): it is hashed"},
		} {
			ok := false
			for _, r := range rejs {
				if !mentions(r.cond, g.field) {
					continue
				}
				if g.name == "racy" {
					// an ordering of the file's time against the index file's time, not just a test that the latter is known
					ordered := false
					ast.Inspect(r.cond, func(m ast.Node) bool {
						if call, isCall := m.(*ast.CallExpr); isCall {
							if sel, isSel := unparen(call.Fun).(*ast.SelectorExpr); isSel && (sel.Sel.Name == "Before" || sel.Sel.Name == "After" || sel.Sel.Name == "Compare") {
								ordered = true
							}
						}
						return true
					})
					// the rejecting return may sit in a nested if: look at the enclosing statement too
					if !ordered {
						continue
					}
				}
				ok = true
			}
			// the mode test compares a converted mode with entry.Mode; the racy test reads idx.ModTime
			c.Check(ok, r2, mm.Name()+":"+g.name, mm.Decl.Pos(), orStr(ifStr(!ok, "the shortcut that takes a file's hash from the index has no rejecting test on "+g.field+": "+g.why+", otherwise status misses a modification"), g.why))
		}
		c.Check(trues == 1 && lastStmtTrue, r2, mm.Name()+":single-acceptance", mm.Decl.Pos(), orStr(ifStr(!(trues == 1 && lastStmtTrue), "the shortcut is accepted in more than one place or before the rejecting tests"), "the shortcut is accepted in one place, after the rejecting tests"))
	}
	c.Floor(r2, 5)

	const r3 = "status-code-table"
	if st := c.MustFunc(r3, "git.(*Worktree).status"); st != nil {
		info := st.Pkg.TypesInfo
		c.Analysed(st)
		mt := p.Pkg("utils/merkletrie")
		k := 0
		ast.Inspect(st.Decl.Body, func(n ast.Node) bool {
			sw, ok := n.(*ast.SwitchStmt)
			if !ok || sw.Tag == nil || mt == nil {
				return true
			}
			tv := info.Types[sw.Tag]
			if tv.Type == nil || types.TypeString(tv.Type, nil) != modPath+"/utils/merkletrie.Action" {
				return true
			}
			k++
			have := map[string]bool{}
			cols := map[string]bool{}
			untrackedBoth := false
			for _, cl := range sw.Body.List {
				cc := cl.(*ast.CaseClause)
				for _, e := range cc.List {
					if o := objOfSel(info, e); o != nil {
						have[o.Name()] = true
					}
				}
				w, s := false, false
				for _, stt := range cc.Body {
					if as, ok := stt.(*ast.AssignStmt); ok && len(as.Lhs) == 1 {
						if sel, ok := unparen(as.Lhs[0]).(*ast.SelectorExpr); ok {
							cols[sel.Sel.Name] = true
							if o := objOfSel(info, as.Rhs[0]); o != nil && o.Name() == "Untracked" {
								if sel.Sel.Name == "Worktree" {
									w = true
								}
								if sel.Sel.Name == "Staging" {
									s = true
								}
							}
						}
					}
				}
				if w && s {
					untrackedBoth = true
				}
			}
			all := have["Insert"] && have["Delete"] && have["Modify"]
			c.Check(all, r3, st.Name()+":switch#"+itoa(k)+":actions", sw.Pos(), orStr(ifStr(!all, "not every merkletrie action (Insert, Delete, Modify) has a case: changes of the missing kind get no status"), "Insert, Delete and Modify each have a case"))
			col := "Staging"
			if k == 2 {
				col = "Worktree"
			}
			c.Check(cols[col], r3, st.Name()+":switch#"+itoa(k)+":column", sw.Pos(), orStr(ifStr(!cols[col], "the "+col+" column is not written by this loop"), "writes the "+col+" column"))
			if k == 2 {
				c.Check(untrackedBoth, "untracked-both-columns", st.Name()+":switch#2:Insert", sw.Pos(), orStr(ifStr(!untrackedBoth, "a file that is only in the worktree does not get Untracked in both columns (git prints '??')"), "an insertion on the worktree side is Untracked in both columns"))
			}
			return true
		})
		if k != 2 {
			c.Unresolved(r3, st.Name()+":switches", st.Decl.Pos(), "expected two switches on the merkletrie action, found "+itoa(k))
		}
	}
	c.Floor(r3, 4)
	c.Floor("untracked-both-columns", 1)
}
