package main

import (
	"bufio"
	"encoding/json"
	"fmt"
	"go/token"
	"os"
	"path/filepath"
	"sort"
	"strings"
)

// Obligation is one decided rule instance.
type Obligation struct {
	Rule      string `json:"rule"`
	Construct string `json:"construct"` // stable key: function / callee / field, never a line
	Site      string `json:"site"`      // file:line for humans
	Verdict   string `json:"verdict"`   // held | violated | unresolved | known
	Detail    string `json:"detail,omitempty"`
}

func (o Obligation) Key() string { return o.Rule + "/" + o.Construct }

// Ctx collects what one property check decided.
type Ctx struct {
	P        *Prog
	Prop     string
	Tier     string
	Obs      []Obligation
	floors   map[string]int
	Notes    []string
	funcsSet map[string]bool // functions analysed
	Extra    map[string]any
	quiet    bool
}

func newCtx(p *Prog, prop, tier string) *Ctx {
	return &Ctx{P: p, Prop: prop, Tier: tier, floors: map[string]int{}, funcsSet: map[string]bool{}, Extra: map[string]any{}}
}

func (c *Ctx) add(rule, construct string, pos token.Pos, verdict, detail string) {
	site := "?"
	if c.P != nil {
		site = c.P.Pos(pos)
	}
	c.Obs = append(c.Obs, Obligation{Rule: rule, Construct: construct, Site: site, Verdict: verdict, Detail: detail})
}

// Hold records a discharged obligation.
func (c *Ctx) Hold(rule, construct string, pos token.Pos, detail string) {
	c.add(rule, construct, pos, "held", detail)
}

// Violate records a violated obligation.
func (c *Ctx) Violate(rule, construct string, pos token.Pos, detail string) {
	c.add(rule, construct, pos, "violated", detail)
}

// Unresolved records an anchor or idiom the checker could not decide; fails the run.
func (c *Ctx) Unresolved(rule, construct string, pos token.Pos, detail string) {
	c.add(rule, construct, pos, "unresolved", detail)
}

// Check records held or violated depending on ok.
func (c *Ctx) Check(ok bool, rule, construct string, pos token.Pos, detail string) bool {
	if ok {
		c.Hold(rule, construct, pos, detail)
	} else {
		c.Violate(rule, construct, pos, detail)
	}
	return ok
}

// Floor declares that a rule must have at least n obligations (vacuity guard).
func (c *Ctx) Floor(rule string, n int) { c.floors[rule] = n }

// Analysed notes a function as analysed (for evidence).
func (c *Ctx) Analysed(f *FuncInfo) {
	if f != nil {
		c.funcsSet[f.Name()] = true
	}
}

// MustFunc resolves a function by qualified name or records an unresolved anchor.
func (c *Ctx) MustFunc(rule, name string) *FuncInfo {
	f := c.P.Func(name)
	if f == nil {
		c.Unresolved(rule, name, token.NoPos, "anchor function not found: "+name)
		return nil
	}
	c.Analysed(f)
	return f
}

func (c *Ctx) finishFloors() {
	counts := map[string]int{}
	for _, o := range c.Obs {
		counts[o.Rule]++
	}
	var rules []string
	for r := range c.floors {
		rules = append(rules, r)
	}
	sort.Strings(rules)
	for _, r := range rules {
		if counts[r] < c.floors[r] {
			c.Unresolved(r, "vacuity-floor", token.NoPos,
				fmt.Sprintf("rule matched %d sites, fewer than the %d confirmed by hand; the rule no longer finds what it verifies", counts[r], c.floors[r]))
		}
	}
}

// ---- known findings -------------------------------------------------------

type knownFinding struct {
	Prop, Rule, Construct, Text string
}

func loadKnown(path string) ([]knownFinding, error) {
	f, err := os.Open(path)
	if err != nil {
		if os.IsNotExist(err) {
			return nil, nil
		}
		return nil, err
	}
	defer f.Close()
	var out []knownFinding
	sc := bufio.NewScanner(f)
	sc.Buffer(make([]byte, 1<<20), 1<<20)
	for sc.Scan() {
		line := strings.TrimSpace(sc.Text())
		if !strings.HasPrefix(line, "known:") {
			continue // "fixed:" lines and comments suppress nothing
		}
		rest := strings.TrimSpace(strings.TrimPrefix(line, "known:"))
		text := ""
		if i := strings.Index(rest, " — "); i >= 0 {
			text = strings.TrimSpace(rest[i+len(" — "):])
			rest = rest[:i]
		}
		k := knownFinding{Text: text}
		for _, fld := range strings.Fields(rest) {
			kv := strings.SplitN(fld, "=", 2)
			if len(kv) != 2 {
				continue
			}
			switch kv[0] {
			case "property":
				k.Prop = kv[1]
			case "rule":
				k.Rule = kv[1]
			case "construct":
				k.Construct = kv[1]
			}
		}
		if k.Prop != "" && k.Rule != "" && k.Construct != "" {
			out = append(out, k)
		}
	}
	return out, sc.Err()
}

// ---- evidence ---------------------------------------------------------------

type evidence struct {
	PropertyID  string         `json:"property_id"`
	Tier        string         `json:"tier"`
	Seed        int            `json:"seed"`
	Level       string         `json:"level"`
	Coverage    map[string]any `json:"coverage"`
	Assumptions []string       `json:"assumptions"`
	WallS       float64        `json:"wall_s"`
	Violations  int            `json:"violations"`
}

type propSpec struct {
	ID          string
	Explanation string   // what is decided, what is not
	Assumptions []string // trusted base
	NeedSSA     bool
	Run         func(c *Ctx)
}

// finish applies known findings, prints the report, writes evidence; returns exit code.
func finish(c *Ctx, spec *propSpec, verifDir string, seed int, wall float64, extra map[string]any) int {
	c.finishFloors()
	known, err := loadKnown(filepath.Join(verifDir, "known_findings.txt"))
	if err != nil {
		fmt.Printf("cannot read known_findings.txt: %v\n", err)
		return 1
	}
	usedKnown := map[int]bool{}
	for i := range c.Obs {
		o := &c.Obs[i]
		if o.Verdict != "violated" {
			continue
		}
		for ki, k := range known {
			if k.Prop == c.Prop && k.Rule == o.Rule && k.Construct == o.Construct {
				o.Verdict = "known"
				usedKnown[ki] = true
				if o.Detail == "" {
					o.Detail = k.Text
				}
			}
		}
	}
	var viol, unres, held, knownN int
	rules := map[string]int{}
	distinct := map[string]bool{}
	for _, o := range c.Obs {
		rules[o.Rule]++
		if o.Site != "?" {
			distinct[o.Key()] = true
		}
		switch o.Verdict {
		case "held":
			held++
		case "violated":
			viol++
		case "unresolved":
			unres++
		case "known":
			knownN++
		}
	}
	// report
	printed := map[string]bool{}
	for _, o := range c.Obs {
		switch o.Verdict {
		case "known":
			line := fmt.Sprintf("KNOWN-FINDING: property=%s rule=%s construct=%s at %s: %s", c.Prop, o.Rule, o.Construct, o.Site, o.Detail)
			if !printed[line] {
				fmt.Println(line)
				printed[line] = true
			}
		case "violated":
			fmt.Printf("violated: property=%s rule=%s construct=%s at %s: %s\n", c.Prop, o.Rule, o.Construct, o.Site, o.Detail)
		case "unresolved":
			fmt.Printf("unresolved: property=%s rule=%s construct=%s at %s: %s\n", c.Prop, o.Rule, o.Construct, o.Site, o.Detail)
		}
	}
	samples := []any{}
	// one sample per rule first, then fill up to 40
	seenRule := map[string]bool{}
	for _, o := range c.Obs {
		if !seenRule[o.Rule] {
			seenRule[o.Rule] = true
			samples = append(samples, o)
		}
	}
	for _, o := range c.Obs {
		if len(samples) >= 40 {
			break
		}
		if o.Verdict != "held" {
			samples = append(samples, o)
		}
	}
	var funcs []string
	for f := range c.funcsSet {
		funcs = append(funcs, f)
	}
	sort.Strings(funcs)
	expl := spec.Explanation
	if seenRule["codec-state-free"] {
		expl += " Also decided (codec-state-free): no function of the codec package(s), nor any function they reach through statically resolved calls, reads or writes package-level state of the module that can change after initialisation " +
			"(assigned or element-assigned outside init, atomics, mutexes, pointer-receiver mutators), so the result for one input cannot depend on what the process handled before; the exceptions are a reviewed table of sync.Pool free lists " +
			"(for those of utils/sync every accessor resets the object on all paths before handing it out), the trace switches and the hash registry. Calls through interfaces and function values are not followed."
	}
	cov := map[string]any{
		"explanation":         expl,
		"obligations":         len(c.Obs),
		"discharged":          held,
		"known_findings":      knownN,
		"unresolved":          unres,
		"evaluations":         len(c.Obs),
		"distinct_nontrivial": len(distinct),
		"rule":                "one obligation per rule instance (rule × construct) found in /repo's type-checked source on this run; distinct = distinct rule/construct keys with a real source position",
		"samples":             samples,
		"rules":               rules,
		"packages_loaded":     len(c.P.Pkgs),
		"functions_in_repo":   len(c.P.funcsL),
		"functions_analysed":  funcs,
		"platform":            c.P.GOOS + "/" + c.P.GOARCH,
		"exhaustive":          false,
		"all_obligations":     c.Obs,
	}
	for k, v := range c.Extra {
		cov[k] = v
	}
	for k, v := range extra {
		cov[k] = v
	}
	if len(c.Notes) > 0 {
		cov["notes"] = c.Notes
	}
	ev := evidence{PropertyID: c.Prop, Tier: c.Tier, Seed: seed, Level: "other", Coverage: cov,
		Assumptions: spec.Assumptions, WallS: wall, Violations: viol + unres}
	evDir := filepath.Join(verifDir, "evidence")
	_ = os.MkdirAll(evDir, 0o755)
	writeJSON(filepath.Join(evDir, c.Prop+".json"), ev)
	fmt.Printf("%s %s: %d obligations, %d held, %d known, %d violated, %d unresolved (%d packages, %d functions analysed, %.1fs)\n",
		c.Prop, c.Tier, len(c.Obs), held, knownN, viol, unres, len(c.P.Pkgs), len(funcs), wall)
	if viol+unres > 0 {
		replay := filepath.Join(evDir, c.Prop+".violation.json")
		var bad []Obligation
		for _, o := range c.Obs {
			if o.Verdict == "violated" || o.Verdict == "unresolved" {
				bad = append(bad, o)
			}
		}
		writeJSON(replay, map[string]any{"property": c.Prop, "tier": c.Tier, "violations": bad,
			"replay": "cd /verif && ./run.sh " + c.Prop + " " + c.Tier})
		fmt.Printf("VIOLATION property=%s replay=%s\n", c.Prop, replay)
		return 1
	}
	_ = os.Remove(filepath.Join(evDir, c.Prop+".violation.json"))
	return 0
}

func writeJSON(path string, v any) {
	b, err := json.MarshalIndent(v, "", " ")
	if err != nil {
		panic(err)
	}
	if err := os.WriteFile(path, append(b, '\n'), 0o644); err != nil {
		panic(err)
	}
}
