package main

import (
	"go/ast"
)

// checkShallowLinesAccepted (C35): AdvRefs.Encode writes the shallow lines after the references — and after the zero-id
// "capabilities^{}" line when there are none — so the decoder's line loop has to recognise a shallow line before anything
// can reject it. Scenario: the line just read by the loop is not empty and bytes.HasPrefix(line, shallow) is true;
// everything else (flags such as "there were no references") is unknown. No return of a non-nil error may be reachable
// from the loop's read before the condition that recognises the shallow prefix.
func checkShallowLinesAccepted(c *Ctx, rule string) {
	p := c.P
	dec := c.MustFunc(rule, "plumbing/protocol/packp.(*AdvRefs).Decode")
	if dec == nil {
		return
	}
	c.Analysed(dec)
	info := dec.Pkg.TypesInfo
	shallowVar := p.lookupObj("plumbing/protocol/packp", "shallow")
	if shallowVar == nil {
		c.Unresolved(rule, "plumbing/protocol/packp.shallow", dec.Decl.Pos(), "prefix variable not found")
		return
	}
	isShallowTest := func(call *ast.CallExpr) bool {
		fn := Callee(info, call)
		return fn != nil && fn.Pkg() != nil && fn.Pkg().Path() == "bytes" && fn.Name() == "HasPrefix" && len(call.Args) == 2 && objOfSel(info, call.Args[1]) == shallowVar
	}
	// the reads that feed the line loop: calls in the condition of a for statement
	var reads []*ast.CallExpr
	ast.Inspect(dec.Decl.Body, func(n ast.Node) bool {
		if fs, ok := n.(*ast.ForStmt); ok && fs.Cond != nil {
			if call, ok := unparen(fs.Cond).(*ast.CallExpr); ok && nodeHasCall(fs.Body, false, isShallowTest) != nil {
				reads = append(reads, call)
			}
		}
		return true
	})
	if len(reads) == 0 {
		c.Unresolved(rule, dec.Name()+":line-loop", dec.Decl.Pos(), "no loop that reads a line and tests it for the shallow prefix found")
		return
	}
	f := p.FlowOf(dec)
	as := &condAssume{info: info, call: func(call *ast.CallExpr) int {
		if isShallowTest(call) {
			return 1
		}
		for _, r := range reads {
			if r == call {
				return 1 // a line was read
			}
		}
		return -1
	}}
	for i, rd := range reads {
		locs := f.Locs(func(nd ast.Node) bool { return nd == ast.Node(rd) || (nodeHasCall(nd, false, func(cc *ast.CallExpr) bool { return cc == rd }) != nil) })
		if len(locs) == 0 {
			c.Unresolved(rule, dec.Name()+":line-loop#"+itoa(i+1), rd.Pos(), "the read is not a node of the flow graph")
			continue
		}
		h := f.Search(SearchOpts{Starts: []Loc{After(locs[0])}, BlockEdge: as.blockEdge(), Barrier: CallNode(false, isShallowTest), Sink: func(nd ast.Node) bool {
			r, ok := nd.(*ast.ReturnStmt)
			if !ok || len(r.Results) == 0 {
				return false
			}
			if returnsNonNilError(info, dec.Decl.Body, r) {
				return true
			}
			// an error built on the spot (decodeError(…), fmt.Errorf(…))
			_, isCall := unparen(r.Results[len(r.Results)-1]).(*ast.CallExpr)
			return isCall
		}})
		pos := rd.Pos()
		detail := ""
		if h != nil {
			detail = "a line that starts with the shallow prefix can be rejected (" + p.Pos(h.Node.Pos()) + ") before the loop tests for that prefix: an advertisement the encoder writes — shallow lines after the last reference, or after the capabilities^{} line of an empty repository — does not decode"
		}
		c.Check(h == nil, rule, dec.Name()+":line-loop#"+itoa(i+1), pos, orStr(detail, "a shallow line is recognised before anything in the loop can reject it"))
	}
}
