package main

import (
	"go/ast"
	"go/types"
)

// checkStarExhaustionAborts (C53): the wildcard matcher of the ignore rules (a port of wildmatch.c) tries, for a '*',
// every suffix of the text against the rest of the pattern by calling itself in a loop. What keeps this from being
// exponential in the number of stars is one invariant of the original: when the text runs out inside that loop the
// function returns the abort-all code, so every enclosing star stops retrying at once; returning the plain no-match
// code there makes each outer star go on with its next suffix (O(n^k) for k stars — a 30-byte line in an untrusted
// .gitignore stalls status for minutes). Rule: in the function that calls itself inside a loop and propagates that
// call's result, no statement of that loop — and no statement that directly follows the loop in its block — returns the
// no-match constant.
func checkStarExhaustionAborts(c *Ctx, rule string) {
	p := c.P
	const gi = "plumbing/format/gitignore"
	fi := c.MustFunc(rule, gi+".dowild")
	if fi == nil {
		return
	}
	info := fi.Pkg.TypesInfo
	c.Analysed(fi)
	noMatch := p.lookupObj(gi, "wmNoMatch")
	if noMatch == nil {
		c.Unresolved(rule, gi+".wmNoMatch", fi.Decl.Pos(), "constant not found")
		return
	}
	noMatchVal := noMatch.(*types.Const).Val().ExactString()
	isSelfCall := func(call *ast.CallExpr) bool { return Callee(info, call) == fi.Obj }
	returnsNoMatch := func(n ast.Node) *ast.ReturnStmt {
		var hit *ast.ReturnStmt
		ast.Inspect(n, func(x ast.Node) bool {
			if _, isLit := x.(*ast.FuncLit); isLit {
				return false
			}
			if r, ok := x.(*ast.ReturnStmt); ok && len(r.Results) == 1 {
				if tv := info.Types[r.Results[0]]; tv.Value != nil && tv.Value.ExactString() == noMatchVal {
					hit = r
				}
			}
			return hit == nil
		})
		return hit
	}
	// the retry loops: for statements whose body assigns the result of a self-call to a variable (propagated result)
	k := 0
	var visitBlock func(list []ast.Stmt)
	visitBlock = func(list []ast.Stmt) {
		for i, st := range list {
			loop, ok := st.(*ast.ForStmt)
			if ok {
				propagates := false
				ast.Inspect(loop.Body, func(x ast.Node) bool {
					// the innermost loop around the call only
					if inner, isLoop := x.(*ast.ForStmt); isLoop && inner != loop {
						return false
					}
					if _, isLoop := x.(*ast.RangeStmt); isLoop {
						return false
					}
					if as, ok := x.(*ast.AssignStmt); ok && len(as.Rhs) == 1 {
						if call, ok := unparen(as.Rhs[0]).(*ast.CallExpr); ok && isSelfCall(call) {
							propagates = true
						}
					}
					return true
				})
				if propagates {
					k++
					var bad *ast.ReturnStmt
					// inside the loop, but not inside nested loops that do not themselves hold the self-call's result
					if r := returnsNoMatch(loop.Body); r != nil {
						bad = r
					}
					if bad == nil && i+1 < len(list) {
						if r, ok := list[i+1].(*ast.ReturnStmt); ok && returnsNoMatch(r) != nil {
							bad = r
						}
					}
					pos := loop.Pos()
					if bad != nil {
						pos = bad.Pos()
					}
					c.Check(bad == nil, rule, fi.Name()+":retry-loop#"+itoa(k), pos, orStr(ifStr(bad != nil, "the loop that retries the rest of the pattern on every suffix of the text can end in the plain no-match code: enclosing stars keep retrying, the matcher is exponential in the number of '*' (the original returns the abort-all code when the text is exhausted)"),
						"the retry loop ends only in an abort code, a match, or the propagated result of the recursive call"))
				}
			}
			// descend
			ast.Inspect(st, func(x ast.Node) bool {
				switch v := x.(type) {
				case *ast.BlockStmt:
					if ast.Node(v) != ast.Node(st) {
						visitBlock(v.List)
						return false
					}
				case *ast.CaseClause:
					visitBlock(v.Body)
					return false
				}
				return true
			})
		}
	}
	visitBlock(fi.Decl.Body.List)
	if k == 0 {
		c.Unresolved(rule, fi.Name()+":retry-loop", fi.Decl.Pos(), "no loop that calls the function itself and keeps the result found")
	}
}
