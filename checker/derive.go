package main

import (
	"go/ast"
	"go/types"
	"sort"
)

// A small flow-insensitive provenance analysis over one function: where can the value of an
// expression come from? Used to decide which path arguments are attacker-influenced.

type srcKind int

const (
	srcConst    srcKind = iota // compile-time constant or package-level variable
	srcParam                   // a parameter of the enclosing function (Obj set)
	srcDirEntry                // name obtained from a directory listing / file info
	srcHandle                  // Name() of an already opened file handle
	srcOther                   // anything else (unknown call result, field of unknown object …)
)

type source struct {
	Kind srcKind
	Obj  types.Object
}

type srcSet map[source]string // value: short description of the expression that introduced it

func (s srcSet) add(o srcSet) {
	for k, v := range o {
		if _, ok := s[k]; !ok {
			s[k] = v
		}
	}
}

func (s srcSet) params() []types.Object {
	var out []types.Object
	for k := range s {
		if k.Kind == srcParam {
			out = append(out, k.Obj)
		}
	}
	sort.Slice(out, func(i, j int) bool { return out[i].Pos() < out[j].Pos() })
	return out
}

func (s srcSet) has(k srcKind) (string, bool) {
	for src, d := range s {
		if src.Kind == k {
			return d, true
		}
	}
	return "", false
}

type deriver struct {
	info   *types.Info
	params map[types.Object]bool
	defs   map[types.Object][]ast.Expr
	memo   map[ast.Expr]srcSet
	busy   map[types.Object]bool
	// tracked local variables: reported as srcTracked sources instead of being expanded
	tracked map[types.Object]bool
	// cleanSlice, when set, may declare a slice expression clean (e.g. a prefix captured before contamination)
	cleanSlice func(sl *ast.SliceExpr) bool
}

const srcTracked srcKind = 100 // a tracked (e.g. contaminated) local variable

func newDeriver(info *types.Info, fd *ast.FuncDecl) *deriver {
	d := &deriver{info: info, params: map[types.Object]bool{}, defs: map[types.Object][]ast.Expr{}, memo: map[ast.Expr]srcSet{}, busy: map[types.Object]bool{}}
	for _, pv := range paramObjs(info, fd) {
		d.params[pv] = true
	}
	if fd.Recv != nil {
		for _, f := range fd.Recv.List {
			for _, n := range f.Names {
				if o := info.Defs[n]; o != nil {
					d.params[o] = false // receiver: known, not attacker data
				}
			}
		}
	}
	def := func(lhs ast.Expr, rhs ast.Expr) {
		if o := objOf(info, lhs); o != nil && rhs != nil {
			d.defs[o] = append(d.defs[o], rhs)
		}
	}
	if fd.Body != nil {
		ast.Inspect(fd.Body, func(n ast.Node) bool {
			switch s := n.(type) {
			case *ast.AssignStmt:
				for i, l := range s.Lhs {
					if len(s.Rhs) == len(s.Lhs) {
						def(l, s.Rhs[i])
					} else if len(s.Rhs) == 1 {
						def(l, s.Rhs[0])
					}
				}
			case *ast.ValueSpec:
				for i, nm := range s.Names {
					if len(s.Values) == len(s.Names) {
						def(nm, s.Values[i])
					} else if len(s.Values) == 1 {
						def(nm, s.Values[0])
					}
				}
			case *ast.RangeStmt:
				if s.Key != nil {
					def(s.Key, s.X)
				}
				if s.Value != nil {
					def(s.Value, s.X)
				}
			}
			return true
		})
	}
	return d
}

var pureCombinators = map[string]bool{
	"strings.Join": true, "strings.Split": true, "strings.SplitSeq": true, "strings.TrimSpace": true, "strings.TrimPrefix": true,
	"strings.TrimSuffix": true, "strings.ToLower": true, "strings.ReplaceAll": true, "strings.FieldsFunc": true, "strings.Fields": true,
	"path.Join": true, "path.Clean": true, "path.Dir": true, "path.Base": true,
	"path/filepath.Join": true, "path/filepath.Clean": true, "path/filepath.Dir": true, "path/filepath.Base": true,
	"path/filepath.ToSlash": true, "path/filepath.FromSlash": true,
	"fmt.Sprintf": true, "fmt.Sprint": true, "fmt.Sprintln": true,
	"slices.Backward": true, "slices.Values": true,
}

func isDirEntryType(t types.Type) bool {
	if t == nil {
		return false
	}
	s := types.TypeString(t, nil)
	switch s {
	case "io/fs.DirEntry", "io/fs.FileInfo", "os.FileInfo", "os.DirEntry", "[]io/fs.DirEntry", "[]io/fs.FileInfo", "[]os.FileInfo":
		return true
	}
	return false
}

func isBillyFileType(t types.Type) bool {
	if t == nil {
		return false
	}
	return types.TypeString(t, nil) == billyPath+".File"
}

func (d *deriver) derive(e ast.Expr) srcSet {
	e = unparen(e)
	if r, ok := d.memo[e]; ok {
		return r
	}
	out := srcSet{}
	d.memo[e] = out
	if tv, ok := d.info.Types[e]; ok && tv.Value != nil {
		out[source{Kind: srcConst}] = exprString(e)
		return out
	}
	switch v := e.(type) {
	case *ast.BasicLit, *ast.FuncLit:
		out[source{Kind: srcConst}] = "literal"
	case *ast.Ident:
		obj := d.info.Uses[v]
		if obj == nil {
			obj = d.info.Defs[v]
		}
		switch o := obj.(type) {
		case *types.Const, *types.Nil, *types.Func, *types.TypeName, *types.PkgName:
			out[source{Kind: srcConst}] = v.Name
		case *types.Var:
			if d.tracked[o] {
				out[source{Kind: srcTracked, Obj: o}] = v.Name
				return out
			}
			if isAttacker, isParam := d.params[o]; isParam {
				if isAttacker {
					out[source{Kind: srcParam, Obj: o}] = v.Name
				} else {
					out[source{Kind: srcConst}] = "receiver " + v.Name
				}
				// a parameter may also be reassigned in the body
				if !d.busy[o] {
					d.busy[o] = true
					for _, r := range d.defs[o] {
						out.add(d.derive(r))
					}
					d.busy[o] = false
				}
			} else if o.Pkg() != nil && o.Parent() == o.Pkg().Scope() {
				out[source{Kind: srcConst}] = "package variable " + v.Name
			} else if isDirEntryType(o.Type()) {
				out[source{Kind: srcDirEntry}] = v.Name
			} else {
				if d.busy[o] {
					return out
				}
				d.busy[o] = true
				rhss := d.defs[o]
				if len(rhss) == 0 {
					out[source{Kind: srcOther}] = "variable " + v.Name + " without visible definition"
				}
				for _, r := range rhss {
					out.add(d.derive(r))
				}
				d.busy[o] = false
			}
		default:
			out[source{Kind: srcOther}] = v.Name
		}
	case *ast.SelectorExpr:
		if sel, ok := d.info.Selections[v]; ok && sel.Kind() == types.FieldVal {
			// field of something: provenance of the container
			out.add(d.derive(v.X))
		} else if o, ok := d.info.Uses[v.Sel].(*types.Var); ok && o.Pkg() != nil && o.Parent() == o.Pkg().Scope() {
			out[source{Kind: srcConst}] = exprString(v)
		} else if _, ok := d.info.Uses[v.Sel].(*types.Const); ok {
			out[source{Kind: srcConst}] = exprString(v)
		} else {
			out.add(d.derive(v.X))
		}
	case *ast.BinaryExpr:
		out.add(d.derive(v.X))
		out.add(d.derive(v.Y))
	case *ast.UnaryExpr:
		out.add(d.derive(v.X))
	case *ast.StarExpr:
		out.add(d.derive(v.X))
	case *ast.IndexExpr:
		out.add(d.derive(v.X))
	case *ast.SliceExpr:
		if d.cleanSlice != nil && d.cleanSlice(v) {
			out[source{Kind: srcConst}] = "clean prefix " + exprString(v)
			return out
		}
		out.add(d.derive(v.X))
	case *ast.TypeAssertExpr:
		out.add(d.derive(v.X))
	case *ast.CompositeLit:
		if len(v.Elts) == 0 {
			out[source{Kind: srcConst}] = "empty literal"
		}
		for _, el := range v.Elts {
			if kv, ok := el.(*ast.KeyValueExpr); ok {
				out.add(d.derive(kv.Value))
			} else {
				out.add(d.derive(el))
			}
		}
	case *ast.CallExpr:
		// conversion
		if tv, ok := d.info.Types[v.Fun]; ok && tv.IsType() {
			for _, a := range v.Args {
				out.add(d.derive(a))
			}
			return out
		}
		if id, ok := unparen(v.Fun).(*ast.Ident); ok {
			if b, ok := d.info.Uses[id].(*types.Builtin); ok {
				switch b.Name() {
				case "append", "min", "max":
					for _, a := range v.Args {
						out.add(d.derive(a))
					}
					return out
				case "len", "cap":
					out[source{Kind: srcConst}] = "length"
					return out
				case "make", "new":
					out[source{Kind: srcConst}] = "fresh"
					return out
				}
			}
		}
		fn := Callee(d.info, v)
		if fn != nil {
			sig := fn.Type().(*types.Signature)
			if sig.Recv() != nil {
				if sel, ok := unparen(v.Fun).(*ast.SelectorExpr); ok {
					rt := d.info.Types[sel.X].Type
					switch {
					case isDirEntryType(rt):
						out[source{Kind: srcDirEntry}] = exprString(v)
						return out
					case isBillyMethod(fn, "ReadDir"):
						out[source{Kind: srcDirEntry}] = exprString(v)
						return out
					case isBillyFileType(rt) && fn.Name() == "Name":
						out[source{Kind: srcHandle}] = exprString(v)
						return out
					case isBillyMethod(fn, "Join"):
						for _, a := range v.Args {
							out.add(d.derive(a))
						}
						return out
					}
					// accessor on a value: provenance of the receiver and arguments when it returns a
					// string-like/name-like value (Name(), String(), Target(), Short() …)
					recvSrc := d.derive(sel.X)
					if _, ok := recvSrc.has(srcParam); ok || len(v.Args) == 0 {
						out.add(recvSrc)
						for _, a := range v.Args {
							out.add(d.derive(a))
						}
						if len(out) == 0 {
							out[source{Kind: srcOther}] = exprString(v)
						}
						return out
					}
				}
			} else if fn.Pkg() != nil && pureCombinators[fn.Pkg().Path()+"."+fn.Name()] {
				for _, a := range v.Args {
					out.add(d.derive(a))
				}
				if len(out) == 0 {
					out[source{Kind: srcConst}] = exprString(v)
				}
				return out
			}
		}
		out[source{Kind: srcOther}] = "result of " + exprString(v.Fun)
		for _, a := range v.Args {
			// an unknown function of attacker data is still attacker data
			for k, dsc := range d.derive(a) {
				if k.Kind == srcParam {
					out[k] = dsc
				}
			}
		}
	default:
		out[source{Kind: srcOther}] = exprString(e)
	}
	return out
}
