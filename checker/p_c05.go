package main

import (
	"go/ast"
	"go/constant"
	"go/types"
	"strconv"
	"strings"
)

func init() {
	register(&propSpec{
		ID: "C05",
		Explanation: "Decides the clause 'the documented collision-detecting SHA-1 is the implementation actually used': " +
			"(sha1-constructor) in production packages no use of crypto.Hash.New has a receiver other than a constant non-SHA1 algorithm, " +
			"and nothing imports crypto/sha1 or uses sha1.New/Sum; (sha1-registry-default) plumbing/hash.reset stores " +
			"github.com/pjbgf/sha1cd.New under crypto.SHA1, hash.New returns only what that table holds, and RegisterHash has no " +
			"production caller. Not decided: that sha1cd itself detects the published collisions (trusted dependency).",
		Assumptions: []string{"go/types resolution of callees and constants (x/tools v0.29.0)", "github.com/pjbgf/sha1cd v0.6.0 detects collisions and does not register itself with crypto.RegisterHash"},
		Run:         runC05,
	})
}

func runC05(c *Ctx) {
	p := c.P
	const rule = "sha1-constructor"
	nSites := 0
	for _, pk := range p.Pkgs {
		if !production(pk) {
			continue
		}
		info := pk.TypesInfo
		for _, file := range pk.Syntax {
			if p.isTestFile(file.Pos()) {
				continue
			}
			// imports of crypto/sha1
			for _, imp := range file.Imports {
				path, _ := strconv.Unquote(imp.Path.Value)
				if path == "crypto/sha1" {
					c.Violate(rule, shortPkg(pk.PkgPath)+":import crypto/sha1:"+baseName(p.File(file.Pos())), imp.Pos(),
						"production file imports crypto/sha1 (non-collision-detecting SHA-1)")
				}
			}
			ast.Inspect(file, func(n ast.Node) bool {
				sel, ok := n.(*ast.SelectorExpr)
				if !ok {
					return true
				}
				obj, _ := info.Uses[sel.Sel].(*types.Func)
				if obj == nil || obj.Pkg() == nil {
					return true
				}
				q := calleeQName(obj)
				switch {
				case q == "crypto.Hash.New":
					nSites++
					encl := p.enclosingFunc(pk, sel.Pos())
					name := shortPkg(pk.PkgPath) + ".<init>"
					if encl != nil {
						name = encl.Name()
						c.Analysed(encl)
					}
					tv := info.Types[sel.X]
					if tv.Value != nil {
						v, _ := constant.Int64Val(tv.Value)
						if v == 3 { // crypto.SHA1
							c.Violate(rule, name+"->crypto.SHA1.New", sel.Pos(), "crypto.SHA1.New() is crypto/sha1 (no collision detection) or panics when it is not linked; use plumbing/hash.New(crypto.SHA1)")
						} else {
							c.Hold(rule, name+"->crypto.Hash("+itoa(int(v))+").New", sel.Pos(), "constant non-SHA1 algorithm")
						}
					} else {
						c.Violate(rule, name+"->crypto.Hash(var).New", sel.Pos(), "crypto.Hash.New on a non-constant algorithm ("+exprString(sel.X)+") may construct crypto/sha1; use plumbing/hash.New")
					}
				case strings.HasPrefix(q, "crypto/sha1."):
					encl := p.enclosingFunc(pk, sel.Pos())
					name := shortPkg(pk.PkgPath)
					if encl != nil {
						name = encl.Name()
					}
					c.Violate(rule, name+"->"+q, sel.Pos(), "direct use of crypto/sha1")
				}
				return true
			})
		}
	}
	c.Extra["crypto.Hash.New_uses"] = nSites

	// every production SHA-1 hasher goes through plumbing/hash.New: count its callers with constant SHA1 for evidence
	hashNew, _ := p.lookupObj("plumbing/hash", "New").(*types.Func)
	if hashNew == nil {
		c.Unresolved("sha1-registry-default", "plumbing/hash.New", 0, "anchor not found")
		return
	}
	nNew := 0
	for _, s := range p.CallSites(func(info *types.Info, call *ast.CallExpr, callee *types.Func) bool { return callee == hashNew }) {
		if !production(s.In.Pkg) || p.isTestFile(s.Call.Pos()) {
			continue
		}
		nNew++
		c.Hold("sha1-via-registry", s.In.Name()+"->hash.New", s.Call.Pos(), "hasher obtained from the registry ("+exprString(s.Call.Args[0])+")")
	}
	c.Floor("sha1-via-registry", 8)

	// TABLE sha1-registry-default
	const r2 = "sha1-registry-default"
	reset := c.MustFunc(r2, "plumbing/hash.reset")
	algos := p.lookupObj("plumbing/hash", "algos")
	if reset != nil && algos != nil {
		info := reset.Pkg.TypesInfo
		found := false
		ast.Inspect(reset.Decl.Body, func(n ast.Node) bool {
			as, ok := n.(*ast.AssignStmt)
			if !ok || len(as.Lhs) != 1 || len(as.Rhs) != 1 {
				return true
			}
			ix, ok := as.Lhs[0].(*ast.IndexExpr)
			if !ok || objOf(info, ix.X) != algos {
				return true
			}
			tv := info.Types[ix.Index]
			if tv.Value == nil {
				return true
			}
			if v, _ := constant.Int64Val(tv.Value); v != 3 {
				return true
			}
			found = true
			var fn *types.Func
			switch r := unparen(as.Rhs[0]).(type) {
			case *ast.SelectorExpr:
				fn, _ = info.Uses[r.Sel].(*types.Func)
			case *ast.Ident:
				fn, _ = info.Uses[r].(*types.Func)
			}
			ok2 := fn != nil && fn.Pkg() != nil && fn.Pkg().Path() == "github.com/pjbgf/sha1cd" && fn.Name() == "New"
			c.Check(ok2, r2, "plumbing/hash.reset:algos[crypto.SHA1]", as.Pos(), "default registered for crypto.SHA1 is "+exprString(as.Rhs[0]))
			return true
		})
		if !found {
			c.Violate(r2, "plumbing/hash.reset:algos[crypto.SHA1]", reset.Decl.Pos(), "reset() does not register a default for crypto.SHA1")
		}
		// init calls reset
		initOK := false
		for _, f := range reset.Pkg.Syntax {
			for _, d := range f.Decls {
				if fd, ok := d.(*ast.FuncDecl); ok && fd.Name.Name == "init" && fd.Recv == nil {
					walkCalls(fd.Body, true, func(call *ast.CallExpr) {
						if Callee(info, call) == reset.Obj {
							initOK = true
						}
					})
				}
			}
		}
		c.Check(initOK, r2, "plumbing/hash.init->reset", reset.Decl.Pos(), "package init installs the defaults")
		// writes to algos only in reset and RegisterHash
		for _, f := range reset.Pkg.Syntax {
			ast.Inspect(f, func(n ast.Node) bool {
				as, ok := n.(*ast.AssignStmt)
				if !ok {
					return true
				}
				for _, l := range as.Lhs {
					var base ast.Expr = l
					if ix, ok := l.(*ast.IndexExpr); ok {
						base = ix.X
					}
					if objOf(info, base) == algos {
						encl := p.enclosingFunc(reset.Pkg, as.Pos())
						nm := "<pkg>"
						if encl != nil {
							nm = encl.Name()
						}
						if p.isTestFile(as.Pos()) {
							continue
						}
						c.Check(nm == "plumbing/hash.reset" || nm == "plumbing/hash.RegisterHash", r2, "algos-writer:"+nm, as.Pos(), "the registry is written only by reset and RegisterHash")
					}
				}
				return true
			})
		}
	}
	// hash.New returns the registry entry
	if hn := p.FuncOf(hashNew); hn != nil && algos != nil {
		c.Analysed(hn)
		info := hn.Pkg.TypesInfo
		okRet := true
		nRet := 0
		ast.Inspect(hn.Decl.Body, func(n ast.Node) bool {
			rs, ok := n.(*ast.ReturnStmt)
			if !ok || len(rs.Results) != 1 {
				return true
			}
			nRet++
			call, ok := unparen(rs.Results[0]).(*ast.CallExpr)
			if !ok {
				okRet = false
				return true
			}
			// callee must be a variable assigned from algos[h]
			v := objOf(info, call.Fun)
			if v == nil {
				okRet = false
				return true
			}
			fromAlgos := false
			ast.Inspect(hn.Decl.Body, func(m ast.Node) bool {
				as, ok := m.(*ast.AssignStmt)
				if !ok {
					return true
				}
				for i, l := range as.Lhs {
					if objOf(info, l) == v && i == 0 && len(as.Rhs) == 1 {
						if ix, ok := unparen(as.Rhs[0]).(*ast.IndexExpr); ok && objOf(info, ix.X) == algos {
							fromAlgos = true
						}
					}
				}
				return true
			})
			if !fromAlgos {
				okRet = false
			}
			return true
		})
		c.Check(okRet && nRet > 0, r2, "plumbing/hash.New:returns-registry-entry", hn.Decl.Pos(), "hash.New returns only the constructor stored in the registry")
	}
	// RegisterHash has no production caller
	if rh, _ := p.lookupObj("plumbing/hash", "RegisterHash").(*types.Func); rh != nil {
		n := 0
		for _, s := range p.CallSites(func(info *types.Info, call *ast.CallExpr, callee *types.Func) bool { return callee == rh }) {
			if production(s.In.Pkg) && !p.isTestFile(s.Call.Pos()) {
				n++
				c.Violate(r2, s.In.Name()+"->hash.RegisterHash", s.Call.Pos(), "production code overrides the registered hash implementation")
			}
		}
		if n == 0 {
			c.Hold(r2, "RegisterHash:no-production-caller", rh.Pos(), "only applications can override the default")
		}
	} else {
		c.Unresolved(r2, "plumbing/hash.RegisterHash", 0, "anchor not found")
	}
	c.Floor(r2, 4)
}

func baseName(s string) string {
	if i := strings.LastIndex(s, "/"); i >= 0 {
		return s[i+1:]
	}
	return s
}
