package main

import (
	"fmt"
	"go/ast"
	"os"
	"go/token"
	"go/types"

	"golang.org/x/tools/go/cfg"
)

func init() {
	register(&propSpec{
		ID: "C44",
		Explanation: "Decides the conservation clause of rename detection ('no change is lost or invented'), not the tree diff itself: " +
			"(every-change-accounted) in the methods of renameDetector, every loop that redistributes changes (ranges over a []*Change and appends its element somewhere) either consumes the element — an append that mentions it, " +
			"or a &Change{…} built from it — on every path through the body, or passes it over on an edge whose condition is purely about the element's identity (nil test, comparison with another change, membership in a set keyed by it). " +
			"A branch that pairs the element only if a further condition holds and has no else (found and fixed: an addition that matched several deletions of another mode vanished) is a path without consumption. " +
			"(used-mark-implies-pairing) once a change is entered into a used-set (which makes the leftover loops skip it) it is paired or appended on every path to the end of the iteration; " +
			"(result-is-union) detect returns a list built from all three of added, deleted and modified; (both-advance-only-on-equal-paths) merkletrie.DiffTreeContext advances both of its iterators together only across the fact from.Compare(to) == 0 " +
			"and enters the same-name handler from the equal clause of that comparison only (found and fixed: a skip-worktree entry was matched by base name and swallowed an unrelated node); (sibling-order-is-path-order, shared with C27) the iterators' sibling order (frame.byName.Less) and DiffTree's alignment order (noder.Path.Compare) both compare the plain Name() only. Not decided: the rest of merkletrie.DiffTree, similarity scores, which pairs are chosen.",
		Assumptions: []string{},
		Run:         runC44,
	})
}

func runC44(c *Ctx) {
	p := c.P
	const r1 = "every-change-accounted"
	pk := p.Pkg(objShort)
	if pk == nil {
		c.Unresolved(r1, "package "+objShort, 0, "not loaded")
		return
	}
	info := pk.TypesInfo
	chT := p.lookupType(objShort, "Change")
	rdT := p.lookupType(objShort, "renameDetector")
	if chT == nil || rdT == nil {
		c.Unresolved(r1, objShort+".Change/renameDetector", 0, "type not found")
		return
	}
	isChangePtr := func(t types.Type) bool {
		pt, ok := t.(*types.Pointer)
		return ok && types.Identical(pt.Elem(), chT.Type())
	}
	n1 := 0
	// the methods of renameDetector and every function of the package they call (compactChanges and the like)
	var rdMethods []*FuncInfo
	for _, fi := range p.FuncsIn(objShort) {
		if fi.Decl.Body != nil && !p.isTestFile(fi.Decl.Pos()) && recvTypeName(fi.Obj) == rdT {
			rdMethods = append(rdMethods, fi)
		}
	}
	inScope := map[*FuncInfo]bool{}
	for _, g := range p.staticClosure(rdMethods) {
		if g.Pkg == pk {
			inScope[g] = true
		}
	}
	for _, fi := range p.FuncsIn(objShort) {
		if fi.Decl.Body == nil || p.isTestFile(fi.Decl.Pos()) {
			continue
		}
		if !inScope[fi] {
			continue
		}
		var f *Flow
		k := 0
		ast.Inspect(fi.Decl.Body, func(n ast.Node) bool {
			rs, ok := n.(*ast.RangeStmt)
			if !ok || rs.Value == nil {
				return true
			}
			el := objOf(info, rs.Value)
			if el == nil || !isChangePtr(el.Type()) {
				return true
			}
			consumes := func(nd ast.Node) bool {
				found := false
				ast.Inspect(nd, func(m ast.Node) bool {
					switch v := m.(type) {
					case *ast.FuncLit:
						return false
					case *ast.CallExpr:
						if nodeHasBuiltin(info, v, "append") {
							for _, a := range v.Args[1:] {
								if usesObj(info, a, el) {
									found = true
								}
							}
						}
					case *ast.CompositeLit:
						if tv := info.Types[v]; tv.Type != nil && types.Identical(tv.Type, chT.Type()) && usesObj(info, v, el) {
							found = true
						}
					}
					return !found
				})
				return found
			}
			// only loops that redistribute their element
			redistributes := false
			ast.Inspect(rs.Body, func(m ast.Node) bool {
				if st, ok := m.(ast.Stmt); ok && consumes(st) {
					redistributes = true
				}
				return !redistributes
			})
			if !redistributes {
				return true
			}
			if f == nil {
				f = p.FlowOf(fi)
			}
			// the loop header block (its first successor is the body, the back edge returns to it)
			var head *cfg.Block
			for _, b := range f.G.Blocks {
				if b.Kind == cfg.KindRangeLoop && b.Stmt == ast.Stmt(rs) {
					head = b
				}
			}
			if head == nil || len(head.Succs) == 0 {
				return true
			}
			k++
			n1++
			c.Analysed(fi)
			// comma-ok flags of lookups keyed by the element
			okFlags := map[types.Object]bool{}
			ast.Inspect(rs.Body, func(m ast.Node) bool {
				if as, ok := m.(*ast.AssignStmt); ok && len(as.Lhs) == 2 && len(as.Rhs) == 1 {
					if ix, ok := unparen(as.Rhs[0]).(*ast.IndexExpr); ok && objOf(info, ix.Index) == el {
						if o := objOf(info, as.Lhs[1]); o != nil {
							okFlags[o] = true
						}
					}
				}
				return true
			})
			var identityOnly func(e ast.Expr) bool
			identityOnly = func(e ast.Expr) bool {
				e = unparen(e)
				switch v := e.(type) {
				case *ast.Ident:
					return okFlags[objOf(info, v)]
				case *ast.UnaryExpr:
					return v.Op == token.NOT && identityOnly(v.X)
				case *ast.BinaryExpr:
					switch v.Op {
					case token.LAND, token.LOR:
						return identityOnly(v.X) && identityOnly(v.Y)
					case token.EQL, token.NEQ:
						side := func(x ast.Expr) bool { return objOf(info, x) == el }
						other := func(x ast.Expr) bool { return isNil(info, x) || objOf(info, x) != nil }
						return (side(v.X) && other(v.Y)) || (side(v.Y) && other(v.X))
					}
				}
				return false
			}
			block := func(b *cfg.Block, i int) bool {
				if len(b.Succs) != 2 || len(b.Nodes) == 0 {
					return false
				}
				cond, ok := b.Nodes[len(b.Nodes)-1].(ast.Expr)
				return ok && identityOnly(cond)
			}
			hd := head
			h := f.Search(SearchOpts{Starts: []Loc{{head.Succs[0], 0}}, Barrier: consumes, BlockEdge: block, BlockSink: func(b *cfg.Block) bool { return b == hd }})
			if h != nil && os.Getenv("GV_DEBUG") != "" {
				for _, b := range h.Path {
					fmt.Fprintf(os.Stderr, "  block %d %s succs=%d\n", b.Index, b.String(), len(b.Succs))
					for _, nd := range b.Nodes {
						fmt.Fprintf(os.Stderr, "     %s\n", p.Pos(nd.Pos()))
					}
				}
			}
			c.Check(h == nil, r1, fi.Name()+":range "+exprString(rs.X)+ifStr(k > 1, "#"+itoa(k)), rs.Pos(), orStr(ifStr(h != nil, "a path through the loop body takes the next `"+el.Name()+"` without having appended this one anywhere or paired it into a Change, and not because of its identity (nil, already used): the change disappears from the result"),
				"on every path the element is appended somewhere, paired into a Change, or passed over for its identity only"))
			return true
		})
	}
	c.Floor(r1, 4)

	// A change that is marked as used (entered into a set the leftover loops consult) is dropped by those loops; the
	// mark therefore commits the function to pairing it. From every `used[x] = …` no path may reach the next iteration
	// or the end of the function without x having been appended somewhere or built into a reported Change.
	const r1b = "used-mark-implies-pairing"
	n1b := 0
	for _, fi := range p.FuncsIn(objShort) {
		if fi.Decl.Body == nil || p.isTestFile(fi.Decl.Pos()) || recvTypeName(fi.Obj) != rdT {
			continue
		}
		var f *Flow
		k := 0
		ast.Inspect(fi.Decl.Body, func(n ast.Node) bool {
			as, ok := n.(*ast.AssignStmt)
			if !ok || len(as.Lhs) != 1 {
				return true
			}
			ix, ok := unparen(as.Lhs[0]).(*ast.IndexExpr)
			if !ok {
				return true
			}
			mt, ok := info.Types[ix.X].Type.Underlying().(*types.Map)
			if !ok || !isChangePtr(mt.Key()) {
				return true
			}
			x := objOf(info, ix.Index)
			if x == nil {
				return true
			}
			if f == nil {
				f = p.FlowOf(fi)
			}
			consumes := func(nd ast.Node) bool {
				found := false
				ast.Inspect(nd, func(m ast.Node) bool {
					switch v := m.(type) {
					case *ast.FuncLit:
						return false
					case *ast.CallExpr:
						if nodeHasBuiltin(info, v, "append") {
							for _, a := range v.Args[1:] {
								if usesObj(info, a, x) {
									found = true
								}
							}
						}
					case *ast.CompositeLit:
						if tv := info.Types[v]; tv.Type != nil && types.Identical(tv.Type, chT.Type()) && usesObj(info, v, x) {
							found = true
						}
					}
					return !found
				})
				return found
			}
			for _, loc := range f.Locs(func(nd ast.Node) bool { return nd == ast.Node(as) }) {
				k++
				n1b++
				c.Analysed(fi)
				// the innermost loop around the mark
				var head *cfg.Block
				var bestSpan token.Pos = 1 << 40
				for _, b := range f.G.Blocks {
					if (b.Kind == cfg.KindRangeLoop || b.Kind == cfg.KindForLoop) && b.Stmt != nil && b.Stmt.Pos() <= as.Pos() && as.End() <= b.Stmt.End() {
						if span := b.Stmt.End() - b.Stmt.Pos(); span < bestSpan {
							bestSpan, head = span, b
						}
					}
				}
				hd := head
				h := f.Search(SearchOpts{Starts: []Loc{After(loc)}, Barrier: consumes, Sink: func(nd ast.Node) bool { _, isRet := nd.(*ast.ReturnStmt); return isRet },
					BlockSink: func(b *cfg.Block) bool { return hd != nil && b == hd }})
				c.Check(h == nil, r1b, fi.Name()+":"+exprString(as.Lhs[0])+ifStr(k > 1, "#"+itoa(k)), as.Pos(), orStr(ifStr(h != nil, "`"+x.Name()+"` is marked as used and the iteration can end without pairing it into a Change or appending it anywhere: the leftover loops skip marked changes, so it vanishes from the result"),
					"after the mark the change is always paired or appended before the iteration ends"))
			}
			return true
		})
	}
	c.Floor(r1b, 2)

	// merkletrie.DiffTree walks two trees with two iterators that can stand in different directories. Both may be
	// advanced together only when they stand on the same path: in DiffTreeContext a nextBoth() is reachable only across
	// the fact `from.Compare(to) == 0`, and the same-name handler is entered from the switch on that comparison only
	// (default / 0 clause). Matching by base name lets a skipped entry a/z swallow an unrelated top-level z.
	checkBothAdvanceOnEqualPaths(c, "both-advance-only-on-equal-paths")
	c.Floor("both-advance-only-on-equal-paths", 3)
	checkSiblingOrder(c, "sibling-order-is-path-order")

	const r2 = "result-is-union"
	if det := c.MustFunc(r2, objShort+".(*renameDetector).detect"); det != nil {
		c.Analysed(det)
		var ret types.Object
		ast.Inspect(det.Decl.Body, func(n ast.Node) bool {
			if r, ok := n.(*ast.ReturnStmt); ok && len(r.Results) == 2 {
				if o := objOf(info, r.Results[0]); o != nil {
					ret = o
				}
			}
			return true
		})
		for _, fld := range []string{"added", "deleted", "modified"} {
			fv := fieldOf(rdT, fld)
			ok := false
			ast.Inspect(det.Decl.Body, func(n ast.Node) bool {
				as, isAs := n.(*ast.AssignStmt)
				if !isAs || len(as.Lhs) != 1 || ret == nil || objOf(info, as.Lhs[0]) != ret || len(as.Rhs) != 1 {
					return true
				}
				if call, isCall := unparen(as.Rhs[0]).(*ast.CallExpr); isCall && nodeHasBuiltin(info, call, "append") && fv != nil && usesObj(info, call, fv) {
					ok = true
				}
				return true
			})
			c.Check(ok, r2, det.Name()+":"+fld, det.Decl.Pos(), orStr(ifStr(!ok, "the list detect returns is not extended with d."+fld+": those changes are lost"), "d."+fld+" is appended to the result"))
		}
	}
	c.Floor(r2, 3)
}

// checkBothAdvanceOnEqualPaths is shared by C44 (tree diffs) and C27 (status is a diff of index and worktree).
func checkBothAdvanceOnEqualPaths(c *Ctx, r3 string) {
	p := c.P
	if mpk := p.Pkg("utils/merkletrie"); mpk == nil {
		c.Unresolved(r3, "package utils/merkletrie", 0, "not loaded")
	} else {
		minfo := mpk.TypesInfo
		isCompareCall := func(e ast.Expr) bool {
			call, ok := unparen(e).(*ast.CallExpr)
			if !ok || len(call.Args) != 1 {
				return false
			}
			sel, ok := unparen(call.Fun).(*ast.SelectorExpr)
			return ok && sel.Sel.Name == "Compare"
		}
		isZero := func(e ast.Expr) bool {
			tv := minfo.Types[e]
			return tv.Value != nil && tv.Value.ExactString() == "0"
		}
		samePath := FactGuard(func(_ *Flow, fact Fact) bool {
			be, ok := unparen(fact.Atom).(*ast.BinaryExpr)
			if !ok {
				return false
			}
			eq := (be.Op == token.EQL && fact.Truth) || (be.Op == token.NEQ && !fact.Truth)
			return eq && ((isCompareCall(be.X) && isZero(be.Y)) || (isCompareCall(be.Y) && isZero(be.X)))
		})
		if dt := c.MustFunc(r3, "utils/merkletrie.DiffTreeContext"); dt != nil {
			c.Analysed(dt)
			f := p.FlowOf(dt)
			k := 0
			for _, loc := range f.Locs(CallNode(false, callsNamed(minfo, "nextBoth"))) {
				k++
				h := f.UnguardedPath(samePath, loc)
				c.Check(h == nil, r3, dt.Name()+"->nextBoth"+ifStr(k > 1, "#"+itoa(k)), loc.B.Nodes[loc.Idx].Pos(), orStr(ifStr(h != nil, "both iterators are advanced although their paths were not compared as a whole (`from.Compare(to) == 0`): nodes of different directories that share a base name are taken for the same node and one of them drops out of the diff"),
					"both iterators advance only where their full paths are equal"))
			}
			if k == 0 {
				c.Hold(r3, dt.Name(), dt.Decl.Pos(), "DiffTreeContext never advances both iterators itself")
			}
		}
		// the same-name handler is entered from the comparison switch only
		if same := p.Func("utils/merkletrie.diffNodesSameName"); same != nil {
			k := 0
			for _, fi := range p.FuncsIn("utils/merkletrie") {
				if fi.Decl.Body == nil || p.isTestFile(fi.Decl.Pos()) {
					continue
				}
				ast.Inspect(fi.Decl.Body, func(n ast.Node) bool {
					sw, ok := n.(*ast.SwitchStmt)
					if !ok {
						// a call outside any switch is found below
						return true
					}
					for _, cl := range sw.Body.List {
						cc := cl.(*ast.CaseClause)
						if nodeHasCall(&ast.BlockStmt{List: cc.Body}, false, func(call *ast.CallExpr) bool { return Callee(minfo, call) == same.Obj }) == nil {
							continue
						}
						k++
						okClause := sw.Tag != nil && isCompareCall(sw.Tag) && (len(cc.List) == 0 || (len(cc.List) == 1 && isZero(cc.List[0])))
						c.Analysed(fi)
						c.Check(okClause, r3, fi.Name()+"->diffNodesSameName", cc.Pos(), orStr(ifStr(!okClause, "the handler for two nodes of the same path is not entered from the equal-paths clause of a switch on from.Compare(to)"), "entered from the equal-paths clause of the switch on from.Compare(to)"))
					}
					return true
				})
			}
			if k == 0 {
				c.Unresolved(r3, "utils/merkletrie.diffNodesSameName:callers", same.Decl.Pos(), "no call from a switch clause found")
			}
		}
	}
}
