package main

import (
	"fmt"
	"go/ast"
	"os"
	"go/token"
	"go/types"

	"golang.org/x/tools/go/cfg"
)

func init() {
	register(&propSpec{
		ID: "C44",
		Explanation: "Decides the conservation clause of rename detection ('no change is lost or invented'), not the tree diff itself: " +
			"(every-change-accounted) in the methods of renameDetector, every loop that redistributes changes (ranges over a []*Change and appends its element somewhere) either consumes the element — an append that mentions it, " +
			"or a &Change{…} built from it — on every path through the body, or passes it over on an edge whose condition is purely about the element's identity (nil test, comparison with another change, membership in a set keyed by it). " +
			"A branch that pairs the element only if a further condition holds and has no else (found and fixed: an addition that matched several deletions of another mode vanished) is a path without consumption. " +
			"(result-is-union) detect returns a list built from all three of added, deleted and modified. Not decided: merkletrie.DiffTree, similarity scores, which pairs are chosen.",
		Assumptions: []string{},
		Run:         runC44,
	})
}

func runC44(c *Ctx) {
	p := c.P
	const r1 = "every-change-accounted"
	pk := p.Pkg(objShort)
	if pk == nil {
		c.Unresolved(r1, "package "+objShort, 0, "not loaded")
		return
	}
	info := pk.TypesInfo
	chT := p.lookupType(objShort, "Change")
	rdT := p.lookupType(objShort, "renameDetector")
	if chT == nil || rdT == nil {
		c.Unresolved(r1, objShort+".Change/renameDetector", 0, "type not found")
		return
	}
	isChangePtr := func(t types.Type) bool {
		pt, ok := t.(*types.Pointer)
		return ok && types.Identical(pt.Elem(), chT.Type())
	}
	n1 := 0
	for _, fi := range p.FuncsIn(objShort) {
		if fi.Decl.Body == nil || p.isTestFile(fi.Decl.Pos()) {
			continue
		}
		if recvTypeName(fi.Obj) != rdT && fi.Decl.Name.Name != "compactChanges" {
			continue
		}
		var f *Flow
		k := 0
		ast.Inspect(fi.Decl.Body, func(n ast.Node) bool {
			rs, ok := n.(*ast.RangeStmt)
			if !ok || rs.Value == nil {
				return true
			}
			el := objOf(info, rs.Value)
			if el == nil || !isChangePtr(el.Type()) {
				return true
			}
			consumes := func(nd ast.Node) bool {
				found := false
				ast.Inspect(nd, func(m ast.Node) bool {
					switch v := m.(type) {
					case *ast.FuncLit:
						return false
					case *ast.CallExpr:
						if nodeHasBuiltin(info, v, "append") {
							for _, a := range v.Args[1:] {
								if usesObj(info, a, el) {
									found = true
								}
							}
						}
					case *ast.CompositeLit:
						if tv := info.Types[v]; tv.Type != nil && types.Identical(tv.Type, chT.Type()) && usesObj(info, v, el) {
							found = true
						}
					}
					return !found
				})
				return found
			}
			// only loops that redistribute their element
			redistributes := false
			ast.Inspect(rs.Body, func(m ast.Node) bool {
				if st, ok := m.(ast.Stmt); ok && consumes(st) {
					redistributes = true
				}
				return !redistributes
			})
			if !redistributes {
				return true
			}
			if f == nil {
				f = p.FlowOf(fi)
			}
			// the loop header block (its first successor is the body, the back edge returns to it)
			var head *cfg.Block
			for _, b := range f.G.Blocks {
				if b.Kind == cfg.KindRangeLoop && b.Stmt == ast.Stmt(rs) {
					head = b
				}
			}
			if head == nil || len(head.Succs) == 0 {
				return true
			}
			k++
			n1++
			c.Analysed(fi)
			// comma-ok flags of lookups keyed by the element
			okFlags := map[types.Object]bool{}
			ast.Inspect(rs.Body, func(m ast.Node) bool {
				if as, ok := m.(*ast.AssignStmt); ok && len(as.Lhs) == 2 && len(as.Rhs) == 1 {
					if ix, ok := unparen(as.Rhs[0]).(*ast.IndexExpr); ok && objOf(info, ix.Index) == el {
						if o := objOf(info, as.Lhs[1]); o != nil {
							okFlags[o] = true
						}
					}
				}
				return true
			})
			var identityOnly func(e ast.Expr) bool
			identityOnly = func(e ast.Expr) bool {
				e = unparen(e)
				switch v := e.(type) {
				case *ast.Ident:
					return okFlags[objOf(info, v)]
				case *ast.UnaryExpr:
					return v.Op == token.NOT && identityOnly(v.X)
				case *ast.BinaryExpr:
					switch v.Op {
					case token.LAND, token.LOR:
						return identityOnly(v.X) && identityOnly(v.Y)
					case token.EQL, token.NEQ:
						side := func(x ast.Expr) bool { return objOf(info, x) == el }
						other := func(x ast.Expr) bool { return isNil(info, x) || objOf(info, x) != nil }
						return (side(v.X) && other(v.Y)) || (side(v.Y) && other(v.X))
					}
				}
				return false
			}
			block := func(b *cfg.Block, i int) bool {
				if len(b.Succs) != 2 || len(b.Nodes) == 0 {
					return false
				}
				cond, ok := b.Nodes[len(b.Nodes)-1].(ast.Expr)
				return ok && identityOnly(cond)
			}
			hd := head
			h := f.Search(SearchOpts{Starts: []Loc{{head.Succs[0], 0}}, Barrier: consumes, BlockEdge: block, BlockSink: func(b *cfg.Block) bool { return b == hd }})
			if h != nil && os.Getenv("GV_DEBUG") != "" {
				for _, b := range h.Path {
					fmt.Fprintf(os.Stderr, "  block %d %s succs=%d\n", b.Index, b.String(), len(b.Succs))
					for _, nd := range b.Nodes {
						fmt.Fprintf(os.Stderr, "     %s\n", p.Pos(nd.Pos()))
					}
				}
			}
			c.Check(h == nil, r1, fi.Name()+":range "+exprString(rs.X)+ifStr(k > 1, "#"+itoa(k)), rs.Pos(), orStr(ifStr(h != nil, "a path through the loop body takes the next `"+el.Name()+"` without having appended this one anywhere or paired it into a Change, and not because of its identity (nil, already used): the change disappears from the result"),
				"on every path the element is appended somewhere, paired into a Change, or passed over for its identity only"))
			return true
		})
	}
	c.Floor(r1, 4)

	const r2 = "result-is-union"
	if det := c.MustFunc(r2, objShort+".(*renameDetector).detect"); det != nil {
		c.Analysed(det)
		var ret types.Object
		ast.Inspect(det.Decl.Body, func(n ast.Node) bool {
			if r, ok := n.(*ast.ReturnStmt); ok && len(r.Results) == 2 {
				if o := objOf(info, r.Results[0]); o != nil {
					ret = o
				}
			}
			return true
		})
		for _, fld := range []string{"added", "deleted", "modified"} {
			fv := fieldOf(rdT, fld)
			ok := false
			ast.Inspect(det.Decl.Body, func(n ast.Node) bool {
				as, isAs := n.(*ast.AssignStmt)
				if !isAs || len(as.Lhs) != 1 || ret == nil || objOf(info, as.Lhs[0]) != ret || len(as.Rhs) != 1 {
					return true
				}
				if call, isCall := unparen(as.Rhs[0]).(*ast.CallExpr); isCall && nodeHasBuiltin(info, call, "append") && fv != nil && usesObj(info, call, fv) {
					ok = true
				}
				return true
			})
			c.Check(ok, r2, det.Name()+":"+fld, det.Decl.Pos(), orStr(ifStr(!ok, "the list detect returns is not extended with d."+fld+": those changes are lost"), "d."+fld+" is appended to the result"))
		}
	}
	c.Floor(r2, 3)
}
