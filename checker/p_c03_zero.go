package main

import (
	"go/ast"
	"go/types"
)

// checkSignatureAtOffsetZero (C03): a tag made with an empty message (`git tag -s -m ""`) has its inline signature at
// offset 0 of the body; git extracts it (parse_signed_buffer returns 0, a valid position). In Tag.Decode the statement
// that stores `body[at:]` in the Signature field must therefore be reachable when at == 0: a guard such as `at > 0`
// takes 0 for "no signature", leaves the Signature empty and the block in the Message, and Verify refuses a tag that
// git verify-tag accepts.
// Decided only when the lower bound of the slice is a plain variable assigned once; anything else is "not decided".
func checkSignatureAtOffsetZero(c *Ctx, rule string) {
	p := c.P
	fi := c.MustFunc(rule, objShort+".(*Tag).Decode")
	if fi == nil {
		return
	}
	info := fi.Pkg.TypesInfo
	c.Analysed(fi)
	tn := p.lookupType(objShort, "Tag")
	var sigField *types.Var
	if tn != nil {
		sigField = fieldOf(tn, "Signature")
	}
	if sigField == nil {
		c.Unresolved(rule, objShort+".Tag.Signature", fi.Decl.Pos(), "field not found")
		return
	}
	// t.Signature = …body[at:]…
	var store *ast.AssignStmt
	var at types.Object
	ast.Inspect(fi.Decl.Body, func(n ast.Node) bool {
		as, ok := n.(*ast.AssignStmt)
		if !ok || len(as.Lhs) != 1 || len(as.Rhs) != 1 {
			return true
		}
		sel, ok := unparen(as.Lhs[0]).(*ast.SelectorExpr)
		if !ok || info.Uses[sel.Sel] != types.Object(sigField) {
			return true
		}
		ast.Inspect(as.Rhs[0], func(m ast.Node) bool {
			if sl, ok := m.(*ast.SliceExpr); ok && sl.Low != nil && sl.High == nil {
				if o := objOf(info, sl.Low); o != nil {
					store, at = as, o
				}
			}
			return true
		})
		return true
	})
	if store == nil {
		c.Hold(rule, fi.Name(), fi.Decl.Pos(), "not decided: no statement of the form Signature = body[at:] with a plain variable as lower bound")
		return
	}
	nAssign := 0
	ast.Inspect(fi.Decl.Body, func(n ast.Node) bool {
		switch v := n.(type) {
		case *ast.AssignStmt:
			for _, l := range v.Lhs {
				if objOf(info, l) == at {
					nAssign++
				}
			}
		case *ast.IncDecStmt:
			if objOf(info, v.X) == at {
				nAssign += 2
			}
		}
		return true
	})
	if nAssign != 1 {
		c.Hold(rule, fi.Name(), store.Pos(), "not decided: the lower bound `"+at.Name()+"` is assigned more than once")
		return
	}
	f := p.FlowOf(fi)
	as := &condAssume{info: info, ival: map[types.Object]int64{at: 0}}
	locs := f.Locs(func(n ast.Node) bool { return n == ast.Node(store) })
	if len(locs) == 0 {
		c.Hold(rule, fi.Name(), store.Pos(), "not decided: the store is not a node of the function's flow graph")
		return
	}
	reach := f.Search(SearchOpts{Starts: []Loc{f.Entry()}, Sink: func(n ast.Node) bool { return n == ast.Node(store) }, BlockEdge: as.blockEdge()})
	c.Check(reach != nil, rule, fi.Name()+":Signature=body["+at.Name()+":]", store.Pos(), orStr(ifStr(reach == nil, "with "+at.Name()+" == 0 (signature block at the start of the body: a signed tag with an empty message) the statement that extracts the signature is unreachable: the Signature stays empty, the block stays in the Message, and a tag git verify-tag accepts is refused"),
		"the signature is extracted also when it starts at offset 0 of the body (signed tag with an empty message)"))
}
