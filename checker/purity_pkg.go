package main

// PackagesStateFree: StateFree with every declared function of the given packages as a root. Used for codec packages:
// nothing in the package, nor anything it calls statically, keeps content in package-level state between calls.
func PackagesStateFree(c *Ctx, rule string, shorts ...string) {
	var roots []*FuncInfo
	for _, s := range shorts {
		fs := c.P.FuncsIn(s)
		if len(fs) == 0 {
			c.Unresolved(rule, "package "+s, 0, "package has no functions / not loaded")
			continue
		}
		for _, fi := range fs {
			if fi.Decl.Body != nil && !c.P.isTestFile(fi.Decl.Pos()) {
				roots = append(roots, fi)
			}
		}
	}
	stateFree(c, rule, roots, poolAllow, "packages "+joinComma(shorts))
}

func joinComma(s []string) string {
	out := ""
	for i, x := range s {
		if i > 0 {
			out += ","
		}
		out += x
	}
	return out
}
