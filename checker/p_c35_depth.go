package main

import (
	"go/ast"
	"go/constant"
	"go/types"
	"strings"
)

// checkDepthLinesIndependent (C35): an upload request may carry `deepen-since` and `deepen-not` lines together (git
// accepts the combination, DepthRequest documents it, the decoder reads both); only `deepen <n>` excludes the others.
// An encoder that treats the three kinds as alternatives drops the deepen-not lines of such a request, and what is read
// back — by go-git or by git — asks for another shallow boundary. Decided by scenario evaluation of
// UploadRequest.Encode's CFG: with Deepen == 0, DeepenSince set and one DeepenNot entry, a path writes the
// `deepen-since` line and then reaches the write of a `deepen-not` line.
func checkDepthLinesIndependent(c *Ctx, rule string) {
	p := c.P
	const pp = "plumbing/protocol/packp"
	fi := c.MustFunc(rule, pp+".(*UploadRequest).Encode")
	if fi == nil {
		return
	}
	c.Analysed(fi)
	info := fi.Pkg.TypesInfo
	dr := p.lookupType(pp, "DepthRequest")
	if dr == nil {
		c.Unresolved(rule, pp+".DepthRequest", fi.Decl.Pos(), "type not found")
		return
	}
	deepen, since, not := fieldOf(dr, "Deepen"), fieldOf(dr, "DeepenSince"), fieldOf(dr, "DeepenNot")
	if deepen == nil || since == nil || not == nil {
		c.Unresolved(rule, pp+".DepthRequest.{Deepen,DeepenSince,DeepenNot}", fi.Decl.Pos(), "fields not found")
		return
	}
	a := &condAssume{info: info,
		ival: map[types.Object]int64{deepen: 0},
		lenv: map[types.Object]int64{not: 1},
		call: func(call *ast.CallExpr) int {
			sel, ok := unparen(call.Fun).(*ast.SelectorExpr)
			if !ok || sel.Sel.Name != "IsZero" {
				return -1
			}
			if s2, ok := unparen(sel.X).(*ast.SelectorExpr); ok && info.Uses[s2.Sel] == types.Object(since) {
				return 0 // DeepenSince is set
			}
			return -1
		}}
	writes := func(prefix string) NodePred {
		return func(n ast.Node) bool {
			if _, isStmt := n.(ast.Stmt); !isStmt {
				return false
			}
			return nodeHasCall(n, false, func(call *ast.CallExpr) bool {
				for _, arg := range call.Args {
					if tv := info.Types[arg]; tv.Value != nil && tv.Value.Kind() == constant.String && strings.HasPrefix(constant.StringVal(tv.Value), prefix) {
						return true
					}
				}
				return false
			}) != nil
		}
	}
	f := p.FlowOf(fi)
	h1 := f.Search(SearchOpts{Starts: []Loc{f.Entry()}, Sink: writes("deepen-since "), BlockEdge: a.blockEdge()})
	if h1 == nil {
		c.Violate(rule, fi.Name()+":deepen-since", fi.Decl.Pos(), "with DeepenSince set (and no commit depth) no `deepen-since` line is written")
		return
	}
	h2 := f.Search(SearchOpts{Starts: []Loc{After(h1.Loc)}, Sink: writes("deepen-not "), BlockEdge: a.blockEdge()})
	c.Check(h2 != nil, rule, fi.Name()+":since-then-not", h1.Node.Pos(), orStr(ifStr(h2 == nil, "after the `deepen-since` line has been written no `deepen-not` line can be written: a request that carries both (git and the decoder accept the combination) loses its deepen-not lines on the wire"),
		"a request with DeepenSince and DeepenNot gets both kinds of lines"))
}
