package main

import (
	"go/ast"
	"go/constant"
	"go/token"
	"go/types"
	"strings"
)

func init() {
	register(&propSpec{
		ID: "C47",
		Explanation: "Decides the refusal clauses of abbreviated-ID resolution, not agreement with git rev-parse on every expression: (ambiguous-abbreviation-refused) in Repository.ResolveRevision the loop over the candidates of an abbreviated object ID " +
			"contains a rejecting return guarded by an inequality of the hashes of two commits (the commit already chosen and the one a further candidate names), so an abbreviation naming several commits is refused rather than resolved to the first; " +
			"(minimum-abbreviation) resolveHashPrefix yields no candidate for fewer than four hex digits (git's MINIMUM_ABBREV); (id-before-ref) the candidates of the abbreviated ID are appended before the hash of a reference with the same name, " +
			"and an unresolvable name ends in ErrReferenceNotFound; (last-digit-checked) resolveHashPrefix returns the candidates found for the whole bytes of a prefix unfiltered only on paths where the prefix is known to have an even number of digits, so the last digit of an odd-length abbreviation is always compared; the revision parser package keeps no package-level state. Not decided: ~, ^, ^{/regex} navigation, reflog syntax, disambiguation by object type beyond 'names a commit'.",
		Assumptions: []string{},
		Run:         runC47,
	})
}

func runC47(c *Ctx) {
	p := c.P
	PackagesStateFree(c, "codec-state-free", "internal/revision")
	pk := p.Pkg("git")
	if pk == nil {
		c.Unresolved("ambiguous-abbreviation-refused", "package git", 0, "not loaded")
		return
	}
	info := pk.TypesInfo
	const r1 = "ambiguous-abbreviation-refused"
	rr := c.MustFunc(r1, "git.(*Repository).ResolveRevision")
	rp := c.MustFunc(r1, "git.(*Repository).resolveHashPrefix")
	if rr == nil || rp == nil {
		return
	}
	c.Analysed(rr)
	c.Analysed(rp)
	// the candidate list: the local that receives resolveHashPrefix(...)'s result (through append)
	var cands types.Object
	var prefixAppend, refAppend token.Pos
	ast.Inspect(rr.Decl.Body, func(n ast.Node) bool {
		as, ok := n.(*ast.AssignStmt)
		if !ok || len(as.Lhs) != 1 || len(as.Rhs) != 1 || !nodeHasBuiltin(info, as.Rhs[0], "append") {
			return true
		}
		if nodeHasCall(as.Rhs[0], false, func(call *ast.CallExpr) bool { return Callee(info, call) == rp.Obj }) != nil {
			cands = objOf(info, as.Lhs[0])
			prefixAppend = as.Pos()
		}
		return true
	})
	if cands == nil {
		c.Unresolved(r1, rr.Name()+":candidates", rr.Decl.Pos(), "the list receiving resolveHashPrefix's result was not found")
		return
	}
	ast.Inspect(rr.Decl.Body, func(n ast.Node) bool {
		as, ok := n.(*ast.AssignStmt)
		if ok && len(as.Lhs) == 1 && objOf(info, as.Lhs[0]) == cands && as.Pos() != prefixAppend && nodeHasBuiltin(info, as.Rhs[0], "append") {
			refAppend = as.Pos()
		}
		return true
	})
	// the loop over the candidates
	var loop *ast.RangeStmt
	ast.Inspect(rr.Decl.Body, func(n ast.Node) bool {
		if rs, ok := n.(*ast.RangeStmt); ok && objOf(info, rs.X) == cands {
			loop = rs
		}
		return true
	})
	if loop == nil {
		c.Unresolved(r1, rr.Name()+":candidate-loop", rr.Decl.Pos(), "no loop over the candidate list found")
	} else {
		isCommitHash := func(e ast.Expr) bool {
			sel, ok := unparen(e).(*ast.SelectorExpr)
			if !ok || sel.Sel.Name != "Hash" {
				return false
			}
			tv := info.Types[sel.X]
			return tv.Type != nil && strings.HasSuffix(tv.Type.String(), "object.Commit")
		}
		refuses := false
		ast.Inspect(loop.Body, func(n ast.Node) bool {
			ifs, ok := n.(*ast.IfStmt)
			if !ok {
				return true
			}
			cmp := false
			ast.Inspect(ifs.Cond, func(m ast.Node) bool {
				if be, ok := m.(*ast.BinaryExpr); ok && be.Op == token.NEQ && isCommitHash(be.X) && isCommitHash(be.Y) {
					cmp = true
				}
				return true
			})
			if !cmp {
				return true
			}
			for _, s := range ifs.Body.List {
				if r, ok := s.(*ast.ReturnStmt); ok && returnsNonNilError(info, rr.Decl.Body, r) {
					refuses = true
				}
			}
			return true
		})
		c.Check(refuses, r1, rr.Name(), loop.Pos(), orStr(ifStr(!refuses, "the candidates of an abbreviated ID are tried in turn and the first commit wins: an abbreviation that names several commits resolves to an arbitrary one, git refuses it"),
			"a further candidate that names a different commit makes the resolution fail"))
	}
	c.Floor(r1, 1)

	const r2 = "minimum-abbreviation"
	{
		params := paramObjs(info, rp.Decl)
		ok := false
		ast.Inspect(rp.Decl.Body, func(n ast.Node) bool {
			ifs, isIf := n.(*ast.IfStmt)
			if !isIf || len(params) == 0 {
				return true
			}
			be, isBin := unparen(ifs.Cond).(*ast.BinaryExpr)
			if !isBin {
				return true
			}
			call, isCall := unparen(be.X).(*ast.CallExpr)
			if !isCall || len(call.Args) != 1 || objOf(info, call.Args[0]) != types.Object(params[0]) {
				return true
			}
			if id, isID := unparen(call.Fun).(*ast.Ident); !isID || id.Name != "len" {
				return true
			}
			tv := info.Types[be.Y]
			if tv.Value == nil {
				return true
			}
			k, _ := constant.Int64Val(constant.ToInt(tv.Value))
			bound := int64(-1)
			switch be.Op {
			case token.LSS:
				bound = k
			case token.LEQ:
				bound = k + 1
			}
			if bound != 4 {
				return true
			}
			for _, s := range ifs.Body.List {
				if r, isRet := s.(*ast.ReturnStmt); isRet && len(r.Results) == 1 && isNil(info, r.Results[0]) {
					ok = true
				}
			}
			return true
		})
		c.Check(ok, r2, rp.Name(), rp.Decl.Pos(), orStr(ifStr(!ok, "prefixes of fewer than four hex digits are expanded: 'ab' resolves to whatever commit starts with it, git does not take it for an object ID"), "fewer than four hex digits yield no candidate"))
	}
	c.Floor(r2, 1)

	const r3 = "id-before-ref"
	c.Check(prefixAppend.IsValid() && refAppend.IsValid() && prefixAppend < refAppend, r3, rr.Name()+":order", rr.Decl.Pos(), "the abbreviated ID's candidates are appended before the hash of a reference of the same name")
	notFound := p.lookupObj("plumbing", "ErrReferenceNotFound")
	usesNF := false
	ast.Inspect(rr.Decl.Body, func(n ast.Node) bool {
		if r, ok := n.(*ast.ReturnStmt); ok && notFound != nil && usesObj(info, r, notFound) {
			usesNF = true
		}
		return true
	})
	c.Check(usesNF, r3, rr.Name()+":unresolvable", rr.Decl.Pos(), "a name that resolves to nothing ends in ErrReferenceNotFound")
	c.Floor(r3, 2)

	// The store can only be asked for whole bytes, so for an odd number of digits the candidates match the prefix minus
	// its last digit. They may be returned as they come only where the prefix is known to have an even length; on
	// every other path each candidate has to be compared with the whole prefix.
	const r4 = "last-digit-checked"
	{
		params := paramObjs(info, rp.Decl)
		var raw types.Object
		ast.Inspect(rp.Decl.Body, func(n ast.Node) bool {
			as, ok := n.(*ast.AssignStmt)
			if !ok || len(as.Lhs) != 1 || len(as.Rhs) != 1 {
				return true
			}
			if call, ok := unparen(as.Rhs[0]).(*ast.CallExpr); ok {
				if fn := Callee(info, call); fn != nil && fn.Name() == "expandPartialHash" {
					raw = objOf(info, as.Lhs[0])
				}
			}
			return true
		})
		isLenOfParam := func(e ast.Expr) bool {
			call, ok := unparen(e).(*ast.CallExpr)
			if !ok || len(call.Args) != 1 || len(params) == 0 || objOf(info, call.Args[0]) != types.Object(params[0]) {
				return false
			}
			id, ok := unparen(call.Fun).(*ast.Ident)
			return ok && id.Name == "len"
		}
		isLen := func(e ast.Expr) bool {
			call, ok := unparen(e).(*ast.CallExpr)
			if !ok || len(call.Args) != 1 {
				return false
			}
			id, ok := unparen(call.Fun).(*ast.Ident)
			return ok && id.Name == "len"
		}
		isZero := func(e ast.Expr) bool {
			tv := info.Types[e]
			return tv.Value != nil && constant.Sign(constant.ToInt(tv.Value)) == 0
		}
		evenKnown := FactGuard(func(f *Flow, fact Fact) bool {
			be, ok := unparen(fact.Atom).(*ast.BinaryExpr)
			if !ok {
				return false
			}
			eq := (be.Op == token.EQL && fact.Truth) || (be.Op == token.NEQ && !fact.Truth)
			if !eq {
				return false
			}
			// len(evenPart) == len(prefix)
			if (isLenOfParam(be.X) && isLen(be.Y)) || (isLenOfParam(be.Y) && isLen(be.X)) {
				return true
			}
			// len(prefix)%2 == 0, len(prefix)&1 == 0
			for _, pr := range [][2]ast.Expr{{be.X, be.Y}, {be.Y, be.X}} {
				if m, ok := unparen(pr[0]).(*ast.BinaryExpr); ok && (m.Op == token.REM || m.Op == token.AND) && isLenOfParam(m.X) && isZero(pr[1]) {
					return true
				}
			}
			return false
		})
		if raw == nil || len(params) == 0 {
			c.Hold(r4, rp.Name(), rp.Decl.Pos(), "not decided: no list received from expandPartialHash in this function")
		} else {
			f := c.P.FlowOf(rp)
			n := 0
			for _, loc := range f.Locs(func(nd ast.Node) bool {
				r, ok := nd.(*ast.ReturnStmt)
				return ok && len(r.Results) == 1 && objOf(info, r.Results[0]) == raw
			}) {
				n++
				h := f.UnguardedPath(evenKnown, loc)
				c.Check(h == nil, r4, rp.Name()+":return "+raw.Name()+ifStr(n > 1, "#"+itoa(n)), loc.B.Nodes[loc.Idx].Pos(), orStr(ifStr(h != nil, "the candidates found for the whole bytes of the prefix are returned on a path where the prefix may have an odd number of digits: its last digit is never compared, an abbreviation with a wrong last digit resolves to an object git does not find"),
					"the unfiltered candidates are returned only where the prefix has an even number of digits"))
			}
			if n == 0 {
				c.Hold(r4, rp.Name(), rp.Decl.Pos(), "the list received from expandPartialHash is never returned as it is")
			}
		}
	}
	c.Floor(r4, 1)
}
