package main

import (
	"go/ast"
	"go/constant"
	"go/token"
	"go/types"
	"strings"
)

func init() {
	register(&propSpec{
		ID: "C47",
		Explanation: "Decides the refusal clauses of abbreviated-ID resolution, not agreement with git rev-parse on every expression: (ambiguous-abbreviation-refused) in Repository.ResolveRevision the loop over the candidates of an abbreviated object ID " +
			"contains a rejecting return guarded by an inequality of the hashes of two commits (the commit already chosen and the one a further candidate names), so an abbreviation naming several commits is refused rather than resolved to the first; " +
			"(minimum-abbreviation) resolveHashPrefix yields no candidate for fewer than four hex digits (git's MINIMUM_ABBREV); (name-lookup-order) git's order full ID, reference, abbreviated ID: with the name not a full ID and a reference of that name found, no path reaches the append of the abbreviation's candidates without the reference's hash appended before (found and fixed: a branch called `311188e` lost to the commit 311188e…), with a full ID the ID comes first, " +
			"and an unresolvable name ends in ErrReferenceNotFound; (regex-search-youngest-first) `^{/regex}` searches the history with the committer-time iterator, so the youngest matching commit wins as in git (found and fixed: preorder took the first match along the first-parent chain); (bang-special-only-at-regex-start) every case of the parser's `^{/…}` scanner that looks at the exclamation mark also requires the regex read so far to be empty, so `!!` and `!-` mean something only right after the slash, and the case that recognises a type word (`^{commit}` …) is tied to the start of the brace content (found and fixed, 5b0b3e6: `^{/fix commit}` was parsed as `^{commit}`); (every-component-handled) the type switch over the parsed components has a default clause that returns an error and the type-peel case refuses trees and blobs (found and fixed, 1735fb7: `HEAD@{1}`, `HEAD:path`, `master@{upstream}`, `HEAD^{tree}` were skipped and resolved to HEAD); (last-digit-checked) resolveHashPrefix returns the candidates found for the whole bytes of a prefix unfiltered only on paths where the prefix is known to have an even number of digits, so the last digit of an odd-length abbreviation is always compared; the revision parser package keeps no package-level state. Not decided: ~, ^, ^{/regex} navigation, reflog syntax, disambiguation by object type beyond 'names a commit'.",
		Assumptions: []string{},
		Run:         runC47,
	})
}

func runC47(c *Ctx) {
	p := c.P
	PackagesStateFree(c, "codec-state-free", "internal/revision")
	checkBangOnlyAtRegexStart(c, "bang-special-only-at-regex-start")
	pk := p.Pkg("git")
	if pk == nil {
		c.Unresolved("ambiguous-abbreviation-refused", "package git", 0, "not loaded")
		return
	}
	info := pk.TypesInfo
	const r1 = "ambiguous-abbreviation-refused"
	rr := c.MustFunc(r1, "git.(*Repository).ResolveRevision")
	rp := c.MustFunc(r1, "git.(*Repository).resolveHashPrefix")
	if rr == nil || rp == nil {
		return
	}
	c.Analysed(rr)
	c.Analysed(rp)
	// the candidate list: the local that receives resolveHashPrefix(...)'s result (through append)
	var cands types.Object
	var prefixAppend, refAppend token.Pos
	ast.Inspect(rr.Decl.Body, func(n ast.Node) bool {
		as, ok := n.(*ast.AssignStmt)
		if !ok || len(as.Lhs) != 1 || len(as.Rhs) != 1 || !nodeHasBuiltin(info, as.Rhs[0], "append") {
			return true
		}
		if nodeHasCall(as.Rhs[0], false, func(call *ast.CallExpr) bool { return Callee(info, call) == rp.Obj }) != nil {
			cands = objOf(info, as.Lhs[0])
			prefixAppend = as.Pos()
		}
		return true
	})
	if cands == nil {
		c.Unresolved(r1, rr.Name()+":candidates", rr.Decl.Pos(), "the list receiving resolveHashPrefix's result was not found")
		return
	}
	ast.Inspect(rr.Decl.Body, func(n ast.Node) bool {
		as, ok := n.(*ast.AssignStmt)
		if ok && len(as.Lhs) == 1 && objOf(info, as.Lhs[0]) == cands && as.Pos() != prefixAppend && nodeHasBuiltin(info, as.Rhs[0], "append") {
			refAppend = as.Pos()
		}
		return true
	})
	// the loop over the candidates
	var loop *ast.RangeStmt
	ast.Inspect(rr.Decl.Body, func(n ast.Node) bool {
		if rs, ok := n.(*ast.RangeStmt); ok && objOf(info, rs.X) == cands {
			loop = rs
		}
		return true
	})
	if loop == nil {
		c.Unresolved(r1, rr.Name()+":candidate-loop", rr.Decl.Pos(), "no loop over the candidate list found")
	} else {
		isCommitHash := func(e ast.Expr) bool {
			sel, ok := unparen(e).(*ast.SelectorExpr)
			if !ok || sel.Sel.Name != "Hash" {
				return false
			}
			tv := info.Types[sel.X]
			return tv.Type != nil && strings.HasSuffix(tv.Type.String(), "object.Commit")
		}
		refuses := false
		ast.Inspect(loop.Body, func(n ast.Node) bool {
			ifs, ok := n.(*ast.IfStmt)
			if !ok {
				return true
			}
			cmp := false
			ast.Inspect(ifs.Cond, func(m ast.Node) bool {
				if be, ok := m.(*ast.BinaryExpr); ok && be.Op == token.NEQ && isCommitHash(be.X) && isCommitHash(be.Y) {
					cmp = true
				}
				return true
			})
			if !cmp {
				return true
			}
			for _, s := range ifs.Body.List {
				if r, ok := s.(*ast.ReturnStmt); ok && returnsNonNilError(info, rr.Decl.Body, r) {
					refuses = true
				}
			}
			return true
		})
		c.Check(refuses, r1, rr.Name(), loop.Pos(), orStr(ifStr(!refuses, "the candidates of an abbreviated ID are tried in turn and the first commit wins: an abbreviation that names several commits resolves to an arbitrary one, git refuses it"),
			"a further candidate that names a different commit makes the resolution fail"))
	}
	c.Floor(r1, 1)

	const r2 = "minimum-abbreviation"
	{
		params := paramObjs(info, rp.Decl)
		ok := false
		ast.Inspect(rp.Decl.Body, func(n ast.Node) bool {
			ifs, isIf := n.(*ast.IfStmt)
			if !isIf || len(params) == 0 {
				return true
			}
			be, isBin := unparen(ifs.Cond).(*ast.BinaryExpr)
			if !isBin {
				return true
			}
			call, isCall := unparen(be.X).(*ast.CallExpr)
			if !isCall || len(call.Args) != 1 || objOf(info, call.Args[0]) != types.Object(params[0]) {
				return true
			}
			if id, isID := unparen(call.Fun).(*ast.Ident); !isID || id.Name != "len" {
				return true
			}
			tv := info.Types[be.Y]
			if tv.Value == nil {
				return true
			}
			k, _ := constant.Int64Val(constant.ToInt(tv.Value))
			bound := int64(-1)
			switch be.Op {
			case token.LSS:
				bound = k
			case token.LEQ:
				bound = k + 1
			}
			if bound != 4 {
				return true
			}
			for _, s := range ifs.Body.List {
				if r, isRet := s.(*ast.ReturnStmt); isRet && len(r.Results) == 1 && isNil(info, r.Results[0]) {
					ok = true
				}
			}
			return true
		})
		c.Check(ok, r2, rp.Name(), rp.Decl.Pos(), orStr(ifStr(!ok, "prefixes of fewer than four hex digits are expanded: 'ab' resolves to whatever commit starts with it, git does not take it for an object ID"), "fewer than four hex digits yield no candidate"))
	}
	c.Floor(r2, 1)

	// git looks a name up as a full object ID first, then as a reference, and only then as an abbreviated ID
	// (get_oid_basic before get_short_oid): a branch called `311188e` wins over the commit 311188e…, a full ID wins
	// over a branch named like it. Scenario evaluation over ResolveRevision's CFG: with the name not a full ID and the
	// reference found, no path reaches the append of the prefix candidates without passing an append of the reference's
	// hash; with the name a full ID, no append of the reference's hash is reached before the prefix append.
	const r3 = "name-lookup-order"
	{
		_ = refAppend
		f := p.FlowOf(rr)
		var refErr types.Object
		ast.Inspect(rr.Decl.Body, func(n ast.Node) bool {
			as, ok := n.(*ast.AssignStmt)
			if !ok || len(as.Lhs) != 2 || len(as.Rhs) != 1 {
				return true
			}
			if call, ok := unparen(as.Rhs[0]).(*ast.CallExpr); ok {
				if fn := Callee(info, call); fn != nil && fn.Name() == "expandRef" {
					refErr = objOf(info, as.Lhs[1])
				}
			}
			return true
		})
		isCandAppend := func(n ast.Node) (*ast.AssignStmt, bool) {
			as, ok := n.(*ast.AssignStmt)
			if !ok || len(as.Lhs) != 1 || len(as.Rhs) != 1 || objOf(info, as.Lhs[0]) != cands || !nodeHasBuiltin(info, as.Rhs[0], "append") {
				return nil, false
			}
			return as, true
		}
		isPrefixAppend := func(n ast.Node) bool {
			as, ok := isCandAppend(n)
			return ok && nodeHasCall(as.Rhs[0], false, func(call *ast.CallExpr) bool { return Callee(info, call) == rp.Obj }) != nil
		}
		isRefAppend := func(n ast.Node) bool {
			as, ok := isCandAppend(n)
			return ok && !isPrefixAppend(n) && nodeHasCall(as.Rhs[0], false, func(call *ast.CallExpr) bool {
				fn := Callee(info, call)
				return fn != nil && fn.Name() == "Hash"
			}) != nil
		}
		if refErr == nil || len(f.Locs(isRefAppend)) == 0 || len(f.Locs(isPrefixAppend)) == 0 {
			c.Unresolved(r3, rr.Name()+":candidates", rr.Decl.Pos(), "the reference lookup (expandRef) or the two kinds of appends to the candidate list were not found")
		} else {
			scenario := func(fullID int) *condAssume {
				return &condAssume{info: info, nilv: map[types.Object]bool{refErr: true}, call: func(call *ast.CallExpr) int {
					if fn := Callee(info, call); fn != nil && fn.Name() == "IsHash" && fn.Pkg() != nil && shortPkg(fn.Pkg().Path()) == "plumbing" {
						return fullID
					}
					return -1
				}}
			}
			hA := f.Search(SearchOpts{Starts: []Loc{f.Entry()}, Sink: isPrefixAppend, Barrier: isRefAppend, BlockEdge: scenario(0).blockEdge()})
			c.Check(hA == nil, r3, rr.Name()+":reference-before-abbreviation", orPos(hitPos(hA), rr.Decl.Pos()), orStr(ifStr(hA != nil, "for a name that is not a full object ID and that a reference carries, the abbreviated-ID candidates are put before the reference: `311188e` resolves to the commit 311188e… although a branch is called so (git rev-parse gives the branch, with a warning)"),
				"a reference is looked up before the name is taken for an abbreviated ID"))
			hB := f.Search(SearchOpts{Starts: []Loc{f.Entry()}, Sink: isRefAppend, Barrier: isPrefixAppend, BlockEdge: scenario(1).blockEdge()})
			c.Check(hB == nil, r3, rr.Name()+":full-id-before-reference", orPos(hitPos(hB), rr.Decl.Pos()), orStr(ifStr(hB != nil, "for a full object ID the reference of the same name is put before the ID: git gives the object"),
				"a full object ID wins over a reference of the same name"))
		}
	}
	notFound := p.lookupObj("plumbing", "ErrReferenceNotFound")
	usesNF := false
	ast.Inspect(rr.Decl.Body, func(n ast.Node) bool {
		if r, ok := n.(*ast.ReturnStmt); ok && notFound != nil && usesObj(info, r, notFound) {
			usesNF = true
		}
		return true
	})
	c.Check(usesNF, r3, rr.Name()+":unresolvable", rr.Decl.Pos(), "a name that resolves to nothing ends in ErrReferenceNotFound")
	c.Floor(r3, 2)

	// no component of the parsed expression is skipped: the type switch over the items has a default clause that returns
	// an error, and the ^{type} case refuses the types that are not satisfied by a commit. Skipped, `HEAD@{1}`,
	// `HEAD:path`, `HEAD^{tree}` and `master@{upstream}` all resolved to HEAD itself.
	const r3c = "every-component-handled"
	{
		var sw *ast.TypeSwitchStmt
		ast.Inspect(rr.Decl.Body, func(n ast.Node) bool {
			if ts, ok := n.(*ast.TypeSwitchStmt); ok && sw == nil {
				sw = ts
			}
			return sw == nil
		})
		if sw == nil {
			c.Unresolved(r3c, rr.Name()+":item-switch", rr.Decl.Pos(), "no type switch over the parsed items found")
		} else {
			defaultRefuses, typeCaseRefuses := false, false
			for _, st := range sw.Body.List {
				cc := st.(*ast.CaseClause)
				refuses := false
				for _, s := range cc.Body {
					ast.Inspect(s, func(m ast.Node) bool {
						if r, ok := m.(*ast.ReturnStmt); ok && returnsNonNilError(info, rr.Decl.Body, r) {
							refuses = true
						}
						return true
					})
				}
				if len(cc.List) == 0 {
					defaultRefuses = refuses
					continue
				}
				for _, e := range cc.List {
					if tv := info.Types[e]; tv.Type != nil && strings.HasSuffix(tv.Type.String(), "revision.CaretType") {
						typeCaseRefuses = refuses
					}
				}
			}
			c.Check(defaultRefuses, r3c, rr.Name()+":default", sw.Pos(), orStr(ifStr(!defaultRefuses, "a component of the expression that no case handles is skipped: `HEAD@{1}`, `HEAD:LICENSE` and `master@{upstream}` resolve to HEAD itself, an arbitrary commit as far as the expression is concerned (git gives another object or an error)"),
				"an unhandled component ends in an error"))
			c.Check(typeCaseRefuses, r3c, rr.Name()+":type-peel", sw.Pos(), orStr(ifStr(!typeCaseRefuses, "`^{tree}` and `^{blob}` are not refused: `HEAD^{tree}` resolves to the commit, git rev-parse 'HEAD^{tree}^{commit}' fails"),
				"a type peel to something that is not a commit is refused"))
		}
	}

	// `<rev>^{/regex}` is the youngest matching commit reachable from <rev> (git pops candidates by commit date).
	const r3b = "regex-search-youngest-first"
	{
		var ctor *types.Func
		var at token.Pos
		ast.Inspect(rr.Decl.Body, func(n ast.Node) bool {
			cc, ok := n.(*ast.CaseClause)
			if !ok || len(cc.List) != 1 {
				return true
			}
			if tv := info.Types[cc.List[0]]; tv.Type == nil || !strings.HasSuffix(tv.Type.String(), "revision.CaretReg") {
				return true
			}
			for _, st := range cc.Body {
				walkCalls(st, false, func(call *ast.CallExpr) {
					fn := Callee(info, call)
					if fn != nil && fn.Pkg() != nil && shortPkg(fn.Pkg().Path()) == objShort && strings.HasPrefix(fn.Name(), "NewCommit") && ctor == nil {
						ctor, at = fn, call.Pos()
					}
				})
			}
			return false
		})
		if ctor == nil {
			c.Unresolved(r3b, rr.Name()+":regex-case", rr.Decl.Pos(), "the history iterator of the ^{/regex} case was not found")
		} else {
			ok := ctor.Name() == "NewCommitIterCTime"
			c.Check(ok, r3b, rr.Name()+":regex-case", at, orStr(ifStr(!ok, "the history is searched with "+ctor.Name()+", not in committer-time order: where two sides of a merge both hold a match, the one found first is not the youngest, git rev-parse gives the youngest"),
				"the history is searched youngest commit first"))
		}
	}

	// The store can only be asked for whole bytes, so for an odd number of digits the candidates match the prefix minus
	// its last digit. They may be returned as they come only where the prefix is known to have an even length; on
	// every other path each candidate has to be compared with the whole prefix.
	const r4 = "last-digit-checked"
	{
		params := paramObjs(info, rp.Decl)
		var raw types.Object
		ast.Inspect(rp.Decl.Body, func(n ast.Node) bool {
			as, ok := n.(*ast.AssignStmt)
			if !ok || len(as.Lhs) != 1 || len(as.Rhs) != 1 {
				return true
			}
			if call, ok := unparen(as.Rhs[0]).(*ast.CallExpr); ok {
				if fn := Callee(info, call); fn != nil && fn.Name() == "expandPartialHash" {
					raw = objOf(info, as.Lhs[0])
				}
			}
			return true
		})
		isLenOfParam := func(e ast.Expr) bool {
			call, ok := unparen(e).(*ast.CallExpr)
			if !ok || len(call.Args) != 1 || len(params) == 0 || objOf(info, call.Args[0]) != types.Object(params[0]) {
				return false
			}
			id, ok := unparen(call.Fun).(*ast.Ident)
			return ok && id.Name == "len"
		}
		isLen := func(e ast.Expr) bool {
			call, ok := unparen(e).(*ast.CallExpr)
			if !ok || len(call.Args) != 1 {
				return false
			}
			id, ok := unparen(call.Fun).(*ast.Ident)
			return ok && id.Name == "len"
		}
		isZero := func(e ast.Expr) bool {
			tv := info.Types[e]
			return tv.Value != nil && constant.Sign(constant.ToInt(tv.Value)) == 0
		}
		evenKnown := FactGuard(func(f *Flow, fact Fact) bool {
			be, ok := unparen(fact.Atom).(*ast.BinaryExpr)
			if !ok {
				return false
			}
			eq := (be.Op == token.EQL && fact.Truth) || (be.Op == token.NEQ && !fact.Truth)
			if !eq {
				return false
			}
			// len(evenPart) == len(prefix)
			if (isLenOfParam(be.X) && isLen(be.Y)) || (isLenOfParam(be.Y) && isLen(be.X)) {
				return true
			}
			// len(prefix)%2 == 0, len(prefix)&1 == 0
			for _, pr := range [][2]ast.Expr{{be.X, be.Y}, {be.Y, be.X}} {
				if m, ok := unparen(pr[0]).(*ast.BinaryExpr); ok && (m.Op == token.REM || m.Op == token.AND) && isLenOfParam(m.X) && isZero(pr[1]) {
					return true
				}
			}
			return false
		})
		if raw == nil || len(params) == 0 {
			c.Hold(r4, rp.Name(), rp.Decl.Pos(), "not decided: no list received from expandPartialHash in this function")
		} else {
			f := c.P.FlowOf(rp)
			n := 0
			for _, loc := range f.Locs(func(nd ast.Node) bool {
				r, ok := nd.(*ast.ReturnStmt)
				return ok && len(r.Results) == 1 && objOf(info, r.Results[0]) == raw
			}) {
				n++
				h := f.UnguardedPath(evenKnown, loc)
				c.Check(h == nil, r4, rp.Name()+":return "+raw.Name()+ifStr(n > 1, "#"+itoa(n)), loc.B.Nodes[loc.Idx].Pos(), orStr(ifStr(h != nil, "the candidates found for the whole bytes of the prefix are returned on a path where the prefix may have an odd number of digits: its last digit is never compared, an abbreviation with a wrong last digit resolves to an object git does not find"),
					"the unfiltered candidates are returned only where the prefix has an even number of digits"))
			}
			if n == 0 {
				c.Hold(r4, rp.Name(), rp.Decl.Pos(), "the list received from expandPartialHash is never returned as it is")
			}
		}
	}
	c.Floor(r4, 1)
}
