package main

import (
	"go/ast"
	"go/token"
	"go/types"

	"golang.org/x/tools/go/cfg"
)

// Flow is the control-flow graph of one function body with type information.
type Flow struct {
	P    *Prog
	Info *types.Info
	G    *cfg.CFG
	Body *ast.BlockStmt
	// switchOf maps a case expression to its switch statement (to know whether it is tagless).
	switchOf map[ast.Expr]*ast.SwitchStmt
	predMap  map[*cfg.Block][]*cfg.Block
}

// noReturnCallees: calls that never return (block ends).
func (p *Prog) mayReturn(info *types.Info) func(*ast.CallExpr) bool {
	return func(call *ast.CallExpr) bool {
		if id, ok := unparen(call.Fun).(*ast.Ident); ok {
			if b, ok := info.Uses[id].(*types.Builtin); ok && b.Name() == "panic" {
				return false
			}
		}
		if fn := Callee(info, call); fn != nil && fn.Pkg() != nil {
			q := fn.Pkg().Path() + "." + fn.Name()
			switch q {
			case "os.Exit", "log.Fatal", "log.Fatalf", "log.Fatalln", "runtime.Goexit":
				return false
			}
		}
		return true
	}
}

// NewFlow builds the CFG of a function body (of a declaration or a literal).
func (p *Prog) NewFlow(info *types.Info, body *ast.BlockStmt) *Flow {
	f := &Flow{P: p, Info: info, Body: body, switchOf: map[ast.Expr]*ast.SwitchStmt{}}
	f.G = cfg.New(body, p.mayReturn(info))
	ast.Inspect(body, func(n ast.Node) bool {
		if sw, ok := n.(*ast.SwitchStmt); ok {
			for _, cl := range sw.Body.List {
				for _, e := range cl.(*ast.CaseClause).List {
					f.switchOf[e] = sw
				}
			}
		}
		return true
	})
	return f
}

func (p *Prog) FlowOf(fi *FuncInfo) *Flow {
	if fi.Decl.Body == nil {
		return nil
	}
	return p.NewFlow(fi.Pkg.TypesInfo, fi.Decl.Body)
}

// Fact is an atomic condition known to have a truth value on an edge.
type Fact struct {
	Atom  ast.Expr
	Truth bool
}

// implied decomposes cond under the assumption that it evaluated to truth.
func implied(cond ast.Expr, truth bool, out *[]Fact) {
	cond = unparen(cond)
	switch e := cond.(type) {
	case *ast.UnaryExpr:
		if e.Op == token.NOT {
			implied(e.X, !truth, out)
			return
		}
	case *ast.BinaryExpr:
		if e.Op == token.LAND && truth {
			implied(e.X, true, out)
			implied(e.Y, true, out)
			return
		}
		if e.Op == token.LOR && !truth {
			implied(e.X, false, out)
			implied(e.Y, false, out)
			return
		}
		if e.Op == token.LAND || e.Op == token.LOR {
			return // nothing certain
		}
	}
	*out = append(*out, Fact{cond, truth})
}

// EdgeFacts returns the atomic facts known on edge b -> b.Succs[i].
// For blocks that do not end in a boolean condition it returns nil.
func (f *Flow) EdgeFacts(b *cfg.Block, i int) []Fact {
	if len(b.Succs) != 2 || len(b.Nodes) == 0 {
		return nil
	}
	cond, ok := b.Nodes[len(b.Nodes)-1].(ast.Expr)
	if !ok {
		return nil
	}
	if sw := f.switchOf[cond]; sw != nil && sw.Tag != nil {
		// tagged switch: "tag == cond" on the true edge
		if i == 0 {
			return []Fact{{&ast.BinaryExpr{X: sw.Tag, Op: token.EQL, Y: cond, OpPos: cond.Pos()}, true}}
		}
		return []Fact{{&ast.BinaryExpr{X: sw.Tag, Op: token.EQL, Y: cond, OpPos: cond.Pos()}, false}}
	}
	tv, ok := f.Info.Types[cond]
	if !ok || tv.Type == nil {
		return nil
	}
	if bt, ok := tv.Type.Underlying().(*types.Basic); !ok || bt.Info()&types.IsBoolean == 0 {
		return nil
	}
	var out []Fact
	implied(cond, i == 0, &out)
	return out
}

// lastAssignIn finds, scanning block nodes backwards from index `before`, the RHS expression last
// assigned to obj (via := or = or var spec). Multi-value assignment from one call returns that call.
func (f *Flow) lastAssignIn(b *cfg.Block, before int, obj types.Object) ast.Expr {
	for i := before - 1; i >= 0; i-- {
		switch s := b.Nodes[i].(type) {
		case *ast.AssignStmt:
			for li, lhs := range s.Lhs {
				id, ok := unparen(lhs).(*ast.Ident)
				if !ok {
					continue
				}
				o := f.Info.Defs[id]
				if o == nil {
					o = f.Info.Uses[id]
				}
				if o != obj {
					continue
				}
				if len(s.Rhs) == len(s.Lhs) {
					return s.Rhs[li]
				}
				return s.Rhs[0]
			}
		case *ast.ValueSpec:
			for li, id := range s.Names {
				if f.Info.Defs[id] == obj {
					if len(s.Values) == len(s.Names) {
						return s.Values[li]
					}
					if len(s.Values) == 1 {
						return s.Values[0]
					}
				}
			}
		}
	}
	return nil
}

// objOf returns the object an identifier expression denotes.
func objOf(info *types.Info, e ast.Expr) types.Object {
	id, ok := unparen(e).(*ast.Ident)
	if !ok {
		return nil
	}
	if o := info.Uses[id]; o != nil {
		return o
	}
	return info.Defs[id]
}

func isNil(info *types.Info, e ast.Expr) bool {
	id, ok := unparen(e).(*ast.Ident)
	if !ok {
		return false
	}
	_, isNil := info.Uses[id].(*types.Nil)
	return isNil
}

// valueSource resolves an expression to the call it was (last, in this block) assigned from, looking
// through a local variable. Returns the expression itself if it is a call.
func (f *Flow) valueSource(b *cfg.Block, idx int, e ast.Expr) ast.Expr {
	e = unparen(e)
	if _, ok := e.(*ast.CallExpr); ok {
		return e
	}
	if obj := objOf(f.Info, e); obj != nil {
		if src := f.lastAssignIn(b, idx, obj); src != nil {
			return unparen(src)
		}
	}
	return e
}

// preds returns the predecessor map of the CFG (computed once).
func (f *Flow) preds() map[*cfg.Block][]*cfg.Block {
	if f.predMap == nil {
		f.predMap = map[*cfg.Block][]*cfg.Block{}
		for _, b := range f.G.Blocks {
			for _, s := range b.Succs {
				f.predMap[s] = append(f.predMap[s], b)
			}
		}
	}
	return f.predMap
}

// reachingAssigns collects, for a variable not assigned in block b, the last assignment in each
// predecessor chain (up to depth blocks back). complete is false when some path has no assignment in range.
func (f *Flow) reachingAssigns(b *cfg.Block, obj types.Object, depth int) (srcs []ast.Expr, complete bool) {
	complete = true
	seen := map[*cfg.Block]bool{b: true}
	var walk func(x *cfg.Block, d int)
	walk = func(x *cfg.Block, d int) {
		ps := f.preds()[x]
		if len(ps) == 0 || d == 0 {
			complete = false
			return
		}
		for _, pb := range ps {
			if seen[pb] || !pb.Live {
				continue
			}
			seen[pb] = true
			if src := f.lastAssignIn(pb, len(pb.Nodes), obj); src != nil {
				srcs = append(srcs, src)
				continue
			}
			walk(pb, d-1)
		}
	}
	walk(b, depth)
	return
}

// PassEdge decides whether edge (b, i) establishes a guard.
type PassEdge func(f *Flow, b *cfg.Block, i int) bool

// ErrGuard: the edge on which an error produced by a call matching pred is known to be nil.
// Recognised: `if err := G(..); err != nil {` (false edge), `err = G(..); if err != nil`, `if G(..) != nil`,
// `== nil` (true edge), switch-case forms, and compound conditions.
func ErrGuard(pred func(f *Flow, call *ast.CallExpr) bool) PassEdge {
	return func(f *Flow, b *cfg.Block, i int) bool {
		for _, fact := range f.EdgeFacts(b, i) {
			be, ok := unparen(fact.Atom).(*ast.BinaryExpr)
			if !ok || (be.Op != token.NEQ && be.Op != token.EQL) {
				continue
			}
			var x ast.Expr
			switch {
			case isNil(f.Info, be.Y):
				x = be.X
			case isNil(f.Info, be.X):
				x = be.Y
			default:
				continue
			}
			isNilNow := (be.Op == token.EQL) == fact.Truth
			if !isNilNow {
				continue
			}
			src := f.valueSource(b, len(b.Nodes)-1, x)
			if call, ok := src.(*ast.CallExpr); ok && pred(f, call) {
				return true
			}
			// the error may have been assigned on each branch of a preceding if/else: every reaching
			// assignment (through predecessor blocks) must be a call accepted by pred
			if obj := objOf(f.Info, x); obj != nil && f.lastAssignIn(b, len(b.Nodes)-1, obj) == nil {
				srcs, complete := f.reachingAssigns(b, obj, 4)
				if complete && len(srcs) > 0 {
					all := true
					for _, s := range srcs {
						if call, ok := unparen(s).(*ast.CallExpr); !ok || !pred(f, call) {
							all = false
						}
					}
					if all {
						return true
					}
				}
			}
		}
		return false
	}
}

// BoolGuard: the edge on which a boolean produced by a call matching pred has value want.
func BoolGuard(want bool, pred func(f *Flow, call *ast.CallExpr) bool) PassEdge {
	return func(f *Flow, b *cfg.Block, i int) bool {
		for _, fact := range f.EdgeFacts(b, i) {
			if fact.Truth != want {
				continue
			}
			src := f.valueSource(b, len(b.Nodes)-1, fact.Atom)
			if call, ok := src.(*ast.CallExpr); ok && pred(f, call) {
				return true
			}
		}
		return false
	}
}

// FactGuard: the edge carries an atomic fact accepted by pred.
func FactGuard(pred func(f *Flow, fact Fact) bool) PassEdge {
	return func(f *Flow, b *cfg.Block, i int) bool {
		for _, fact := range f.EdgeFacts(b, i) {
			if pred(f, fact) {
				return true
			}
		}
		return false
	}
}

func AnyGuard(gs ...PassEdge) PassEdge {
	return func(f *Flow, b *cfg.Block, i int) bool {
		for _, g := range gs {
			if g(f, b, i) {
				return true
			}
		}
		return false
	}
}

// Loc is a position in the CFG: node idx of block b.
type Loc struct {
	B   *cfg.Block
	Idx int
}

// NodePred classifies CFG nodes.
type NodePred func(n ast.Node) bool

// Search explores forward from start locations. It does not cross edges for which blockEdge
// returns true (guard edges) and stops at nodes for which barrier returns true. It returns the
// first location whose node satisfies sink, plus the path of block indices, or nil.
type SearchOpts struct {
	Starts    []Loc
	Sink      NodePred
	Barrier   NodePred                   // optional: exploration stops after such a node (node itself is not a sink)
	BlockEdge func(b *cfg.Block, i int) bool // optional: edges that are not followed
	BlockSink func(b *cfg.Block) bool        // optional: reaching the start of such a block is a hit (Hit.Node is nil)
	// SinkBeforeBarrier: within one node both may match; by default barrier wins.
}

type Hit struct {
	Loc  Loc
	Node ast.Node
	Path []*cfg.Block
}

func (f *Flow) Search(o SearchOpts) *Hit {
	type key struct {
		b   int32
		idx int
	}
	seen := map[key]bool{}
	prev := map[*cfg.Block]*cfg.Block{}
	var queue []Loc
	for _, s := range o.Starts {
		queue = append(queue, s)
	}
	for len(queue) > 0 {
		l := queue[0]
		queue = queue[1:]
		k := key{l.B.Index, l.Idx}
		if seen[k] {
			continue
		}
		seen[k] = true
		if o.BlockSink != nil && l.Idx == 0 && o.BlockSink(l.B) {
			var path []*cfg.Block
			for b := l.B; b != nil; b = prev[b] {
				path = append([]*cfg.Block{b}, path...)
				if len(path) > 64 {
					break
				}
			}
			return &Hit{Loc: l, Path: path}
		}
		stopped := false
		for i := l.Idx; i < len(l.B.Nodes); i++ {
			n := l.B.Nodes[i]
			if o.Barrier != nil && o.Barrier(n) {
				stopped = true
				break
			}
			if o.Sink != nil && o.Sink(n) {
				var path []*cfg.Block
				for b := l.B; b != nil; b = prev[b] {
					path = append([]*cfg.Block{b}, path...)
					if len(path) > 64 {
						break
					}
				}
				return &Hit{Loc: Loc{l.B, i}, Node: n, Path: path}
			}
		}
		if stopped {
			continue
		}
		for si, s := range l.B.Succs {
			if o.BlockEdge != nil && o.BlockEdge(l.B, si) {
				continue
			}
			if !seen[key{s.Index, 0}] {
				if _, ok := prev[s]; !ok && s != l.B {
					prev[s] = l.B
				}
				queue = append(queue, Loc{s, 0})
			}
		}
	}
	return nil
}

// Entry is the start location of the function.
func (f *Flow) Entry() Loc { return Loc{f.G.Blocks[0], 0} }

// After returns the location just after node idx of block b.
func After(l Loc) Loc { return Loc{l.B, l.Idx + 1} }

// Locs returns the locations of all live nodes that satisfy pred.
func (f *Flow) Locs(pred NodePred) []Loc {
	var out []Loc
	for _, b := range f.G.Blocks {
		if !b.Live {
			continue
		}
		for i, n := range b.Nodes {
			if pred(n) {
				out = append(out, Loc{b, i})
			}
		}
	}
	return out
}

// GuardedSink checks that no path entry→sink avoids all pass edges. Returns the offending hit or nil.
func (f *Flow) GuardedSink(pass PassEdge, sink NodePred) *Hit {
	return f.Search(SearchOpts{
		Starts:    []Loc{f.Entry()},
		Sink:      sink,
		BlockEdge: func(b *cfg.Block, i int) bool { return pass(f, b, i) },
	})
}

// HasPassEdge reports whether any live block has a pass edge (vacuity).
func (f *Flow) HasPassEdge(pass PassEdge) bool {
	for _, b := range f.G.Blocks {
		if !b.Live {
			continue
		}
		for i := range b.Succs {
			if pass(f, b, i) {
				return true
			}
		}
	}
	return false
}

// nodeHasCall reports whether node n contains (outside function literals unless lits) a call satisfying pred.
func nodeHasCall(n ast.Node, lits bool, pred func(*ast.CallExpr) bool) *ast.CallExpr {
	var found *ast.CallExpr
	if n == nil {
		return nil
	}
	ast.Inspect(n, func(x ast.Node) bool {
		if found != nil {
			return false
		}
		switch v := x.(type) {
		case *ast.FuncLit:
			return lits
		case *ast.CallExpr:
			if pred(v) {
				found = v
				return false
			}
		}
		return true
	})
	return found
}

// CallNode makes a NodePred matching nodes that contain a call satisfying pred.
// Deferred calls and go statements are not matched unless includeDefer.
func CallNode(includeDefer bool, pred func(*ast.CallExpr) bool) NodePred {
	return func(n ast.Node) bool {
		switch n.(type) {
		case *ast.DeferStmt:
			if !includeDefer {
				return false
			}
		case *ast.GoStmt:
			return false
		}
		return nodeHasCall(n, false, pred) != nil
	}
}

// pathString renders a block path as line numbers.
func (f *Flow) pathString(h *Hit) string {
	s := ""
	for _, b := range h.Path {
		if len(b.Nodes) == 0 {
			continue
		}
		if s != "" {
			s += "→"
		}
		s += itoa(f.P.Fset.Position(b.Nodes[0].Pos()).Line)
	}
	return s
}

func itoa(i int) string {
	if i == 0 {
		return "0"
	}
	neg := i < 0
	if neg {
		i = -i
	}
	var b []byte
	for i > 0 {
		b = append([]byte{byte('0' + i%10)}, b...)
		i /= 10
	}
	if neg {
		b = append([]byte{'-'}, b...)
	}
	return string(b)
}

// isReturn matches return statements.
func isReturn(n ast.Node) bool { _, ok := n.(*ast.ReturnStmt); return ok }
