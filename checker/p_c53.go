package main

import (
	"go/ast"
	"go/token"
	"go/types"
	"sort"
	"strings"

	"golang.org/x/tools/go/cfg"
)

func init() {
	register(&propSpec{
		ID: "C53",
		Explanation: "Decides three necessary conditions of 'decoders never crash or over-allocate', not the absence of crashes: (alloc-size-guarded) in the decoder packages every make/Grow/slices.Grow/io.CopyN whose size derives from a decoded integer " +
			"(encoding/binary, utils/binary readers, LEB128/variable-width decoders, strconv.Parse*; followed through local variables, struct fields assigned from such values anywhere in the package, and parameters that receive them) " +
			"is reachable only across a comparison on that value, is clamped with min(), or is in the reviewed table naming the bound that covers it; " +
			"(no-explicit-panic) every panic call in the decoder packages is in the reviewed table (input-independent); (buffer-discipline) no bufio view is used after the reader moved on and no byte-wise string loop iterates by runes. " +
			"(star-exhaustion-aborts) the ignore-pattern matcher's retry loop — the loop in which dowild calls itself for every suffix of the text and keeps the result — never ends in the plain no-match code: text exhaustion returns the abort-all code that stops every enclosing star, the invariant that keeps the wildmatch port polynomial. " +
			"Not decided: index-out-of-range on all inputs, termination and running time in general, allocation totals.",
		Assumptions: []string{},
		Run:         runC53,
	})
}

var decoderPkgs = []string{
	"plumbing/format/commitgraph", "plumbing/format/config", "plumbing/format/diff", "plumbing/format/gitattributes", "plumbing/format/gitignore",
	"plumbing/format/idxfile", "plumbing/format/index", "plumbing/format/objfile", "plumbing/format/packfile", "plumbing/format/packfile/util", "plumbing/format/pktline",
	"plumbing/format/reflog", "plumbing/format/revfile", "plumbing/object", "plumbing/protocol/packp", "plumbing/protocol/packp/sideband", "plumbing/protocol/capability",
	"internal/revision", "utils/binary",
}

// isDecodedIntSource: calls whose integer result comes straight from input bytes.
func isDecodedIntSource(info *types.Info, call *ast.CallExpr) bool {
	fn := Callee(info, call)
	if fn == nil || fn.Pkg() == nil {
		return false
	}
	pp, n := fn.Pkg().Path(), fn.Name()
	switch {
	case pp == "encoding/binary" && (strings.HasPrefix(n, "Uint") || strings.HasPrefix(n, "Uvarint") || n == "Varint" || n == "ReadUvarint" || n == "ReadVarint"):
		return true
	case pp == modPath+"/utils/binary" && strings.HasPrefix(n, "Read") && n != "Read" && n != "ReadUntil" && n != "ReadUntilFromBufioReader" && n != "ReadHash":
		return true
	case strings.HasPrefix(n, "DecodeLEB128"), n == "ReadVariableWidthInt", n == "VariableLengthSize":
		return true
	case pp == "strconv" && (n == "Atoi" || strings.HasPrefix(n, "Parse")):
		return true
	}
	return false
}

// isBulkReadInto: binary.Read(r, …, &x) style calls that fill their pointer arguments from input.
func isBulkReadInto(info *types.Info, call *ast.CallExpr) bool {
	fn := Callee(info, call)
	if fn == nil || fn.Pkg() == nil {
		return false
	}
	pp, n := fn.Pkg().Path(), fn.Name()
	return (pp == "encoding/binary" && n == "Read") || (pp == modPath+"/utils/binary" && n == "Read")
}

type taintState struct {
	info   *types.Info
	fields map[*types.Var]bool // struct fields holding decoded integers
	params map[*types.Var]bool // parameters that receive decoded integers
}

// decodedExpr reports whether e derives from a decoded integer; key is the variable/field whose bound would guard it.
func (t *taintState) decodedExpr(d *deriver, body ast.Node, e ast.Expr, depth int) (types.Object, bool) {
	info := t.info
	e = unparen(e)
	if depth > 5 {
		return nil, false
	}
	switch v := e.(type) {
	case *ast.Ident:
		o := objOf(info, v)
		if o == nil {
			return nil, false
		}
		if pv, ok := o.(*types.Var); ok && t.params[pv] {
			return o, true
		}
		for _, def := range d.defs[o] {
			if call, ok := unparen(def).(*ast.CallExpr); ok && isDecodedIntSource(info, call) {
				return o, true
			}
			if _, ok := t.decodedExpr(d, body, def, depth+1); ok {
				return o, true
			}
		}
		found := false
		ast.Inspect(body, func(n ast.Node) bool {
			if call, ok := n.(*ast.CallExpr); ok && (isDecodedIntSource(info, call) || isBulkReadInto(info, call)) {
				for _, a := range call.Args {
					if u, ok := unparen(a).(*ast.UnaryExpr); ok && u.Op == token.AND && objOf(info, u.X) == o {
						found = true
					}
				}
			}
			return !found
		})
		if found {
			return o, true
		}
	case *ast.SelectorExpr:
		if fv, ok := info.Uses[v.Sel].(*types.Var); ok && fv.IsField() && t.fields[fv] {
			return fv, true
		}
	case *ast.IndexExpr:
		return t.decodedExpr(d, body, v.X, depth+1)
	case *ast.CallExpr:
		if isDecodedIntSource(info, v) {
			return nil, true
		}
		if tv, ok := info.Types[v.Fun]; ok && tv.IsType() && len(v.Args) == 1 {
			return t.decodedExpr(d, body, v.Args[0], depth+1)
		}
	case *ast.BinaryExpr:
		if o, ok := t.decodedExpr(d, body, v.X, depth+1); ok {
			return o, true
		}
		return t.decodedExpr(d, body, v.Y, depth+1)
	}
	return nil, false
}

func runC53(c *Ctx) {
	p := c.P
	const r1 = "alloc-size-guarded"
	reviewed := map[string]string{
		"plumbing/format/idxfile.readObjectNames->make(nameLen)":     "bucket counts come from the fanout, whose total was validated against the file size by validateIdxV2Size before the body flow runs (C10 idx-validated-before-use)",
		"plumbing/format/idxfile.readObjectNames->make(buckets * 4)": "same bucket counts, validated by validateIdxV2Size",
		"plumbing/format/commitgraph.(*fileIndex).Hashes->make(fi.fanout[0xff] + fi.minimumNumberOfHashes)": "fanout[255] was checked against the chunk sizes (and hence the file size) by verifyChunkSizes when the file was opened; each entry is also capped at 0x7fffffff",
	}
	nSites := 0
	for _, sp := range decoderPkgs {
		pk := p.Pkg(sp)
		if pk == nil {
			continue
		}
		info := pk.TypesInfo
		var funcs []*FuncInfo
		for _, fi := range p.FuncsIn(sp) {
			if fi.Decl.Body != nil && !p.isTestFile(fi.Decl.Pos()) && !strings.Contains(p.File(fi.Decl.Pos()), "fuzz_helpers") {
				funcs = append(funcs, fi)
			}
		}
		ts := &taintState{info: info, fields: map[*types.Var]bool{}, params: map[*types.Var]bool{}}
		derivers := map[*FuncInfo]*deriver{}
		for _, fi := range funcs {
			derivers[fi] = newDeriver(info, fi.Decl)
		}
		// fixpoint over fields and parameters of the package
		for round := 0; round < 4; round++ {
			changed := false
			for _, fi := range funcs {
				d := derivers[fi]
				ast.Inspect(fi.Decl.Body, func(n ast.Node) bool {
					switch v := n.(type) {
					case *ast.AssignStmt:
						for i, l := range v.Lhs {
							rs := rootSel(l)
							if rs == nil {
								continue
							}
							fv, ok := info.Uses[rs.Sel].(*types.Var)
							if !ok || !fv.IsField() || ts.fields[fv] {
								continue
							}
							var rhs ast.Expr
							if len(v.Rhs) == len(v.Lhs) {
								rhs = v.Rhs[i]
							} else if len(v.Rhs) == 1 {
								rhs = v.Rhs[0]
							}
							if rhs == nil {
								continue
							}
							if _, dec := ts.decodedExpr(d, fi.Decl.Body, rhs, 0); dec {
								ts.fields[fv] = true
								changed = true
							}
						}
					case *ast.CallExpr:
						if isDecodedIntSource(info, v) || isBulkReadInto(info, v) {
							for _, a := range v.Args {
								if u, ok := unparen(a).(*ast.UnaryExpr); ok && u.Op == token.AND {
									if rs := rootSel(u.X); rs != nil {
										if fv, ok := info.Uses[rs.Sel].(*types.Var); ok && fv.IsField() && !ts.fields[fv] {
											ts.fields[fv] = true
											changed = true
										}
									}
								}
							}
						}
						// parameters
						if cf := p.FuncOf(Callee(info, v)); cf != nil && cf.Pkg == pk {
							cps := paramObjs(info, cf.Decl)
							for i, a := range v.Args {
								if i >= len(cps) || ts.params[cps[i]] {
									continue
								}
								if b, ok := cps[i].Type().Underlying().(*types.Basic); !ok || b.Info()&types.IsInteger == 0 {
									continue
								}
								if _, dec := ts.decodedExpr(d, fi.Decl.Body, a, 0); dec {
									ts.params[cps[i]] = true
									changed = true
								}
							}
						}
					}
					return true
				})
			}
			if !changed {
				break
			}
		}
		for _, fi := range funcs {
			d := derivers[fi]
			var f *Flow
			seen := map[string]int{}
			ast.Inspect(fi.Decl.Body, func(n ast.Node) bool {
				call, ok := n.(*ast.CallExpr)
				if !ok {
					return true
				}
				var sizeArgs []ast.Expr
				sink := ""
				switch {
				case nodeHasBuiltinCall(info, call, "make") && len(call.Args) >= 2:
					sizeArgs, sink = call.Args[1:], "make"
				default:
					fn := Callee(info, call)
					if fn == nil || fn.Pkg() == nil {
						return true
					}
					switch {
					case fn.Name() == "Grow" && len(call.Args) == 1:
						sizeArgs, sink = call.Args, "Grow"
					case fn.Pkg().Path() == "slices" && fn.Name() == "Grow" && len(call.Args) == 2:
						sizeArgs, sink = call.Args[1:], "slices.Grow"
					case fn.Pkg().Path() == "io" && fn.Name() == "CopyN" && len(call.Args) == 3:
						sizeArgs, sink = call.Args[2:], "io.CopyN"
					default:
						return true
					}
				}
				for _, sa := range sizeArgs {
					obj, isDec := ts.decodedExpr(d, fi.Decl.Body, sa, 0)
					if !isDec {
						continue
					}
					nSites++
					key := fi.Name() + "->" + sink
					seen[key]++
					if seen[key] > 1 {
						key += "#" + itoa(seen[key])
					}
					c.Analysed(fi)
					if nodeHasBuiltin(info, sa, "min") {
						c.Hold(r1, key, call.Pos(), "size clamped with min()")
						continue
					}
					if tv, ok := info.Types[sa]; ok && tv.Type != nil {
						if b, ok := tv.Type.Underlying().(*types.Basic); ok && (b.Kind() == types.Uint8 || b.Kind() == types.Uint16 || b.Kind() == types.Int8 || b.Kind() == types.Int16) {
							c.Hold(r1, key, call.Pos(), "size bounded by its type ("+b.Name()+")")
							continue
						}
					}
					// reviewed entries are per size expression, so a new allocation in a reviewed function is not covered
					if why, ok := reviewed[strings.SplitN(key, "#", 2)[0]+"("+exprString(sa)+")"]; ok {
						c.Hold(r1, key, call.Pos(), "reviewed: "+why)
						continue
					}
					if f == nil {
						f = p.FlowOf(fi)
					}
					locs := f.Locs(func(x ast.Node) bool { return x.Pos() <= call.Pos() && call.End() <= x.End() })
					guarded := len(locs) > 0 && obj != nil
					if guarded {
						pass := func(fl *Flow, b *cfg.Block, i int) bool {
							if len(b.Succs) != 2 || len(b.Nodes) == 0 {
								return false
							}
							e, ok := b.Nodes[len(b.Nodes)-1].(ast.Expr)
							if !ok || !usesObj(info, e, obj) {
								return false
							}
							return hasCmp(e, token.GTR) || hasCmp(e, token.LSS) || hasCmp(e, token.GEQ) || hasCmp(e, token.LEQ)
						}
						for _, l := range locs {
							if f.UnguardedPath(pass, l) != nil {
								guarded = false
							}
						}
					}
					if guarded {
						c.Hold(r1, key, call.Pos(), "the decoded size ("+obj.Name()+") is compared with a bound on every path to the allocation")
					} else {
						c.Violate(r1, key, call.Pos(), "size "+exprString(sa)+" comes from the input and reaches "+sink+" without a bound check in this function: a few bytes of input can demand an arbitrarily large allocation")
					}
				}
				return true
			})
		}
	}
	c.Extra["decoded_size_sinks"] = nSites
	c.Floor(r1, 5)

	// no-explicit-panic
	const r2 = "no-explicit-panic"
	allowPanic := map[string]string{
		"plumbing/format/packfile.(*ObjectToPack).Type": "encoder side: ObjectToPack values are built by go-git from stored objects, never from input bytes; reaching the panic means a programming error",
		"plumbing/format/packfile.(*ObjectToPack).Hash": "encoder side (see Type)",
		"plumbing/format/packfile.(*ObjectToPack).Size": "encoder side (see Type)",
	}
	var found []string
	for _, sp := range decoderPkgs {
		pk := p.Pkg(sp)
		if pk == nil {
			continue
		}
		info := pk.TypesInfo
		for _, fi := range p.FuncsIn(sp) {
			if fi.Decl.Body == nil || p.isTestFile(fi.Decl.Pos()) || strings.Contains(p.File(fi.Decl.Pos()), "fuzz_helpers") {
				continue
			}
			k := 0
			ast.Inspect(fi.Decl.Body, func(n ast.Node) bool {
				call, ok := n.(*ast.CallExpr)
				if !ok || !nodeHasBuiltinCall(info, call, "panic") {
					return true
				}
				k++
				key := fi.Name() + ":panic#" + itoa(k)
				found = append(found, key)
				c.Analysed(fi)
				if why, ok := allowPanic[fi.Name()]; ok {
					c.Hold(r2, key, call.Pos(), "reviewed: "+why)
				} else {
					c.Violate(r2, key, call.Pos(), "explicit panic in a decoder package: an input-dependent panic crashes the process; unreviewed")
				}
				return true
			})
		}
	}
	sort.Strings(found)
	c.Extra["panic_sites"] = found
	if len(found) == 0 {
		c.Hold(r2, "decoder-packages:none", 0, "no explicit panic call in the decoder packages")
	}

	// buffer-discipline
	n := checkBufioAlias(c, "buffer-discipline", decoderPkgs)
	m := checkRangeStringByteIndex(c, "buffer-discipline", decoderPkgs)
	c.Extra["bufio_views_examined"] = n
	c.Extra["string_range_loops_examined"] = m
	checkStarExhaustionAborts(c, "star-exhaustion-aborts")
	c.Floor("star-exhaustion-aborts", 1)
}

// nodeHasBuiltinCall: call itself is a call of the named builtin.
func nodeHasBuiltinCall(info *types.Info, call *ast.CallExpr, name string) bool {
	id, ok := unparen(call.Fun).(*ast.Ident)
	if !ok {
		return false
	}
	b, ok := info.Uses[id].(*types.Builtin)
	return ok && b.Name() == name
}
