package main

import (
	"go/ast"
	"go/token"
	"go/types"
)

// checkBufioAlias: a slice returned by (*bufio.Reader).ReadSlice / Peek (or (*bufio.Scanner).Bytes) is a view into the
// reader's buffer and is overwritten by the next read. The rule: after a later read on the same reader, neither that
// slice nor an alias of it (plain assignment or re-slice, no copy) may be used, until it is reassigned.
// It returns the number of view-producing call sites examined.
func checkBufioAlias(c *Ctx, rule string, shortPkgs []string) int {
	p := c.P
	n := 0
	for _, sp := range shortPkgs {
		pk := p.Pkg(sp)
		if pk == nil {
			continue
		}
		info := pk.TypesInfo
		for _, fi := range p.FuncsIn(sp) {
			if fi.Decl.Body == nil || p.isTestFile(fi.Decl.Pos()) {
				continue
			}
			bodies := []*ast.BlockStmt{fi.Decl.Body}
			ast.Inspect(fi.Decl.Body, func(x ast.Node) bool {
				if lit, ok := x.(*ast.FuncLit); ok {
					bodies = append(bodies, lit.Body)
				}
				return true
			})
			for _, body := range bodies {
				n += bufioAliasInBody(c, rule, fi, info, body)
			}
		}
	}
	return n
}

func isViewCall(info *types.Info, call *ast.CallExpr) (reader string, ok bool) {
	fn := Callee(info, call)
	if fn == nil || fn.Pkg() == nil || fn.Pkg().Path() != "bufio" {
		return "", false
	}
	tn := recvTypeName(fn)
	if tn == nil {
		return "", false
	}
	if (tn.Name() == "Reader" && (fn.Name() == "ReadSlice" || fn.Name() == "Peek")) || (tn.Name() == "Scanner" && fn.Name() == "Bytes") {
		return exprString(unparen(call.Fun).(*ast.SelectorExpr).X), true
	}
	return "", false
}

func bufioAliasInBody(c *Ctx, rule string, fi *FuncInfo, info *types.Info, body *ast.BlockStmt) int {
	p := c.P
	f := p.NewFlow(info, body)
	count := 0
	seen := map[string]int{}
	for _, b := range f.G.Blocks {
		if !b.Live {
			continue
		}
		for i, nd := range b.Nodes {
			as, ok := nd.(*ast.AssignStmt)
			if !ok || len(as.Rhs) != 1 || len(as.Lhs) < 1 {
				continue
			}
			call, ok := unparen(as.Rhs[0]).(*ast.CallExpr)
			if !ok {
				continue
			}
			reader, ok := isViewCall(info, call)
			if !ok {
				continue
			}
			v := objOf(info, as.Lhs[0])
			if v == nil {
				continue
			}
			count++
			c.Analysed(fi)
			// aliases: v and variables assigned from v / a re-slice of v without a copy
			aliases := map[types.Object]bool{v: true}
			for changed := true; changed; {
				changed = false
				ast.Inspect(body, func(x ast.Node) bool {
					a2, ok := x.(*ast.AssignStmt)
					if !ok || len(a2.Lhs) != len(a2.Rhs) {
						return true
					}
					for k, r := range a2.Rhs {
						root := unparen(r)
						for {
							if sl, ok := root.(*ast.SliceExpr); ok {
								root = unparen(sl.X)
								continue
							}
							break
						}
						if o := objOf(info, root); o != nil && aliases[o] {
							if lo := objOf(info, a2.Lhs[k]); lo != nil && !aliases[lo] {
								if _, isSlice := lo.Type().Underlying().(*types.Slice); isSlice {
									aliases[lo] = true
									changed = true
								}
							}
						}
					}
					return true
				})
			}
			readOnSame := func(x ast.Node) bool {
				if x == nd {
					return false
				}
				return nodeHasCall(x, false, func(cc *ast.CallExpr) bool {
					sel, ok := unparen(cc.Fun).(*ast.SelectorExpr)
					if !ok || exprString(sel.X) != reader {
						return false
					}
					fn := Callee(info, cc)
					if fn == nil || fn.Pkg() == nil || fn.Pkg().Path() != "bufio" {
						return false
					}
					switch fn.Name() {
					case "Buffered", "Size", "Err", "Text", "Bytes":
						return false
					}
					return true
				}) != nil
			}
			key := fi.Name() + ":" + exprString(as.Lhs[0]) + "=" + reader + "." + Callee(info, call).Name()
			seen[key]++
			if seen[key] > 1 {
				key += "#" + itoa(seen[key])
			}
			bad := ""
			var badPos token.Pos
			for alias := range aliases {
				alias := alias
				assigns := func(x ast.Node) bool { // the alias is overwritten: the old view is dead
					a2, ok := x.(*ast.AssignStmt)
					if !ok {
						return false
					}
					for k, l := range a2.Lhs {
						if objOf(info, l) != alias {
							continue
						}
						// assigning another view of the same buffer does not make the variable safe
						if len(a2.Rhs) == len(a2.Lhs) {
							root := unparen(a2.Rhs[k])
							for {
								if sl, ok := root.(*ast.SliceExpr); ok {
									root = unparen(sl.X)
									continue
								}
								break
							}
							if o := objOf(info, root); o != nil && aliases[o] {
								continue
							}
						}
						return true
					}
					return false
				}
				uses := func(x ast.Node) bool {
					used := false
					ast.Inspect(x, func(y ast.Node) bool {
						if a2, ok := y.(*ast.AssignStmt); ok {
							// only the right-hand sides (and index expressions on the left) are uses
							for _, r := range a2.Rhs {
								if usesObj(info, r, alias) {
									used = true
								}
							}
							for _, l := range a2.Lhs {
								if _, isIdent := unparen(l).(*ast.Ident); !isIdent && usesObj(info, l, alias) {
									used = true
								}
							}
							return false
						}
						if id, ok := y.(*ast.Ident); ok && info.Uses[id] == alias {
							used = true
						}
						return !used
					})
					return used
				}
				// first a later read on the same reader …
				starts := []Loc{{b, i + 1}}
				visitedReads := map[*ast.Node]bool{}
				_ = visitedReads
				for _, rl := range reachAll(f, starts, readOnSame, assigns) {
					// … then a use of the stale alias
					if h := f.Search(SearchOpts{Starts: []Loc{After(rl)}, Sink: uses, Barrier: func(x ast.Node) bool { return assigns(x) && !uses(x) }}); h != nil {
						// a node that both reassigns and uses (buf = append(buf, v...)) counts as a use
						bad = "`" + alias.Name() + "` (a view into " + reader + "'s buffer obtained at " + p.Pos(nd.Pos()) + ") is used at " + p.Pos(h.Node.Pos()) + " after " + reader + " was read again at " + p.Pos(rl.B.Nodes[rl.Idx].Pos())
						badPos = h.Node.Pos()
					}
				}
			}
			if bad != "" {
				c.Violate(rule, key, badPos, bad+": the bytes have been overwritten; copy them first")
			} else {
				c.Hold(rule, key, nd.Pos(), "the view is consumed (or copied) before the reader is read again")
			}
		}
	}
	return count
}

// reachAll returns every location reachable from starts (without passing a barrier node) whose node satisfies pred.
func reachAll(f *Flow, starts []Loc, pred NodePred, barrier NodePred) []Loc {
	var out []Loc
	type key struct {
		b   int32
		idx int
	}
	seen := map[key]bool{}
	queue := append([]Loc(nil), starts...)
	for len(queue) > 0 {
		l := queue[0]
		queue = queue[1:]
		k := key{l.B.Index, l.Idx}
		if seen[k] {
			continue
		}
		seen[k] = true
		stopped := false
		for i := l.Idx; i < len(l.B.Nodes); i++ {
			n := l.B.Nodes[i]
			if pred(n) {
				out = append(out, Loc{l.B, i})
			}
			if barrier != nil && barrier(n) {
				stopped = true
				break
			}
		}
		if stopped {
			continue
		}
		for _, s := range l.B.Succs {
			queue = append(queue, Loc{s, 0})
		}
	}
	return out
}
