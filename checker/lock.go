package main

import (
	"go/ast"
	"go/token"
	"go/types"
	"sort"
	"strings"

	"golang.org/x/tools/go/cfg"
)

// Lockset analysis: for every CFG node of a function (and of each function literal inside it),
// which mutexes are certainly held. Mutexes are identified by the printed receiver expression
// ("s.mu", "p.mu", "h.metaMu"); "w" mode = exclusive, "r" = shared (RLock).

type lockset map[string]byte // name -> 'w' | 'r'

func (l lockset) clone() lockset {
	o := lockset{}
	for k, v := range l {
		o[k] = v
	}
	return o
}

func meet(a, b lockset) lockset {
	o := lockset{}
	for k, v := range a {
		if w, ok := b[k]; ok {
			if v == 'r' || w == 'r' {
				o[k] = 'r'
			} else {
				o[k] = 'w'
			}
		}
	}
	return o
}

func eqLock(a, b lockset) bool {
	if len(a) != len(b) {
		return false
	}
	for k, v := range a {
		if b[k] != v {
			return false
		}
	}
	return true
}

func (l lockset) String() string {
	var ks []string
	for k, v := range l {
		ks = append(ks, k+":"+string(v))
	}
	sort.Strings(ks)
	return "{" + strings.Join(ks, ",") + "}"
}

// lockOp classifies a call as a mutex operation.
func lockOp(info *types.Info, call *ast.CallExpr) (name string, op string) {
	sel, ok := unparen(call.Fun).(*ast.SelectorExpr)
	if !ok {
		return "", ""
	}
	fn, _ := info.Uses[sel.Sel].(*types.Func)
	if fn == nil || fn.Pkg() == nil || fn.Pkg().Path() != "sync" {
		return "", ""
	}
	switch fn.Name() {
	case "Lock", "Unlock", "RLock", "RUnlock", "TryLock", "TryRLock":
		return exprString(sel.X), fn.Name()
	}
	return "", ""
}

// LockFlow is the lockset solution for one body.
type LockFlow struct {
	F     *Flow
	Entry lockset
	in    map[*cfg.Block]lockset
	// deferredUnlocks: mutexes with a registered `defer X.Unlock()` (held until exit once locked)
}

func applyNode(info *types.Info, n ast.Node, ls lockset) {
	switch v := n.(type) {
	case *ast.DeferStmt, *ast.GoStmt:
		_ = v
		return // deferred unlocks run at exit; go statements do not affect this goroutine's locks
	}
	ast.Inspect(n, func(x ast.Node) bool {
		switch c := x.(type) {
		case *ast.FuncLit:
			return false
		case *ast.CallExpr:
			if name, op := lockOp(info, c); name != "" {
				switch op {
				case "Lock":
					ls[name] = 'w'
				case "RLock":
					if ls[name] != 'w' {
						ls[name] = 'r'
					}
				case "Unlock", "RUnlock":
					delete(ls, name)
				}
			}
		}
		return true
	})
}

func (p *Prog) solveLocks(info *types.Info, body *ast.BlockStmt, entry lockset) *LockFlow {
	f := p.NewFlow(info, body)
	lf := &LockFlow{F: f, Entry: entry, in: map[*cfg.Block]lockset{}}
	if len(f.G.Blocks) == 0 {
		return lf
	}
	preds := map[*cfg.Block][]*cfg.Block{}
	for _, b := range f.G.Blocks {
		for _, s := range b.Succs {
			preds[s] = append(preds[s], b)
		}
	}
	out := map[*cfg.Block]lockset{}
	computed := map[*cfg.Block]bool{}
	work := []*cfg.Block{f.G.Blocks[0]}
	lf.in[f.G.Blocks[0]] = entry.clone()
	for iter := 0; len(work) > 0 && iter < 100000; iter++ {
		b := work[0]
		work = work[1:]
		var in lockset
		if b == f.G.Blocks[0] {
			in = entry.clone()
		}
		for _, pb := range preds[b] {
			if !computed[pb] {
				continue
			}
			if in == nil {
				in = out[pb].clone()
			} else {
				in = meet(in, out[pb])
			}
		}
		if in == nil {
			in = lockset{}
		}
		lf.in[b] = in
		o := in.clone()
		for _, n := range b.Nodes {
			applyNode(info, n, o)
		}
		if computed[b] && eqLock(out[b], o) {
			continue
		}
		computed[b] = true
		out[b] = o
		for _, s := range b.Succs {
			work = append(work, s)
		}
	}
	return lf
}

// HeldAt returns the lockset just before the node that contains pos (nil if not found).
func (lf *LockFlow) HeldAt(pos token.Pos) lockset {
	for _, b := range lf.F.G.Blocks {
		if !b.Live {
			continue
		}
		ls := lf.in[b]
		if ls == nil {
			continue
		}
		cur := ls.clone()
		for _, n := range b.Nodes {
			if n.Pos() <= pos && pos < n.End() {
				// position inside this node: locks taken earlier in the same node are not counted
				return cur
			}
			applyNode(lf.F.Info, n, cur)
		}
	}
	return nil
}

// litKind classifies how a function literal is used, to choose its entry lockset.
type litKind int

const (
	litImmediate litKind = iota // func(){}() , once.Do(func), sync.OnceValue … : runs here, inherits the lockset
	litDeferred                 // defer func(){}() : runs at function exit
	litLater                    // stored / passed to time.AfterFunc / go : runs with nothing held
)

type bodyRef struct {
	Body  *ast.BlockStmt
	Lit   *ast.FuncLit // nil for the declaration body
	Kind  litKind
	Outer *bodyRef
	At    token.Pos // position where the literal is evaluated
}

// bodiesOf lists the declaration body and every function literal nested in it (outer before inner).
func bodiesOf(info *types.Info, fd *ast.FuncDecl) []*bodyRef {
	root := &bodyRef{Body: fd.Body}
	out := []*bodyRef{root}
	var walk func(n ast.Node, outer *bodyRef)
	walk = func(n ast.Node, outer *bodyRef) {
		var stack []ast.Node
		ast.Inspect(n, func(x ast.Node) bool {
			if x == nil {
				stack = stack[:len(stack)-1]
				return true
			}
			if lit, ok := x.(*ast.FuncLit); ok {
				kind := litLater
				if len(stack) > 0 {
					if call, ok := stack[len(stack)-1].(*ast.CallExpr); ok {
						if unparen(call.Fun) == lit {
							kind = litImmediate
							if len(stack) > 1 {
								switch stack[len(stack)-2].(type) {
								case *ast.DeferStmt:
									kind = litDeferred
								case *ast.GoStmt:
									kind = litLater
								}
							}
						} else if fn := Callee(info, call); fn != nil && fn.Pkg() != nil {
							q := fn.Pkg().Path() + "." + fn.Name()
							switch {
							case q == "sync.Do", fn.Name() == "Do" && (fn.Pkg().Path() == "sync" || strings.HasSuffix(fn.Pkg().Path(), "singleflight")):
								kind = litImmediate
							case fn.Name() == "ForEach" || fn.Name() == "Walk" || fn.Name() == "walkPackHandles" || fn.Name() == "SortFunc" || fn.Name() == "Search":
								kind = litImmediate // synchronous callbacks
							}
						}
					}
				}
				br := &bodyRef{Body: lit.Body, Lit: lit, Kind: kind, Outer: outer, At: lit.Pos()}
				out = append(out, br)
				walk(lit.Body, br)
				stack = append(stack, x) // keep the stack balanced: Inspect will not descend, so pop manually
				stack = stack[:len(stack)-1]
				return false
			}
			stack = append(stack, x)
			return true
		})
	}
	walk(fd.Body, root)
	return out
}

// FuncLocks solves all bodies of one declared function. entry is the lockset assumed at function entry.
type FuncLocks struct {
	Fi     *FuncInfo
	Bodies []*bodyRef
	Flows  map[*bodyRef]*LockFlow
}

func (p *Prog) FuncLocks(fi *FuncInfo, entry lockset) *FuncLocks {
	info := fi.Pkg.TypesInfo
	fl := &FuncLocks{Fi: fi, Bodies: bodiesOf(info, fi.Decl), Flows: map[*bodyRef]*LockFlow{}}
	// mutexes whose unlock is deferred in the declaration body: held at exit once locked
	for _, br := range fl.Bodies {
		var ent lockset
		switch {
		case br.Lit == nil:
			ent = entry.clone()
		case br.Kind == litImmediate:
			if outer := fl.Flows[br.Outer]; outer != nil {
				ent = outer.HeldAt(br.At)
			}
		case br.Kind == litDeferred:
			// runs at exit of the outer body: locks whose Unlock was deferred before this defer are still held
			if outer := fl.Flows[br.Outer]; outer != nil {
				held := outer.HeldAt(br.At)
				ent = lockset{}
				ast.Inspect(br.Outer.Body, func(n ast.Node) bool {
					if _, isLit := n.(*ast.FuncLit); isLit {
						return false
					}
					if ds, ok := n.(*ast.DeferStmt); ok && ds.Pos() < br.At {
						if name, op := lockOp(info, ds.Call); name != "" && (op == "Unlock" || op == "RUnlock") {
							if m, ok := held[name]; ok {
								ent[name] = m
							}
						}
					}
					return true
				})
			}
		}
		if ent == nil {
			ent = lockset{}
		}
		fl.Flows[br] = p.solveLocks(info, br.Body, ent)
	}
	return fl
}

// HeldAt returns the lockset before the innermost node containing pos.
func (fl *FuncLocks) HeldAt(pos token.Pos) lockset {
	// innermost body containing pos = last in list whose range contains pos
	var best *bodyRef
	for _, br := range fl.Bodies {
		if br.Body.Pos() <= pos && pos < br.Body.End() {
			best = br
		}
	}
	if best == nil {
		return nil
	}
	return fl.Flows[best].HeldAt(pos)
}

// GuardSpec: fields of a struct type guarded by one of its mutex fields.
type GuardSpec struct {
	Pkg    string   // short package path
	Type   string   // struct type name
	Mutex  string   // mutex field name
	Fields []string // guarded field names
	Why    string
}

// isWriteAccess reports whether the selector expression is assigned to / incremented / its address taken.
func isWriteAccess(file *ast.File, sel *ast.SelectorExpr) bool {
	w := false
	ast.Inspect(file, func(n ast.Node) bool {
		if w {
			return false
		}
		switch v := n.(type) {
		case *ast.AssignStmt:
			for _, l := range v.Lhs {
				if rootSel(l) == sel {
					w = true
				}
			}
		case *ast.IncDecStmt:
			if rootSel(v.X) == sel {
				w = true
			}
		case *ast.CallExpr:
			// delete(m, k) / append into field handled as writes by assignment; delete:
			if id, ok := unparen(v.Fun).(*ast.Ident); ok && id.Name == "delete" && len(v.Args) > 0 && rootSel(v.Args[0]) == sel {
				w = true
			}
		}
		return true
	})
	return w
}

// rootSel strips index/star/paren to find the selector being written (m[k] = v writes field m).
func rootSel(e ast.Expr) *ast.SelectorExpr {
	for {
		switch v := unparen(e).(type) {
		case *ast.IndexExpr:
			e = v.X
		case *ast.StarExpr:
			e = v.X
		case *ast.SelectorExpr:
			return v
		default:
			return nil
		}
	}
}

// CheckGuardedBy verifies a GuardSpec over all functions of its package. entryHeld gives, per
// function name, locks assumed held on entry ("caller holds") — each must be justified by CheckCallersHold.
func CheckGuardedBy(c *Ctx, rule string, gs GuardSpec, entryHeld map[string][]string, skipFuncs map[string]string) int {
	p := c.P
	tn := p.lookupType(gs.Pkg, gs.Type)
	if tn == nil {
		c.Unresolved(rule, gs.Pkg+"."+gs.Type, 0, "guarded type not found")
		return 0
	}
	var fields []*types.Var
	for _, fname := range gs.Fields {
		fv := fieldOf(tn, fname)
		if fv == nil {
			c.Unresolved(rule, gs.Pkg+"."+gs.Type+"."+fname, tn.Pos(), "guarded field not found")
			continue
		}
		fields = append(fields, fv)
	}
	if fieldOf(tn, gs.Mutex) == nil {
		c.Unresolved(rule, gs.Pkg+"."+gs.Type+"."+gs.Mutex, tn.Pos(), "mutex field not found")
		return 0
	}
	isGuarded := map[*types.Var]bool{}
	for _, f := range fields {
		isGuarded[f] = true
	}
	n := 0
	for _, fi := range p.FuncsIn(gs.Pkg) {
		if fi.Decl.Body == nil || p.isTestFile(fi.Decl.Pos()) {
			continue
		}
		info := fi.Pkg.TypesInfo
		var uses []*ast.SelectorExpr
		ast.Inspect(fi.Decl.Body, func(x ast.Node) bool {
			if sel, ok := x.(*ast.SelectorExpr); ok {
				if v, ok := info.Uses[sel.Sel].(*types.Var); ok && isGuarded[v] {
					uses = append(uses, sel)
				}
			}
			return true
		})
		if len(uses) == 0 {
			continue
		}
		if why, ok := skipFuncs[fi.Name()]; ok {
			c.Hold(rule, fi.Name()+":"+gs.Type+" (exempt)", fi.Decl.Pos(), "exempt: "+why)
			n++
			continue
		}
		c.Analysed(fi)
		entry := lockset{}
		for _, l := range entryHeld[fi.Name()] {
			entry[l] = 'w'
		}
		fl := p.FuncLocks(fi, entry)
		perField := map[string]string{} // field -> first problem
		seenField := map[string]token.Pos{}
		for _, sel := range uses {
			fname := sel.Sel.Name
			if _, ok := seenField[fname]; !ok {
				seenField[fname] = sel.Pos()
			}
			want := exprString(sel.X) + "." + gs.Mutex
			held := fl.HeldAt(sel.Pos())
			mode, ok := held[want]
			switch {
			case held == nil:
				// unreachable code or not in CFG
			case !ok:
				if perField[fname] == "" {
					perField[fname] = p.Pos(sel.Pos()) + ": accessed without " + want + " (held: " + held.String() + ")"
				}
			case mode == 'r' && isWriteAccess(fi.File, sel):
				if perField[fname] == "" {
					perField[fname] = p.Pos(sel.Pos()) + ": written under the read lock only"
				}
			}
		}
		var fnames []string
		for f := range seenField {
			fnames = append(fnames, f)
		}
		sort.Strings(fnames)
		for _, fname := range fnames {
			n++
			key := fi.Name() + ":" + gs.Type + "." + fname
			if prob := perField[fname]; prob != "" {
				c.Violate(rule, key, seenField[fname], prob)
			} else {
				c.Hold(rule, key, seenField[fname], "every access holds "+gs.Mutex)
			}
		}
	}
	return n
}

// CheckCallersHold justifies an entry assumption: every static call site of fn (in its package) holds lock
// `<recv>.<mutex>` where recv is the receiver expression used at the call.
func CheckCallersHold(c *Ctx, rule string, fnName, mutexField string, entryHeld map[string][]string) {
	p := c.P
	fi := p.Func(fnName)
	if fi == nil {
		c.Unresolved(rule, fnName, 0, "function with a 'caller holds the lock' assumption not found")
		return
	}
	sites := p.CallSites(func(_ *types.Info, _ *ast.CallExpr, callee *types.Func) bool { return callee == fi.Obj })
	ok := true
	why := ""
	cnt := 0
	for _, s := range sites {
		if p.isTestFile(s.Call.Pos()) {
			continue
		}
		cnt++
		sel, isSel := unparen(s.Call.Fun).(*ast.SelectorExpr)
		if !isSel {
			ok, why = false, "call through a value at "+p.Pos(s.Call.Pos())
			continue
		}
		entry := lockset{}
		for _, l := range entryHeld[s.In.Name()] {
			entry[l] = 'w'
		}
		fl := p.FuncLocks(s.In, entry)
		held := fl.HeldAt(s.Call.Pos())
		want := exprString(sel.X) + "." + mutexField
		if _, has := held[want]; !has {
			ok, why = false, "called from "+s.In.Name()+" at "+p.Pos(s.Call.Pos())+" without "+want
		}
	}
	if cnt == 0 {
		ok, why = false, "no callers found"
	}
	c.Check(ok, rule, fnName+":callers-hold-"+mutexField, fi.Decl.Pos(), orStr(why, "all "+itoa(cnt)+" call sites hold the lock"))
}
