package main

import (
	"go/ast"
	"go/token"
	"go/types"
)

// checkIndexRootsSkipOnlyGitlinks (C22): the index is a root set of garbage collection — a staged blob is reachable from
// no reference until it is committed. In objectWalker.walkIndex an entry may be passed over only because it names no
// local blob (zero hash, gitlink), because its object was marked already, or because the object is not in the store.
// Any other reason — in particular a test of the entry's mode other than equality with the gitlink mode — takes staged
// executables or symlinks out of the root set, and Prune deletes them. Decided: every disjunct of every condition a
// `continue` of the loop over idx.Entries sits under is one of those four reasons.
func checkIndexRootsSkipOnlyGitlinks(c *Ctx, rule string) {
	fi := c.MustFunc(rule, "git.(*objectWalker).walkIndex")
	if fi == nil {
		return
	}
	c.Analysed(fi)
	info := fi.Pkg.TypesInfo
	var loop *ast.RangeStmt
	ast.Inspect(fi.Decl.Body, func(n ast.Node) bool {
		rs, ok := n.(*ast.RangeStmt)
		if !ok || rs.Value == nil || loop != nil {
			return true
		}
		if tv := info.Types[rs.X]; tv.Type != nil && types.TypeString(tv.Type, nil) == "[]*"+modPath+"/plumbing/format/index.Entry" {
			loop = rs
		}
		return true
	})
	if loop == nil {
		c.Unresolved(rule, fi.Name()+":loop", fi.Decl.Pos(), "no loop over the index entries found")
		return
	}
	entry := objOf(info, loop.Value)
	label := ""
	var disjuncts func(e ast.Expr) []ast.Expr
	disjuncts = func(e ast.Expr) []ast.Expr {
		e = unparen(e)
		if be, ok := e.(*ast.BinaryExpr); ok && be.Op == token.LOR {
			return append(disjuncts(be.X), disjuncts(be.Y)...)
		}
		return []ast.Expr{e}
	}
	mentionsField := func(e ast.Expr, field string) bool {
		found := false
		ast.Inspect(e, func(n ast.Node) bool {
			if sel, ok := n.(*ast.SelectorExpr); ok && sel.Sel.Name == field && objOf(info, sel.X) == entry {
				found = true
			}
			return !found
		})
		return found
	}
	classify := func(d ast.Expr) string {
		d = unparen(d)
		if be, ok := d.(*ast.BinaryExpr); ok && be.Op == token.EQL {
			for _, pair := range [][2]ast.Expr{{be.X, be.Y}, {be.Y, be.X}} {
				if mentionsField(pair[0], "Mode") {
					if o := objOfSel(info, pair[1]); o != nil && o.Name() == "Submodule" {
						return "gitlink: names no local object"
					}
				}
			}
		}
		if call, ok := d.(*ast.CallExpr); ok {
			fn := Callee(info, call)
			if fn != nil && fn.Name() == "IsZero" && mentionsField(call, "Hash") {
				return "zero hash: names no object"
			}
			if fn != nil && fn.Name() == "isSeen" && len(call.Args) == 1 && mentionsField(call.Args[0], "Hash") {
				return "already marked"
			}
			if fn != nil && fn.Pkg() != nil && fn.Pkg().Path() == "errors" && fn.Name() == "Is" && usesObjNamed(info, call, "ErrObjectNotFound") {
				return "object not in the store"
			}
		}
		if !usesObj(info, d, entry) {
			// a condition about something else (the error of the size lookup)
			if be, ok := d.(*ast.BinaryExpr); ok && (be.Op == token.NEQ || be.Op == token.EQL) && (isNil(info, be.X) || isNil(info, be.Y)) {
				return "error test"
			}
		}
		return ""
	}
	n := 0
	for _, s := range loopSkips(loop.Body, label) {
		n++
		if len(s.conds) == 0 || s.conds[0] == nil {
			c.Violate(rule, fi.Name()+":skip#"+itoa(n), s.stmt.Pos(), "an index entry is passed over unconditionally")
			continue
		}
		bad := ""
		var why []string
		// the innermost condition decides; an outer `err != nil` wrapper is an error test
		for _, d := range disjuncts(s.conds[0]) {
			k := classify(d)
			if k == "" {
				bad = exprString(d)
			}
			why = append(why, k)
		}
		c.Check(bad == "", rule, fi.Name()+":skip#"+itoa(n), s.stmt.Pos(), orStr(ifStr(bad != "", "an index entry is left out of the root set because `"+bad+"`: only a zero hash, the gitlink mode, an object already marked or one missing from the store are reasons — a staged executable or symlink passed over here is deleted by Prune"),
			"skipped only for: "+joinNonEmpty(why)))
	}
	c.Check(n >= 1, rule, fi.Name()+":skips", fi.Decl.Pos(), itoa(n)+" skip(s) of the index loop classified")
}

func joinNonEmpty(ss []string) string {
	out := ""
	for _, s := range ss {
		if s == "" {
			continue
		}
		if out != "" {
			out += "; "
		}
		out += s
	}
	return out
}
