package main

import (
	"go/ast"
	"go/token"
	"go/types"
)

// checkStageBitsAlwaysWritten (C12): the 16-bit flags word of an index entry carries the merge stage in bits 12-13
// whatever the length of the name (an over-long name only saturates the 12 length bits). In Encoder.encodeEntry no
// plain assignment to the flags variable whose right-hand side does not read entry.Stage (and does not read the
// variable itself) may reach a use of the variable without an assignment that does read it in between: otherwise some
// path — the long-name path — writes conflict entries as stage 0.
func checkStageBitsAlwaysWritten(c *Ctx, rule string) {
	p := c.P
	fi := c.MustFunc(rule, idxShort+".(*Encoder).encodeEntry")
	if fi == nil {
		return
	}
	info := fi.Pkg.TypesInfo
	c.Analysed(fi)
	mentionsStage := func(e ast.Node) bool {
		found := false
		ast.Inspect(e, func(n ast.Node) bool {
			if sel, ok := n.(*ast.SelectorExpr); ok && sel.Sel.Name == "Stage" {
				found = true
			}
			return !found
		})
		return found
	}
	// the flags variable: the first variable assigned from an expression reading .Stage
	var flags types.Object
	ast.Inspect(fi.Decl.Body, func(n ast.Node) bool {
		as, ok := n.(*ast.AssignStmt)
		if !ok || flags != nil || len(as.Lhs) != 1 || len(as.Rhs) != 1 {
			return true
		}
		if mentionsStage(as.Rhs[0]) {
			flags = objOf(info, as.Lhs[0])
		}
		return true
	})
	if flags == nil {
		c.Violate(rule, fi.Name()+":flags", fi.Decl.Pos(), "no variable of the entry encoder is computed from the entry's Stage: the stage bits are never written")
		return
	}
	f := p.FlowOf(fi)
	plainAssign := func(nd ast.Node) (*ast.AssignStmt, bool) {
		as, ok := nd.(*ast.AssignStmt)
		if !ok || (as.Tok != token.ASSIGN && as.Tok != token.DEFINE) || len(as.Lhs) != 1 || objOf(info, as.Lhs[0]) != flags {
			return nil, false
		}
		return as, true
	}
	withStage := func(nd ast.Node) bool {
		as, ok := plainAssign(nd)
		return ok && (mentionsStage(as.Rhs[0]) || usesObj(info, as.Rhs[0], flags))
	}
	uses := func(nd ast.Node) bool {
		if _, ok := plainAssign(nd); ok {
			return false
		}
		if as, ok := nd.(*ast.AssignStmt); ok && len(as.Lhs) == 1 && objOf(info, as.Lhs[0]) == flags {
			return false // flags |= …
		}
		return usesObj(info, nd, flags)
	}
	k, bad := 0, token.NoPos
	for _, loc := range f.Locs(func(nd ast.Node) bool {
		as, ok := plainAssign(nd)
		return ok && !mentionsStage(as.Rhs[0]) && !usesObj(info, as.Rhs[0], flags)
	}) {
		k++
		if h := f.Search(SearchOpts{Starts: []Loc{After(loc)}, Sink: uses, Barrier: withStage}); h != nil {
			bad = loc.B.Nodes[loc.Idx].Pos()
		}
	}
	c.Check(!bad.IsValid(), rule, fi.Name()+":"+flags.Name(), orPos(bad, fi.Decl.Pos()), orStr(ifStr(bad.IsValid(), "`"+flags.Name()+"` is assigned a value that does not read entry.Stage and is used on a path that never adds the stage bits: entries on that path (names too long for the length field) are written as stage 0, so the three sides of a conflict become three stage-0 entries of one path"),
		"every value of `"+flags.Name()+"` that is written carries the entry's stage"))
}
