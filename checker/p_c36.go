package main

import (
	"go/ast"
	"go/token"
	"go/types"
	"strings"
)

func init() {
	register(&propSpec{
		ID: "C36",
		Explanation: "Decides three necessary conditions of 'a depth-limited fetch or clone works for every pairing of git and go-git and leaves git's shallow boundary', not the completeness of what is transferred: " +
			"(unshallow-from-client-shallows) on the server side (plumbing/transport) every value that reaches the Unshallows list of a shallow update is the loop variable of a range over the client's own shallow list — " +
			"the Shallows field of the decoded request, a local copy of it, or a parameter that every caller feeds from it (or nil); git's fetch-pack dies on an unshallow line for a commit it does not hold as shallow; " +
			"(iterator-element-not-discarded) in the packages that walk history for a transfer no call of an iterator's Next() throws the element away (first result assigned to _): 'is there another one' asked that way consumes it — " +
			"every second parent of a merge was lost to the boundary walk; " +
			"(commits-keyed-by-hash) no map in those packages is keyed by a pointer to a decoded object (every decode yields a new pointer, so such a map never recognises a commit reached twice). " +
			"(unshallow-only-walked) a client shallow is reported unshallowed only across the found-edge of a lookup in the set of commits this request's walk reached; (cursor-recomputed-after-removal) the client's update of its shallow list does not step an index over a list it shrinks. " +
			"Found and fixed: the first three (fd5a058, 3a7dafa). Not decided: negotiation, the objects selected (see C37), reference updates, termination.",
		Assumptions: []string{},
		Run:         runC36,
	})
}

func runC36(c *Ctx) {
	p := c.P
	const r1 = "unshallow-from-client-shallows"
	pk := p.Pkg(trShort)
	if pk == nil {
		c.Unresolved(r1, "package "+trShort, 0, "not loaded")
		return
	}
	info := pk.TypesInfo
	cg := p.callGraph()

	// isClientShallows: the expression denotes the client's shallow list
	var isClientShallows func(fi *FuncInfo, e ast.Expr, depth int) bool
	isClientShallows = func(fi *FuncInfo, e ast.Expr, depth int) bool {
		if depth > 4 {
			return false
		}
		e = unparen(e)
		if isNil(info, e) {
			return true // no client shallows: nothing can be appended from it
		}
		if sel, ok := e.(*ast.SelectorExpr); ok {
			if fv, ok := info.Uses[sel.Sel].(*types.Var); ok && fv.IsField() && fv.Name() == "Shallows" {
				// a field of a request type decoded from the client (UploadRequest, FetchArgs …), not of a ShallowUpdate we build
				if tv := info.Types[sel.X]; tv.Type != nil {
					tn := types.TypeString(tv.Type, nil)
					return !strings.Contains(tn, "ShallowUpdate") && !strings.Contains(tn, "ShallowInfo")
				}
			}
			return false
		}
		o := objOf(info, e)
		if o == nil {
			return false
		}
		// parameter: every caller in the package
		for i, po := range paramObjs(info, fi.Decl) {
			if types.Object(po) != o {
				continue
			}
			callers := 0
			for _, cf := range p.FuncsIn(trShort) {
				if cf.Decl.Body == nil || p.isTestFile(cf.Decl.Pos()) {
					continue
				}
				for _, ed := range cg.edges[cf.Obj] {
					if ed.Callee != fi.Obj || i >= len(ed.Call.Args) {
						continue
					}
					callers++
					if !isClientShallows(cf, ed.Call.Args[i], depth+1) {
						return false
					}
				}
			}
			return callers > 0
		}
		// local: every definition
		d := newDeriver(info, fi.Decl)
		defs := d.defs[o]
		if len(defs) == 0 {
			return false
		}
		for _, def := range defs {
			if !isClientShallows(fi, def, depth+1) {
				return false
			}
		}
		return true
	}
	// rangeSource: v is the value variable of a range statement in fi; returns the ranged expression
	rangeSource := func(fi *FuncInfo, v types.Object) ast.Expr {
		var src ast.Expr
		ast.Inspect(fi.Decl.Body, func(n ast.Node) bool {
			if rs, ok := n.(*ast.RangeStmt); ok && rs.Value != nil && objOf(info, rs.Value) == v {
				src = rs.X
			}
			return true
		})
		return src
	}
	// elementsFromParam: every append to the variable fn returns appends the range variable of one parameter
	elementsFromParam := func(fn *FuncInfo) int {
		var ret types.Object
		okShape := true
		ast.Inspect(fn.Decl.Body, func(n ast.Node) bool {
			if r, ok := n.(*ast.ReturnStmt); ok && len(r.Results) == 1 {
				if isNil(info, r.Results[0]) {
					return true
				}
				o := objOf(info, r.Results[0])
				if o == nil || (ret != nil && ret != o) {
					okShape = false
				}
				ret = o
			}
			return true
		})
		if !okShape || ret == nil {
			return -1
		}
		idx := -1
		ast.Inspect(fn.Decl.Body, func(n ast.Node) bool {
			as, ok := n.(*ast.AssignStmt)
			if !ok || len(as.Lhs) != 1 || objOf(info, as.Lhs[0]) != ret || len(as.Rhs) != 1 {
				return true
			}
			call, ok := unparen(as.Rhs[0]).(*ast.CallExpr)
			if !ok || !nodeHasBuiltin(info, call, "append") {
				if as.Tok == token.DEFINE || isNil(info, as.Rhs[0]) {
					return true
				}
				okShape = false
				return true
			}
			for _, a := range call.Args[1:] {
				v := objOf(info, a)
				src := ast.Expr(nil)
				if v != nil {
					src = rangeSource(fn, v)
				}
				pi := -1
				if src != nil {
					for i, po := range paramObjs(info, fn.Decl) {
						if objOf(info, src) == types.Object(po) {
							pi = i
						}
					}
				}
				if pi < 0 || (idx >= 0 && idx != pi) {
					okShape = false
				}
				idx = pi
			}
			return true
		})
		if !okShape {
			return -1
		}
		return idx
	}

	n1 := 0
	for _, fi := range p.FuncsIn(trShort) {
		if fi.Decl.Body == nil || p.isTestFile(fi.Decl.Pos()) {
			continue
		}
		k := 0
		check := func(pos token.Pos, val ast.Expr) {
			k++
			n1++
			c.Analysed(fi)
			key := fi.Name() + ":Unshallows#" + itoa(k)
			ok, why := false, "the value is neither the loop variable of a range over the client's shallow list nor the result of a function that only passes such elements on"
			if v := objOf(info, val); v != nil {
				if src := rangeSource(fi, v); src != nil && isClientShallows(fi, src, 0) {
					ok, why = true, "the value ranges over the client's shallow list ("+exprString(src)+")"
				}
			} else if call, isCall := unparen(val).(*ast.CallExpr); isCall {
				if cf := p.FuncOf(Callee(info, call)); cf != nil && cf.Decl.Body != nil {
					if pi := elementsFromParam(cf); pi >= 0 && pi < len(call.Args) && isClientShallows(fi, call.Args[pi], 0) {
						ok, why = true, cf.Obj.Name()+" returns only elements of its parameter #"+itoa(pi+1)+", which is the client's shallow list"
					}
				}
			} else if isNil(info, val) {
				ok, why = true, "nil"
			}
			c.Check(ok, r1, key, pos, orStr(ifStr(!ok, "an unshallow entry is sent for a commit that does not come from the client's shallow list: "+why+"; git's fetch-pack dies on it (\"object not found: unshallow <id>\" / \"no shallow found\")"), why))
		}
		ast.Inspect(fi.Decl.Body, func(n ast.Node) bool {
			switch v := n.(type) {
			case *ast.AssignStmt:
				for i, l := range v.Lhs {
					sel, ok := unparen(l).(*ast.SelectorExpr)
					if !ok || sel.Sel.Name != "Unshallows" || i >= len(v.Rhs) {
						continue
					}
					if call, ok := unparen(v.Rhs[i]).(*ast.CallExpr); ok && nodeHasBuiltin(info, call, "append") {
						for _, a := range call.Args[1:] {
							check(v.Pos(), a)
						}
					} else {
						check(v.Pos(), v.Rhs[i])
					}
				}
			case *ast.KeyValueExpr:
				if id, ok := v.Key.(*ast.Ident); ok && id.Name == "Unshallows" {
					check(v.Pos(), v.Value)
				}
			}
			return true
		})
	}
	c.Floor(r1, 2)

	// Coming from the client's list is necessary, not sufficient: a client shallow is unshallowed only if this request's
	// walk actually passed through it (its parents are being sent). Wherever a range variable over the client's list is
	// appended to a list of unshallowed commits, the append must be reachable only across the found-edge of a set
	// lookup keyed by that variable (the set of commits the walk found above the boundary / in the new view).
	const r1b = "unshallow-only-walked"
	n1b := 0
	for _, fi := range p.FuncsIn(trShort) {
		if fi.Decl.Body == nil || p.isTestFile(fi.Decl.Pos()) {
			continue
		}
		var f *Flow
		k := 0
		ast.Inspect(fi.Decl.Body, func(n ast.Node) bool {
			rs, ok := n.(*ast.RangeStmt)
			if !ok || rs.Value == nil {
				return true
			}
			el := objOf(info, rs.Value)
			if el == nil || !isClientShallows(fi, rs.X, 0) || isNil(info, rs.X) {
				return true
			}
			// appends of the element inside this loop
			var appends []ast.Node
			ast.Inspect(rs.Body, func(m ast.Node) bool {
				if as, ok := m.(*ast.AssignStmt); ok && len(as.Rhs) == 1 {
					if call, ok := unparen(as.Rhs[0]).(*ast.CallExpr); ok && nodeHasBuiltin(info, call, "append") {
						for _, a := range call.Args[1:] {
							if objOf(info, a) == el {
								appends = append(appends, as)
							}
						}
					}
				}
				return true
			})
			if len(appends) == 0 {
				return true
			}
			// comma-ok lookups keyed by the element
			found := map[types.Object]bool{}
			ast.Inspect(rs.Body, func(m ast.Node) bool {
				if as, ok := m.(*ast.AssignStmt); ok && len(as.Lhs) == 2 && len(as.Rhs) == 1 {
					if ix, ok := unparen(as.Rhs[0]).(*ast.IndexExpr); ok && objOf(info, ix.Index) == el {
						if o := objOf(info, as.Lhs[1]); o != nil {
							found[o] = true
						}
					}
				}
				return true
			})
			if f == nil {
				f = p.FlowOf(fi)
			}
			guard := FactGuard(func(_ *Flow, fact Fact) bool {
				return fact.Truth && found[objOf(info, fact.Atom)]
			})
			for _, ap := range appends {
				for _, loc := range f.Locs(func(nd ast.Node) bool { return nd == ap }) {
					k++
					n1b++
					c.Analysed(fi)
					// search from the loop body only: start at the range statement's body
					h := f.UnguardedPath(guard, loc)
					c.Check(h == nil, r1b, fi.Name()+":append("+el.Name()+")"+ifStr(k > 1, "#"+itoa(k)), ap.Pos(), orStr(ifStr(h != nil, "a commit of the client's shallow list is reported as unshallowed without having been found in the set of commits this request's walk reached: a shallow commit of another branch loses its mark although none of its parents are sent"),
						"appended only across the found-edge of a set lookup keyed by the commit"))
				}
			}
			return true
		})
	}
	c.Floor(r1b, 2)

	// the two generic lints, over the packages that walk history for a transfer
	pkgs := []string{trShort, "plumbing/revlist", "git", "plumbing/protocol/packp", objShort, "plumbing/storer", "plumbing/object/commitgraph", "storage/filesystem"}
	const r2 = "iterator-element-not-discarded"
	const r3 = "commits-keyed-by-hash"
	n2, n3 := 0, 0
	for _, sp := range pkgs {
		spk := p.Pkg(sp)
		if spk == nil {
			continue
		}
		sinfo := spk.TypesInfo
		for _, fi := range p.FuncsIn(sp) {
			if fi.Decl.Body == nil || p.isTestFile(fi.Decl.Pos()) {
				continue
			}
			nexts, bad := 0, token.NoPos
			ast.Inspect(fi.Decl.Body, func(n ast.Node) bool {
				switch v := n.(type) {
				case *ast.AssignStmt:
					if len(v.Rhs) != 1 || len(v.Lhs) < 2 {
						return true
					}
					call, ok := unparen(v.Rhs[0]).(*ast.CallExpr)
					if !ok {
						return true
					}
					sel, ok := unparen(call.Fun).(*ast.SelectorExpr)
					if !ok || sel.Sel.Name != "Next" || len(call.Args) != 0 {
						return true
					}
					nexts++
					// every result but the last (the error) is thrown away
					allBlank := true
					for _, l := range v.Lhs[:len(v.Lhs)-1] {
						if id, ok := l.(*ast.Ident); !ok || id.Name != "_" {
							allBlank = false
						}
					}
					if allBlank {
						bad = v.Pos()
					}
				case *ast.MapType:
					if tv := sinfo.Types[v.Key]; tv.Type != nil {
						if pt, ok := tv.Type.(*types.Pointer); ok {
							if nt, ok := pt.Elem().(*types.Named); ok && nt.Obj().Pkg() != nil && shortPkg(nt.Obj().Pkg().Path()) == objShort && (nt.Obj().Name() == "Commit" || nt.Obj().Name() == "Tree" || nt.Obj().Name() == "Blob" || nt.Obj().Name() == "Tag") {
								n3++
								c.Analysed(fi)
								c.Violate(r3, fi.Name()+":map["+types.TypeString(tv.Type, func(*types.Package) string { return "" })+"]", v.Pos(), "a map keyed by a pointer to a decoded object: every decode yields a new pointer, the map never recognises an object reached twice (depths, seen sets and memo tables silently stop working)")
							}
						}
					}
				}
				return true
			})
			if nexts > 0 {
				n2++
				c.Analysed(fi)
				c.Check(!bad.IsValid(), r2, fi.Name(), orPos(bad, fi.Decl.Pos()), orStr(ifStr(bad.IsValid(), "an iterator's Next() is called and its element thrown away: asking 'is there another one' this way consumes that element (every second parent of a merge was skipped by the shallow-boundary walk)"), "every element taken from an iterator is used"))
			}
		}
	}
	if n3 == 0 {
		c.Hold(r3, "no-pointer-keyed-object-map", 0, "no map in "+strings.Join(pkgs, ", ")+" is keyed by a pointer to a decoded object")
	}
	// the client applies a shallow update by removing the unshallowed commits from its list: a cursor over a list that
	// shrinks under it skips the entry that slides into the removed one's place
	const r4 = "cursor-recomputed-after-removal"
	n4 := 0
	for _, sp := range []string{trShort, "internal/transport", "git"} {
		for _, fi := range p.FuncsIn(sp) {
			if fi.Decl.Body != nil && !p.isTestFile(fi.Decl.Pos()) {
				n4 += CursorOverShrinkingSlice(c, r4, fi)
			}
		}
	}
	if n4 == 0 {
		c.Hold(r4, "no-index-loop-over-a-shrinking-list", 0, "no loop in the transfer packages reads s[i] and removes elements from s in its body")
	}
	c.Floor(r4, 1)
	c.Floor(r2, 5)
	c.Floor(r3, 1)
}

func orPos(a, b token.Pos) token.Pos {
	if a.IsValid() {
		return a
	}
	return b
}
