package main

import (
	"fmt"
	"go/ast"
	"go/token"
	"go/types"
	"sort"
	"strings"
)

// Package-level state analysis: which package-level variables of the module can change after initialisation, and which
// functions (transitively, through static calls) touch them. Used for "the result of a codec is a function of its input":
// a decoder or encoder that consults mutable package-level state (a cache, a counter, a lazily filled table) can give
// different results for the same bytes depending on what the process decoded before.

type globalState struct {
	Kind  string // assigned | element-assigned | address-taken | pointer-method | sync | atomic | pool | once
	Pos   token.Pos
	In    string
	Count int
}

// rootGlobal returns the package-level variable an lvalue-like expression is rooted at (x, x.f, x[i], *x, x[i:j], pkg.X).
func rootGlobal(info *types.Info, e ast.Expr) *types.Var {
	for {
		e = unparen(e)
		switch v := e.(type) {
		case *ast.Ident:
			if o, ok := info.Uses[v].(*types.Var); ok && o.Pkg() != nil && o.Parent() == o.Pkg().Scope() {
				return o
			}
			return nil
		case *ast.SelectorExpr:
			if id, ok := unparen(v.X).(*ast.Ident); ok {
				if _, isPkg := info.Uses[id].(*types.PkgName); isPkg {
					if o, ok := info.Uses[v.Sel].(*types.Var); ok && o.Pkg() != nil && o.Parent() == o.Pkg().Scope() {
						return o
					}
					return nil
				}
			}
			e = v.X
		case *ast.IndexExpr:
			e = v.X
		case *ast.SliceExpr:
			e = v.X
		case *ast.StarExpr:
			e = v.X
		default:
			return nil
		}
	}
}

func syncKind(t types.Type) string {
	for {
		switch u := t.(type) {
		case *types.Pointer:
			t = u.Elem()
			continue
		case *types.Array:
			t = u.Elem()
			continue
		case *types.Slice:
			t = u.Elem()
			continue
		}
		break
	}
	nt, ok := t.(*types.Named)
	if !ok || nt.Obj().Pkg() == nil {
		return ""
	}
	switch nt.Obj().Pkg().Path() {
	case "sync":
		switch nt.Obj().Name() {
		case "Pool":
			return "pool"
		case "Once":
			return "once"
		}
		return "sync"
	case "sync/atomic":
		return "atomic"
	}
	return ""
}

// mutableGlobals: module package-level variables that are written, have their address taken, or are synchronisation /
// atomic objects, outside func init and outside function literals passed to sync.Once.Do.
func (p *Prog) mutableGlobals() map[*types.Var]*globalState {
	if p.mutGlobals != nil {
		return p.mutGlobals
	}
	out := map[*types.Var]*globalState{}
	inModule := func(v *types.Var) bool {
		return v != nil && v.Pkg() != nil && strings.HasPrefix(v.Pkg().Path(), modPath)
	}
	mark := func(v *types.Var, kind string, pos token.Pos, in string) {
		if !inModule(v) {
			return
		}
		if g := out[v]; g != nil {
			g.Count++
			// strongest kind wins: assigned > element-assigned > others
			rank := map[string]int{"assigned": 9, "element-assigned": 8, "atomic": 7, "sync": 6, "pointer-method": 5, "address-taken": 4, "once": 2, "pool": 1}
			if rank[kind] > rank[g.Kind] {
				g.Kind, g.Pos, g.In = kind, pos, in
			}
			return
		}
		out[v] = &globalState{Kind: kind, Pos: pos, In: in, Count: 1}
	}
	for _, pk := range p.Pkgs {
		info := pk.TypesInfo
		// type-based: globals that are themselves synchronisation objects
		sc := pk.Types.Scope()
		for _, n := range sc.Names() {
			if v, ok := sc.Lookup(n).(*types.Var); ok {
				if k := syncKind(v.Type()); k != "" {
					mark(v, k, v.Pos(), "declaration")
				}
			}
		}
		for _, file := range pk.Syntax {
			if p.isTestFile(file.Pos()) {
				continue
			}
			for _, d := range file.Decls {
				fd, ok := d.(*ast.FuncDecl)
				if !ok || fd.Body == nil || (fd.Recv == nil && fd.Name.Name == "init") {
					continue
				}
				name := fd.Name.Name
				if fo, ok := info.Defs[fd.Name].(*types.Func); ok {
					if fi := p.FuncOf(fo); fi != nil {
						name = fi.Name()
					}
				}
				var walk func(n ast.Node)
				walk = func(n ast.Node) {
					ast.Inspect(n, func(x ast.Node) bool {
						switch v := x.(type) {
						case *ast.AssignStmt:
							if v.Tok == token.DEFINE {
								return true
							}
							for _, l := range v.Lhs {
								if g := rootGlobal(info, l); g != nil {
									if _, plain := unparen(l).(*ast.Ident); plain {
										mark(g, "assigned", l.Pos(), name)
									} else if _, q := unparen(l).(*ast.SelectorExpr); q && rootIsQualified(info, l) {
										mark(g, "assigned", l.Pos(), name)
									} else {
										mark(g, "element-assigned", l.Pos(), name)
									}
								}
							}
						case *ast.IncDecStmt:
							if g := rootGlobal(info, v.X); g != nil {
								mark(g, "assigned", v.Pos(), name)
							}
						case *ast.UnaryExpr:
							if v.Op == token.AND {
								if g := rootGlobal(info, v.X); g != nil {
									mark(g, "address-taken", v.Pos(), name)
								}
							}
						case *ast.CallExpr:
							sel, ok := unparen(v.Fun).(*ast.SelectorExpr)
							if !ok {
								return true
							}
							// sync.Once.Do(func(){...}): the literal runs once, like init
							if fn := Callee(info, v); fn != nil && fn.Pkg() != nil && fn.Pkg().Path() == "sync" && fn.Name() == "Do" {
								if g := rootGlobal(info, sel.X); g != nil {
									mark(g, "once", v.Pos(), name)
								}
								return false
							}
							s := info.Selections[sel]
							if s == nil || s.Kind() != types.MethodVal {
								return true
							}
							g := rootGlobal(info, sel.X)
							if g == nil {
								return true
							}
							fn, _ := s.Obj().(*types.Func)
							if fn == nil {
								return true
							}
							sig := fn.Type().(*types.Signature)
							if sig.Recv() == nil {
								return true
							}
							if _, ptrRecv := sig.Recv().Type().(*types.Pointer); !ptrRecv {
								return true
							}
							if k := syncKind(sig.Recv().Type()); k != "" {
								mark(g, k, v.Pos(), name)
							} else if p.methodMayMutateReceiver(fn) {
								mark(g, "pointer-method", v.Pos(), name)
							}
						}
						return true
					})
				}
				walk(fd.Body)
			}
		}
	}
	p.mutGlobals = out
	return out
}

// methodMayMutateReceiver: a pointer-receiver method that can change the value it is called on. Module methods: the body
// assigns through the receiver (field, element, dereference) or calls another pointer-receiver method of the module on
// it (one level, conservatively "may"). Standard-library types: a short list of types documented as safe for concurrent
// read-only use is immutable; everything else may mutate.
func (p *Prog) methodMayMutateReceiver(fn *types.Func) bool {
	sig := fn.Type().(*types.Signature)
	pt, ok := sig.Recv().Type().(*types.Pointer)
	if !ok {
		return false
	}
	if nt, ok := pt.Elem().(*types.Named); ok && nt.Obj().Pkg() != nil && !strings.HasPrefix(nt.Obj().Pkg().Path(), modPath) {
		switch nt.Obj().Pkg().Path() + "." + nt.Obj().Name() {
		case "regexp.Regexp", "strings.Replacer", "time.Location", "text/template.Template":
			return false
		}
		return true
	}
	fi := p.FuncOf(fn)
	if fi == nil || fi.Decl.Body == nil || fi.Decl.Recv == nil || len(fi.Decl.Recv.List) == 0 || len(fi.Decl.Recv.List[0].Names) == 0 {
		return fi == nil // unknown body: assume it may
	}
	info := fi.Pkg.TypesInfo
	recv := info.Defs[fi.Decl.Recv.List[0].Names[0]]
	rooted := func(e ast.Expr) bool {
		for {
			e = unparen(e)
			switch v := e.(type) {
			case *ast.Ident:
				return info.Uses[v] == recv
			case *ast.SelectorExpr:
				e = v.X
			case *ast.IndexExpr:
				e = v.X
			case *ast.StarExpr:
				e = v.X
			case *ast.SliceExpr:
				e = v.X
			default:
				return false
			}
		}
	}
	mut := false
	ast.Inspect(fi.Decl.Body, func(n ast.Node) bool {
		switch v := n.(type) {
		case *ast.AssignStmt:
			if v.Tok != token.DEFINE {
				for _, l := range v.Lhs {
					if _, plain := unparen(l).(*ast.Ident); !plain && rooted(l) {
						mut = true
					}
				}
			}
		case *ast.IncDecStmt:
			if _, plain := unparen(v.X).(*ast.Ident); !plain && rooted(v.X) {
				mut = true
			}
		case *ast.CallExpr:
			if sel, ok := unparen(v.Fun).(*ast.SelectorExpr); ok && rooted(sel.X) {
				if s := info.Selections[sel]; s != nil && s.Kind() == types.MethodVal {
					if m, ok := s.Obj().(*types.Func); ok && m != fn {
						if ms := m.Type().(*types.Signature); ms.Recv() != nil {
							if _, ptr := ms.Recv().Type().(*types.Pointer); ptr {
								if syncKind(ms.Recv().Type()) != "" {
									mut = true
								} else if cf := p.FuncOf(m); cf == nil {
									mut = true
								}
							}
						}
					}
				}
			}
		}
		return !mut
	})
	return mut
}

func rootIsQualified(info *types.Info, e ast.Expr) bool {
	sel, ok := unparen(e).(*ast.SelectorExpr)
	if !ok {
		return false
	}
	id, ok := unparen(sel.X).(*ast.Ident)
	if !ok {
		return false
	}
	_, isPkg := info.Uses[id].(*types.PkgName)
	return isPkg
}

// staticClosure: functions of the module reachable from roots through statically resolved calls (function literals
// inside a function belong to it). Interface calls are not followed.
func (p *Prog) staticClosure(roots []*FuncInfo) []*FuncInfo {
	cg := p.callGraph()
	seen := map[*types.Func]bool{}
	var out []*FuncInfo
	var stack []*FuncInfo
	for _, r := range roots {
		if r != nil && !seen[r.Obj] {
			seen[r.Obj] = true
			stack = append(stack, r)
		}
	}
	for len(stack) > 0 {
		fi := stack[len(stack)-1]
		stack = stack[:len(stack)-1]
		out = append(out, fi)
		for _, e := range cg.edges[fi.Obj] {
			if e.Callee == nil || seen[e.Callee] {
				continue
			}
			if cf := p.FuncOf(e.Callee); cf != nil && cf.Decl.Body != nil {
				seen[e.Callee] = true
				stack = append(stack, cf)
			}
		}
	}
	sort.Slice(out, func(i, j int) bool { return out[i].Name() < out[j].Name() })
	return out
}

func globalName(v *types.Var) string {
	return strings.TrimPrefix(strings.TrimPrefix(v.Pkg().Path(), modPath), "/") + "." + v.Name()
}

// StateFree: no function in the static closure of roots touches mutable package-level state, except variables in allow
// (qualified short name -> reviewed reason). Pools are reported as held with their kind when allowed.
func StateFree(c *Ctx, rule string, roots []*FuncInfo, allow map[string]string) {
	stateFree(c, rule, roots, allow, "")
}

func stateFree(c *Ctx, rule string, roots []*FuncInfo, allow map[string]string, label string) {
	p := c.P
	mg := p.mutableGlobals()
	closure := p.staticClosure(roots)
	type hit struct {
		fi  *FuncInfo
		v   *types.Var
		pos token.Pos
	}
	var hits []hit
	seenHit := map[string]bool{}
	for _, fi := range closure {
		info := fi.Pkg.TypesInfo
		ast.Inspect(fi.Decl.Body, func(n ast.Node) bool {
			id, ok := n.(*ast.Ident)
			if !ok {
				return true
			}
			v, ok := info.Uses[id].(*types.Var)
			if !ok || mg[v] == nil || mg[v].Kind == "address-taken" {
				return true // writes through a stored alias of a global are not tracked
			}
			k := fi.Name() + "|" + globalName(v)
			if !seenHit[k] {
				seenHit[k] = true
				hits = append(hits, hit{fi, v, id.Pos()})
			}
			return true
		})
	}
	poolsDone := map[*types.Var]bool{}
	for _, h := range hits {
		g := mg[h.v]
		key := h.fi.Name() + "->" + globalName(h.v)
		if g.Kind == "pool" && !poolsDone[h.v] {
			poolsDone[h.v] = true
			poolAccessorsReset(c, rule, h.v)
		}
		if why, ok := allow[globalName(h.v)]; ok {
			c.Hold(rule, key, h.pos, "uses "+g.Kind+" package-level state; reviewed: "+why)
			continue
		}
		c.Violate(rule, key, h.pos, fmt.Sprintf("touches package-level variable %s, which is mutable after initialisation (%s in %s): the result for the same input can depend on what the process handled before", globalName(h.v), g.Kind, g.In))
	}
	var names []string
	for _, r := range roots {
		if r != nil {
			names = append(names, r.Name())
			if label == "" {
				c.Analysed(r)
			}
		}
	}
	if label == "" {
		label = strings.Join(names, ",")
	}
	c.Hold(rule, "closure("+label+")", token.NoPos, fmt.Sprintf("%d functions reachable through static calls examined, %d uses of mutable package-level state (all reviewed)", len(closure), len(hits)))
	c.Extra[rule+"_closure_size"] = len(closure)
}

// poolAccessorsReset: for a sync.Pool variable whose objects carry content between uses (readers, writers, buffers of
// package utils/sync), every function that takes an object out of the pool resets it (a Reset method or the clear
// builtin) on every path before returning. Scratch-array pools outside utils/sync are not covered (their users fill the
// buffer before reading it; stated in the reviewed table).
func poolAccessorsReset(c *Ctx, rule string, pool *types.Var) {
	p := c.P
	if !strings.HasSuffix(pool.Pkg().Path(), "/utils/sync") {
		return
	}
	for _, fi := range p.funcsL {
		if fi.Pkg.Types != pool.Pkg() || fi.Decl.Body == nil {
			continue
		}
		info := fi.Pkg.TypesInfo
		isGet := func(call *ast.CallExpr) bool {
			sel, ok := unparen(call.Fun).(*ast.SelectorExpr)
			if !ok || sel.Sel.Name != "Get" {
				return false
			}
			return rootGlobal(info, sel.X) == pool
		}
		if nodeHasCall(fi.Decl.Body, false, isGet) == nil {
			continue
		}
		f := p.FlowOf(fi)
		gets := f.Locs(func(n ast.Node) bool { return nodeHasCall(n, false, isGet) != nil })
		resets := func(n ast.Node) bool {
			return nodeHasCall(n, false, func(call *ast.CallExpr) bool {
				switch fn := unparen(call.Fun).(type) {
				case *ast.SelectorExpr:
					return fn.Sel.Name == "Reset"
				case *ast.Ident:
					return fn.Name == "clear" && info.Uses[fn] == types.Universe.Lookup("clear")
				}
				return false
			}) != nil
		}
		ok := len(gets) > 0
		why := "every object taken from the pool is reset before it is returned to the caller"
		for _, g := range gets {
			if resets(g.B.Nodes[g.Idx]) {
				continue
			}
			if h := f.Search(SearchOpts{Starts: []Loc{After(g)}, Barrier: resets, Sink: func(n ast.Node) bool { _, r := n.(*ast.ReturnStmt); return r }}); h != nil {
				ok, why = false, "an object taken from the pool can be returned without Reset/clear (lines "+f.pathString(h)+"): content of a previous use leaks into the next"
			}
		}
		c.Analysed(fi)
		c.Check(ok, rule, fi.Name()+":pool-reset("+globalName(pool)+")", fi.Decl.Pos(), why)
	}
}
