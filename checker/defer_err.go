package main

import (
	"go/ast"
	"go/token"
	"go/types"
)

// openedForWriting: the variable is assigned (in body) from a call whose name says the handle can be written:
// Create, OpenFile, TempFile, or a …Writer accessor.
func openedForWriting(info *types.Info, body *ast.BlockStmt, h types.Object) bool {
	w := false
	ast.Inspect(body, func(n ast.Node) bool {
		as, ok := n.(*ast.AssignStmt)
		if !ok || len(as.Rhs) != 1 || len(as.Lhs) == 0 || objOf(info, as.Lhs[0]) != h {
			return true
		}
		if call, ok := unparen(as.Rhs[0]).(*ast.CallExpr); ok {
			if fn := Callee(info, call); fn != nil {
				switch n := fn.Name(); {
				case n == "Create", n == "OpenFile", n == "TempFile", len(n) > 6 && n[len(n)-6:] == "Writer":
					w = true
				}
			}
		}
		return true
	})
	return w
}

// DeferredErrorsReachResult: an error that a deferred call stores — `defer ioutil.CheckClose(f, &err)`, or a deferred
// literal that assigns an error variable of the enclosing function — is only seen by the caller when that variable is a
// named result. If it is an ordinary local, the error of the deferred Flush/Close is silently dropped (the function
// already evaluated its return value). One obligation per function that has such a defer.
func DeferredErrorsReachResult(c *Ctx, rule string, shorts ...string) int {
	p := c.P
	n := 0
	errT := types.Universe.Lookup("error").Type()
	for _, short := range shorts {
		for _, fi := range p.FuncsIn(short) {
			if fi.Decl.Body == nil || p.isTestFile(fi.Decl.Pos()) {
				continue
			}
			info := fi.Pkg.TypesInfo
			named := map[types.Object]bool{}
			if rl := fi.Decl.Type.Results; rl != nil {
				for _, f := range rl.List {
					for _, nm := range f.Names {
						if o := info.Defs[nm]; o != nil {
							named[o] = true
						}
					}
				}
			}
			var lost []types.Object
			var at token.Pos
			has := false
			var scan func(body *ast.BlockStmt, results map[types.Object]bool)
			scan = func(body *ast.BlockStmt, results map[types.Object]bool) {
				ast.Inspect(body, func(x ast.Node) bool {
					switch v := x.(type) {
					case *ast.FuncLit:
						// a nested function has its own results
						inner := map[types.Object]bool{}
						if rl := v.Type.Results; rl != nil {
							for _, f := range rl.List {
								for _, nm := range f.Names {
									if o := info.Defs[nm]; o != nil {
										inner[o] = true
									}
								}
							}
						}
						scan(v.Body, inner)
						return false
					case *ast.DeferStmt:
						// &err arguments; only handles that were opened for writing matter (a lost close error of a
						// read-only handle cannot lose data)
						writeHandle := false
						for _, a := range v.Call.Args {
							if h := objOf(info, a); h != nil && openedForWriting(info, fi.Decl.Body, h) {
								writeHandle = true
							}
						}
						for _, a := range v.Call.Args {
							if u, ok := unparen(a).(*ast.UnaryExpr); ok && u.Op == token.AND && writeHandle {
								if o := objOf(info, u.X); o != nil && types.Identical(o.Type(), errT) {
									has = true
									if !results[o] {
										lost, at = append(lost, o), v.Pos()
									}
								}
							}
						}
						// a deferred Close of a write handle whose error is thrown away: `defer f.Close()`,
						// `defer func() { _ = f.Close() }()`
						discarded := func(call *ast.CallExpr) types.Object {
							sel, ok := unparen(call.Fun).(*ast.SelectorExpr)
							if !ok || sel.Sel.Name != "Close" || len(call.Args) != 0 {
								return nil
							}
							h := objOf(info, sel.X)
							if h != nil && openedForWriting(info, fi.Decl.Body, h) {
								return h
							}
							return nil
						}
						if h := discarded(v.Call); h != nil {
							has = true
							lost, at = append(lost, h), v.Pos()
						}
						if lit, ok := unparen(v.Call.Fun).(*ast.FuncLit); ok {
							for _, st := range lit.Body.List {
								var call *ast.CallExpr
								switch s := st.(type) {
								case *ast.ExprStmt:
									call, _ = s.X.(*ast.CallExpr)
								case *ast.AssignStmt:
									if len(s.Lhs) == 1 && len(s.Rhs) == 1 {
										if id, isID := s.Lhs[0].(*ast.Ident); isID && id.Name == "_" {
											call, _ = s.Rhs[0].(*ast.CallExpr)
										}
									}
								}
								if call != nil {
									if h := discarded(call); h != nil {
										has = true
										lost, at = append(lost, h), v.Pos()
									}
								}
							}
						}
						// deferred literal assigning an outer error variable
						if lit, ok := unparen(v.Call.Fun).(*ast.FuncLit); ok {
							ast.Inspect(lit.Body, func(y ast.Node) bool {
								as, ok := y.(*ast.AssignStmt)
								if !ok || as.Tok == token.DEFINE {
									return true
								}
								for _, l := range as.Lhs {
									o := objOf(info, l)
									if o == nil || !types.Identical(o.Type(), errT) {
										continue
									}
									// declared outside the literal?
									if o.Pos() >= lit.Pos() && o.Pos() <= lit.End() {
										continue
									}
									has = true
									if !results[o] {
										lost, at = append(lost, o), v.Pos()
									}
								}
								return true
							})
						}
						return false
					}
					return true
				})
			}
			scan(fi.Decl.Body, named)
			if !has {
				continue
			}
			n++
			c.Analysed(fi)
			if len(lost) > 0 && !types.Identical(lost[0].Type(), errT) {
				c.Violate(rule, fi.Name()+":"+lost[0].Name(), at, "the error of the deferred Close of `"+lost[0].Name()+"`, a handle opened for writing, is discarded: where Close is the point at which the data is committed, a failed write is reported as success")
			} else if len(lost) > 0 {
				c.Violate(rule, fi.Name()+":"+lost[0].Name(), at, "a deferred call stores its error in `"+lost[0].Name()+"`, which is not a named result of the function: the error of the deferred Flush/Close never reaches the caller, the operation reports success")
			} else {
				c.Hold(rule, fi.Name(), fi.Decl.Pos(), "errors stored by deferred calls land in a named result")
			}
		}
	}
	return n
}
