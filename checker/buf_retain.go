package main

import (
	"go/ast"
	"go/token"
	"go/types"

	"golang.org/x/tools/go/cfg"
)

// NoGoroutineKeepsCallerBuffer: a function that is handed a []byte (io.Writer.Write and its helpers) may use it only
// until it returns; the caller refills the buffer afterwards. A goroutine started with that slice must therefore be
// joined — a channel receive or a Wait() — on every path from the `go` statement to a return. Otherwise whatever the
// goroutine computes (the object ID, in the loose-object writer) is computed over bytes the caller has already
// replaced, while the bytes written synchronously are right.
// One obligation per go statement that mentions a []byte parameter; if there is none, one obligation saying so.
func NoGoroutineKeepsCallerBuffer(c *Ctx, rule string, shorts ...string) {
	p := c.P
	scanned, sites := 0, 0
	for _, sp := range shorts {
		pk := p.Pkg(sp)
		if pk == nil {
			c.Unresolved(rule, "package "+sp, 0, "not loaded")
			continue
		}
		info := pk.TypesInfo
		for _, fi := range p.FuncsIn(sp) {
			if fi.Decl.Body == nil || p.isTestFile(fi.Decl.Pos()) {
				continue
			}
			var bufs []types.Object
			for _, po := range paramObjs(info, fi.Decl) {
				if sl, ok := po.Type().Underlying().(*types.Slice); ok {
					if b, ok := sl.Elem().Underlying().(*types.Basic); ok && b.Kind() == types.Byte {
						bufs = append(bufs, po)
					}
				}
			}
			if len(bufs) == 0 {
				continue
			}
			scanned++
			// io.Writer: "Write must not retain p". Storing the slice (or a re-slice of it) in a field, a package
			// variable or a channel keeps it past the call.
			if fi.Decl.Name.Name == "Write" && fi.Decl.Recv != nil && len(bufs) == 1 {
				var stored ast.Node
				aliasOf := func(e ast.Expr) bool {
					e = unparen(e)
					if sl, ok := e.(*ast.SliceExpr); ok {
						e = unparen(sl.X)
					}
					return objOf(info, e) == bufs[0]
				}
				ast.Inspect(fi.Decl.Body, func(n ast.Node) bool {
					switch v := n.(type) {
					case *ast.AssignStmt:
						for i, l := range v.Lhs {
							if i >= len(v.Rhs) || !aliasOf(v.Rhs[i]) {
								continue
							}
							if _, isSel := unparen(l).(*ast.SelectorExpr); isSel {
								stored = v
							} else if o := objOf(info, l); o != nil && o.Parent() == o.Pkg().Scope() {
								stored = v
							}
						}
					case *ast.SendStmt:
						if aliasOf(v.Value) {
							stored = v
						}
					}
					return true
				})
				c.Analysed(fi)
				if stored != nil {
					c.Violate(rule, fi.Name()+":retains("+bufs[0].Name()+")", stored.Pos(), "Write stores the caller's slice (field, package variable or channel): io.Writer forbids retaining p, the caller refills it after the call")
				} else {
					c.Hold(rule, fi.Name()+":retains("+bufs[0].Name()+")", fi.Decl.Pos(), "Write does not store the caller's slice")
				}
			}
			var f *Flow
			k := 0
			ast.Inspect(fi.Decl.Body, func(n ast.Node) bool {
				gs, ok := n.(*ast.GoStmt)
				if !ok {
					return true
				}
				var held types.Object
				for _, b := range bufs {
					if usesObj(info, gs.Call, b) {
						held = b
					}
				}
				if held == nil {
					return true
				}
				k++
				sites++
				c.Analysed(fi)
				if f == nil {
					f = p.FlowOf(fi)
				}
				key := fi.Name() + ":go#" + itoa(k) + "(" + held.Name() + ")"
				locs := f.Locs(func(x ast.Node) bool { return x == ast.Node(gs) })
				if len(locs) == 0 {
					c.Hold(rule, key, gs.Pos(), "not decided: the go statement is inside a function literal")
					return true
				}
				isJoin := func(x ast.Node) bool {
					join := false
					ast.Inspect(x, func(y ast.Node) bool {
						switch v := y.(type) {
						case *ast.FuncLit:
							return false
						case *ast.UnaryExpr:
							if v.Op == token.ARROW {
								join = true
							}
						case *ast.CallExpr:
							if sel, ok := unparen(v.Fun).(*ast.SelectorExpr); ok && sel.Sel.Name == "Wait" {
								join = true
							}
						}
						return !join
					})
					return join
				}
				isRet := func(x ast.Node) bool { _, ok := x.(*ast.ReturnStmt); return ok }
				h := f.Search(SearchOpts{Starts: []Loc{After(locs[0])}, Sink: isRet, Barrier: isJoin})
				fellOff := false
				if h == nil {
					// a function without results can end without a return statement: an exit block that holds none
					fellOff = f.Search(SearchOpts{Starts: []Loc{After(locs[0])}, Barrier: isJoin, BlockSink: func(b *cfg.Block) bool {
						if len(b.Succs) != 0 || !b.Live {
							return false
						}
						for _, nd := range b.Nodes {
							if isRet(nd) || isJoin(nd) {
								return false
							}
							if es, ok := nd.(*ast.ExprStmt); ok {
								if call, ok := es.X.(*ast.CallExpr); ok {
									if id, ok := call.Fun.(*ast.Ident); ok && id.Name == "panic" {
										return false
									}
								}
							}
						}
						return true
					}}) != nil
				}
				bad := h != nil || fellOff
				c.Check(!bad, rule, key, gs.Pos(), orStr(ifStr(bad, "a goroutine is started with the caller's buffer `"+held.Name()+"` and the function can return without joining it: the caller is free to refill the buffer, so the goroutine works on other bytes than the ones written synchronously"),
					"the goroutine is joined (channel receive or Wait) on every path before the function returns"))
				return true
			})
		}
	}
	if sites == 0 {
		c.Hold(rule, "no-goroutine-holds-a-buffer", 0, "none of the "+itoa(scanned)+" functions that are handed a []byte starts a goroutine with it")
	}
}
