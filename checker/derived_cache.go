package main

import (
	"go/ast"
	"go/token"
	"go/types"
)

// DerivedCacheFollowsOwner: a callback (function literal) that keeps state between its invocations in variables of the
// enclosing function. If one such variable D is computed from another, O (`D = O.Sub(name)`), D is a cache that is only
// valid for the O it was computed from: on every path of the callback, after O is reassigned D has to be reassigned
// (or cleared) before it is read again — a test of D's own key is not enough, the same key under another owner is a
// different object. One obligation per (callback, O, D, assignment of O); if the callbacks keep no derived state, one
// obligation saying so. Returns the number of (O, D) pairs found.
func DerivedCacheFollowsOwner(c *Ctx, rule string, fi *FuncInfo) int {
	info := fi.Pkg.TypesInfo
	pairs := 0
	var lits []*ast.FuncLit
	ast.Inspect(fi.Decl.Body, func(n ast.Node) bool {
		if fl, ok := n.(*ast.FuncLit); ok {
			lits = append(lits, fl)
		}
		return true
	})
	for li, lit := range lits {
		captured := func(o types.Object) bool {
			if o == nil {
				return false
			}
			if _, isVar := o.(*types.Var); !isVar {
				return false
			}
			// declared in the enclosing function, outside this literal
			return o.Pos() >= fi.Decl.Pos() && o.Pos() <= fi.Decl.End() && !(o.Pos() >= lit.Pos() && o.Pos() <= lit.End())
		}
		// assignments to captured variables inside the literal
		type asg struct {
			stmt *ast.AssignStmt
			lhs  types.Object
			rhs  ast.Expr
		}
		var asgs []asg
		ast.Inspect(lit.Body, func(n ast.Node) bool {
			if inner, ok := n.(*ast.FuncLit); ok && inner != lit {
				return false
			}
			as, ok := n.(*ast.AssignStmt)
			if !ok || as.Tok != token.ASSIGN {
				return true
			}
			for i, l := range as.Lhs {
				if o := objOf(info, l); captured(o) {
					var rhs ast.Expr
					if len(as.Rhs) == len(as.Lhs) {
						rhs = as.Rhs[i]
					} else if len(as.Rhs) == 1 {
						rhs = as.Rhs[0]
					}
					asgs = append(asgs, asg{as, o, rhs})
				}
			}
			return true
		})
		// D derived from O
		type pair struct{ o, d types.Object }
		seen := map[pair]bool{}
		var f *Flow
		for _, a := range asgs {
			if a.rhs == nil {
				continue
			}
			for _, b := range asgs {
				if b.lhs == a.lhs || !usesObj(info, a.rhs, b.lhs) {
					continue
				}
				pr := pair{b.lhs, a.lhs} // a.lhs is computed from b.lhs
				if seen[pr] {
					continue
				}
				seen[pr] = true
				pairs++
				if f == nil {
					f = c.P.NewFlow(info, lit.Body)
				}
				o, d := pr.o, pr.d
				assignsD := func(nd ast.Node) bool {
					as, ok := nd.(*ast.AssignStmt)
					if !ok {
						return false
					}
					for _, l := range as.Lhs {
						if objOf(info, l) == d {
							return true
						}
					}
					return false
				}
				readsD := func(nd ast.Node) bool {
					found := false
					ast.Inspect(nd, func(y ast.Node) bool {
						if _, isLit := y.(*ast.FuncLit); isLit {
							return false
						}
						if id, ok := y.(*ast.Ident); ok && info.Uses[id] == d {
							found = true
						}
						return !found
					})
					return found
				}
				k := 0
				for _, loc := range f.Locs(func(nd ast.Node) bool {
					as, ok := nd.(*ast.AssignStmt)
					if !ok {
						return false
					}
					for _, l := range as.Lhs {
						if objOf(info, l) == o {
							return true
						}
					}
					return false
				}) {
					k++
					key := fi.Name() + ":callback#" + itoa(li+1) + ":" + d.Name() + "<-" + o.Name() + ifStr(k > 1, "#"+itoa(k))
					h := f.Search(SearchOpts{Starts: []Loc{After(loc)}, Sink: readsD, Barrier: assignsD})
					c.Analysed(fi)
					if h != nil {
						c.Violate(rule, key, loc.B.Nodes[loc.Idx].Pos(), "`"+d.Name()+"` is computed from `"+o.Name()+"` and kept between invocations of the callback; here `"+o.Name()+"` is replaced and `"+d.Name()+"` is read again at "+c.P.Pos(h.Node.Pos())+" without having been recomputed or cleared: a value cached under the previous `"+o.Name()+"` is used for the new one")
					} else {
						c.Hold(rule, key, loc.B.Nodes[loc.Idx].Pos(), "after `"+o.Name()+"` is replaced, `"+d.Name()+"` is reassigned before it is read again")
					}
				}
			}
		}
	}
	return pairs
}

// CursorOverShrinkingSlice: a loop that reads `s[pos]`, removes elements from s inside the loop (s is reassigned from
// something other than an append that grows it) and advances the cursor with pos++ skips the element that moved into
// the removed one's place — whenever the removed element sits before the cursor. The cursor has to be recomputed from
// the element (a lookup of its position in the current s) or be corrected (pos--). One obligation per such loop.
func CursorOverShrinkingSlice(c *Ctx, rule string, fi *FuncInfo) int {
	info := fi.Pkg.TypesInfo
	n := 0
	ast.Inspect(fi.Decl.Body, func(x ast.Node) bool {
		loop, ok := x.(*ast.ForStmt)
		if !ok {
			return true
		}
		// (slice, index) pairs read in the loop
		type pr struct{ s, i types.Object }
		reads := map[pr]bool{}
		ast.Inspect(loop, func(y ast.Node) bool {
			if ix, ok := y.(*ast.IndexExpr); ok {
				s, i := objOf(info, ix.X), objOf(info, ix.Index)
				if s != nil && i != nil {
					if _, isSlice := s.Type().Underlying().(*types.Slice); isSlice {
						reads[pr{s, i}] = true
					}
				}
			}
			return true
		})
		for p := range reads {
			shrinks := false
			ast.Inspect(loop.Body, func(y ast.Node) bool {
				as, ok := y.(*ast.AssignStmt)
				if !ok {
					return true
				}
				for k, l := range as.Lhs {
					if objOf(info, l) != p.s || k >= len(as.Rhs) {
						continue
					}
					rhs := unparen(as.Rhs[k])
					if call, ok := rhs.(*ast.CallExpr); ok {
						if nodeHasBuiltin(info, call, "append") && len(call.Args) > 0 && objOf(info, call.Args[0]) == p.s {
							continue // grows
						}
						shrinks = true // remove(s, x), slices.Delete(s, …), append(s[:i], s[i+1:]...)
					} else if _, ok := rhs.(*ast.SliceExpr); ok {
						shrinks = true
					}
				}
				return true
			})
			if !shrinks {
				continue
			}
			inc, dec, recomputed := false, false, false
			visit := func(y ast.Node) bool {
				switch v := y.(type) {
				case *ast.IncDecStmt:
					if objOf(info, v.X) == p.i {
						if v.Tok == token.INC {
							inc = true
						} else {
							dec = true
						}
					}
				case *ast.AssignStmt:
					for k, l := range v.Lhs {
						if objOf(info, l) != p.i {
							continue
						}
						if v.Tok == token.ADD_ASSIGN {
							inc = true
						} else if v.Tok == token.SUB_ASSIGN {
							dec = true
						} else if k < len(v.Rhs) && !usesObj(info, v.Rhs[k], p.i) {
							recomputed = true
						}
					}
				}
				return true
			}
			ast.Inspect(loop.Body, visit)
			if loop.Post != nil {
				ast.Inspect(loop.Post, visit)
			}
			n++
			c.Analysed(fi)
			key := fi.Name() + ":" + p.s.Name() + "[" + p.i.Name() + "]"
			bad := inc && !dec && !recomputed
			c.Check(!bad, rule, key, loop.Pos(), orStr(ifStr(bad, "elements are removed from `"+p.s.Name()+"` inside the loop and the cursor `"+p.i.Name()+"` is only incremented: when the removed element lies before the cursor the next element moves into the cursor's place and is skipped"),
				"the cursor is recomputed (or corrected) after elements were removed"))
		}
		return true
	})
	return n
}
