package main

import (
	"go/ast"
	"go/token"
	"go/types"
	"strings"
)

func init() {
	register(&propSpec{
		ID: "C40",
		Explanation: "Decides that the filesystem loader can reach the disk only through its base filesystem: (loader-fs-derivation) in the methods of transport.FilesystemLoader every billy.Filesystem value " +
			"(the one probed with Lstat/Open and the one handed to filesystem.NewStorageWithOptions) is l.base or the result of Chroot on l.base, and readGitfile reads through the filesystem it is given; " +
			"(no-host-fs) no function of package plumbing/transport reachable from FilesystemLoader.Load calls os file APIs, osfs constructors, filepath.EvalSymlinks/Abs or os.Getwd; " +
			"(base-set-once) FilesystemLoader.base is assigned only by its constructor; (http-file-from-storage) backend's dumb-HTTP file handler opens files only through the storage's own filesystem. " +
			"Not decided: containment itself, which is the chroot guarantee of the billy filesystem chosen as base.",
		Assumptions: []string{"billy Chroot confines the returned filesystem to its root, including '..' and symlinks"},
		Run:         runC40,
	})
	register(&propSpec{
		ID: "C41",
		Explanation: "Decides who builds the remote command line and what may be written into it unquoted, not the quoting function's byte-level correctness: (ssh-exec-source) the only string ever passed to " +
			"ssh.Session.Start/Run/Output/CombinedOutput in plumbing/transport/ssh is the result of buildCommand; (quoted-args) inside buildCommand the builder receives only constants and req.Command directly; " +
			"req.URL.Path and every element of req.Args are passed to writeShellQuote, and the builder is handed to no other function; (quote-shape) writeShellQuote opens and closes with a single quote and has a " +
			"branch that treats both ' and ! specially; (special-byte-escaped-each-time) with the current byte assumed to be ' (and !) no write of that byte is reachable in the iteration before a write whose constant argument contains a backslash — each special byte gets an escape of its own, whatever state the routine keeps. Not decided: that the emitted bytes dequote to the original words for all inputs (a value property of the loop body).",
		Assumptions: []string{"req.Command is a fixed service name chosen by go-git"},
		Run:         runC41,
	})
}

func runC40(c *Ctx) {
	p := c.P
	pk := p.Pkg(trShort)
	lt := p.lookupType(trShort, "FilesystemLoader")
	if pk == nil || lt == nil {
		c.Unresolved("loader-fs-derivation", trShort+".FilesystemLoader", 0, "type not found")
		return
	}
	info := pk.TypesInfo
	baseF := fieldOf(lt, "base")
	if baseF == nil {
		c.Unresolved("loader-fs-derivation", trShort+".FilesystemLoader.base", lt.Pos(), "field not found")
		return
	}
	fsType := modPath[:0] + billyPath + ".Filesystem"
	isFsType := func(t types.Type) bool { return t != nil && types.TypeString(t, nil) == fsType }
	const r1 = "loader-fs-derivation"
	// is expression e the base or a Chroot of the base (through local variables)?
	var methods []*FuncInfo
	for _, fi := range p.FuncsIn(trShort) {
		if recvTypeName(fi.Obj) == lt && fi.Decl.Body != nil {
			methods = append(methods, fi)
		}
	}
	for _, fi := range methods {
		c.Analysed(fi)
		d := newDeriver(info, fi.Decl)
		var fromBase func(e ast.Expr, depth int) bool
		fromBase = func(e ast.Expr, depth int) bool {
			e = unparen(e)
			if depth > 5 {
				return false
			}
			switch v := e.(type) {
			case *ast.SelectorExpr:
				return info.Uses[v.Sel] == baseF
			case *ast.CallExpr:
				if fn := Callee(info, v); isBillyMethod(fn, "Chroot") {
					if sel, ok := unparen(v.Fun).(*ast.SelectorExpr); ok {
						return fromBase(sel.X, depth+1)
					}
				}
				return false
			case *ast.Ident:
				o := objOf(info, v)
				defs := d.defs[o]
				if len(defs) == 0 {
					return false
				}
				for _, def := range defs {
					if !fromBase(def, depth+1) {
						return false
					}
				}
				return true
			}
			return false
		}
		n := 0
		ast.Inspect(fi.Decl.Body, func(x ast.Node) bool {
			call, ok := x.(*ast.CallExpr)
			if !ok {
				return true
			}
			// receivers of filesystem operations
			if sel, ok := unparen(call.Fun).(*ast.SelectorExpr); ok {
				if tv, ok := info.Types[sel.X]; ok && isFsType(tv.Type) {
					n++
					c.Check(fromBase(sel.X, 0), r1, fi.Name()+":"+exprString(sel.X)+"."+sel.Sel.Name, call.Pos(), "filesystem operation on l.base or a Chroot of it")
				}
			}
			// filesystem values passed on
			for _, a := range call.Args {
				if tv, ok := info.Types[a]; ok && isFsType(tv.Type) {
					n++
					cn := "?"
					if fn := Callee(info, call); fn != nil {
						cn = fn.Name()
					}
					c.Check(fromBase(a, 0), r1, fi.Name()+":"+exprString(a)+"->"+cn, call.Pos(), "filesystem handed to "+cn+" is l.base or a Chroot of it")
				}
			}
			return true
		})
	}
	// readGitfile and other helpers with a filesystem parameter: operate only on that parameter
	for _, fi := range p.FuncsIn(trShort) {
		if fi.Decl.Body == nil || recvTypeName(fi.Obj) == lt || p.isTestFile(fi.Decl.Pos()) {
			continue
		}
		called := false
		for _, m := range methods {
			walkCalls(m.Decl.Body, true, func(call *ast.CallExpr) {
				if Callee(info, call) == fi.Obj {
					called = true
				}
			})
		}
		if !called {
			continue
		}
		var fsParams []types.Object
		for _, pv := range paramObjs(info, fi.Decl) {
			if isFsType(pv.Type()) {
				fsParams = append(fsParams, pv)
			}
		}
		if len(fsParams) == 0 {
			continue
		}
		ok := true
		ast.Inspect(fi.Decl.Body, func(x ast.Node) bool {
			if call, isCall := x.(*ast.CallExpr); isCall {
				if sel, isSel := unparen(call.Fun).(*ast.SelectorExpr); isSel {
					if tv, has := info.Types[sel.X]; has && isFsType(tv.Type) {
						o := objOf(info, sel.X)
						match := false
						for _, pv := range fsParams {
							if pv == o {
								match = true
							}
						}
						if !match {
							ok = false
						}
					}
				}
			}
			return true
		})
		c.Analysed(fi)
		c.Check(ok, r1, fi.Name()+":uses-given-fs", fi.Decl.Pos(), "helper reads only through the filesystem it was given")
	}
	c.Floor(r1, 5)

	// no-host-fs
	const r2 = "no-host-fs"
	forbidden := func(_ *types.Info, _ *ast.CallExpr, callee *types.Func) bool {
		if callee == nil || callee.Pkg() == nil {
			return false
		}
		pp, n := callee.Pkg().Path(), callee.Name()
		switch pp {
		case "os":
			switch n {
			case "Open", "OpenFile", "ReadFile", "Stat", "Lstat", "ReadDir", "Getwd", "OpenRoot", "Readlink", "DirFS", "Create", "Mkdir", "MkdirAll":
				return true
			}
		case "path/filepath":
			return n == "EvalSymlinks" || n == "Abs" || n == "Walk" || n == "WalkDir" || n == "Glob"
		case "io/ioutil":
			return n == "ReadFile" || n == "ReadDir"
		case billyPath + "/osfs":
			return strings.HasPrefix(n, "New")
		}
		return false
	}
	eff := p.ComputeEffect(forbidden, EffectOpts{Skip: func(fn *types.Func) bool {
		return fn.Pkg() == nil || shortPkg(fn.Pkg().Path()) != trShort
	}})
	for _, fi := range methods {
		if eff.Has[fi.Obj] {
			c.Violate(r2, fi.Name(), fi.Decl.Pos(), "reaches the host filesystem directly, bypassing the loader's base: "+eff.Chain(fi.Obj))
		} else {
			c.Hold(r2, fi.Name(), fi.Decl.Pos(), "no os/osfs/filepath host-filesystem call reachable within package transport")
		}
	}
	c.Floor(r2, 2)

	// base-set-once
	const r3 = "base-set-once"
	nw := 0
	for _, u := range p.fieldUses(baseF) {
		if _, isLHS := assignedIn(u.File, u.Sel); isLHS {
			nw++
			c.Violate(r3, funcNameOr(u.In, "<pkg>")+":assigns-base", u.Sel.Pos(), "the loader's root filesystem is replaced after construction")
		}
	}
	// composite literals of FilesystemLoader only in the constructor
	for _, file := range pk.Syntax {
		if p.isTestFile(file.Pos()) {
			continue
		}
		ast.Inspect(file, func(n ast.Node) bool {
			cl, ok := n.(*ast.CompositeLit)
			if !ok {
				return true
			}
			if tv, ok := info.Types[cl]; ok && types.Identical(tv.Type, lt.Type()) {
				in := funcNameOr(p.enclosingFunc(pk, cl.Pos()), "<package level>")
				c.Check(in == trShort+".NewFilesystemLoader", r3, in+":FilesystemLoader-literal", cl.Pos(), "loader values are built only by NewFilesystemLoader")
			}
			return true
		})
	}
	if nw == 0 {
		c.Hold(r3, trShort+".FilesystemLoader.base:no-writers", baseF.Pos(), "no assignment to base outside the constructor literal")
	}

	// http-file-from-storage
	const r4 = "http-file-from-storage"
	if bp := p.Pkg("backend"); bp == nil {
		c.Unresolved(r4, "package backend", 0, "not loaded")
	} else {
		binfo := bp.TypesInfo
		n := 0
		for _, fi := range p.FuncsIn("backend") {
			if fi.Decl.Body == nil || p.isTestFile(fi.Decl.Pos()) {
				continue
			}
			d := newDeriver(binfo, fi.Decl)
			ast.Inspect(fi.Decl.Body, func(x ast.Node) bool {
				call, ok := x.(*ast.CallExpr)
				if !ok {
					return true
				}
				fn := Callee(binfo, call)
				if !isBillyMethod(fn) || fn.Name() == "Join" || fn.Name() == "Root" || !hasStringParam(fn.Type().(*types.Signature)) {
					return true
				}
				sel := unparen(call.Fun).(*ast.SelectorExpr)
				// receiver must be a variable defined as <storer>.Filesystem()
				okRecv := false
				if o := objOf(binfo, sel.X); o != nil {
					for _, def := range d.defs[o] {
						if dc, ok := unparen(def).(*ast.CallExpr); ok {
							if df := Callee(binfo, dc); df != nil && df.Name() == "Filesystem" {
								okRecv = true
							}
						}
					}
				}
				n++
				c.Analysed(fi)
				c.Check(okRecv, r4, fi.Name()+"->fs."+fn.Name(), call.Pos(), "file served through the loaded storage's own filesystem")
				return true
			})
		}
		if n == 0 {
			c.Unresolved(r4, "backend:file-serving", 0, "no filesystem access found in package backend")
		}
		// backend never touches the host filesystem itself
		beff := p.ComputeEffect(forbidden, EffectOpts{Skip: func(fn *types.Func) bool {
			return fn.Pkg() == nil || shortPkg(fn.Pkg().Path()) != "backend"
		}})
		bad := ""
		for fn := range beff.Has {
			if fi := p.FuncOf(fn); fi != nil && !p.isTestFile(fi.Decl.Pos()) {
				bad = beff.Chain(fn)
			}
		}
		c.Check(bad == "", r4, "backend:no-host-fs", bp.Syntax[0].Pos(), orStr(bad, "package backend makes no os/osfs/filepath host-filesystem call"))
	}
}

func runC41(c *Ctx) {
	p := c.P
	const sshShort = "plumbing/transport/ssh"
	pk := p.Pkg(sshShort)
	if pk == nil {
		c.Unresolved("ssh-exec-source", "package "+sshShort, 0, "not loaded")
		return
	}
	info := pk.TypesInfo
	build := p.Func(sshShort + ".buildCommand")
	quote := p.Func(sshShort + ".writeShellQuote")
	if build == nil || quote == nil {
		c.Unresolved("ssh-exec-source", sshShort+".{buildCommand,writeShellQuote}", 0, "anchor not found")
		return
	}
	// 1. ssh-exec-source
	const r1 = "ssh-exec-source"
	n1 := 0
	for _, fi := range p.FuncsIn(sshShort) {
		if fi.Decl.Body == nil || p.isTestFile(fi.Decl.Pos()) {
			continue
		}
		d := newDeriver(info, fi.Decl)
		walkCalls(fi.Decl.Body, true, func(call *ast.CallExpr) {
			fn := Callee(info, call)
			if fn == nil || fn.Pkg() == nil || fn.Pkg().Path() != "golang.org/x/crypto/ssh" {
				return
			}
			switch fn.Name() {
			case "Start", "Run", "Output", "CombinedOutput":
			default:
				return
			}
			if tn := recvTypeName(fn); tn == nil || tn.Name() != "Session" || len(call.Args) != 1 {
				return
			}
			n1++
			c.Analysed(fi)
			ok := false
			var exprs []ast.Expr
			exprs = append(exprs, call.Args[0])
			if o := objOf(info, call.Args[0]); o != nil {
				exprs = d.defs[o]
			}
			ok = len(exprs) > 0
			for _, e := range exprs {
				bc, isCall := unparen(e).(*ast.CallExpr)
				if !isCall || Callee(info, bc) != build.Obj {
					ok = false
				}
			}
			c.Check(ok, r1, fi.Name()+"->Session."+fn.Name(), call.Pos(), "the command line executed remotely is exactly buildCommand's result")
		})
	}
	if n1 == 0 {
		c.Unresolved(r1, sshShort+":Session.Start", 0, "no ssh session execution call found")
	}

	// 2. quoted-args
	const r2 = "quoted-args"
	c.Analysed(build)
	var builder, req types.Object
	for _, pv := range paramObjs(info, build.Decl) {
		req = pv
	}
	ast.Inspect(build.Decl.Body, func(n ast.Node) bool {
		if vs, ok := n.(*ast.ValueSpec); ok {
			for _, nm := range vs.Names {
				if o := info.Defs[nm]; o != nil && types.TypeString(o.Type(), nil) == "strings.Builder" {
					builder = o
				}
			}
		}
		return true
	})
	if builder == nil || req == nil {
		c.Unresolved(r2, build.Name(), build.Decl.Pos(), "strings.Builder variable or request parameter not found")
	} else {
		reqT := req.Type()
		if pt, ok := reqT.(*types.Pointer); ok {
			reqT = pt.Elem()
		}
		var cmdField *types.Var
		if nt, ok := reqT.(*types.Named); ok {
			cmdField = fieldOf(nt.Obj(), "Command")
		}
		okWrites, quotedPath, quotedArgs := true, false, false
		why := ""
		ast.Inspect(build.Decl.Body, func(n ast.Node) bool {
			call, ok := n.(*ast.CallExpr)
			if !ok {
				return true
			}
			if sel, isSel := unparen(call.Fun).(*ast.SelectorExpr); isSel && objOf(info, sel.X) == builder {
				switch sel.Sel.Name {
				case "String", "Len", "Grow", "Reset":
					return true
				}
				for _, a := range call.Args {
					if tv := info.Types[a]; tv.Value != nil {
						continue
					}
					if s, isS := unparen(a).(*ast.SelectorExpr); isS && cmdField != nil && info.Uses[s.Sel] == cmdField {
						continue
					}
					okWrites, why = false, "unquoted non-constant write "+exprString(call)
				}
				return true
			}
			usesBuilder := false
			for _, a := range call.Args {
				if usesObj(info, a, builder) {
					usesBuilder = true
				}
			}
			if usesBuilder {
				if Callee(info, call) != quote.Obj {
					okWrites, why = false, "the builder is handed to "+exprString(call.Fun)
				} else if len(call.Args) == 2 {
					src := exprString(call.Args[1])
					if strings.Contains(src, "URL") {
						quotedPath = true
					}
					if o := objOf(info, call.Args[1]); o != nil {
						// range variable over req.Args
						ast.Inspect(build.Decl.Body, func(m ast.Node) bool {
							if rs, isR := m.(*ast.RangeStmt); isR && rs.Value != nil && objOf(info, rs.Value) == o && usesObj(info, rs.X, req) {
								quotedArgs = true
							}
							return true
						})
					}
				}
			}
			return true
		})
		c.Check(okWrites, r2, build.Name()+":raw-writes", build.Decl.Pos(), orStr(why, "only constants and req.Command are written unquoted; the builder goes nowhere else"))
		c.Check(quotedPath, r2, build.Name()+":path-quoted", build.Decl.Pos(), "the repository path goes through writeShellQuote")
		c.Check(quotedArgs, r2, build.Name()+":args-quoted", build.Decl.Pos(), "every element of req.Args goes through writeShellQuote")
	}

	// 3. quote-shape
	const r3 = "quote-shape"
	c.Analysed(quote)
	isQuoteWrite := func(s ast.Stmt) bool {
		es, ok := s.(*ast.ExprStmt)
		if !ok {
			return false
		}
		call, ok := es.X.(*ast.CallExpr)
		if !ok || len(call.Args) != 1 {
			return false
		}
		tv := info.Types[call.Args[0]]
		return tv.Value != nil && (tv.Value.ExactString() == "39" || tv.Value.ExactString() == `"'"`)
	}
	stmts := quote.Decl.Body.List
	first := -1
	for i, s := range stmts {
		if isQuoteWrite(s) {
			first = i
			break
		}
		if _, isLoop := s.(*ast.ForStmt); isLoop {
			break
		}
		if _, isLoop := s.(*ast.RangeStmt); isLoop {
			break
		}
	}
	c.Check(first >= 0, r3, quote.Name()+":opens-with-quote", quote.Decl.Pos(), "a single quote is written before the loop")
	// after the loop a quote is written (possibly conditionally: a correct implementation may track whether a quote is open)
	closes := false
	afterLoop := false
	for _, s := range stmts {
		switch s.(type) {
		case *ast.ForStmt, *ast.RangeStmt:
			afterLoop = true
			continue
		}
		if !afterLoop {
			continue
		}
		ast.Inspect(s, func(n ast.Node) bool {
			if st, ok := n.(ast.Stmt); ok && isQuoteWrite(st) {
				closes = true
			}
			return true
		})
	}
	c.Check(closes, r3, quote.Name()+":closes-with-quote", quote.Decl.Pos(), "a closing single quote is written after the loop")
	special := false
	ast.Inspect(quote.Decl.Body, func(n ast.Node) bool {
		if ifs, ok := n.(*ast.IfStmt); ok && condHasConst("39")(info, ifs.Cond) && condHasConst("33")(info, ifs.Cond) {
			special = true
		}
		if cc, ok := n.(*ast.CaseClause); ok {
			a, b := false, false
			for _, e := range cc.List {
				if condHasConst("39")(info, e) {
					a = true
				}
				if condHasConst("33")(info, e) {
					b = true
				}
			}
			if a && b {
				special = true
			}
		}
		return true
	})
	c.Check(special, r3, quote.Name()+":special-bytes", quote.Decl.Pos(), "a branch handles both ' and !")

	// Every special byte gets a backslash of its own: under the assumption that the current byte is ' (and, separately,
	// !) no write of that byte is reachable within the iteration before a write whose constant argument contains a
	// backslash. Whatever else a quoting scheme does (keep the quote open, close it once for a run of specials), a '
	// that is written without its own backslash either ends a quoted section or is a bare quote character.
	const r4 = "special-byte-escaped-each-time"
	var cur types.Object // the byte of the iteration: c := s[i], or the range value
	var loopBody *ast.BlockStmt
	ast.Inspect(quote.Decl.Body, func(n ast.Node) bool {
		switch v := n.(type) {
		case *ast.RangeStmt:
			if v.Value != nil && cur == nil {
				cur, loopBody = objOf(info, v.Value), v.Body
			}
		case *ast.ForStmt:
			if cur == nil {
				ast.Inspect(v.Body, func(m ast.Node) bool {
					if as, ok := m.(*ast.AssignStmt); ok && as.Tok == token.DEFINE && len(as.Lhs) == 1 && len(as.Rhs) == 1 {
						if _, isIx := unparen(as.Rhs[0]).(*ast.IndexExpr); isIx && cur == nil {
							cur, loopBody = objOf(info, as.Lhs[0]), v.Body
						}
					}
					return true
				})
			}
		}
		return true
	})
	if cur == nil || loopBody == nil {
		c.Hold(r4, quote.Name(), quote.Decl.Pos(), "not decided: no per-byte loop with a variable holding the current byte")
	} else {
		f := p.FlowOf(quote)
		writesCur := func(nd ast.Node) bool {
			return nodeHasCall(nd, false, func(call *ast.CallExpr) bool {
				sel, ok := unparen(call.Fun).(*ast.SelectorExpr)
				return ok && (sel.Sel.Name == "WriteByte" || sel.Sel.Name == "WriteRune" || sel.Sel.Name == "WriteString") && len(call.Args) == 1 && usesObj(info, call.Args[0], cur)
			}) != nil
		}
		writesBackslash := func(nd ast.Node) bool {
			return nodeHasCall(nd, false, func(call *ast.CallExpr) bool {
				sel, ok := unparen(call.Fun).(*ast.SelectorExpr)
				if !ok || !strings.HasPrefix(sel.Sel.Name, "Write") || len(call.Args) != 1 {
					return false
				}
				tv := info.Types[call.Args[0]]
				if tv.Value == nil {
					return false
				}
				s := tv.Value.ExactString()
				return strings.Contains(s, `\\`) || s == "92"
			}) != nil
		}
		// the start: the first node of the loop body
		var start *Loc
		for _, b := range f.G.Blocks {
			for i, nd := range b.Nodes {
				if len(loopBody.List) > 0 && nd.Pos() == loopBody.List[0].Pos() && start == nil {
					l := Loc{b, i}
					start = &l
				}
			}
		}
		if start == nil {
			c.Hold(r4, quote.Name(), quote.Decl.Pos(), "not decided: the loop body is not in the flow graph")
		} else {
			for _, sp := range []struct {
				name string
				val  int64
			}{{"quote", 39}, {"bang", 33}} {
				as := &condAssume{info: info, ival: map[types.Object]int64{cur: sp.val}}
				h := f.Search(SearchOpts{Starts: []Loc{*start}, Sink: writesCur, Barrier: writesBackslash, BlockEdge: as.blockEdge()})
				c.Check(h == nil, r4, quote.Name()+":"+sp.name, quote.Decl.Pos(), orStr(ifStr(h != nil, "with the current byte equal to "+string(rune(sp.val))+" the byte can be written without a backslash having been written for it in the same iteration (the escape depends on state carried from earlier bytes): adjacent special bytes end up bare, the remote shell sees an unterminated quote or further commands"),
					"the byte is written only after its own backslash"))
			}
		}
	}
	c.Floor(r4, 2)
}
