package main

import (
	"go/ast"
	"go/types"
)

// checkListingFilledUnderLock (C18): the cached directory listings of DotGit (objectList/objectMap, packList/packMap)
// are dropped by a writer after it has put its file in place. The drop only works if a concurrent regeneration is
// atomic with respect to it: the directory scan and the store of its result happen in one critical section of listMu.
// Otherwise a lookup that scanned the directory before the writer's rename can store its stale snapshot after the
// writer's drop, and the new pack or object stays invisible although the write has returned.
//
// Decided: in every function of the package that stores a non-nil value into one of the listing fields, (a) every call
// whose static closure reaches a billy ReadDir is made with listMu held, (b) the store is made with listMu held, and
// (c) no path from such a scan to the store passes an Unlock of listMu.
func checkListingFilledUnderLock(c *Ctx, rule string) {
	p := c.P
	pk := p.Pkg(dotgitShort)
	if pk == nil {
		c.Unresolved(rule, "package "+dotgitShort, 0, "not loaded")
		return
	}
	info := pk.TypesInfo
	dg := p.lookupType(dotgitShort, "DotGit")
	if dg == nil {
		c.Unresolved(rule, dotgitShort+".DotGit", 0, "type not found")
		return
	}
	fields := map[*types.Var]bool{}
	for _, n := range []string{"objectList", "objectMap", "packList", "packMap"} {
		if fv := fieldOf(dg, n); fv != nil {
			fields[fv] = true
		} else {
			c.Unresolved(rule, "DotGit."+n, dg.Pos(), "listing field not found")
		}
	}
	// scans[fn]: the static closure of fn reaches a billy ReadDir
	scans := map[*types.Func]bool{}
	reaches := func(fn *types.Func) bool {
		if v, ok := scans[fn]; ok {
			return v
		}
		scans[fn] = false
		root := p.FuncOf(fn)
		if root == nil || root.Decl.Body == nil {
			return false
		}
		for _, fi := range p.staticClosure([]*FuncInfo{root}) {
			if fi.Decl.Body == nil {
				continue
			}
			hit := false
			walkCalls(fi.Decl.Body, true, func(call *ast.CallExpr) {
				if isBillyMethod(Callee(fi.Pkg.TypesInfo, call), "ReadDir") {
					hit = true
				}
			})
			if hit {
				scans[fn] = true
				return true
			}
		}
		return false
	}
	isUnlock := func(n ast.Node) bool {
		es, ok := n.(*ast.ExprStmt)
		if !ok {
			return false
		}
		call, ok := es.X.(*ast.CallExpr)
		if !ok {
			return false
		}
		name, op := lockOp(info, call)
		return op == "Unlock" && hasSuffixStr(name, ".listMu")
	}
	nFill := 0
	for _, fi := range p.FuncsIn(dotgitShort) {
		if fi.Decl.Body == nil || p.isTestFile(fi.Decl.Pos()) {
			continue
		}
		// stores of a non-nil value into a listing field
		var stores []*ast.AssignStmt
		ast.Inspect(fi.Decl.Body, func(n ast.Node) bool {
			as, ok := n.(*ast.AssignStmt)
			if !ok {
				return true
			}
			for i, l := range as.Lhs {
				sel, ok := unparen(l).(*ast.SelectorExpr)
				if !ok {
					continue
				}
				fv, _ := info.Uses[sel.Sel].(*types.Var)
				if fv == nil || !fields[fv] {
					continue
				}
				if len(as.Rhs) == len(as.Lhs) && isNil(info, as.Rhs[i]) {
					continue // a drop
				}
				stores = append(stores, as)
				break
			}
			return true
		})
		if len(stores) == 0 {
			continue
		}
		nFill++
		c.Analysed(fi)
		fl := p.FuncLocks(fi, nil)
		f := p.FlowOf(fi)
		holds := func(n ast.Node) bool {
			for l := range fl.HeldAt(n.Pos()) {
				if hasSuffixStr(l, ".listMu") {
					return true
				}
			}
			return false
		}
		for i, st := range stores {
			c.Check(holds(st), rule, fi.Name()+":store"+ifStr(i > 0, "#"+itoa(i+1)), st.Pos(), orStr(ifStr(!holds(st), "the listing is stored without listMu"), "the listing is stored with listMu held"))
		}
		k := 0
		walkCalls(fi.Decl.Body, true, func(call *ast.CallExpr) {
			fn := Callee(info, call)
			if fn == nil || !reaches(fn) {
				return
			}
			k++
			key := fi.Name() + "->" + fn.Name() + ifStr(k > 1, "#"+itoa(k))
			if !holds(call) {
				c.Violate(rule, key, call.Pos(), "the directory is scanned without listMu and the result stored into the cached listing later: a writer that puts a file in place and drops the listing in between is overwritten by the stale scan, and what it wrote stays invisible")
				return
			}
			// no unlock between the scan and a store
			scanLocs := f.Locs(func(n ast.Node) bool {
				if _, isStmt := n.(ast.Stmt); !isStmt {
					return false
				}
				return nodeHasCall(n, false, func(cc *ast.CallExpr) bool { return cc == call }) != nil
			})
			bad := false
			for _, sl := range scanLocs {
				for _, st := range stores {
					st := st
					// an unlock reachable from the scan (before the store) from which the store is reachable
					for _, ul := range f.Locs(isUnlock) {
						if f.Search(SearchOpts{Starts: []Loc{After(sl)}, Sink: func(n ast.Node) bool { return n == ul.B.Nodes[ul.Idx] }, Barrier: func(n ast.Node) bool { return n == ast.Node(st) }}) != nil &&
							f.Search(SearchOpts{Starts: []Loc{After(ul)}, Sink: func(n ast.Node) bool { return n == ast.Node(st) }}) != nil {
							bad = true
						}
					}
				}
			}
			c.Check(!bad, rule, key, call.Pos(), orStr(ifStr(bad, "listMu is released between the directory scan and the store of its result"), "scanned and stored in one critical section of listMu"))
		})
		c.Check(k > 0, rule, fi.Name()+":scan", fi.Decl.Pos(), orStr(ifStr(k == 0, "no directory scan found in a function that fills a cached listing: where the stored value comes from is not visible to this rule"), "the stored listing comes from a scan in the same function"))
	}
	c.Check(nFill >= 2, rule, dotgitShort+":listing-fillers", 0, itoa(nFill)+" functions that fill a cached listing examined")
}

func hasSuffixStr(s, suf string) bool {
	return len(s) >= len(suf) && s[len(s)-len(suf):] == suf
}
