package main

import (
	"go/ast"
	"go/constant"
	"go/token"
	"go/types"

	"golang.org/x/tools/go/cfg"
)

// condAssume: three-valued evaluation of branch conditions under assumptions about boolean variables and about the value
// of variables compared with named constants ("a == merkletrie.Modify"). 1 true, 0 false, -1 unknown.
type condAssume struct {
	info *types.Info
	bval map[types.Object]bool         // boolean variable -> assumed value
	eq   map[types.Object]types.Object // variable -> the constant object it is assumed equal to
	ival map[types.Object]int64        // integer variable (or field) -> assumed value
	lenv map[types.Object]int64        // field -> assumed length of the slice it holds
	nilv map[types.Object]bool         // variable -> assumed to be nil (true) / not nil (false)
	call func(*ast.CallExpr) int       // assumed results of boolean calls (1, 0, or -1 for unknown)
}

func (a *condAssume) eval(e ast.Expr) int {
	e = unparen(e)
	switch v := e.(type) {
	case *ast.CallExpr:
		if a.call != nil {
			return a.call(v)
		}
	case *ast.Ident:
		if o := objOf(a.info, v); o != nil {
			if b, ok := a.bval[o]; ok {
				if b {
					return 1
				}
				return 0
			}
		}
	case *ast.UnaryExpr:
		if v.Op == token.NOT {
			switch a.eval(v.X) {
			case 1:
				return 0
			case 0:
				return 1
			}
		}
	case *ast.BinaryExpr:
		switch v.Op {
		case token.LAND:
			x, y := a.eval(v.X), a.eval(v.Y)
			if x == 0 || y == 0 {
				return 0
			}
			if x == 1 && y == 1 {
				return 1
			}
		case token.LOR:
			x, y := a.eval(v.X), a.eval(v.Y)
			if x == 1 || y == 1 {
				return 1
			}
			if x == 0 && y == 0 {
				return 0
			}
		case token.LSS, token.LEQ, token.GTR, token.GEQ:
			if r, ok := a.cmpInt(v); ok {
				return r
			}
		case token.EQL, token.NEQ:
			if r, ok := a.cmpInt(v); ok {
				return r
			}
			// x == nil / x != nil
			for _, pair := range [][2]ast.Expr{{v.X, v.Y}, {v.Y, v.X}} {
				if !isNil(a.info, pair[1]) {
					continue
				}
				if o := objOf(a.info, pair[0]); o != nil {
					if isN, ok := a.nilv[o]; ok {
						if (v.Op == token.EQL) == isN {
							return 1
						}
						return 0
					}
				}
			}
			for _, pair := range [][2]ast.Expr{{v.X, v.Y}, {v.Y, v.X}} {
				vo := objOf(a.info, pair[0])
				if vo == nil {
					// a field: entry.Mode == filemode.Dir (the assumption is then about that field of whatever value)
					if sel, ok := unparen(pair[0]).(*ast.SelectorExpr); ok {
						if fv, ok := a.info.Uses[sel.Sel].(*types.Var); ok && fv.IsField() {
							vo = fv
						}
					}
				}
				if vo == nil {
					continue
				}
				assumed, ok := a.eq[vo]
				if !ok {
					continue
				}
				other := objOfSel(a.info, pair[1])
				if other == nil {
					continue
				}
				if _, isConst := other.(*types.Const); !isConst {
					continue
				}
				same := other == assumed
				if (v.Op == token.EQL) == same {
					return 1
				}
				return 0
			}
		}
	}
	return -1
}

// intOf: the value of an integer operand: a constant, or a variable with an assumed value.
func (a *condAssume) intOf(e ast.Expr) (int64, bool) {
	e = unparen(e)
	if tv, ok := a.info.Types[e]; ok && tv.Value != nil && tv.Value.Kind() == constant.Int {
		return constant.Int64Val(tv.Value)
	}
	if o := objOf(a.info, e); o != nil {
		if v, ok := a.ival[o]; ok {
			return v, true
		}
	}
	// a field with an assumed value (of whatever struct value it is read from)
	if sel, ok := e.(*ast.SelectorExpr); ok {
		if fv, ok := a.info.Uses[sel.Sel].(*types.Var); ok && fv.IsField() {
			if v, ok := a.ival[fv]; ok {
				return v, true
			}
		}
	}
	// len(x.F) with an assumed length of field F, keyed by the field
	if call, ok := e.(*ast.CallExpr); ok && len(call.Args) == 1 {
		if id, ok := unparen(call.Fun).(*ast.Ident); ok && id.Name == "len" {
			if sel, ok := unparen(call.Args[0]).(*ast.SelectorExpr); ok {
				if fv, ok := a.info.Uses[sel.Sel].(*types.Var); ok && fv.IsField() {
					if v, ok := a.lenv[fv]; ok {
						return v, true
					}
				}
			}
		}
	}
	return 0, false
}

func (a *condAssume) cmpInt(v *ast.BinaryExpr) (int, bool) {
	if len(a.ival) == 0 && len(a.lenv) == 0 {
		return 0, false
	}
	x, ok1 := a.intOf(v.X)
	y, ok2 := a.intOf(v.Y)
	if !ok1 || !ok2 {
		return 0, false
	}
	var r bool
	switch v.Op {
	case token.LSS:
		r = x < y
	case token.LEQ:
		r = x <= y
	case token.GTR:
		r = x > y
	case token.GEQ:
		r = x >= y
	case token.EQL:
		r = x == y
	case token.NEQ:
		r = x != y
	default:
		return 0, false
	}
	if r {
		return 1, true
	}
	return 0, true
}

func (a *condAssume) blockEdge()func(b *cfg.Block, i int) bool {
	return func(b *cfg.Block, i int) bool {
		if len(b.Succs) != 2 || len(b.Nodes) == 0 {
			return false
		}
		cond, ok := b.Nodes[len(b.Nodes)-1].(ast.Expr)
		if !ok {
			return false
		}
		if tv, ok := a.info.Types[cond]; !ok || tv.Type == nil || !isBoolType(tv.Type) {
			return false
		}
		switch a.eval(cond) {
		case 1:
			return i == 1
		case 0:
			return i == 0
		}
		return false
	}
}
