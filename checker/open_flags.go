package main

import (
	"go/ast"
	"go/types"
)

// RewriteTruncates: a file that is opened for writing through billy's OpenFile and may already exist (no O_EXCL) must
// lose its old content before the new content is written — O_TRUNC at open, an explicit Truncate in the function or in
// a function it calls — unless it is an append-only log (O_APPEND). Otherwise a rewrite that is shorter than the old
// content leaves the old tail behind (for line-oriented files such as .git/shallow the tail is a list of valid stale
// entries). Create implies truncation and is not a site of this rule.
// Decided only when the access mode appears in the flag expression (or in the local definitions of the flag
// variable); a flag value computed elsewhere is "not decided". Returns the number of obligations.
func RewriteTruncates(c *Ctx, rule string, shorts ...string) int {
	p := c.P
	osPkg := p.importedPkg("os")
	if osPkg == nil {
		c.Unresolved(rule, "package os", 0, "not imported")
		return 0
	}
	flag := func(n string) types.Object { return osPkg.Scope().Lookup(n) }
	n := 0
	cg := p.callGraph()
	callsTruncate := func(fi *FuncInfo) bool {
		has := func(f *FuncInfo) bool {
			return nodeHasCall(f.Decl.Body, true, func(call *ast.CallExpr) bool {
				fn := Callee(f.Pkg.TypesInfo, call)
				return fn != nil && fn.Name() == "Truncate"
			}) != nil
		}
		if has(fi) {
			return true
		}
		for _, e := range cg.edges[fi.Obj] {
			if cf := p.FuncOf(e.Callee); cf != nil && cf.Decl.Body != nil && cf.Pkg == fi.Pkg && has(cf) {
				return true
			}
		}
		return false
	}
	for _, sp := range shorts {
		pk := p.Pkg(sp)
		if pk == nil {
			continue
		}
		info := pk.TypesInfo
		for _, fi := range p.FuncsIn(sp) {
			if fi.Decl.Body == nil || p.isTestFile(fi.Decl.Pos()) {
				continue
			}
			if tn := recvTypeName(fi.Obj); tn != nil && (tn.Name() == "RepositoryFilesystem" || tn.Name() == "worktreeFilesystem") {
				continue // billy.Filesystem adapters: they pass the caller's flags on
			}
			d := newDeriver(info, fi.Decl)
			seen := map[string]int{}
			walkCalls(fi.Decl.Body, true, func(call *ast.CallExpr) {
				fn := Callee(info, call)
				if !isBillyMethod(fn, "OpenFile") || len(call.Args) < 2 {
					return
				}
				exprs := []ast.Expr{call.Args[1]}
				if o := objOf(info, call.Args[1]); o != nil {
					exprs = append(exprs, d.defs[o]...)
				}
				uses := func(name string) bool {
					fo := flag(name)
					for _, e := range exprs {
						if fo != nil && usesObj(info, e, fo) {
							return true
						}
					}
					return false
				}
				key := fi.Name() + "->OpenFile(" + exprString(call.Args[0]) + ")"
				seen[key]++
				if seen[key] > 1 {
					key += "#" + itoa(seen[key])
				}
				n++
				c.Analysed(fi)
				switch {
				case !uses("O_WRONLY") && !uses("O_RDWR"):
					c.Hold(rule, key, call.Pos(), "not decided: the access mode is not part of the flag expression (read-only open, or flags computed elsewhere)")
				case uses("O_APPEND"):
					c.Hold(rule, key, call.Pos(), "append-only: existing content is kept on purpose")
				case uses("O_TRUNC"):
					c.Hold(rule, key, call.Pos(), "truncated at open")
				case uses("O_EXCL"):
					c.Hold(rule, key, call.Pos(), "exclusive create: there is no old content")
				case callsTruncate(fi):
					c.Hold(rule, key, call.Pos(), "truncated explicitly before the write (the function, or one it calls, calls Truncate)")
				default:
					c.Violate(rule, key, call.Pos(), "an existing file is opened for writing without O_TRUNC, O_APPEND or O_EXCL and is never truncated: a rewrite shorter than the old content leaves the old tail in place (stale entries of a line-oriented file stay valid)")
				}
			})
		}
	}
	return n
}
