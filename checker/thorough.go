package main

import (
	"bytes"
	"encoding/json"
	"fmt"
	"os"
	"os/exec"
	"path/filepath"
	"strings"
	"sync"
)

// Mutant is a control: a small edit of /repo (applied in memory as an overlay, never written)
// that breaks a rule instance; the check must report it.
type Mutant struct {
	Name            string `json:"name"`
	File            string `json:"file"` // relative to the repository root
	Find            string `json:"find"`
	Replace         string `json:"replace"`
	Append          string `json:"append,omitempty"` // optional text appended to the file (new declarations)
	ExpectRule     string `json:"expect_rule"`
	ExpectConstruct string `json:"expect_construct,omitempty"`
	Why             string `json:"why,omitempty"`
}

type mutantResult struct {
	Name     string `json:"name"`
	Status   string `json:"status"` // detected | MISSED | not-applied | does-not-compile
	Detail   string `json:"detail,omitempty"`
	Reported string `json:"reported,omitempty"`
}

func loadMutants(verif, prop string) []Mutant {
	b, err := os.ReadFile(filepath.Join(verif, "mutants", prop+".json"))
	if err != nil {
		return nil
	}
	var ms []Mutant
	if err := json.Unmarshal(b, &ms); err != nil {
		fmt.Printf("warning: mutants/%s.json: %v\n", prop, err)
		return nil
	}
	return ms
}

// runMutantChild is the child-process side: load with overlay, run the rule, print violated obligations as JSON.
func runMutantChild(spec *propSpec, repo, verif string, idx int) int {
	ms := loadMutants(verif, spec.ID)
	if idx < 0 || idx >= len(ms) {
		fmt.Println(`{"status":"not-applied","detail":"no such mutant"}`)
		return 0
	}
	m := ms[idx]
	abs := filepath.Join(repo, m.File)
	src, err := os.ReadFile(abs)
	if err != nil {
		out, _ := json.Marshal(mutantResult{Name: m.Name, Status: "not-applied", Detail: err.Error()})
		fmt.Println(string(out))
		return 0
	}
	if n := bytes.Count(src, []byte(m.Find)); n != 1 {
		out, _ := json.Marshal(mutantResult{Name: m.Name, Status: "not-applied", Detail: fmt.Sprintf("anchor text occurs %d times", n)})
		fmt.Println(string(out))
		return 0
	}
	mod := bytes.Replace(src, []byte(m.Find), []byte(m.Replace), 1)
	mod = append(mod, []byte(m.Append)...)
	p, err := Load(LoadOpts{Root: repo, GOOS: "linux", GOARCH: "amd64", Full: spec.NeedSSA, Overlay: map[string][]byte{abs: mod}})
	if err != nil {
		out, _ := json.Marshal(mutantResult{Name: m.Name, Status: "does-not-compile", Detail: err.Error()})
		fmt.Println(string(out))
		return 0
	}
	c := newCtx(p, spec.ID, "quick")
	func() {
		defer func() {
			if r := recover(); r != nil {
				c.Unresolved("checker-panic", "panic", 0, fmt.Sprint(r))
			}
		}()
		spec.Run(c)
	}()
	c.finishFloors()
	known, _ := loadKnown(filepath.Join(verif, "known_findings.txt"))
	res := mutantResult{Name: m.Name, Status: "MISSED"}
	var all []string
	for _, o := range c.Obs {
		if o.Verdict != "violated" && o.Verdict != "unresolved" {
			continue
		}
		isKnown := false
		for _, k := range known {
			if k.Prop == c.Prop && k.Rule == o.Rule && k.Construct == o.Construct {
				isKnown = true
			}
		}
		if isKnown {
			continue
		}
		all = append(all, o.Key())
		if o.Rule == m.ExpectRule && (m.ExpectConstruct == "" || strings.Contains(o.Construct, m.ExpectConstruct)) {
			res.Status = "detected"
			res.Reported = o.Key() + " at " + o.Site
		}
	}
	if res.Status == "MISSED" {
		res.Detail = "reported instead: " + strings.Join(all, ", ")
	}
	out, _ := json.Marshal(res)
	fmt.Println(string(out))
	return 0
}

// resolvedOnPrimary: the unresolved obligation o of a secondary platform concerns an anchor that the primary platform
// (linux/amd64) resolved under the same rule (its constructs start with the anchor's name), or a vacuity floor that
// the primary platform meets (floors are the counts confirmed by hand on the primary platform).
func resolvedOnPrimary(primary []Obligation, o Obligation) bool {
	floorFailed := false
	for _, q := range primary {
		if q.Rule != o.Rule {
			continue
		}
		if q.Construct == "vacuity-floor" {
			floorFailed = true
		}
		if o.Construct != "vacuity-floor" && q.Verdict != "unresolved" && strings.HasPrefix(q.Construct, o.Construct) {
			return true
		}
	}
	return o.Construct == "vacuity-floor" && !floorFailed
}

// runThorough: other platforms + mutant controls.
func runThorough(c *Ctx, spec *propSpec, repo, verif string, extra map[string]any) {
	// 1. the same rules on other GOOS/GOARCH so that build-tagged files are seen
	type plat struct{ os, arch string }
	var platRes []string
	for _, pl := range []plat{{"windows", "amd64"}, {"darwin", "arm64"}, {"linux", "386"}} {
		p2, err := Load(LoadOpts{Root: repo, GOOS: pl.os, GOARCH: pl.arch, Full: spec.NeedSSA})
		if err != nil {
			platRes = append(platRes, fmt.Sprintf("%s/%s: load failed: %v", pl.os, pl.arch, err))
			c.Unresolved("platform-load", pl.os+"/"+pl.arch, 0, err.Error())
			continue
		}
		c2 := newCtx(p2, spec.ID, c.Tier)
		spec.Run(c2)
		c2.finishFloors()
		have := map[string]bool{}
		for _, o := range c.Obs {
			have[o.Key()+"|"+o.Verdict] = true
		}
		added, absent := 0, 0
		for _, o := range c2.Obs {
			// an anchor that is resolved on the primary platform and absent here is excluded by build constraints on this
			// platform (e.g. the mmap pack reader is darwin || linux): nothing to decide here, not a failure
			if o.Verdict == "unresolved" && resolvedOnPrimary(c.Obs, o) {
				absent++
				continue
			}
			if !have[o.Key()+"|"+o.Verdict] {
				o.Detail = "[" + pl.os + "/" + pl.arch + "] " + o.Detail
				c.Obs = append(c.Obs, o)
				added++
			}
		}
		for f := range c2.funcsSet {
			c.funcsSet[f] = true
		}
		platRes = append(platRes, fmt.Sprintf("%s/%s: %d packages, %d obligations, %d not seen on linux/amd64, %d anchors excluded by build constraints", pl.os, pl.arch, len(p2.Pkgs), len(c2.Obs), added, absent))
	}
	extra["platforms"] = platRes

	// 2. mutant controls, one child process each (bounded memory), 4 at a time
	ms := loadMutants(verif, spec.ID)
	if len(ms) == 0 {
		return
	}
	self, err := os.Executable()
	if err != nil {
		extra["mutants"] = "cannot find own executable: " + err.Error()
		return
	}
	results := make([]mutantResult, len(ms))
	sem := make(chan struct{}, 4)
	var wg sync.WaitGroup
	for i := range ms {
		wg.Add(1)
		go func(i int) {
			defer wg.Done()
			sem <- struct{}{}
			defer func() { <-sem }()
			cmd := exec.Command(self, "-prop", spec.ID, "-repo", repo, "-verif", verif, "-mutant", fmt.Sprint(i))
			cmd.Env = os.Environ()
			out, err := cmd.Output()
			var r mutantResult
			lines := strings.Split(strings.TrimSpace(string(out)), "\n")
			if e2 := json.Unmarshal([]byte(lines[len(lines)-1]), &r); e2 != nil {
				r = mutantResult{Name: ms[i].Name, Status: "MISSED", Detail: fmt.Sprintf("child failed: %v %v: %s", err, e2, string(out))}
			}
			r.Name = ms[i].Name
			results[i] = r
		}(i)
	}
	wg.Wait()
	det, missed := 0, 0
	for _, r := range results {
		switch r.Status {
		case "detected":
			det++
		case "MISSED":
			missed++
			fmt.Printf("warning: mutant control %q was not reported (%s)\n", r.Name, r.Detail)
		default:
			// not-applied / does-not-compile: the control no longer fits the tree and tests nothing
			fmt.Printf("warning: mutant control %q is %s (%s)\n", r.Name, r.Status, r.Detail)
		}
	}
	extra["mutant_controls"] = results
	extra["mutants_detected"] = det
	extra["mutants_missed"] = missed
	fmt.Printf("%s mutant controls: %d/%d detected\n", spec.ID, det, len(ms))
}
