package main

import (
	"go/ast"
	"go/types"
	"sort"
)

func init() {
	register(&propSpec{
		ID: "C42",
		Explanation: "Decides one necessary condition of 'ancestry and merge-base answers agree with git for any committer timestamps, including children older than parents', not the answers themselves: " +
			"(timestamps-order-only) in the functions reachable from Commit.MergeBase, Commit.IsAncestor, Independents and isFastForward — static calls, plus every method of each iterator type those functions instantiate — " +
			"a commit's Committer.When / Author.When is read only inside a comparator (a function of two parameters of one type returning bool or int, or a Less method), i.e. timestamps can order the work but cannot decide " +
			"which commits are visited, skipped or returned. A date-based cut-off of the walk (the classic optimisation, wrong as soon as a child is older than its parent) is a read outside a comparator. " +
			"(index-holds-every-yielded-commit) the walk callback that fills MergeBase's history index enters the hash of every commit it is handed, the starting commit included — when ancestor and descendant carry timestamps the wrong way round the 'newer' commit is the ancestor and has to be found in its own index. (ancestor-by-hash) IsAncestor and isFastForward report 'found' only under a comparison of commit hashes. (cursor-recomputed-after-removal) in the same closure a loop that reads s[pos], removes elements from s in its body and only increments pos is reported (Independents re-locates the current candidate after each walk). Not decided: that the walks reach every ancestor, the minimality of merge bases, the independent-commit reduction.",
		Assumptions: []string{"iterator types are instantiated by composite literals in their constructors (instantiated-type closure); calls through interfaces are resolved to those types only"},
		Run:         runC42,
	})
}

// instantiatedClosure: functions reachable from roots through static calls; a call through an interface method is
// resolved to that method of every named type of the module the closure instantiates by a composite literal (rapid
// type analysis restricted to the closure).
func (p *Prog) instantiatedClosure(roots []*FuncInfo) []*FuncInfo {
	cg := p.callGraph()
	seen := map[*types.Func]bool{}
	var out, stack []*FuncInfo
	push := func(fi *FuncInfo) {
		if fi != nil && fi.Decl.Body != nil && !seen[fi.Obj] {
			seen[fi.Obj] = true
			stack = append(stack, fi)
		}
	}
	for _, r := range roots {
		push(r)
	}
	var inst []*types.Named        // instantiated named types of the module
	var ifaceCalls []*types.Func   // interface methods called in the closure
	instSeen := map[*types.Named]bool{}
	callSeen := map[*types.Func]bool{}
	resolve := func(m *types.Func, nt *types.Named) {
		recv := m.Type().(*types.Signature).Recv()
		if recv == nil {
			return
		}
		it, ok := recv.Type().Underlying().(*types.Interface)
		if !ok {
			return
		}
		ptr := types.NewPointer(nt)
		if !types.Implements(ptr, it) && !types.Implements(nt, it) {
			return
		}
		if sel := types.NewMethodSet(ptr).Lookup(m.Pkg(), m.Name()); sel != nil {
			if fn, ok := sel.Obj().(*types.Func); ok {
				push(p.FuncOf(fn))
			}
		}
	}
	for len(stack) > 0 {
		fi := stack[len(stack)-1]
		stack = stack[:len(stack)-1]
		out = append(out, fi)
		for _, e := range cg.edges[fi.Obj] {
			if e.Callee == nil {
				continue
			}
			if cf := p.FuncOf(e.Callee); cf != nil {
				push(cf)
				continue
			}
			if sig, ok := e.Callee.Type().(*types.Signature); ok && sig.Recv() != nil && !callSeen[e.Callee] {
				if _, isIface := sig.Recv().Type().Underlying().(*types.Interface); isIface {
					callSeen[e.Callee] = true
					ifaceCalls = append(ifaceCalls, e.Callee)
					for _, nt := range inst {
						resolve(e.Callee, nt)
					}
				}
			}
		}
		info := fi.Pkg.TypesInfo
		ast.Inspect(fi.Decl.Body, func(n ast.Node) bool {
			// function and method values (forEachCommit(w.Next, cb))
			if id, ok := n.(*ast.Ident); ok {
				if fn, ok := info.Uses[id].(*types.Func); ok {
					push(p.FuncOf(fn))
				}
				return true
			}
			cl, ok := n.(*ast.CompositeLit)
			if !ok {
				return true
			}
			tv, ok := info.Types[cl]
			if !ok || tv.Type == nil {
				return true
			}
			nt, ok := tv.Type.(*types.Named)
			if !ok || nt.Obj().Pkg() == nil || !isModulePkg(nt.Obj().Pkg().Path()) || instSeen[nt] {
				return true
			}
			instSeen[nt] = true
			inst = append(inst, nt)
			for _, m := range ifaceCalls {
				resolve(m, nt)
			}
			return true
		})
	}
	sort.Slice(out, func(i, j int) bool { return out[i].Name() < out[j].Name() })
	return out
}

func isModulePkg(path string) bool {
	return path == modPath || len(path) > len(modPath) && path[:len(modPath)+1] == modPath+"/"
}

// isComparatorSig: two parameters of one type, one result of type bool or int.
func isComparatorSig(sig *types.Signature) bool {
	if sig == nil || sig.Params().Len() != 2 || sig.Results().Len() != 1 {
		return false
	}
	if !types.Identical(sig.Params().At(0).Type(), sig.Params().At(1).Type()) {
		return false
	}
	b, ok := sig.Results().At(0).Type().Underlying().(*types.Basic)
	return ok && (b.Kind() == types.Bool || b.Kind() == types.Int)
}

func runC42(c *Ctx) {
	p := c.P
	const r1 = "timestamps-order-only"
	var roots []*FuncInfo
	for _, n := range []string{objShort + ".(*Commit).MergeBase", objShort + ".(*Commit).IsAncestor", objShort + ".Independents", "git.isFastForward"} {
		if fi := c.MustFunc(r1, n); fi != nil {
			roots = append(roots, fi)
		}
	}
	if len(roots) == 0 {
		return
	}
	sigT := p.lookupType(objShort, "Signature")
	var when *types.Var
	if sigT != nil {
		when = fieldOf(sigT, "When")
	}
	if when == nil {
		c.Unresolved(r1, objShort+".Signature.When", 0, "field not found")
		return
	}
	closure := p.instantiatedClosure(roots)
	nReads := 0
	for _, fi := range closure {
		if p.isTestFile(fi.Decl.Pos()) {
			continue
		}
		c.Analysed(fi)
		info := fi.Pkg.TypesInfo
		k := 0
		// walk with the stack of enclosing function signatures
		var visit func(n ast.Node, inCmp bool)
		visit = func(n ast.Node, inCmp bool) {
			ast.Inspect(n, func(x ast.Node) bool {
				switch v := x.(type) {
				case *ast.FuncLit:
					if ast.Node(v) == n {
						return true
					}
					sig, _ := info.Types[v].Type.(*types.Signature)
					visit(v.Body, inCmp || isComparatorSig(sig))
					return false
				case *ast.AssignStmt:
					// storing a timestamp (decoding, time-zone adjustment of the field itself) is not a use of it
					all := len(v.Lhs) > 0
					for _, l := range v.Lhs {
						sel, ok := unparen(l).(*ast.SelectorExpr)
						if !ok || info.Uses[sel.Sel] != types.Object(when) {
							all = false
						}
					}
					if all {
						return false
					}
				case *ast.SelectorExpr:
					if info.Uses[v.Sel] == types.Object(when) {
						k++
						nReads++
						key := fi.Name() + ":When" + ifStr(k > 1, "#"+itoa(k))
						c.Check(inCmp, r1, key, v.Pos(), orStr(ifStr(!inCmp, "a commit's timestamp is read outside a comparator in code reachable from the ancestry queries: it can decide which commits are visited or returned, and timestamps carry no ancestry information (a child may be older than its parent)"),
							"read inside a comparator: the timestamp only orders the work"))
					}
				}
				return true
			})
		}
		sig, _ := fi.Obj.Type().(*types.Signature)
		visit(fi.Decl.Body, fi.Decl.Name.Name == "Less" || isComparatorSig(sig))
	}
	if nReads == 0 {
		// nothing reads a timestamp: the condition holds outright
		c.Hold(r1, "closure", roots[0].Decl.Pos(), "no function reachable from the ancestry queries reads a commit timestamp ("+itoa(len(closure))+" functions)")
	}
	c.Floor(r1, 1)

	// the independent-commit reduction removes candidates while it walks over them
	const r3 = "cursor-recomputed-after-removal"
	for _, fi := range closure {
		if !p.isTestFile(fi.Decl.Pos()) {
			CursorOverShrinkingSlice(c, r3, fi)
		}
	}
	c.Floor(r3, 1)

	// ancestorsIndex is the set of commits a walk from the starting commit yields, the starting commit included: when
	// the two arguments of MergeBase are ancestor and descendant with timestamps the wrong way round, the "newer" one is
	// the ancestor and must be found in its own index. The callback that fills the index stores the hash of the commit
	// it is handed on every path that lets the walk go on — or the function stores the starting commit's hash itself.
	const r4 = "index-holds-every-yielded-commit"
	if ai := c.MustFunc(r4, objShort+".ancestorsIndex"); ai != nil {
		info := ai.Pkg.TypesInfo
		c.Analysed(ai)
		params := paramObjs(info, ai.Decl)
		var lit *ast.FuncLit
		ast.Inspect(ai.Decl.Body, func(n ast.Node) bool {
			if fl, ok := n.(*ast.FuncLit); ok && lit == nil && fl.Type.Params != nil && len(fl.Type.Params.List) == 1 {
				lit = fl
			}
			return true
		})
		if lit == nil || len(lit.Type.Params.List[0].Names) == 0 {
			c.Hold(r4, ai.Name(), ai.Decl.Pos(), "not decided: no walk callback with one parameter")
		} else {
			cp := info.Defs[lit.Type.Params.List[0].Names[0]]
			storesHashOf := func(nd ast.Node, o types.Object) bool {
				found := false
				ast.Inspect(nd, func(m ast.Node) bool {
					as, ok := m.(*ast.AssignStmt)
					if !ok {
						return true
					}
					for _, l := range as.Lhs {
						ix, ok := unparen(l).(*ast.IndexExpr)
						if !ok {
							continue
						}
						if _, isMap := info.Types[ix.X].Type.Underlying().(*types.Map); !isMap {
							continue
						}
						if sel, ok := unparen(ix.Index).(*ast.SelectorExpr); ok && sel.Sel.Name == "Hash" && objOf(info, sel.X) == o {
							found = true
						}
					}
					return !found
				})
				return found
			}
			f := p.NewFlow(info, lit.Body)
			h := f.Search(SearchOpts{Starts: []Loc{f.Entry()}, Barrier: func(nd ast.Node) bool { return storesHashOf(nd, cp) }, Sink: func(nd ast.Node) bool {
				r, ok := nd.(*ast.ReturnStmt)
				return ok && len(r.Results) == 1 && isNil(info, r.Results[0])
			}})
			startStored := false
			if len(params) >= 2 {
				for _, po := range params {
					// stored outside the callback
					ast.Inspect(ai.Decl.Body, func(m ast.Node) bool {
						if m == ast.Node(lit) {
							return false
						}
						if st, ok := m.(ast.Stmt); ok && storesHashOf(st, po) {
							startStored = true
						}
						return true
					})
				}
			}
			ok := h == nil || startStored
			c.Check(ok, r4, ai.Name()+":callback", lit.Pos(), orStr(ifStr(!ok, "the walk can go on past a commit without that commit's own hash having been entered into the index (and the starting commit is not entered separately): the starting commit is missing from its own history, so a descendant with an older timestamp walks through it without recognising it and MergeBase answers with its parents"),
				"every commit the walk yields is entered into the index"))
		}
	}
	c.Floor(r4, 1)

	const r2 = "ancestor-by-hash"
	hashT := p.lookupType("plumbing", "Hash")
	for _, n := range []string{objShort + ".(*Commit).IsAncestor", "git.isFastForward"} {
		fi := p.Func(n)
		if fi == nil {
			continue
		}
		info := fi.Pkg.TypesInfo
		// the assignment found = true must sit behind a comparison of two plumbing.Hash values
		var found types.Object
		ast.Inspect(fi.Decl.Body, func(x ast.Node) bool {
			if as, ok := x.(*ast.AssignStmt); ok && len(as.Lhs) == 1 && len(as.Rhs) == 1 {
				if tv := info.Types[as.Rhs[0]]; tv.Value != nil && tv.Value.String() == "true" {
					if o := objOf(info, as.Lhs[0]); o != nil && isBoolType(o.Type()) {
						found = o
					}
				}
			}
			return true
		})
		if found == nil {
			c.Hold(r2, fi.Name(), fi.Decl.Pos(), "not decided: no boolean result variable set to true")
			continue
		}
		isHashCmp := func(info *types.Info, e ast.Expr) bool {
			ok := false
			ast.Inspect(e, func(x ast.Node) bool {
				if be, isB := x.(*ast.BinaryExpr); isB {
					tx, ty := info.Types[be.X].Type, info.Types[be.Y].Type
					if tx != nil && ty != nil && hashT != nil && types.Identical(tx, hashT.Type()) && types.Identical(ty, hashT.Type()) {
						// one side is the ID of a commit: <commit>.Hash
						for _, side := range []ast.Expr{be.X, be.Y} {
							if sel, isSel := unparen(side).(*ast.SelectorExpr); isSel && sel.Sel.Name == "Hash" {
								if st := info.Types[sel.X].Type; st != nil && (types.TypeString(st, nil) == "*"+modPath+"/plumbing/object.Commit" || types.TypeString(st, nil) == modPath+"/plumbing/object.Commit") {
									ok = true
								}
							}
						}
					}
				}
				return !ok
			})
			return ok
		}
		// per function literal / body containing the assignment
		var bodies []*ast.BlockStmt
		bodies = append(bodies, fi.Decl.Body)
		ast.Inspect(fi.Decl.Body, func(x ast.Node) bool {
			if fl, ok := x.(*ast.FuncLit); ok {
				bodies = append(bodies, fl.Body)
			}
			return true
		})
		k := 0
		for _, body := range bodies {
			f := p.NewFlow(info, body)
			for _, loc := range f.Locs(func(nd ast.Node) bool {
				as, ok := nd.(*ast.AssignStmt)
				return ok && len(as.Lhs) == 1 && objOf(info, as.Lhs[0]) == found && info.Types[as.Rhs[0]].Value != nil && info.Types[as.Rhs[0]].Value.String() == "true"
			}) {
				k++
				h := f.UnguardedPath(AnyGuard(CondEdge(0, isHashCmp), CondEdge(1, isHashCmp)), loc)
				c.Check(h == nil, r2, fi.Name()+":"+found.Name()+"=true"+ifStr(k > 1, "#"+itoa(k)), loc.B.Nodes[loc.Idx].Pos(), orStr(ifStr(h != nil, "the ancestor is reported found on a path that compares no commit hashes"), "reported found only behind a comparison of commit hashes"))
			}
		}
		if k == 0 {
			c.Hold(r2, fi.Name(), fi.Decl.Pos(), "not decided: the assignment is not a node of a flow graph")
		}
	}
	c.Floor(r2, 2)
}
