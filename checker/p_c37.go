package main

import (
	"fmt"
	"go/ast"
	"go/token"
	"go/types"
	"strings"

	"golang.org/x/tools/go/cfg"
)

func init() {
	register(&propSpec{
		ID: "C37",
		Explanation: "Decides the shape of the wants/haves object walk of plumbing/revlist, not the selected set on every history: (want-dispatch) seedWants has a case for commit, tag, tree and blob, rejects other types, and each case adds to the result or " +
			"follows the object (commit queued, tag recorded and its target followed, tree collected, blob recorded); (commit-links) in walkFull no path from recording a commit to the next iteration or a successful return skips collecting its tree, " +
			"or the loop over its parents other than on the shallow edge; processCommitTrees returns success only after collectChangedTreeObjects succeeded; propagate skips a parent only when it already carries the flags or is recorded as missing; " +
			"(entry-skip-inventory) in collectAllTreeObjects, collectChangedTreeObjects and markTreeSeen every continue/early return inside the loop over tree entries is guarded by one of three recognised conditions (already in the seen set, " +
			"submodule entry, unchanged against a parent tree: a flag set only under equality of the parent's hash for that name); directory entries recurse and other entries are recorded; (early-stop) the painted walk leaves its loop early only when " +
			"allStale holds, and allStale returns true only after examining every queue entry and false when either paint is missing; processCommitTrees is reached only for commits without havePaint; (result-writers) only the want side appends to the result: " +
			"seedHaves and markTreeSeen never do; (pruning-walk-outside-diff-walk) a tree walker that returns at once for a tree whose hash is in the shared seen set is not reachable from the diff walk (processCommitTrees / collectChangedTreeObjects), which marks trees it has only partly visited. Not decided: that the selected set equals git rev-list --objects for every history and clock skew; behaviour on shallow stores.",
		Assumptions: []string{},
		Run:         runC37,
	})
}

const rvShort = "plumbing/revlist"

func runC37(c *Ctx) {
	p := c.P
	pk := p.Pkg(rvShort)
	if pk == nil {
		c.Unresolved("want-dispatch", "package "+rvShort, 0, "not loaded")
		return
	}
	info := pk.TypesInfo
	checkPruningWalkNotInDiffWalk(c, "pruning-walk-outside-diff-walk")
	walkT := p.lookupType(rvShort, "objectWalk")
	resultF := fieldOf(walkT, "result")
	wantsQF := fieldOf(walkT, "wantsQueue")
	shallowsF := fieldOf(walkT, "shallows")
	if walkT == nil || resultF == nil || wantsQF == nil {
		c.Unresolved("want-dispatch", rvShort+".objectWalk", 0, "walk state type or its result/wantsQueue fields not found")
		return
	}
	mentionsField := func(n ast.Node, fld *types.Var) bool {
		found := false
		ast.Inspect(n, func(x ast.Node) bool {
			if sel, ok := x.(*ast.SelectorExpr); ok && fld != nil && info.Uses[sel.Sel] == types.Object(fld) {
				found = true
			}
			return !found
		})
		return found
	}
	// "appends to the result": an assignment whose target is w.result or *result (a parameter of type *[]plumbing.Hash)
	isResultParam := func(e ast.Expr) bool {
		st, ok := unparen(e).(*ast.StarExpr)
		if !ok {
			return false
		}
		v, ok := objOf(info, st.X).(*types.Var)
		if !ok {
			return false
		}
		pt, ok := v.Type().(*types.Pointer)
		if !ok {
			return false
		}
		sl, isSlice := pt.Elem().Underlying().(*types.Slice)
		if !isSlice {
			return false
		}
		// a slice of object ids (the same element type as objectWalk.result)
		rs, ok := resultF.Type().Underlying().(*types.Slice)
		return ok && types.Identical(sl.Elem(), rs.Elem())
	}
	appendsResult := func(n ast.Node) bool {
		found := false
		ast.Inspect(n, func(x ast.Node) bool {
			if as, ok := x.(*ast.AssignStmt); ok {
				for _, l := range as.Lhs {
					if sel, ok := unparen(l).(*ast.SelectorExpr); ok && info.Uses[sel.Sel] == types.Object(resultF) {
						found = true
					}
					if isResultParam(l) {
						found = true
					}
				}
			}
			return !found
		})
		return found
	}
	callsFn := func(n ast.Node, fi *FuncInfo) bool {
		return fi != nil && nodeHasCall(n, true, func(call *ast.CallExpr) bool { return Callee(info, call) == fi.Obj }) != nil
	}
	collectAll := p.Func(rvShort + ".collectAllTreeObjects")
	collectChanged := p.Func(rvShort + ".collectChangedTreeObjects")
	markSeen := p.Func(rvShort + ".markTreeSeen")
	insertSorted := p.Func(rvShort + ".insertSorted")

	// ---- want-dispatch
	const r1 = "want-dispatch"
	if sw := c.MustFunc(r1, rvShort+".(*objectWalk).seedWants"); sw != nil {
		c.Analysed(sw)
		var disp *ast.SwitchStmt
		ast.Inspect(sw.Decl.Body, func(n ast.Node) bool {
			if s, ok := n.(*ast.SwitchStmt); ok && s.Tag != nil && disp == nil {
				if call, ok := unparen(s.Tag).(*ast.CallExpr); ok {
					if fn := Callee(info, call); fn != nil && fn.Name() == "Type" {
						disp = s
					}
				}
			}
			return true
		})
		if disp == nil {
			c.Unresolved(r1, sw.Name()+":type-switch", sw.Decl.Pos(), "switch on the object's type not found")
		} else {
			tagT := p.lookupType("plumbing/object", "Tag")
			targetF := fieldOf(tagT, "Target")
			cases := map[string]*ast.CaseClause{}
			var deflt *ast.CaseClause
			for _, cl := range disp.Body.List {
				cc := cl.(*ast.CaseClause)
				if cc.List == nil {
					deflt = cc
				}
				for _, e := range cc.List {
					if o := objOfSel(info, e); o != nil {
						cases[o.Name()] = cc
					}
				}
			}
			type want struct {
				k, desc string
				ok      func(body ast.Node) bool
			}
			for _, w := range []want{
				{"CommitObject", "the commit is queued for the walk", func(b ast.Node) bool { return mentionsField(b, wantsQF) && callsFn(b, insertSorted) }},
				{"TagObject", "the tag is recorded and its target is followed", func(b ast.Node) bool { return appendsResult(b) && mentionsField(b, targetF) }},
				{"TreeObject", "the tree is collected recursively", func(b ast.Node) bool { return callsFn(b, collectAll) }},
				{"BlobObject", "the blob is recorded", appendsResult},
			} {
				cc := cases[w.k]
				if cc == nil {
					c.Violate(r1, sw.Name()+":"+w.k, disp.Pos(), "no case for this object type: such wants are dropped or rejected")
					continue
				}
				c.Check(w.ok(&ast.BlockStmt{List: cc.Body}), r1, sw.Name()+":"+w.k, cc.Pos(), w.desc)
			}
			okDef := false
			if deflt != nil {
				for _, s := range deflt.Body {
					if r, ok := s.(*ast.ReturnStmt); ok && returnsNonNilError(info, sw.Decl.Body, r) {
						okDef = true
					}
				}
			}
			c.Check(okDef, r1, sw.Name()+":default-rejects", disp.Pos(), "an object of any other type is an error, not silently skipped")
		}
	}
	c.Floor(r1, 5)

	// ---- commit-links
	const r2 = "commit-links"
	commitT := p.lookupType("plumbing/object", "Commit")
	parentsF := fieldOf(commitT, "ParentHashes")
	if wf := c.MustFunc(r2, rvShort+".(*objectWalk).walkFull"); wf != nil && collectAll != nil {
		c.Analysed(wf)
		f := p.FlowOf(wf)
		var outer *ast.ForStmt
		for _, s := range wf.Decl.Body.List {
			if fs, ok := s.(*ast.ForStmt); ok && outer == nil {
				outer = fs
			}
		}
		starts := f.Locs(func(n ast.Node) bool {
			as, ok := n.(*ast.AssignStmt)
			return ok && appendsResult(as)
		})
		nextIter := func(b *cfg.Block) bool { return outer != nil && b.Stmt == ast.Stmt(outer) && b.Kind == cfg.KindForLoop }
		successRet := func(n ast.Node) bool {
			r, ok := n.(*ast.ReturnStmt)
			return ok && !returnsNonNilError(info, wf.Decl.Body, r)
		}
		if len(starts) == 0 || outer == nil {
			c.Unresolved(r2, wf.Name()+":record-site", wf.Decl.Pos(), "the statement recording the commit in the result (or the walk loop) was not found")
		} else {
			var after []Loc
			for _, s := range starts {
				after = append(after, After(s))
			}
			// (i) the tree is collected
			h := f.Search(SearchOpts{Starts: after, Sink: successRet, BlockSink: nextIter,
				BlockEdge: func(b *cfg.Block, i int) bool {
					return ErrGuard(func(_ *Flow, call *ast.CallExpr) bool { return Callee(info, call) == collectAll.Obj })(f, b, i)
				}})
			c.Check(h == nil, r2, wf.Name()+":tree-collected", wf.Decl.Pos(), orStr(ifStr(h != nil, "after a commit is recorded the walk can continue without a successful collectAllTreeObjects for its tree"+hitLines(f, h)), "a recorded commit's tree is collected before the walk continues"))
			// (ii) the parents are visited
			isParentLoop := func(b *cfg.Block) bool {
				rs, ok := b.Stmt.(*ast.RangeStmt)
				return ok && (b.Kind == cfg.KindRangeLoop || b.Kind == cfg.KindRangeBody) && mentionsField(rs.X, parentsF) && !isSubSlice(rs.X)
			}
			h2 := f.Search(SearchOpts{Starts: after, Sink: successRet, BlockSink: nextIter,
				BlockEdge: func(b *cfg.Block, i int) bool {
					if isParentLoop(b.Succs[i]) {
						return true
					}
					for _, fact := range f.EdgeFacts(b, i) {
						// `_, ok := w.shallows[h]; ok` : the shallow boundary
						if fact.Truth && f.factFromMapLookup(fact.Atom, shallowsF) {
							return true
						}
					}
					return false
				}})
			c.Check(h2 == nil, r2, wf.Name()+":parents-visited", wf.Decl.Pos(), orStr(ifStr(h2 != nil, "after a commit is recorded the walk can continue without entering the loop over all of its parents (and not on the shallow edge)"+hitLines(f, h2)), "every parent of a recorded commit is visited, except beyond the shallow boundary"))
		}
	}
	if pc := c.MustFunc(r2, rvShort+".(*objectWalk).processCommitTrees"); pc != nil && collectChanged != nil {
		SuccessReturnsGuarded(c, r2, pc, ErrGuard(func(_ *Flow, call *ast.CallExpr) bool { return Callee(info, call) == collectChanged.Obj }), "a successful collectChangedTreeObjects")
	}
	if pg := c.MustFunc(r2, rvShort+".(*objectWalk).propagate"); pg != nil {
		c.Analysed(pg)
		// continue statements in the parent loop: flags already present, or the parent was recorded as missing
		bad := ""
		n := 0
		ast.Inspect(pg.Decl.Body, func(x ast.Node) bool {
			br, ok := x.(*ast.BranchStmt)
			if !ok {
				return true
			}
			n++
			if br.Tok != token.CONTINUE {
				bad = fmt.Sprintf("%s at line %d", br.Tok, p.Fset.Position(br.Pos()).Line)
				return true
			}
			path := pathTo(pg.Decl.Body, br)
			okSkip := false
			for i := len(path) - 2; i >= 0; i-- {
				ifs, isIf := path[i].(*ast.IfStmt)
				if !isIf {
					continue
				}
				// flags already set: a comparison of an OR-combination with the old flags
				if be, isBin := unparen(ifs.Cond).(*ast.BinaryExpr); isBin && be.Op == token.EQL {
					if inner, isOr := unparen(be.X).(*ast.BinaryExpr); isOr && inner.Op == token.OR {
						okSkip = true
					}
				}
				// missing parent: recorded before the continue
				if nodeHasCall(ifs.Cond, false, func(call *ast.CallExpr) bool { fn := Callee(info, call); return fn != nil && fn.Name() == "Is" }) != nil {
					rec := false
					for _, s := range ifs.Body.List {
						if as, isAs := s.(*ast.AssignStmt); isAs && nodeHasBuiltin(info, as, "append") {
							rec = true
						}
					}
					okSkip = rec
				}
				break
			}
			if !okSkip {
				bad = fmt.Sprintf("continue at line %d under a condition that is neither 'flags already present' nor 'parent recorded as missing'", p.Fset.Position(br.Pos()).Line)
			}
			return true
		})
		c.Check(bad == "" && n > 0, r2, pg.Name()+":parent-skips", pg.Decl.Pos(), orStr(bad, "a parent is skipped only when it already carries the flags or was recorded as missing"))
		c.Check(callsFn(pg.Decl.Body, insertSorted), r2, pg.Name()+":queues-parent", pg.Decl.Pos(), "painted parents are queued")
	}
	c.Floor(r2, 5)

	// ---- entry-skip-inventory
	const r3 = "entry-skip-inventory"
	treeT := p.lookupType("plumbing/object", "Tree")
	entriesF := fieldOf(treeT, "Entries")
	for _, fi := range []*FuncInfo{collectAll, collectChanged, markSeen} {
		if fi == nil {
			c.Unresolved(r3, rvShort+":tree-walkers", 0, "collectAllTreeObjects / collectChangedTreeObjects / markTreeSeen not found")
			continue
		}
		c.Analysed(fi)
		var loop *ast.RangeStmt
		nLoops := 0
		ast.Inspect(fi.Decl.Body, func(n ast.Node) bool {
			if rs, ok := n.(*ast.RangeStmt); ok && mentionsField(rs.X, entriesF) {
				// the loop whose body recurses or records is the walking loop (collectChanged also indexes parents' entries)
				if callsFn(rs.Body, fi) {
					loop = rs
					nLoops++
				}
			}
			return true
		})
		if loop == nil || nLoops != 1 {
			c.Unresolved(r3, fi.Name()+":entries-loop", fi.Decl.Pos(), fmt.Sprintf("%d recursing loops over Tree.Entries found, expected one", nLoops))
			continue
		}
		elem := objOf(info, loop.Value)
		unchangedFlags := unchangedFlagVars(info, loop, elem)
		var bad []string
		nSkips := 0
		var visit func(n ast.Node, inner bool)
		visit = func(n ast.Node, inner bool) {
			ast.Inspect(n, func(x ast.Node) bool {
				switch v := x.(type) {
				case *ast.FuncLit:
					return false
				case *ast.RangeStmt, *ast.ForStmt:
					if x != n {
						visit(loopBody(v), true)
						return false
					}
				case *ast.BranchStmt:
					if inner && v.Label == nil {
						return true // break/continue of an inner search loop
					}
					line := p.Fset.Position(v.Pos()).Line
					if v.Tok != token.CONTINUE {
						bad = append(bad, fmt.Sprintf("%s at line %d leaves the loop over the entries", v.Tok, line))
						return true
					}
					nSkips++
					if why := skipReason(info, loop.Body, v, elem, unchangedFlags); why == "" {
						bad = append(bad, fmt.Sprintf("entry skipped at line %d under a condition that is none of: already seen, submodule, unchanged against a parent", line))
					}
				case *ast.ReturnStmt:
					if !returnsNonNilError(info, fi.Decl.Body, v) && !isErrIdentReturn(info, v) {
						bad = append(bad, fmt.Sprintf("successful return at line %d inside the loop over the entries", p.Fset.Position(v.Pos()).Line))
					}
				}
				return true
			})
		}
		visit(loop.Body, false)
		c.Check(len(bad) == 0, r3, fi.Name()+":skips", loop.Pos(), orStr(strings.Join(bad, "; "), fmt.Sprintf("%d skip sites, each guarded by a recognised condition; no other exit from the loop", nSkips)))
		// coverage: directories recurse (checked by loop selection), other entries are recorded / marked
		records := appendsResult(loop.Body)
		if fi == markSeen {
			records = false
			ast.Inspect(loop.Body, func(x ast.Node) bool {
				if as, ok := x.(*ast.AssignStmt); ok {
					for _, l := range as.Lhs {
						if ix, ok := unparen(l).(*ast.IndexExpr); ok {
							if tv := info.Types[ix.X]; tv.Type != nil {
								if _, isMap := tv.Type.Underlying().(*types.Map); isMap {
									records = true
								}
							}
						}
					}
				}
				return true
			})
		}
		c.Check(records, r3, fi.Name()+":records-entry", loop.Pos(), "entries that are not directories are recorded (marked, for the have side); directories recurse")
	}
	c.Floor(r3, 6)

	// ---- gitlink-not-an-edge: a submodule entry pins a commit of another history; it is not a reachability edge. In every
	// loop over Tree.Entries in the package, the entry's hash is marked seen, recorded or followed only across the
	// "not a submodule" edge (otherwise a commit that a have merely pins is treated as already present and dropped from
	// the wants, or a gitlink's commit is sent as if it were a blob)
	const r3g = "gitlink-not-an-edge"
	nG := 0
	for _, fi := range p.FuncsIn(rvShort) {
		if fi.Decl.Body == nil || p.isTestFile(fi.Decl.Pos()) {
			continue
		}
		f := p.FlowOf(fi)
		ast.Inspect(fi.Decl.Body, func(n ast.Node) bool {
			rs, ok := n.(*ast.RangeStmt)
			if !ok || !mentionsField(rs.X, entriesF) || rs.Value == nil {
				return true
			}
			elem := objOf(info, rs.Value)
			usesElemHash := func(e ast.Expr) bool {
				found := false
				ast.Inspect(e, func(x ast.Node) bool {
					if sel, ok := x.(*ast.SelectorExpr); ok && sel.Sel.Name == "Hash" && objOf(info, sel.X) == elem {
						found = true
					}
					return !found
				})
				return found
			}
			// sinks inside this loop: seen[e.Hash] = …, append(…, e.Hash), a call that receives e.Hash
			isSink := func(nd ast.Node) bool {
				if nd.Pos() < rs.Body.Pos() || nd.End() > rs.Body.End() {
					return false
				}
				switch v := nd.(type) {
				case *ast.AssignStmt:
					for _, l := range v.Lhs {
						if ix, ok := unparen(l).(*ast.IndexExpr); ok && usesElemHash(ix.Index) {
							if tv := info.Types[ix.X]; tv.Type != nil {
								if _, isMap := tv.Type.Underlying().(*types.Map); isMap {
									return true
								}
							}
						}
					}
					for _, r := range v.Rhs {
						if call, ok := unparen(r).(*ast.CallExpr); ok {
							for _, a := range call.Args {
								if usesElemHash(a) {
									return true
								}
							}
						}
					}
				case *ast.ExprStmt:
					if call, ok := v.X.(*ast.CallExpr); ok {
						for _, a := range call.Args {
							if usesElemHash(a) {
								return true
							}
						}
					}
				}
				return false
			}
			sinks := f.Locs(isSink)
			if len(sinks) == 0 {
				return true // an index-building loop (names to hashes of a parent tree): nothing is marked or followed
			}
			notSubmodule := func(b *cfg.Block, i int) bool {
				for _, fact := range f.EdgeFacts(b, i) {
					be, ok := unparen(fact.Atom).(*ast.BinaryExpr)
					if !ok || (be.Op != token.EQL && be.Op != token.NEQ) {
						continue
					}
					for _, pair := range [][2]ast.Expr{{be.X, be.Y}, {be.Y, be.X}} {
						sel, ok := unparen(pair[0]).(*ast.SelectorExpr)
						if !ok || sel.Sel.Name != "Mode" || objOf(info, sel.X) != elem {
							continue
						}
						o := objOfSel(info, pair[1])
						if o == nil {
							continue
						}
						switch o.Name() {
						case "Submodule":
							if (be.Op == token.EQL) != fact.Truth {
								return true // e.Mode == Submodule is false here
							}
						case "Dir", "Regular", "Executable", "Symlink", "Deprecated":
							if (be.Op == token.EQL) == fact.Truth {
								return true // the mode is known to be another one
							}
						}
					}
				}
				return false
			}
			nG++
			c.Analysed(fi)
			var bad *Hit
			for _, s := range sinks {
				s := s
				if h := f.Search(SearchOpts{Starts: []Loc{f.Entry()}, Sink: func(nd ast.Node) bool { return nd == s.B.Nodes[s.Idx] }, BlockEdge: notSubmodule}); h != nil && bad == nil {
					bad = h
				}
			}
			key := fmt.Sprintf("%s:entries-loop@%s", fi.Name(), exprString(rs.X))
			c.Check(bad == nil, r3g, key, rs.Pos(), orStr(ifStr(bad != nil, "a tree entry's hash is marked, recorded or followed on a path that has not excluded submodule entries: the commit a gitlink pins is treated as an object of this history"+hitLines(f, bad)),
				"entry hashes are used only after submodule entries were excluded"))
			return true
		})
	}
	c.Check(nG >= 3, r3g, rvShort+":entry-loops", 0, itoa(nG)+" loops over tree entries that mark, record or follow entry hashes examined")

	// ---- early-stop
	const r4 = "early-stop"
	allStale := p.Func(rvShort + ".allStale")
	wantPaint, havePaint := p.lookupObj(rvShort, "wantPaint"), p.lookupObj(rvShort, "havePaint")
	if wk := c.MustFunc(r4, rvShort+".(*objectWalk).walk"); wk != nil && allStale != nil {
		c.Analysed(wk)
		// every break of the main loop is on the allStale(...) == true edge
		nBreak, okBreak := 0, true
		ast.Inspect(wk.Decl.Body, func(n ast.Node) bool {
			br, ok := n.(*ast.BranchStmt)
			if !ok || (br.Tok != token.BREAK && br.Tok != token.GOTO) {
				return true
			}
			nBreak++
			path := pathTo(wk.Decl.Body, br)
			good := false
			for i := len(path) - 2; i >= 0; i-- {
				if ifs, isIf := path[i].(*ast.IfStmt); isIf {
					if call, isCall := unparen(ifs.Cond).(*ast.CallExpr); isCall && Callee(info, call) == allStale.Obj && path[i+1] == ast.Node(ifs.Body) {
						good = true
					}
					break
				}
			}
			if !good {
				okBreak = false
			}
			return true
		})
		c.Check(okBreak, r4, wk.Name()+":break-only-when-stale", wk.Decl.Pos(), fmt.Sprintf("%d early exit(s) from the painted walk, each directly under if allStale(...)", nBreak))
		// processCommitTrees only for commits without havePaint
		if pc := p.Func(rvShort + ".(*objectWalk).processCommitTrees"); pc != nil {
			CallsGuarded(c, r4, wk, FactGuard(func(_ *Flow, fact Fact) bool {
				if !usesObj(info, fact.Atom, havePaint) {
					return false
				}
				be, ok := unparen(fact.Atom).(*ast.BinaryExpr)
				if !ok {
					return false
				}
				// flags&havePaint != 0 is false, or flags&havePaint == 0 is true
				return (be.Op == token.NEQ && !fact.Truth) || (be.Op == token.EQL && fact.Truth)
			}), func(call *ast.CallExpr) bool { return Callee(info, call) == pc.Obj }, "the commit not being painted by the haves")
		}
	}
	if allStale != nil {
		c.Analysed(allStale)
		LoopsExhaustiveRej(c, r4, allStale, func(r *ast.ReturnStmt) bool {
			return len(r.Results) == 1 && constBool(info, r.Results[0]) == "false"
		})
		// the false return mentions both paints
		okBoth := false
		ast.Inspect(allStale.Decl.Body, func(n ast.Node) bool {
			ifs, ok := n.(*ast.IfStmt)
			if !ok {
				return true
			}
			for _, s := range ifs.Body.List {
				if r, ok := s.(*ast.ReturnStmt); ok && len(r.Results) == 1 && constBool(info, r.Results[0]) == "false" {
					if usesObj(info, ifs.Cond, wantPaint) && usesObj(info, ifs.Cond, havePaint) {
						if be, ok := unparen(ifs.Cond).(*ast.BinaryExpr); ok && be.Op == token.LOR {
							okBoth = true
						}
					}
				}
			}
			return true
		})
		c.Check(okBoth, r4, allStale.Name()+":either-paint-missing", allStale.Decl.Pos(), "an entry lacking the want paint or the have paint makes the queue not stale (a disjunction over both)")
	} else {
		c.Unresolved(r4, rvShort+".allStale", 0, "not found")
	}
	c.Floor(r4, 4)

	// ---- result-writers
	const r5 = "result-writers"
	allowed := map[string]bool{
		rvShort + ".(*objectWalk).seedWants": true, rvShort + ".(*objectWalk).walkFull": true, rvShort + ".(*objectWalk).processCommitTrees": true,
		rvShort + ".collectAllTreeObjects": true, rvShort + ".collectChangedTreeObjects": true,
	}
	nW := 0
	for _, fi := range p.FuncsIn(rvShort) {
		if fi.Decl.Body == nil || p.isTestFile(fi.Decl.Pos()) || !appendsResult(fi.Decl.Body) {
			continue
		}
		nW++
		c.Check(allowed[fi.Name()], r5, fi.Name(), fi.Decl.Pos(), orStr(ifStr(!allowed[fi.Name()], "adds objects to the result although it is not part of the want-side walk: objects not reachable from the wants can be selected"), "want-side function"))
	}
	// the have side passes no result to the collectors
	for _, name := range []string{".(*objectWalk).seedHaves", ".markTreeSeen"} {
		if fi := c.MustFunc(r5, rvShort+name); fi != nil {
			c.Analysed(fi)
			uses := mentionsField(fi.Decl.Body, resultF) || callsFn(fi.Decl.Body, collectAll) || callsFn(fi.Decl.Body, collectChanged)
			c.Check(!uses, r5, fi.Name()+":no-result", fi.Decl.Pos(), "the have side neither touches the result nor calls a collecting walker")
		}
	}
	c.Floor(r5, 6)
}

func hitLines(f *Flow, h *Hit) string {
	if h == nil {
		return ""
	}
	return " (lines " + f.pathString(h) + ")"
}

func loopBody(n ast.Node) ast.Node {
	switch v := n.(type) {
	case *ast.RangeStmt:
		return v.Body
	case *ast.ForStmt:
		return v.Body
	}
	return n
}

func objOfSel(info *types.Info, e ast.Expr) types.Object {
	switch v := unparen(e).(type) {
	case *ast.SelectorExpr:
		return info.Uses[v.Sel]
	case *ast.Ident:
		return info.Uses[v]
	}
	return nil
}

func constBool(info *types.Info, e ast.Expr) string {
	if tv := info.Types[e]; tv.Value != nil {
		return tv.Value.ExactString()
	}
	return ""
}

func isErrIdentReturn(info *types.Info, r *ast.ReturnStmt) bool {
	if len(r.Results) == 0 {
		return false
	}
	o := objOf(info, r.Results[len(r.Results)-1])
	return o != nil && types.Identical(o.Type(), types.Universe.Lookup("error").Type())
}

// factFromMapLookup: the fact is the `ok` of `_, ok := <x>.<field>[key]` (field = the given map field) in the same block.
func (f *Flow) factFromMapLookup(atom ast.Expr, fld *types.Var) bool {
	obj := objOf(f.Info, atom)
	if obj == nil || fld == nil {
		return false
	}
	found := false
	for _, b := range f.G.Blocks {
		for _, n := range b.Nodes {
			as, ok := n.(*ast.AssignStmt)
			if !ok || len(as.Lhs) != 2 || len(as.Rhs) != 1 || objOf(f.Info, as.Lhs[1]) != obj {
				continue
			}
			if ix, ok := unparen(as.Rhs[0]).(*ast.IndexExpr); ok {
				if sel, ok := unparen(ix.X).(*ast.SelectorExpr); ok && f.Info.Uses[sel.Sel] == types.Object(fld) {
					found = true
				}
			}
		}
	}
	return found
}

// unchangedFlagVars: boolean locals declared in the loop body that are set to true only inside an if whose condition
// compares a value looked up by the entry's name with the entry's hash for equality.
func unchangedFlagVars(info *types.Info, loop *ast.RangeStmt, elem types.Object) map[types.Object]bool {
	out := map[types.Object]bool{}
	cand := map[types.Object]int{}
	good := map[types.Object]int{}
	ast.Inspect(loop.Body, func(n ast.Node) bool {
		as, ok := n.(*ast.AssignStmt)
		if !ok || len(as.Lhs) != 1 || len(as.Rhs) != 1 {
			return true
		}
		o := objOf(info, as.Lhs[0])
		if o == nil || constBool(info, as.Rhs[0]) != "true" {
			return true
		}
		cand[o]++
		path := pathTo(loop.Body, as)
		for i := len(path) - 2; i >= 0; i-- {
			ifs, ok := path[i].(*ast.IfStmt)
			if !ok {
				continue
			}
			eqHash := false
			ast.Inspect(ifs.Cond, func(m ast.Node) bool {
				if be, ok := m.(*ast.BinaryExpr); ok && be.Op == token.EQL {
					for _, side := range []ast.Expr{be.X, be.Y} {
						if sel, ok := unparen(side).(*ast.SelectorExpr); ok && sel.Sel.Name == "Hash" && objOf(info, sel.X) == elem {
							eqHash = true
						}
					}
				}
				return true
			})
			if eqHash {
				good[o]++
			}
			break
		}
		return true
	})
	for o, n := range cand {
		if good[o] == n {
			out[o] = true
		}
	}
	return out
}

// skipReasonKey: the `continue` is in the then-branch of `if _, ok := <map>[elem]; ok` (the loop element itself is the key).
func skipReasonKey(info *types.Info, body *ast.BlockStmt, br *ast.BranchStmt, elem types.Object) bool {
	path := pathTo(body, br)
	for i := len(path) - 2; i >= 0; i-- {
		ifs, ok := path[i].(*ast.IfStmt)
		if !ok {
			continue
		}
		id, isID := unparen(ifs.Cond).(*ast.Ident)
		as, isAs := ifs.Init.(*ast.AssignStmt)
		if !isID || !isAs || len(as.Lhs) != 2 || len(as.Rhs) != 1 || objOf(info, as.Lhs[1]) != info.Uses[id] || path[i+1] != ast.Node(ifs.Body) {
			return false
		}
		ix, isIx := unparen(as.Rhs[0]).(*ast.IndexExpr)
		if !isIx || objOf(info, ix.Index) != elem {
			return false
		}
		tv := info.Types[ix.X]
		if tv.Type == nil {
			return false
		}
		_, isMap := tv.Type.Underlying().(*types.Map)
		return isMap
	}
	return false
}

// skipReason classifies the condition guarding a `continue` in the entries loop; "" if not recognised.
func skipReason(info *types.Info, body *ast.BlockStmt, br *ast.BranchStmt, elem types.Object, unchanged map[types.Object]bool) string {
	path := pathTo(body, br)
	for i := len(path) - 2; i >= 0; i-- {
		ifs, ok := path[i].(*ast.IfStmt)
		if !ok {
			continue
		}
		if i+1 < len(path) && path[i+1] != ast.Node(ifs.Body) {
			return "" // else-branch: negated condition
		}
		cond := unparen(ifs.Cond)
		// already seen: `_, ok := seen[e.Hash]; ok`
		if id, ok := cond.(*ast.Ident); ok {
			if unchanged[info.Uses[id]] {
				return "unchanged"
			}
			if as, ok := ifs.Init.(*ast.AssignStmt); ok && len(as.Lhs) == 2 && len(as.Rhs) == 1 && objOf(info, as.Lhs[1]) == info.Uses[id] {
				if ix, ok := unparen(as.Rhs[0]).(*ast.IndexExpr); ok {
					if tv := info.Types[ix.X]; tv.Type != nil {
						if _, isMap := tv.Type.Underlying().(*types.Map); isMap {
							if sel, ok := unparen(ix.Index).(*ast.SelectorExpr); ok && sel.Sel.Name == "Hash" && objOf(info, sel.X) == elem {
								return "seen"
							}
						}
					}
				}
			}
			return ""
		}
		// submodule: e.Mode == filemode.Submodule
		if be, ok := cond.(*ast.BinaryExpr); ok && be.Op == token.EQL {
			for _, pair := range [][2]ast.Expr{{be.X, be.Y}, {be.Y, be.X}} {
				if sel, ok := unparen(pair[0]).(*ast.SelectorExpr); ok && sel.Sel.Name == "Mode" && objOf(info, sel.X) == elem {
					if o := objOfSel(info, pair[1]); o != nil && o.Name() == "Submodule" {
						return "submodule"
					}
				}
			}
		}
		return ""
	}
	return ""
}
