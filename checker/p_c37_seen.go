package main

import (
	"go/ast"
	"go/types"
)

// checkPruningWalkNotInDiffWalk (C37): the object walk keeps one `seen` set with two kinds of tree walkers. The diff walk
// (processCommitTrees → collectChangedTreeObjects) marks a tree as seen after visiting only the entries that differ from
// the parents' trees; the full walk prunes at every tree whose hash is seen. Pruning is only sound over trees that were
// walked completely, so the pruning walker must not run inside the diff walk: a subtree met first in a commit that
// restores it (partially walked, marked) and again in the older commit that introduced it would be cut off, and the
// entries passed over as "unchanged" are never collected.
//
// Decided: (a) a pruning tree walker — a function of the package with a seen-set parameter that returns early when the
// hash of its *object.Tree parameter is in the set — is not in the static closure of the diff walk's entry points;
// (b) the diff walker itself does not return early on a seen tree (it must descend: its comment says why).
func checkPruningWalkNotInDiffWalk(c *Ctx, rule string) {
	p := c.P
	pk := p.Pkg(rvShort)
	if pk == nil {
		c.Unresolved(rule, "package "+rvShort, 0, "not loaded")
		return
	}
	info := pk.TypesInfo
	// pruners: functions with a *object.Tree parameter t and a map parameter seen that contain `if _, ok := seen[t.Hash]; ok { return … }`
	prunes := func(fi *FuncInfo) bool {
		var tree, seen types.Object
		for _, po := range paramObjs(info, fi.Decl) {
			ts := types.TypeString(po.Type(), nil)
			if ts == "*"+modPath+"/plumbing/object.Tree" {
				tree = po
			}
			if _, ok := po.Type().Underlying().(*types.Map); ok {
				seen = po
			}
		}
		if tree == nil || seen == nil {
			return false
		}
		found := false
		ast.Inspect(fi.Decl.Body, func(n ast.Node) bool {
			ifs, ok := n.(*ast.IfStmt)
			if !ok || ifs.Init == nil || found {
				return true
			}
			as, ok := ifs.Init.(*ast.AssignStmt)
			if !ok || len(as.Rhs) != 1 || len(as.Lhs) != 2 {
				return true
			}
			ix, ok := unparen(as.Rhs[0]).(*ast.IndexExpr)
			if !ok || objOf(info, ix.X) != seen || !usesObj(info, ix.Index, tree) {
				return true
			}
			// the found edge returns
			okVar := objOf(info, as.Lhs[1])
			if id, isId := unparen(ifs.Cond).(*ast.Ident); isId && objOf(info, id) == okVar {
				for _, st := range ifs.Body.List {
					if _, isRet := st.(*ast.ReturnStmt); isRet {
						found = true
					}
				}
			}
			return true
		})
		return found
	}
	var pruners []*FuncInfo
	for _, fi := range p.FuncsIn(rvShort) {
		if fi.Decl.Body != nil && !p.isTestFile(fi.Decl.Pos()) && prunes(fi) {
			pruners = append(pruners, fi)
		}
	}
	c.Check(len(pruners) >= 1, rule, rvShort+":pruning-walkers", 0, orStr(ifStr(len(pruners) == 0, "no tree walker that prunes at seen trees found: the rule has nothing to place"), itoa(len(pruners))+" pruning tree walker(s) found"))
	for _, entry := range []string{rvShort + ".(*objectWalk).processCommitTrees", rvShort + ".collectChangedTreeObjects"} {
		fi := c.MustFunc(rule, entry)
		if fi == nil {
			continue
		}
		c.Analysed(fi)
		bad := ""
		for _, cf := range p.staticClosure([]*FuncInfo{fi}) {
			for _, pr := range pruners {
				if cf.Obj == pr.Obj {
					bad = pr.Name()
				}
			}
		}
		c.Check(bad == "", rule, fi.Name()+":closure", fi.Decl.Pos(), orStr(ifStr(bad != "", bad+" prunes at every tree whose hash is in the seen set and is reachable from the diff walk, which marks trees it has only partly visited: a subtree restored by a later commit and introduced by an older one is cut off at the second visit, and the entries the first visit passed over as unchanged are never selected"),
			"no walker that prunes at seen trees is reachable from the diff walk"))
	}
}
