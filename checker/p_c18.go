package main

import (
	"go/ast"
	"go/token"
	"go/types"

	"golang.org/x/tools/go/cfg"
)

func init() {
	register(&propSpec{
		ID: "C18",
		Explanation: "Decides the ordering half of 'readable immediately after a successful write' for the cached directory listings of storage/filesystem/dotgit: (invalidate-after-publish) in " +
			"ObjectWriter.save and PackWriter.save every return after the rename that puts the file in place passes a call of the writer's `published` hook; DotGit.NewObject/NewObjectPack install a hook that " +
			"drops the matching listing (objectMap / packMap) and are the only constructors' callers; ObjectDelete and DeleteOldObjectPackAndIndex drop the listing after the removal (a deferred drop registered before it counts); " +
			"(listing-filled-in-one-critical-section) a function that fills a cached listing scans the directory and stores the result in one critical section of listMu — a scan outside it can be stored after a writer's drop and hide what the writer published; " +
			"(listing-snapshot) every reader of the listings obtains list and set from objectListing/packListing in one locked step (no separate generate-then-read); " +
			"(notify-publishes-index) the pack writer's Notify callback installed by ObjectStorage publishes s.index[h] and s.packs under muI, every pack writer ObjectStorage hands out carries that callback, and PackWriter.Close calls Notify only for a finished index. " +
			"(cached-slice-not-handed-out) an exported method of DotGit / ObjectStorage returns a cached slice field (directly, through a local, or through an unexported helper's result; fixpoint over the type's methods) only as a full slice " +
			"expression s[a:b:b] or a copy, so that a caller's append cannot overwrite the shared listing; (cached-slice-not-written-by-callers) the callers of those accessors do not write inside the window either (element assignment, append through x[:0]/x[:n], in-place sort, copy). Not decided: visibility under every interleaving with other storage instances; the object cache; in-place modification of returned elements.",
		Assumptions: []string{"rename within objects/ is the publication point of loose objects and packs"},
		Run:         runC18,
	})
}

func runC18(c *Ctx) {
	p := c.P
	pk := p.Pkg(dotgitShort)
	if pk == nil {
		c.Unresolved("invalidate-after-publish", "package "+dotgitShort, 0, "not loaded")
		return
	}
	info := pk.TypesInfo
	// cached-slice-not-handed-out: the cached listings are slices; an exported accessor returns them only capped or copied
	const r0 = "cached-slice-not-handed-out"
	nEsc := SharedSliceEscape(c, r0, dotgitShort, "DotGit")
	nEsc += SharedSliceEscape(c, r0, "storage/filesystem", "ObjectStorage")
	c.Check(nEsc >= 2, r0, dotgitShort+".DotGit:accessors", 0, itoa(nEsc)+" exported methods that read a cached slice examined")
	nMut := SharedSliceNotMutatedByCallers(c, "cached-slice-not-written-by-callers", dotgitShort, "DotGit")
	c.Check(nMut >= 2, "cached-slice-not-written-by-callers", dotgitShort+".DotGit:callers", 0, itoa(nMut)+" call sites that receive a window of a cached listing examined")
	const r1 = "invalidate-after-publish"
	dg := p.lookupType(dotgitShort, "DotGit")
	objMap, packMap := fieldOf(dg, "objectMap"), fieldOf(dg, "packMap")
	if objMap == nil || packMap == nil {
		c.Unresolved(r1, dotgitShort+".DotGit.{objectMap,packMap}", 0, "listing fields not found")
		return
	}
	// functions that drop a listing: assign nil to the map field (directly)
	drops := func(fld *types.Var) map[*types.Func]bool {
		out := map[*types.Func]bool{}
		for _, fi := range p.FuncsIn(dotgitShort) {
			if fi.Decl.Body == nil {
				continue
			}
			ast.Inspect(fi.Decl.Body, func(n ast.Node) bool {
				if as, ok := n.(*ast.AssignStmt); ok {
					for i, l := range as.Lhs {
						if sel, ok := unparen(l).(*ast.SelectorExpr); ok && info.Uses[sel.Sel] == fld && i < len(as.Rhs) && isNil(info, as.Rhs[i]) {
							out[fi.Obj] = true
						}
					}
				}
				return true
			})
		}
		// one level of wrappers (cleanPackList -> invalidatePackList)
		for _, fi := range p.FuncsIn(dotgitShort) {
			if fi.Decl.Body == nil || out[fi.Obj] {
				continue
			}
			walkCalls(fi.Decl.Body, false, func(call *ast.CallExpr) {
				if fn := Callee(info, call); fn != nil && out[fn] && (fi.Obj.Name() == "cleanPackList" || fi.Obj.Name() == "cleanObjectList") {
					out[fi.Obj] = true
				}
			})
		}
		return out
	}
	dropObj, dropPack := drops(objMap), drops(packMap)
	type wspec struct {
		typ, ctor, newFn string
		dropSet          map[*types.Func]bool
	}
	for _, w := range []wspec{
		{"ObjectWriter", dotgitShort + ".newObjectWriter", dotgitShort + ".(*DotGit).NewObject", dropObj},
		{"PackWriter", dotgitShort + ".newPackWrite", dotgitShort + ".(*DotGit).NewObjectPack", dropPack},
	} {
		wt := p.lookupType(dotgitShort, w.typ)
		hook := fieldOf(wt, "published")
		save := p.Func(dotgitShort + ".(*" + w.typ + ").save")
		if wt == nil || save == nil {
			c.Unresolved(r1, dotgitShort+"."+w.typ+".save", 0, "writer type or save method not found")
			continue
		}
		if hook == nil {
			c.Violate(r1, dotgitShort+"."+w.typ+".published", wt.Pos(), "the writer has no publication hook: the listing cannot be dropped when the file is put in place (dropping it when the writer is opened leaves a window)")
			continue
		}
		c.Analysed(save)
		f := p.FlowOf(save)
		isRename := CallNode(false, func(call *ast.CallExpr) bool { return isBillyMethod(Callee(info, call), "Rename") })
		isHook := CallNode(false, func(call *ast.CallExpr) bool {
			sel, ok := unparen(call.Fun).(*ast.SelectorExpr)
			return ok && info.Uses[sel.Sel] == hook
		})
		renames := f.Locs(isRename)
		if len(renames) == 0 {
			c.Unresolved(r1, save.Name()+"->Rename", save.Decl.Pos(), "no rename found in save")
		}
		for _, rl := range renames {
			// failure edge of this rename is not followed
			h := f.Search(SearchOpts{Starts: []Loc{After(rl)}, Sink: func(n ast.Node) bool {
				r, ok := n.(*ast.ReturnStmt)
				return ok && !returnsNonNilError(info, save.Decl.Body, r)
			}, Barrier: isHook, BlockEdge: func(b *cfg.Block, i int) bool {
				// the edge on which no hook is installed (w.published == nil) is not a path of interest
				for _, fact := range f.EdgeFacts(b, i) {
					be, ok := unparen(fact.Atom).(*ast.BinaryExpr)
					if !ok || !isNil(info, be.Y) {
						continue
					}
					if sel, ok := unparen(be.X).(*ast.SelectorExpr); ok && info.Uses[sel.Sel] == hook {
						if (be.Op == token.EQL) == fact.Truth {
							return true
						}
					}
				}
				return false
			}})
			if h != nil {
				c.Violate(r1, save.Name()+":after-rename", h.Node.Pos(), "a successful return after the rename does not call the published hook (lines "+f.pathString(h)+")")
			} else {
				c.Hold(r1, save.Name()+":after-rename", rl.B.Nodes[rl.Idx].Pos(), "every successful return after the rename calls the published hook")
			}
		}
		// the hook is installed by the DotGit constructor method, with a listing-dropping function
		nf := p.Func(w.newFn)
		if nf == nil {
			c.Unresolved(r1, w.newFn, 0, "anchor not found")
			continue
		}
		c.Analysed(nf)
		installed := false
		ast.Inspect(nf.Decl.Body, func(n ast.Node) bool {
			as, ok := n.(*ast.AssignStmt)
			if !ok {
				return true
			}
			for i, l := range as.Lhs {
				sel, ok := unparen(l).(*ast.SelectorExpr)
				if !ok || info.Uses[sel.Sel] != hook || i >= len(as.Rhs) {
					continue
				}
				if rs, ok := unparen(as.Rhs[i]).(*ast.SelectorExpr); ok {
					if fn, ok := info.Uses[rs.Sel].(*types.Func); ok && w.dropSet[fn] {
						installed = true
					}
				}
			}
			return true
		})
		c.Check(installed, r1, nf.Name()+":installs-hook", nf.Decl.Pos(), "the writer returned to callers drops the "+w.typ+"'s listing when it publishes")
		// constructors called only from there
		ctor := p.Func(w.ctor)
		if ctor == nil {
			c.Unresolved(r1, w.ctor, 0, "constructor not found")
			continue
		}
		for _, s := range p.CallSites(func(_ *types.Info, _ *ast.CallExpr, callee *types.Func) bool { return callee == ctor.Obj }) {
			if p.isTestFile(s.Call.Pos()) {
				continue
			}
			c.Check(s.In.Name() == w.newFn, r1, s.In.Name()+"->"+ctor.Obj.Name(), s.Call.Pos(), "writers are created only by the DotGit method that installs the hook")
		}
	}
	// deletions
	type dspec struct {
		fn      string
		dropSet map[*types.Func]bool
	}
	for _, d := range []dspec{{dotgitShort + ".(*DotGit).ObjectDelete", dropObj}, {dotgitShort + ".(*DotGit).DeleteOldObjectPackAndIndex", dropPack}} {
		fi := p.Func(d.fn)
		if fi == nil {
			c.Unresolved(r1, d.fn, 0, "anchor not found")
			continue
		}
		c.Analysed(fi)
		f := p.FlowOf(fi)
		isRemove := CallNode(false, func(call *ast.CallExpr) bool { return isBillyMethod(Callee(info, call), "Remove") })
		isDropCall := func(call *ast.CallExpr) bool { fn := Callee(info, call); return fn != nil && d.dropSet[fn] }
		isDeferDrop := func(n ast.Node) bool {
			ds, ok := n.(*ast.DeferStmt)
			return ok && isDropCall(ds.Call)
		}
		isDrop := CallNode(false, isDropCall)
		ok := true
		why := ""
		rems := f.Locs(isRemove)
		if len(rems) == 0 {
			c.Unresolved(r1, fi.Name()+"->Remove", fi.Decl.Pos(), "no Remove call found")
			continue
		}
		for _, rl := range rems {
			// either a deferred drop is registered on every path to the removal …
			deferred := f.Search(SearchOpts{Starts: []Loc{f.Entry()}, Sink: func(n ast.Node) bool { return n == rl.B.Nodes[rl.Idx] }, Barrier: isDeferDrop}) == nil
			// … or every return after it passes a drop
			after := f.Search(SearchOpts{Starts: []Loc{After(rl)}, Sink: isReturn, Barrier: isDrop}) == nil
			if !deferred && !after {
				ok, why = false, "the listing is not dropped after the removal at "+p.Pos(rl.B.Nodes[rl.Idx].Pos())+" (dropping it only before leaves a window in which it is regenerated with the doomed file)"
			}
		}
		c.Check(ok, r1, fi.Name()+":drop-after-remove", fi.Decl.Pos(), orStr(why, "the listing is dropped after every removal"))
	}
	c.Floor(r1, 8)

	checkListingFilledUnderLock(c, "listing-filled-in-one-critical-section")

	// listing-snapshot: the map/list fields are read only inside objectListing / packListing and the drop functions
	const r2 = "listing-snapshot"
	allowed := map[string]bool{
		dotgitShort + ".(*DotGit).objectListing": true, dotgitShort + ".(*DotGit).packListing": true,
		dotgitShort + ".(*DotGit).cleanObjectList": true, dotgitShort + ".(*DotGit).invalidatePackList": true,
	}
	for _, fname := range []string{"objectList", "objectMap", "packList", "packMap"} {
		fv := fieldOf(dg, fname)
		if fv == nil {
			c.Unresolved(r2, dotgitShort+".DotGit."+fname, 0, "field not found")
			continue
		}
		bad := ""
		n := 0
		for _, u := range p.fieldUses(fv) {
			n++
			if in := funcNameOr(u.In, "<pkg>"); !allowed[in] {
				bad = in + " at " + p.Pos(u.Sel.Pos())
			}
		}
		c.Check(bad == "" && n > 0, r2, dotgitShort+".DotGit."+fname, fv.Pos(), orStr(ifStr(bad != "", "accessed outside the snapshot accessors by "+bad+": a drop between generating and reading yields a false not-found"), "accessed only by the locked snapshot accessors and the drop functions"))
	}

	// notify-publishes-index
	const r3 = "notify-publishes-index"
	if cl := c.MustFunc(r3, dotgitShort+".(*PackWriter).Close"); cl != nil {
		notify := fieldOf(p.lookupType(dotgitShort, "PackWriter"), "Notify")
		ok := false
		ast.Inspect(cl.Decl.Body, func(n ast.Node) bool {
			ifs, isIf := n.(*ast.IfStmt)
			if !isIf {
				return true
			}
			callsNotify := false
			walkCalls(ifs.Body, false, func(call *ast.CallExpr) {
				if sel, isSel := unparen(call.Fun).(*ast.SelectorExpr); isSel && info.Uses[sel.Sel] == notify {
					callsNotify = true
				}
			})
			if callsNotify && condCalls(modPath + "/plumbing/format/idxfile.Writer.Finished")(info, ifs.Cond) {
				ok = true
			}
			return true
		})
		c.Check(ok, r3, cl.Name()+":Notify-only-when-finished", cl.Decl.Pos(), "Notify is called only under writer.Finished()")
	}
	if pw := c.MustFunc(r3, "storage/filesystem.(*ObjectStorage).packfileWriter"); pw != nil {
		sinfo := pw.Pkg.TypesInfo
		ost := p.lookupType("storage/filesystem", "ObjectStorage")
		// every writer handed out has the Notify callback installed (otherwise a pack written while the index was loaded
		// by an interleaved read never reaches s.index)
		{
			notifyF := fieldOf(p.lookupType(dotgitShort, "PackWriter"), "Notify")
			f := p.FlowOf(pw)
			installs := func(n ast.Node) bool {
				as, ok := n.(*ast.AssignStmt)
				if !ok {
					return false
				}
				for _, l := range as.Lhs {
					if sel, ok := unparen(l).(*ast.SelectorExpr); ok && notifyF != nil && sinfo.Uses[sel.Sel] == types.Object(notifyF) {
						return true
					}
				}
				return false
			}
			yields := func(n ast.Node) bool {
				r, ok := n.(*ast.ReturnStmt)
				return ok && len(r.Results) == 2 && !isNil(sinfo, r.Results[0])
			}
			h := f.Search(SearchOpts{Starts: []Loc{f.Entry()}, Sink: yields, Barrier: installs})
			c.Check(h == nil, r3, pw.Name()+":notify-always-installed", pw.Decl.Pos(), orStr(ifStr(h != nil, "a pack writer can be handed out without the Notify callback: if the index is loaded by a read while the writer is open, the finished pack is never added to it and its objects stay invisible"+hitLines(f, h)),
				"every writer handed out carries the Notify callback that publishes the finished pack"))
		}
		idxF, packsF := fieldOf(ost, "index"), fieldOf(ost, "packs")
		wIdx, wPacks := false, false
		ast.Inspect(pw.Decl.Body, func(n ast.Node) bool {
			if as, ok := n.(*ast.AssignStmt); ok {
				for _, l := range as.Lhs {
					if rs := rootSel(l); rs != nil {
						if sinfo.Uses[rs.Sel] == idxF {
							wIdx = true
						}
						if sinfo.Uses[rs.Sel] == packsF {
							wPacks = true
						}
					}
				}
			}
			return true
		})
		c.Check(wIdx && wPacks, r3, pw.Name()+":publishes-index-and-packs", pw.Decl.Pos(), "the Notify callback installs the new pack in both s.index and s.packs (lock checked under C23)")
	}
}
