package main

import (
	"go/ast"
	"go/token"
	"go/types"
	"strings"
)

func init() {
	register(&propSpec{
		ID: "C20",
		Explanation: "Decides the sharing discipline that keeps the cached index equal to the file: (index-entry-immutable) outside the index codec, a field of an *index.Entry is assigned only through a pointer to an entry " +
			"allocated in the same function (composite literal, address of a local copy, result of Index.Add) — or through a parameter whose every call site passes such a pointer; entries obtained from an index " +
			"(Index.Entry, ranging over Entries) are shared with the storage's cache and must be replaced, not edited; (index-returns-copy) every index returned by IndexStorage.Index goes through copyIndex (or is freshly " +
			"allocated), what is stored in the cache after a write is a copy stamped with the post-write stat, and copyIndex allocates a new Entries slice; (deferred-error-reaches-result) in storage/filesystem an error stored by a deferred Flush/Close of a handle opened for writing lands in a named result, so a failed index write " +
			"is not reported as success (and then cached). Not decided: external rewrites that keep size and mtime.",
		Assumptions: []string{"callers of the public API do not mutate entries of an index they got from the storage"},
		Run:         runC20,
	})
	register(&propSpec{
		ID: "C32",
		Explanation: "Decides that sparse directories are matched by whole path components in both places that interpret them: (dir-prefix-component) every strings.HasPrefix whose prefix argument derives from the sparse directory " +
			"list (Index.SkipUnless patterns, ResetOptions.SparseDirs in checkKeepResetConflicts) has the form HasPrefix(name, dir + \"/\") and is paired with an equality alternative name == dir; " +
			"(sibling-agreement) both matchers have that form; (sparse-flow) Reset passes opts.SparseDirs to resetIndex, resetIndex passes them to Index.SkipUnless before SetIndex. " +
			"(skipped-entries-removed) in resetWorktreeToTree the loop over the index entries that removes files — the only place skip-worktree files leave the disk — passes an entry over only because it is not marked skip-worktree, " +
			"because the reset names other files, or because the file is already absent (inventory of the loop's continue statements by their conditions), and the removal is not nested under a further condition. " +
			"Not decided: that the files inside the selection are written with the right content.",
		Assumptions: []string{},
		Run:         runC32,
	})
}

const idxShort = "plumbing/format/index"

func isEntryPtr(t types.Type) bool {
	return t != nil && types.TypeString(t, nil) == "*"+modPath+"/"+idxShort+".Entry"
}

func runC20(c *Ctx) {
	p := c.P
	// deferred-error-reaches-result: a failed write of the index file must not be reported as success (the cache would
	// then hold entries that are not on disk): errors stored by deferred Flush/Close land in a named result
	nDef := DeferredErrorsReachResult(c, "deferred-error-reaches-result", "storage/filesystem")
	c.Check(nDef >= 3, "deferred-error-reaches-result", "storage/filesystem:writers", 0, itoa(nDef)+" functions that close or flush a write handle in a deferred call examined")
	const r1 = "index-entry-immutable"
	entryT := p.lookupType(idxShort, "Entry")
	addFn := p.Func(idxShort + ".(*Index).Add")
	if entryT == nil || addFn == nil {
		c.Unresolved(r1, idxShort+".Entry", 0, "type or Index.Add not found")
		return
	}
	// fresh(e): the pointer certainly refers to an entry allocated in this function
	var freshIn func(fi *FuncInfo, d *deriver, e ast.Expr, depth int) (bool, string)
	paramFresh := map[*types.Var]int{} // 0 unknown, 1 fresh, 2 shared
	freshIn = func(fi *FuncInfo, d *deriver, e ast.Expr, depth int) (bool, string) {
		info := fi.Pkg.TypesInfo
		e = unparen(e)
		if depth > 4 {
			return false, "definition chain too deep"
		}
		switch v := e.(type) {
		case *ast.UnaryExpr:
			if v.Op == token.AND {
				switch x := unparen(v.X).(type) {
				case *ast.CompositeLit:
					return true, ""
				case *ast.Ident:
					if o, ok := objOf(info, x).(*types.Var); ok && !o.IsField() && o.Parent() != o.Pkg().Scope() {
						if _, isPtr := o.Type().(*types.Pointer); !isPtr {
							return true, "" // address of a local value (a copy)
						}
					}
				}
			}
			return false, "address of " + exprString(v.X)
		case *ast.CallExpr:
			if nodeHasBuiltin(info, v, "new") {
				return true, ""
			}
			if Callee(info, v) == addFn.Obj {
				return true, ""
			}
			return false, "result of " + exprString(v.Fun)
		case *ast.Ident:
			o, _ := objOf(info, v).(*types.Var)
			if o == nil {
				return false, v.Name
			}
			if _, isParam := d.params[o]; isParam && len(d.defs[o]) == 0 {
				switch paramFresh[o] {
				case 1:
					return true, ""
				case 2:
					return false, "parameter " + v.Name + " receives a shared entry"
				}
				paramFresh[o] = 2 // pessimistic while recursing
				idx := -1
				for i, pv := range paramObjs(info, fi.Decl) {
					if pv == o {
						idx = i
					}
				}
				sites := p.CallSites(func(_ *types.Info, _ *ast.CallExpr, callee *types.Func) bool { return callee == fi.Obj })
				n := 0
				for _, s := range sites {
					if p.isTestFile(s.Call.Pos()) || idx < 0 || idx >= len(s.Call.Args) {
						continue
					}
					n++
					sd := newDeriver(s.In.Pkg.TypesInfo, s.In.Decl)
					if ok, why := freshIn(s.In, sd, s.Call.Args[idx], depth+1); !ok {
						return false, "parameter " + v.Name + ": caller " + s.In.Name() + " passes " + why
					}
				}
				if n == 0 {
					return false, "parameter " + v.Name + " with no analysable callers (exported entry point: the caller's entry may be shared)"
				}
				paramFresh[o] = 1
				return true, ""
			}
			defs := d.defs[o]
			if len(defs) == 0 {
				// parameter of a function literal stored in a package-level function variable (fillSystemInfo):
				// every call through that variable must pass a fresh entry
				if ok, why, handled := litParamFresh(p, fi, o, func(cf *FuncInfo, arg ast.Expr) (bool, string) {
					return freshIn(cf, newDeriver(cf.Pkg.TypesInfo, cf.Decl), arg, depth+1)
				}); handled {
					return ok, why
				}
				return false, "variable " + v.Name + " without visible definition"
			}
			for _, def := range defs {
				if ok, why := freshIn(fi, d, def, depth+1); !ok {
					return false, why
				}
			}
			return true, ""
		case *ast.IndexExpr:
			return false, "element of " + exprString(v.X) + " (entries of an index are shared)"
		}
		return false, exprString(e)
	}
	n := 0
	for _, pk := range p.Pkgs {
		if !production(pk) {
			continue
		}
		info := pk.TypesInfo
		for _, fi := range p.FuncsIn(shortPkg(pk.PkgPath)) {
			if fi.Decl.Body == nil || p.isTestFile(fi.Decl.Pos()) {
				continue
			}
			var d *deriver
			reported := map[string]bool{}
			ast.Inspect(fi.Decl.Body, func(x ast.Node) bool {
				var lhss []ast.Expr
				switch v := x.(type) {
				case *ast.AssignStmt:
					lhss = v.Lhs
				case *ast.IncDecStmt:
					lhss = []ast.Expr{v.X}
				}
				for _, l := range lhss {
					sel, ok := unparen(l).(*ast.SelectorExpr)
					if !ok {
						continue
					}
					fv, ok := info.Uses[sel.Sel].(*types.Var)
					if !ok || !fv.IsField() {
						continue
					}
					tv, ok := info.Types[sel.X]
					if !ok || !isEntryPtr(tv.Type) {
						continue
					}
					if d == nil {
						d = newDeriver(info, fi.Decl)
					}
					base := exprString(sel.X)
					key := fi.Name() + ":" + base
					if reported[key] {
						continue
					}
					reported[key] = true
					n++
					c.Analysed(fi)
					if ok, why := freshIn(fi, d, sel.X, 0); ok {
						c.Hold(r1, key, l.Pos(), "fields are set on an entry allocated here (or by every caller)")
					} else {
						c.Violate(r1, key, l.Pos(), "an index entry that may be shared with the cached index is modified in place ("+why+"): if the operation fails before SetIndex the cached view differs from the file")
					}
				}
				return true
			})
		}
	}
	c.Extra["entry_field_write_sites"] = n
	c.Floor(r1, 4)

	// index-returns-copy
	const r2 = "index-returns-copy"
	copyFn := p.Func("storage/filesystem.copyIndex")
	if ix := c.MustFunc(r2, "storage/filesystem.(*IndexStorage).Index"); ix != nil && copyFn != nil {
		info := ix.Pkg.TypesInfo
		d := newDeriver(info, ix.Decl)
		ok := true
		why := ""
		nRet := 0
		ast.Inspect(ix.Decl.Body, func(x ast.Node) bool {
			if _, isLit := x.(*ast.FuncLit); isLit {
				return false
			}
			r, isRet := x.(*ast.ReturnStmt)
			if !isRet || len(r.Results) != 2 || isNil(info, r.Results[0]) {
				return true
			}
			nRet++
			e := unparen(r.Results[0])
			if call, isCall := e.(*ast.CallExpr); isCall && Callee(info, call) == copyFn.Obj {
				return true
			}
			// a freshly allocated, never cached index (empty repository)
			fresh := false
			if u, isU := e.(*ast.UnaryExpr); isU && u.Op == token.AND {
				_, fresh = unparen(u.X).(*ast.CompositeLit)
			}
			if o := objOf(info, e); o != nil {
				fresh = len(d.defs[o]) > 0
				for _, def := range d.defs[o] {
					u, isU := unparen(def).(*ast.UnaryExpr)
					if !isU || u.Op != token.AND {
						fresh = false
					}
				}
				// … and it must not have been handed to the cache before this return
				f := p.FlowOf(ix)
				setCall := CallNode(false, func(cc *ast.CallExpr) bool {
					fn := Callee(info, cc)
					return fn != nil && fn.Name() == "Set" && len(cc.Args) > 0 && objOf(info, cc.Args[0]) == o
				})
				for _, l := range f.Locs(setCall) {
					if f.Search(SearchOpts{Starts: []Loc{After(l)}, Sink: func(nd ast.Node) bool { return nd == ast.Node(r) }}) != nil {
						fresh = false
					}
				}
			}
			if !fresh {
				ok, why = false, "returns "+exprString(e)+" at "+p.Pos(r.Pos())+" without copyIndex: the caller would share the cached slice"
			}
			return true
		})
		c.Check(ok && nRet >= 3, r2, ix.Name(), ix.Decl.Pos(), orStr(why, "every returned index is a copy (or was never cached)"))
	} else if copyFn == nil {
		c.Unresolved(r2, "storage/filesystem.copyIndex", 0, "anchor not found")
	}
	if si := c.MustFunc(r2, "storage/filesystem.(*IndexStorage).SetIndex"); si != nil && copyFn != nil {
		info := si.Pkg.TypesInfo
		d := newDeriver(info, si.Decl)
		ok := false
		walkCalls(si.Decl.Body, false, func(call *ast.CallExpr) {
			fn := Callee(info, call)
			if fn == nil || fn.Name() != "Set" || len(call.Args) != 3 {
				return
			}
			if o := objOf(info, call.Args[0]); o != nil {
				for _, def := range d.defs[o] {
					if dc, isCall := unparen(def).(*ast.CallExpr); isCall && Callee(info, dc) == copyFn.Obj {
						ok = true
					}
				}
			}
		})
		// the stat used for the cache is taken after the write
		f := p.FlowOf(si)
		write := CallNode(false, callsNamed(info, "writeIndex"))
		stat := CallNode(false, callsNamed(info, "StatIndex"))
		after := len(f.Locs(write)) > 0 && len(f.Locs(stat)) > 0 && f.Search(SearchOpts{Starts: []Loc{f.Entry()}, Sink: stat, Barrier: write}) == nil
		c.Check(ok && after, r2, si.Name(), si.Decl.Pos(), "after a write the cache receives a copy stamped with the stat taken after the write")
	}
	if copyFn != nil {
		info := copyFn.Pkg.TypesInfo
		mk := false
		ast.Inspect(copyFn.Decl.Body, func(x ast.Node) bool {
			if as, ok := x.(*ast.AssignStmt); ok && len(as.Lhs) == 1 && len(as.Rhs) == 1 {
				if sel, ok := unparen(as.Lhs[0]).(*ast.SelectorExpr); ok && sel.Sel.Name == "Entries" {
					if call, ok := unparen(as.Rhs[0]).(*ast.CallExpr); ok && nodeHasBuiltin(info, call, "make") {
						mk = true
					}
				}
			}
			return true
		})
		c.Analysed(copyFn)
		c.Check(mk, r2, copyFn.Name()+":own-entries-slice", copyFn.Decl.Pos(), "the copy has its own Entries slice")
	}
}

func runC32(c *Ctx) {
	p := c.P
	const r1 = "dir-prefix-component"
	type site struct {
		fn    string
		param string // parameter holding the directory list
	}
	sites := []site{{idxShort + ".(*Index).SkipUnless", ""}, {"git.(*Worktree).checkKeepResetConflicts", "sparseDirs"}}
	forms := 0
	for _, s := range sites {
		fi := c.MustFunc(r1, s.fn)
		if fi == nil {
			continue
		}
		info := fi.Pkg.TypesInfo
		// the []string parameter that holds the directories
		var dirs types.Object
		for _, pv := range paramObjs(info, fi.Decl) {
			if types.TypeString(pv.Type(), nil) == "[]string" && (s.param == "" || pv.Name() == s.param) {
				dirs = pv
			}
		}
		if dirs == nil {
			c.Unresolved(r1, fi.Name(), fi.Decl.Pos(), "directory-list parameter not found")
			continue
		}
		d := newDeriver(info, fi.Decl)
		derivesFromDirs := func(e ast.Expr) bool {
			_, ok := d.derive(e)[source{Kind: srcParam, Obj: dirs}]
			return ok
		}
		n := 0
		ast.Inspect(fi.Decl.Body, func(x ast.Node) bool {
			call, ok := x.(*ast.CallExpr)
			if !ok {
				return true
			}
			fn := Callee(info, call)
			if fn == nil || fn.Pkg() == nil || fn.Pkg().Path() != "strings" || fn.Name() != "HasPrefix" || len(call.Args) != 2 {
				return true
			}
			if !derivesFromDirs(call.Args[1]) {
				return true
			}
			n++
			// form: <dir> + "/"
			okForm := false
			if be, isBin := unparen(call.Args[1]).(*ast.BinaryExpr); isBin && be.Op == token.ADD {
				if tv := info.Types[be.Y]; tv.Value != nil && tv.Value.ExactString() == `"/"` {
					okForm = true
					if _, picked := unparen(be.X).(*ast.IndexExpr); picked {
						c.Violate(r1, fi.Name()+"->strings.HasPrefix:one-candidate", call.Pos(), "only one selected directory, picked by position ("+exprString(be.X)+"), is compared with the entry: the directory that contains a path is not necessarily its neighbour in sort order")
					}
				}
			}
			// equality alternative in the same condition
			eqAlt := false
			if path := pathTo(fi.Decl.Body, call); path != nil {
				for i := len(path) - 1; i >= 0; i-- {
					if ifs, isIf := path[i].(*ast.IfStmt); isIf {
						ast.Inspect(ifs.Cond, func(m ast.Node) bool {
							if be, isBin := m.(*ast.BinaryExpr); isBin && be.Op == token.EQL && (derivesFromDirs(be.X) || derivesFromDirs(be.Y)) {
								eqAlt = true
							}
							return true
						})
						break
					}
				}
			}
			if okForm && eqAlt {
				forms++
			}
			c.Analysed(fi)
			c.Check(okForm && eqAlt, r1, fi.Name()+"->strings.HasPrefix", call.Pos(),
				orStr(ifStr(!okForm, "the directory is used as a raw string prefix ("+exprString(call.Args[1])+"): `a` also selects `ab/…`"), orStr(ifStr(!eqAlt, "no `name == dir` alternative beside the prefix test"), "matches dir + \"/\" or the directory itself")))
			return true
		})
		if n == 0 {
			// the matching may live in a same-package helper that receives the directories
			helperOK := false
			walkCalls(fi.Decl.Body, true, func(call *ast.CallExpr) {
				h := p.FuncOf(Callee(info, call))
				if h == nil || h.Pkg != fi.Pkg || h.Decl.Body == nil {
					return
				}
				passes := false
				for _, a := range call.Args {
					if derivesFromDirs(a) {
						passes = true
					}
				}
				if !passes {
					return
				}
				hinfo := h.Pkg.TypesInfo
				ast.Inspect(h.Decl.Body, func(x ast.Node) bool {
					hc, ok := x.(*ast.CallExpr)
					if !ok {
						return true
					}
					fn := Callee(hinfo, hc)
					if fn != nil && fn.Pkg() != nil && fn.Pkg().Path() == "strings" && fn.Name() == "HasPrefix" && len(hc.Args) == 2 {
						if be, isBin := unparen(hc.Args[1]).(*ast.BinaryExpr); isBin && be.Op == token.ADD {
							if tv := hinfo.Types[be.Y]; tv.Value != nil && tv.Value.ExactString() == `"/"` {
								helperOK = true
								// the directory compared must range over the whole list; an element picked by position
								// (a neighbour found by a search in sort order) is one candidate out of several: a directory
								// sorts before what it contains, but not directly before it (a, a.txt, a/b)
								if _, picked := unparen(be.X).(*ast.IndexExpr); picked {
									c.Violate(r1, h.Name()+"->strings.HasPrefix:one-candidate", hc.Pos(), "only one selected directory, picked by position ("+exprString(be.X)+"), is compared with the entry: the directory that contains a path is not necessarily its neighbour in sort order (`a`, `a.txt`, `a/b`), so entries of selected directories are left out")
								}
							}
						}
					}
					return true
				})
			})
			if helperOK {
				forms++
				c.Hold(r1, fi.Name()+"->helper:strings.HasPrefix", fi.Decl.Pos(), "a helper matches dir + \"/\" (component-wise)")
			} else {
				c.Violate(r1, fi.Name(), fi.Decl.Pos(), "no component-wise prefix test on the sparse directories found")
			}
		}
	}
	c.Check(forms == len(sites), "sibling-agreement", "sparse-matchers", token.NoPos, "both interpreters of the sparse directory list use the same component-wise form ("+itoa(forms)+"/"+itoa(len(sites))+")")
	c.Floor(r1, 2)

	// sparse-flow
	const r3 = "sparse-flow"
	if ri := c.MustFunc(r3, "git.(*Worktree).resetIndex"); ri != nil {
		info := ri.Pkg.TypesInfo
		f := p.FlowOf(ri)
		skip := CallNode(false, callsNamed(info, "SkipUnless"))
		set := CallNode(false, callsNamed(info, "SetIndex"))
		var dirs types.Object
		for _, pv := range paramObjs(info, ri.Decl) {
			if types.TypeString(pv.Type(), nil) == "[]string" && strings.Contains(strings.ToLower(pv.Name()), "dir") {
				dirs = pv
			}
		}
		argOK := false
		walkCalls(ri.Decl.Body, false, func(call *ast.CallExpr) {
			if callsNamed(info, "SkipUnless")(call) && len(call.Args) == 1 && objOf(info, call.Args[0]) == dirs && dirs != nil {
				argOK = true
			}
		})
		before := true
		for _, l := range f.Locs(set) {
			if f.Search(SearchOpts{Starts: []Loc{After(l)}, Sink: skip}) != nil {
				before = false
			}
		}
		c.Check(argOK && before && len(f.Locs(skip)) > 0 && len(f.Locs(set)) > 0, r3, ri.Name(), ri.Decl.Pos(), "the sparse directories are applied to the index before it is stored")
	}
	if rs := c.MustFunc(r3, "git.(*Worktree).Reset"); rs != nil {
		info := rs.Pkg.TypesInfo
		ok := false
		var target ast.Node = rs.Decl.Body
		walkCalls(target, true, func(call *ast.CallExpr) {
			if callsNamed(info, "resetIndex")(call) {
				for _, a := range call.Args {
					if sel, isSel := unparen(a).(*ast.SelectorExpr); isSel && sel.Sel.Name == "SparseDirs" {
						ok = true
					}
				}
			}
		})
		if !ok {
			// Reset may delegate to an unexported helper
			for _, fi := range p.FuncsIn("git") {
				if fi.Decl.Body == nil {
					continue
				}
				walkCalls(fi.Decl.Body, true, func(call *ast.CallExpr) {
					if callsNamed(info, "resetIndex")(call) {
						for _, a := range call.Args {
							if sel, isSel := unparen(a).(*ast.SelectorExpr); isSel && sel.Sel.Name == "SparseDirs" {
								ok = true
							}
						}
					}
				})
			}
		}
		c.Check(ok, r3, rs.Name()+"->resetIndex", rs.Decl.Pos(), "ResetOptions.SparseDirs reaches resetIndex")
	}
	checkSkippedEntriesRemoved(c, "skipped-entries-removed")
	c.Floor("skipped-entries-removed", 3)
}
