package main

import (
	"go/ast"
	"go/types"
	"strings"
)

// NoStreamAccessInMapOrder: a file stores its fields in a fixed order; Go iterates a map in a random one. A decoder that
// reads from its input (or an encoder that writes to its output) inside a `range` over a map attaches the bytes to the
// keys in a different way on every run. One obligation per range-over-map loop in the packages given whose body touches
// a stream; if there is none, one obligation saying so.
func NoStreamAccessInMapOrder(c *Ctx, rule string, shorts ...string) int {
	p := c.P
	n, loops := 0, 0
	for _, sp := range shorts {
		pk := p.Pkg(sp)
		if pk == nil {
			c.Unresolved(rule, "package "+sp, 0, "not loaded")
			continue
		}
		info := pk.TypesInfo
		for _, fi := range p.FuncsIn(sp) {
			if fi.Decl.Body == nil || p.isTestFile(fi.Decl.Pos()) {
				continue
			}
			k := 0
			ast.Inspect(fi.Decl.Body, func(x ast.Node) bool {
				rs, ok := x.(*ast.RangeStmt)
				if !ok {
					return true
				}
				tv := info.Types[rs.X]
				if tv.Type == nil {
					return true
				}
				if _, isMap := tv.Type.Underlying().(*types.Map); !isMap {
					return true
				}
				loops++
				touches := nodeHasCall(rs.Body, false, func(call *ast.CallExpr) bool {
					fn := Callee(info, call)
					if fn == nil {
						return false
					}
					name := fn.Name()
					isIO := strings.HasPrefix(name, "Read") || strings.HasPrefix(name, "Write") || name == "Discard" || name == "Peek"
					if !isIO {
						return false
					}
					// hash.Hash.Write and strings.Builder writes do not order a file; only readers/writers of the codec's stream
					if sig, ok := fn.Type().(*types.Signature); ok && sig.Recv() != nil {
						rt := types.TypeString(sig.Recv().Type(), nil)
						if strings.Contains(rt, "strings.Builder") || strings.Contains(rt, "bytes.Buffer") {
							return false
						}
					}
					return true
				})
				if touches == nil {
					return true
				}
				k++
				n++
				c.Analysed(fi)
				c.Violate(rule, fi.Name()+":range "+exprString(rs.X)+ifStr(k > 1, "#"+itoa(k)), rs.Pos(), "the input (or output) stream is accessed inside a range over the map `"+exprString(rs.X)+"`: the fields are stored in a fixed order and the map is iterated in a random one, so the bytes are attached to different keys from one run to the next")
				return true
			})
		}
	}
	if n == 0 {
		c.Hold(rule, "no-stream-access-in-map-order", 0, "none of the "+itoa(loops)+" range-over-map loops in "+strings.Join(shorts, ", ")+" reads from or writes to a stream")
	}
	return n
}
