package main

import (
	"go/ast"
	"go/token"
	"go/types"
)

// methodDeclaredOn returns the method object selected for name on type t and whether it is declared
// directly on t's named type (selection path length 1), as opposed to promoted from an embedded field.
func methodDeclaredOn(t types.Type, pkg *types.Package, name string) (fn *types.Func, direct bool, found bool) {
	ms := types.NewMethodSet(t)
	sel := ms.Lookup(pkg, name)
	if sel == nil {
		return nil, false, false
	}
	fn, _ = sel.Obj().(*types.Func)
	return fn, len(sel.Index()) == 1, true
}

// ifaceMethods lists all methods of an interface (including embedded ones), sorted by name.
func ifaceMethods(it *types.Interface) []*types.Func {
	var out []*types.Func
	for i := 0; i < it.NumMethods(); i++ {
		out = append(out, it.Method(i))
	}
	return out
}

// hasStringParam reports whether a signature has a string (or ...string / []string) parameter.
func hasStringParam(sig *types.Signature) bool {
	for i := 0; i < sig.Params().Len(); i++ {
		t := sig.Params().At(i).Type()
		if sl, ok := t.(*types.Slice); ok {
			t = sl.Elem()
		}
		if b, ok := t.Underlying().(*types.Basic); ok && b.Kind() == types.String {
			return true
		}
	}
	return false
}

// WrapComplete checks that every method of iface is declared on the wrapper type itself, except
// the allow-listed ones (name -> reason). t must be the type whose method set is used (usually *T).
func WrapComplete(c *Ctx, rule string, wrapperName string, t types.Type, iface *types.Interface, only func(*types.Func) bool, allow map[string]string, pos token.Pos) {
	for _, m := range ifaceMethods(iface) {
		if only != nil && !only(m) {
			continue
		}
		fn, direct, found := methodDeclaredOn(t, m.Pkg(), m.Name())
		key := wrapperName + "." + m.Name()
		switch {
		case !found:
			c.Violate(rule, key, pos, "interface method missing from the wrapper's method set")
		case direct:
			p := pos
			if fn != nil {
				p = fn.Pos()
			}
			c.Hold(rule, key, p, "declared on the wrapper")
		default:
			if why, ok := allow[m.Name()]; ok {
				c.Hold(rule, key, pos, "promoted from the embedded value; allowed: "+why)
			} else {
				c.Violate(rule, key, pos, "method is promoted from the embedded value: calls bypass the wrapper")
			}
		}
	}
}

// returnsNonNilError reports whether a return statement certainly returns a non-nil error as its last
// result: a call to fmt.Errorf/errors.New/…, a package-level error variable, or a local variable on a
// path where it is known non-nil (the return is inside an if whose condition implies `v != nil`).
func returnsNonNilError(info *types.Info, body *ast.BlockStmt, ret *ast.ReturnStmt) bool {
	if len(ret.Results) == 0 {
		return false
	}
	last := unparen(ret.Results[len(ret.Results)-1])
	switch e := last.(type) {
	case *ast.CallExpr:
		if fn := Callee(info, e); fn != nil && fn.Pkg() != nil {
			q := fn.Pkg().Path() + "." + fn.Name()
			switch q {
			case "fmt.Errorf", "errors.New", "errors.Join":
				return true
			}
			if fn.Name() == "Errorf" || fn.Name() == "NewError" {
				return true
			}
		}
		return false
	case *ast.UnaryExpr:
		if e.Op == token.AND {
			return true // &SomeError{...}
		}
	case *ast.SelectorExpr:
		if v, ok := info.Uses[e.Sel].(*types.Var); ok && !v.IsField() && v.Parent() == v.Pkg().Scope() {
			return true
		}
	case *ast.Ident:
		obj := info.Uses[e]
		if v, ok := obj.(*types.Var); ok {
			if v.Pkg() != nil && v.Parent() == v.Pkg().Scope() {
				return true // package-level Err… variable
			}
			// local: look for enclosing if with fact v != nil
			return enclosedByNonNilFact(info, body, ret, v)
		}
	}
	return false
}

// enclosedByNonNilFact: ret is inside the then-branch of an `if` whose condition implies obj != nil,
// (or inside the else-branch of one implying obj == nil), with no reassignment in between (approximation:
// none in the branch before ret).
func enclosedByNonNilFact(info *types.Info, body *ast.BlockStmt, ret ast.Node, obj types.Object) bool {
	path := pathTo(body, ret)
	for i := len(path) - 1; i >= 0; i-- {
		ifs, ok := path[i].(*ast.IfStmt)
		if !ok || i+1 >= len(path) {
			continue
		}
		inThen := path[i+1] == ifs.Body
		inElse := ifs.Else != nil && path[i+1] == ifs.Else
		if !inThen && !inElse {
			continue
		}
		var facts []Fact
		implied(ifs.Cond, inThen, &facts)
		for _, f := range facts {
			be, ok := unparen(f.Atom).(*ast.BinaryExpr)
			if !ok {
				continue
			}
			var x ast.Expr
			if isNil(info, be.Y) {
				x = be.X
			} else if isNil(info, be.X) {
				x = be.Y
			} else {
				continue
			}
			if objOf(info, x) != obj {
				continue
			}
			nonNil := (be.Op == token.NEQ) == f.Truth
			if nonNil {
				return true
			}
		}
	}
	return false
}

// pathTo returns the chain of nodes from root down to target (inclusive), or nil.
func pathTo(root ast.Node, target ast.Node) []ast.Node {
	var path []ast.Node
	var found []ast.Node
	ast.Inspect(root, func(n ast.Node) bool {
		if found != nil {
			return false
		}
		if n == nil {
			path = path[:len(path)-1]
			return true
		}
		path = append(path, n)
		if n == target {
			found = append([]ast.Node(nil), path...)
			return false
		}
		return true
	})
	return found
}

// usesObj reports whether expression e mentions obj.
func usesObj(info *types.Info, e ast.Node, obj types.Object) bool {
	found := false
	ast.Inspect(e, func(n ast.Node) bool {
		if id, ok := n.(*ast.Ident); ok && (info.Uses[id] == obj || info.Defs[id] == obj) {
			found = true
		}
		return !found
	})
	return found
}

// paramObjs returns the parameter objects of a function declaration.
func paramObjs(info *types.Info, fd *ast.FuncDecl) []*types.Var {
	var out []*types.Var
	if fd.Type.Params == nil {
		return nil
	}
	for _, f := range fd.Type.Params.List {
		for _, n := range f.Names {
			if v, ok := info.Defs[n].(*types.Var); ok {
				out = append(out, v)
			}
		}
	}
	return out
}

func isStringish(t types.Type) bool {
	if sl, ok := t.(*types.Slice); ok {
		t = sl.Elem()
	}
	b, ok := t.Underlying().(*types.Basic)
	return ok && b.Kind() == types.String
}
