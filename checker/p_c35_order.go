package main

import (
	"fmt"
	"go/ast"
	"go/constant"
	"go/token"
	"go/types"
	"strings"

	"golang.org/x/tools/go/cfg"
)

// decode-accepts-encoded-order (C35): the line kinds UploadRequest.Encode writes, in the order it writes them, are accepted
// by UploadRequest.Decode in that order.
//
// Encoder side: the constant prefixes (text up to the first verb) of the pktline.Writef format strings, in source order.
// Decoder side: a three-valued evaluation of the decoder's branch conditions under the assumption "the line just read
// starts with prefix P" (bytes.HasPrefix(line, C) is decided from the constant C; len(line) != 0; read errors absent;
// everything else unknown). For every loop of the decoder that consumes kinds j (bytes.TrimPrefix(line, Cj) in its body)
// and every encoder kind t written after all of j, from each line read inside that loop no rejecting return may be
// reachable before a condition recognises t exactly (HasPrefix(line, Ct) with Ct == P evaluates to true) — the line is
// not re-read or modified on the way.

type lineKind struct {
	prefix string
	pos    token.Pos
}

func encoderLineKinds(info *types.Info, fi *FuncInfo) []lineKind {
	var out []lineKind
	seen := map[string]bool{}
	ast.Inspect(fi.Decl.Body, func(n ast.Node) bool {
		call, ok := n.(*ast.CallExpr)
		if !ok {
			return true
		}
		fn := Callee(info, call)
		if fn == nil || fn.Pkg() == nil || !strings.HasSuffix(fn.Pkg().Path(), "/pktline") || (fn.Name() != "Writef" && fn.Name() != "Writeln" && fn.Name() != "WriteString") || len(call.Args) < 2 {
			return true
		}
		tv := info.Types[call.Args[1]]
		if tv.Value == nil || tv.Value.Kind() != constant.String {
			return true
		}
		s := constant.StringVal(tv.Value)
		if i := strings.IndexByte(s, '%'); i >= 0 {
			s = s[:i]
		}
		if s != "" && !seen[s] {
			seen[s] = true
			out = append(out, lineKind{s, call.Pos()})
		}
		return true
	})
	return out
}

// bytesVarString: the constant content of a package-level `var x = []byte("...")` (or a string constant expression).
func bytesVarString(p *Prog, info *types.Info, e ast.Expr) (string, bool) {
	if tv := info.Types[e]; tv.Value != nil && tv.Value.Kind() == constant.String {
		return constant.StringVal(tv.Value), true
	}
	v, ok := objOf(info, e).(*types.Var)
	if !ok || v.Pkg() == nil || v.Parent() != v.Pkg().Scope() {
		return "", false
	}
	if g := p.mutableGlobals()[v]; g != nil && g.Kind != "address-taken" {
		return "", false // reassigned somewhere: not a constant
	}
	for _, pk := range p.Pkgs {
		if pk.Types != v.Pkg() {
			continue
		}
		for _, f := range pk.Syntax {
			for _, d := range f.Decls {
				gd, ok := d.(*ast.GenDecl)
				if !ok || gd.Tok != token.VAR {
					continue
				}
				for _, sp := range gd.Specs {
					vs := sp.(*ast.ValueSpec)
					for i, nm := range vs.Names {
						if pk.TypesInfo.Defs[nm] != types.Object(v) || i >= len(vs.Values) {
							continue
						}
						val := unparen(vs.Values[i])
						if call, ok := val.(*ast.CallExpr); ok && len(call.Args) == 1 {
							if tv, ok := pk.TypesInfo.Types[call.Fun]; ok && tv.IsType() {
								if av := pk.TypesInfo.Types[call.Args[0]]; av.Value != nil && av.Value.Kind() == constant.String {
									return constant.StringVal(av.Value), true
								}
							}
						}
						return "", false
					}
				}
			}
		}
	}
	return "", false
}

type assumeEval struct {
	p      *Prog
	info   *types.Info
	line   types.Object
	prefix string
	// exact is set when the last evaluated condition contained HasPrefix(line, C) with C == prefix evaluating to true
	exact bool
}

// eval: 1 true, 0 false, -1 unknown.
func (a *assumeEval) eval(e ast.Expr) int {
	e = unparen(e)
	switch v := e.(type) {
	case *ast.UnaryExpr:
		if v.Op == token.NOT {
			switch a.eval(v.X) {
			case 1:
				return 0
			case 0:
				return 1
			}
			return -1
		}
	case *ast.BinaryExpr:
		switch v.Op {
		case token.LAND:
			x, y := a.eval(v.X), a.eval(v.Y)
			if x == 0 || y == 0 {
				return 0
			}
			if x == 1 && y == 1 {
				return 1
			}
			return -1
		case token.LOR:
			x, y := a.eval(v.X), a.eval(v.Y)
			if x == 1 || y == 1 {
				return 1
			}
			if x == 0 && y == 0 {
				return 0
			}
			return -1
		case token.EQL, token.NEQ, token.GTR, token.LSS, token.GEQ, token.LEQ:
			// error compared with nil: reads are assumed to succeed
			for _, pair := range [][2]ast.Expr{{v.X, v.Y}, {v.Y, v.X}} {
				if isNil(a.info, pair[1]) {
					if tv := a.info.Types[pair[0]]; tv.Type != nil && types.Identical(tv.Type, types.Universe.Lookup("error").Type()) {
						if v.Op == token.NEQ {
							return 0
						}
						if v.Op == token.EQL {
							return 1
						}
					}
				}
			}
			// len(line) against a constant: the line is not empty (it starts with the prefix)
			if call, ok := unparen(v.X).(*ast.CallExpr); ok && len(call.Args) == 1 {
				if id, ok := unparen(call.Fun).(*ast.Ident); ok && id.Name == "len" && objOf(a.info, call.Args[0]) == a.line {
					if tv := a.info.Types[v.Y]; tv.Value != nil {
						if n, ok := constant.Int64Val(constant.ToInt(tv.Value)); ok && n == 0 {
							switch v.Op {
							case token.EQL, token.LEQ:
								return 0
							case token.NEQ, token.GTR:
								return 1
							}
						}
					}
				}
			}
		}
	case *ast.CallExpr:
		fn := Callee(a.info, v)
		if fn != nil && fn.Pkg() != nil && (fn.Pkg().Path() == "bytes" || fn.Pkg().Path() == "strings") && fn.Name() == "HasPrefix" && len(v.Args) == 2 && objOf(a.info, v.Args[0]) == a.line {
			c, ok := bytesVarString(a.p, a.info, v.Args[1])
			if !ok {
				return -1
			}
			if len(c) <= len(a.prefix) {
				if strings.HasPrefix(a.prefix, c) {
					if c == a.prefix {
						a.exact = true
					}
					return 1
				}
				return 0
			}
			if strings.HasPrefix(c, a.prefix) {
				return -1
			}
			return 0
		}
	}
	return -1
}

func checkDecodeAcceptsEncodeOrder(c *Ctx, rule, encName, decName string) {
	p := c.P
	enc, dec := c.MustFunc(rule, encName), c.MustFunc(rule, decName)
	if enc == nil || dec == nil {
		return
	}
	c.Analysed(enc)
	c.Analysed(dec)
	info := dec.Pkg.TypesInfo
	kinds := encoderLineKinds(enc.Pkg.TypesInfo, enc)
	if len(kinds) < 4 {
		c.Unresolved(rule, enc.Name()+":line-kinds", enc.Decl.Pos(), fmt.Sprintf("only %d constant line prefixes found in the encoder", len(kinds)))
		return
	}
	// the decoder's line variable: first argument of its HasPrefix calls
	var line types.Object
	ast.Inspect(dec.Decl.Body, func(n ast.Node) bool {
		if call, ok := n.(*ast.CallExpr); ok && line == nil {
			if fn := Callee(info, call); fn != nil && fn.Pkg() != nil && fn.Pkg().Path() == "bytes" && fn.Name() == "HasPrefix" && len(call.Args) == 2 {
				line = objOf(info, call.Args[0])
			}
		}
		return line == nil
	})
	if line == nil {
		c.Unresolved(rule, dec.Name()+":line-variable", dec.Decl.Pos(), "no bytes.HasPrefix(line, …) dispatch found")
		return
	}
	// reader closures: local function literals that assign the line variable
	readers := map[types.Object]bool{}
	ast.Inspect(dec.Decl.Body, func(n ast.Node) bool {
		as, ok := n.(*ast.AssignStmt)
		if !ok || len(as.Lhs) != 1 || len(as.Rhs) != 1 {
			return true
		}
		fl, ok := unparen(as.Rhs[0]).(*ast.FuncLit)
		if !ok {
			return true
		}
		assigns, reads := false, false
		ast.Inspect(fl.Body, func(m ast.Node) bool {
			switch v := m.(type) {
			case *ast.AssignStmt:
				for _, l := range v.Lhs {
					if objOf(info, l) == line {
						assigns = true
					}
				}
			case *ast.CallExpr:
				if sel, ok := unparen(v.Fun).(*ast.SelectorExpr); ok && (sel.Sel.Name == "Scan" || strings.HasPrefix(sel.Sel.Name, "Read")) {
					reads = true
				}
			}
			return true
		})
		if assigns && reads {
			readers[objOf(info, as.Lhs[0])] = true
		}
		return true
	})
	isRead := func(call *ast.CallExpr) bool {
		id, ok := unparen(call.Fun).(*ast.Ident)
		return ok && readers[info.Uses[id]]
	}
	if len(readers) == 0 {
		c.Unresolved(rule, dec.Name()+":line-reader", dec.Decl.Pos(), "no local closure that reads the next line found")
		return
	}
	f := p.FlowOf(dec)
	body := dec.Decl.Body
	order := map[string]int{}
	for i, k := range kinds {
		order[k.prefix] = i
	}
	// group read sites by innermost enclosing loop
	type loopInfo struct {
		loop  ast.Stmt
		reads []Loc
		maxJ  int
		names []string
	}
	loops := map[ast.Stmt]*loopInfo{}
	var loopOrder []*loopInfo
	for _, l := range f.Locs(func(n ast.Node) bool { return nodeHasCall(n, false, isRead) != nil }) {
		call := nodeHasCall(l.B.Nodes[l.Idx], false, isRead)
		path := pathTo(body, call)
		var loop ast.Stmt
		for i := len(path) - 1; i >= 0; i-- {
			if s, ok := path[i].(ast.Stmt); ok && isLoop(s) {
				loop = s
				break
			}
		}
		if loop == nil {
			continue // the first line: the grammar fixes its kind
		}
		li := loops[loop]
		if li == nil {
			li = &loopInfo{loop: loop, maxJ: -1}
			loops[loop] = li
			loopOrder = append(loopOrder, li)
			// kinds consumed by this loop
			ast.Inspect(loop, func(n ast.Node) bool {
				if call, ok := n.(*ast.CallExpr); ok {
					if fn := Callee(info, call); fn != nil && fn.Pkg() != nil && fn.Pkg().Path() == "bytes" && fn.Name() == "TrimPrefix" && len(call.Args) == 2 && objOf(info, call.Args[0]) == line {
						if s, ok := bytesVarString(p, info, call.Args[1]); ok {
							if j, known := order[s]; known {
								li.names = append(li.names, strings.TrimSpace(s))
								if j > li.maxJ {
									li.maxJ = j
								}
							}
						}
					}
				}
				return true
			})
		}
		li.reads = append(li.reads, l)
	}
	n := 0
	for _, li := range loopOrder {
		if li.maxJ < 0 {
			c.Unresolved(rule, fmt.Sprintf("%s:loop@%s", dec.Name(), strings.Join(li.names, "/")), li.loop.Pos(), "loop reads lines but consumes none of the encoder's kinds")
			continue
		}
		for t := li.maxJ + 1; t < len(kinds); t++ {
			P := kinds[t].prefix
			ev := &assumeEval{p: p, info: info, line: line, prefix: P}
			var starts []Loc
			for _, r := range li.reads {
				starts = append(starts, After(r))
			}
			h := f.Search(SearchOpts{
				Starts: starts,
				Sink: func(n ast.Node) bool {
					r, ok := n.(*ast.ReturnStmt)
					if !ok || len(r.Results) == 0 {
						return false
					}
					return !isNil(info, r.Results[len(r.Results)-1])
				},
				Barrier: func(n ast.Node) bool {
					// the line is re-read or rewritten: the assumption ends
					if nodeHasCall(n, false, isRead) != nil {
						return true
					}
					if as, ok := n.(*ast.AssignStmt); ok {
						for _, l := range as.Lhs {
							if objOf(info, l) == line {
								return true
							}
						}
					}
					return false
				},
				BlockEdge: func(b *cfg.Block, i int) bool {
					if len(b.Succs) != 2 || len(b.Nodes) == 0 {
						return false
					}
					cond, ok := b.Nodes[len(b.Nodes)-1].(ast.Expr)
					if !ok {
						return false
					}
					if tv, ok := info.Types[cond]; !ok || tv.Type == nil || !isBoolType(tv.Type) {
						return false
					}
					ev.exact = false
					switch ev.eval(cond) {
					case 1:
						// true edge is the only feasible one; if the kind was recognised exactly, the line is dispatched
						return i == 1 || ev.exact
					case 0:
						return i == 0
					}
					return false
				},
			})
			key := fmt.Sprintf("%s:after(%s)->%s", dec.Name(), strings.Join(li.names, "/"), strings.TrimSpace(P))
			n++
			if h != nil {
				c.Violate(rule, key, h.Node.Pos(), fmt.Sprintf("the encoder writes a %q line after %s lines, but the decoder can reject such a line before recognising it (lines %s)", P, strings.Join(li.names, "/"), f.pathString(h)))
			} else {
				c.Hold(rule, key, li.loop.Pos(), fmt.Sprintf("a %q line read after %s lines reaches its handler; no rejecting return on the way", P, strings.Join(li.names, "/")))
			}
		}
	}
	if n == 0 {
		c.Unresolved(rule, dec.Name()+":pairs", dec.Decl.Pos(), "no (section, later kind) pair derived")
	}
}

func isBoolType(t types.Type) bool {
	b, ok := t.Underlying().(*types.Basic)
	return ok && b.Info()&types.IsBoolean != 0
}
