package main

import (
	"go/ast"
	"go/token"
	"go/types"

	"golang.org/x/tools/go/cfg"
)

func init() {
	register(&propSpec{
		ID: "C39",
		Explanation: "Decides, for every function of package plumbing/transport that writes references on behalf of a packp.Command: (old-value-checked) an unconditional SetReference/RemoveReference " +
			"is reachable only across an edge that establishes either 'current value equals cmd.Old' or 'the reference does not exist' (create), and CheckAndSetReference receives an old reference built from cmd.Old; " +
			"(new-object-present) every write of cmd.New is reachable only after HasEncodedObject(cmd.New) succeeded; (status-per-command) every path through the per-command loop body records a status " +
			"for the command, and the map that collected them is the one sent in the report and used to select applied commands; (objects-before-refs) UpdateObjectStorage precedes updateReferences. " +
			"Not decided: races between concurrent pushes (delegated to the storage CAS, C16).",
		Assumptions: []string{"storage CheckAndSetReference is an atomic compare-and-set (C16)"},
		Run:         runC39,
	})
}

const trShort = "plumbing/transport"

func runC39(c *Ctx) {
	p := c.P
	// stored-means-stored: the pack parser writes objects through Storer.RawObjectWriter, whose Close is where the object
	// is kept; the error of that Close (deferred or not) must reach Parse's caller, or references get updated over
	// objects that were never stored
	nDef := DeferredErrorsReachResult(c, "deferred-error-reaches-result", "plumbing/format/packfile", trShort)
	c.Check(nDef >= 1, "deferred-error-reaches-result", "packfile+transport:writers", 0, itoa(nDef)+" functions that close a write handle in a deferred call examined")
	pk := p.Pkg(trShort)
	if pk == nil {
		c.Unresolved("old-value-checked", "package "+trShort, 0, "package not loaded")
		return
	}
	info := pk.TypesInfo
	cmdT := p.lookupType("plumbing/protocol/packp", "Command")
	if cmdT == nil {
		c.Unresolved("old-value-checked", "packp.Command", 0, "type not found")
		return
	}
	oldF, newF := fieldOf(cmdT, "Old"), fieldOf(cmdT, "New")
	refStorerQ := modPath + "/plumbing/storer.ReferenceStorer."
	objStorerQ := modPath + "/plumbing/storer.EncodedObjectStorer."
	isCallNamed := func(call *ast.CallExpr, names ...string) bool {
		fn := Callee(info, call)
		if fn == nil {
			return false
		}
		q := calleeQName(fn)
		for _, n := range names {
			if q == n {
				return true
			}
		}
		return false
	}
	mentionsField := func(e ast.Node, fld *types.Var) bool {
		found := false
		ast.Inspect(e, func(n ast.Node) bool {
			if sel, ok := n.(*ast.SelectorExpr); ok && info.Uses[sel.Sel] == fld {
				found = true
			}
			return !found
		})
		return found
	}
	nWriters := 0
	for _, fi := range p.FuncsIn(trShort) {
		if fi.Decl.Body == nil || p.isTestFile(fi.Decl.Pos()) {
			continue
		}
		// candidate: writes references and mentions Command.Old or Command.New or ranges over commands
		var writes []*ast.CallExpr
		walkCalls(fi.Decl.Body, true, func(call *ast.CallExpr) {
			if isCallNamed(call, refStorerQ+"SetReference", refStorerQ+"RemoveReference", refStorerQ+"CheckAndSetReference") {
				writes = append(writes, call)
			}
		})
		if len(writes) == 0 {
			continue
		}
		usesCmd := mentionsField(fi.Decl.Body, oldF) || mentionsField(fi.Decl.Body, newF)
		usesCmdType := false
		ast.Inspect(fi.Decl.Body, func(n ast.Node) bool {
			if e, ok := n.(ast.Expr); ok {
				if tv, ok := info.Types[e]; ok && tv.Type != nil {
					s := types.TypeString(tv.Type, nil)
					if s == "*"+modPath+"/plumbing/protocol/packp.Command" {
						usesCmdType = true
					}
				}
			}
			return !usesCmdType
		})
		if !usesCmd && !usesCmdType {
			continue // reference writes unrelated to push commands (e.g. fetch-side helpers)
		}
		nWriters++
		c.Analysed(fi)
		f := p.FlowOf(fi)
		d := newDeriver(info, fi.Decl)
		// "exists" variables: bool locals defined as `err == nil` / `err != nil` of a Reference lookup, or result of referenceExists-like helper
		isLookupErr := func(obj types.Object) bool {
			for _, def := range d.defs[obj] {
				if call, ok := unparen(def).(*ast.CallExpr); ok && isCallNamed(call, refStorerQ+"Reference") {
					return true
				}
			}
			return false
		}
		existsVar := func(obj types.Object) bool {
			for _, def := range d.defs[obj] {
				if be, ok := unparen(def).(*ast.BinaryExpr); ok && (be.Op == token.EQL) && isNil(info, be.Y) {
					if o := objOf(info, be.X); o != nil && isLookupErr(o) {
						return true
					}
				}
			}
			return false
		}
		// pass edges
		oldEqual := FactGuard(func(_ *Flow, fact Fact) bool {
			if !mentionsField(fact.Atom, oldF) {
				return false
			}
			switch e := unparen(fact.Atom).(type) {
			case *ast.CallExpr:
				if sel, ok := unparen(e.Fun).(*ast.SelectorExpr); ok && sel.Sel.Name == "Equal" {
					return fact.Truth
				}
			case *ast.BinaryExpr:
				if e.Op == token.EQL {
					return fact.Truth
				}
				if e.Op == token.NEQ {
					return !fact.Truth
				}
			}
			return false
		})
		notExists := FactGuard(func(_ *Flow, fact Fact) bool {
			if o := objOf(info, fact.Atom); o != nil && existsVar(o) {
				return !fact.Truth
			}
			return false
		})
		newPresent := ErrGuard(func(_ *Flow, call *ast.CallExpr) bool {
			return isCallNamed(call, objStorerQ+"HasEncodedObject") && len(call.Args) == 1 && mentionsField(call.Args[0], newF)
		})
		seen := map[string]int{}
		for _, w := range writes {
			fn := Callee(info, w)
			key := fi.Name() + "->" + fn.Name()
			seen[key]++
			if seen[key] > 1 {
				key += "#" + itoa(seen[key])
			}
			locs := f.sinkSites(true, func(cc *ast.CallExpr) bool { return cc == w })
			if len(locs) == 0 {
				c.Unresolved("old-value-checked", key, w.Pos(), "write not found in the CFG (inside a function literal?)")
				continue
			}
			switch fn.Name() {
			case "CheckAndSetReference":
				oldArg := d.derive(w.Args[1])
				_ = oldArg
				okOld := false
				// the old reference argument (or its definition) is built from cmd.Old
				var exprs []ast.Expr
				exprs = append(exprs, w.Args[1])
				if o := objOf(info, w.Args[1]); o != nil {
					exprs = append(exprs, d.defs[o]...)
				}
				for _, e := range exprs {
					if mentionsField(e, oldF) {
						okOld = true
					}
				}
				c.Check(okOld, "old-value-checked", key, w.Pos(), "compare-and-set against a reference built from cmd.Old")
			default:
				pass := AnyGuard(oldEqual, notExists)
				if h := f.UnguardedPath(pass, locs[0]); h != nil {
					c.Violate("old-value-checked", key, w.Pos(), "reference written/removed without comparing its current value with cmd.Old (and not on a does-not-exist edge); path through lines "+f.pathString(h))
				} else {
					c.Hold("old-value-checked", key, w.Pos(), "only after the current value was compared with cmd.Old, or on the does-not-exist edge")
				}
			}
			if fn.Name() != "RemoveReference" {
				// the written value comes from cmd.New?
				if h := f.UnguardedPath(newPresent, locs[0]); h != nil {
					c.Violate("new-object-present", key, w.Pos(), "reference set to cmd.New without a successful HasEncodedObject(cmd.New); path through lines "+f.pathString(h))
				} else {
					c.Hold("new-object-present", key, w.Pos(), "only after HasEncodedObject(cmd.New) succeeded")
				}
			}
		}
		// status-per-command: in the range loop over commands, no path from the body start back to the loop head avoids setStatus
		setStatus := p.Func(trShort + ".setStatus")
		if setStatus == nil {
			c.Unresolved("status-per-command", trShort+".setStatus", 0, "status recorder not found")
		} else {
			isSet := CallNode(false, func(call *ast.CallExpr) bool { return Callee(info, call) == setStatus.Obj })
			for _, b := range f.G.Blocks {
				if b.Kind != cfg.KindRangeBody || !b.Live {
					continue
				}
				rs, _ := b.Stmt.(*ast.RangeStmt)
				if rs == nil {
					continue
				}
				var loop *cfg.Block
				for _, lb := range f.G.Blocks {
					if lb.Kind == cfg.KindRangeLoop && lb.Stmt == b.Stmt {
						loop = lb
					}
				}
				// edges that leave a switch because no case matched (command validation excludes Invalid actions)
				noMatch := func(bb *cfg.Block, i int) bool {
					if len(bb.Succs) == 2 && i == 1 && len(bb.Nodes) > 0 {
						if e, ok := bb.Nodes[len(bb.Nodes)-1].(ast.Expr); ok && f.switchOf[e] != nil {
							nx := bb.Succs[1]
							if nx.Kind == cfg.KindSwitchDone || (len(nx.Nodes) == 0 && len(nx.Succs) == 1 && nx.Succs[0].Kind == cfg.KindSwitchDone) {
								return true
							}
						}
					}
					return false
				}
				h := f.Search(SearchOpts{Starts: []Loc{{b, 0}}, Barrier: isSet, BlockEdge: noMatch,
					BlockSink: func(x *cfg.Block) bool { return x == loop }, Sink: isReturn})
				if h != nil {
					c.Violate("status-per-command", fi.Name()+":loop", rs.Pos(), "a command can be processed without any status being recorded (path through lines "+f.pathString(h)+")")
				} else {
					c.Hold("status-per-command", fi.Name()+":loop", rs.Pos(), "every path through the per-command loop records a status")
				}
			}
		}
	}
	if nWriters == 0 {
		c.Unresolved("old-value-checked", trShort+":command-appliers", 0, "no function applying packp.Command reference updates found")
	}
	c.Floor("old-value-checked", 3)
	c.Floor("new-object-present", 2)
	c.Floor("status-per-command", 1)

	// report uses the collected map; objects before refs
	if rp := c.MustFunc("status-per-command", trShort+".ReceivePack"); rp != nil {
		upd := p.Func(trShort + ".updateReferences")
		send := p.Func(trShort + ".sendReportStatus")
		if upd == nil || send == nil {
			c.Unresolved("status-per-command", trShort+".{updateReferences,sendReportStatus}", rp.Decl.Pos(), "anchor not found")
		} else {
			var statusObj types.Object
			var updCall *ast.CallExpr
			walkCalls(rp.Decl.Body, false, func(call *ast.CallExpr) {
				if Callee(info, call) == upd.Obj && len(call.Args) >= 3 {
					statusObj = objOf(info, call.Args[2])
					updCall = call
				}
			})
			okReport := false
			if statusObj != nil {
				f := p.FlowOf(rp)
				locs := f.sinkSites(false, func(cc *ast.CallExpr) bool { return cc == updCall })
				if len(locs) == 1 {
					// after updateReferences, every return passes a sendReportStatus(…, statusMap)
					isSend := CallNode(false, func(call *ast.CallExpr) bool {
						return Callee(info, call) == send.Obj && len(call.Args) == 3 && objOf(info, call.Args[2]) == statusObj
					})
					okReport = f.Search(SearchOpts{Starts: []Loc{After(locs[0])}, Sink: isReturn, Barrier: isSend}) == nil && len(f.Locs(isSend)) > 0
				}
			}
			c.Check(okReport, "status-per-command", rp.Name()+":report-uses-status-map", rp.Decl.Pos(), "after applying the commands every return passes sendReportStatus with the map the per-command statuses were recorded in")
			// objects-before-refs
			f := p.FlowOf(rp)
			isUnpack := CallNode(false, func(call *ast.CallExpr) bool {
				fn := Callee(info, call)
				return fn != nil && fn.Name() == "UpdateObjectStorage"
			})
			isUpd := CallNode(false, func(call *ast.CallExpr) bool { return Callee(info, call) == upd.Obj })
			bad := false
			for _, l := range f.Locs(isUpd) {
				if f.Search(SearchOpts{Starts: []Loc{After(l)}, Sink: isUnpack}) != nil {
					bad = true
				}
			}
			c.Check(!bad && len(f.Locs(isUnpack)) > 0 && len(f.Locs(isUpd)) > 0, "objects-before-refs", rp.Name(), rp.Decl.Pos(), "the pack is stored before any reference is updated, never after")
			// references are not updated when unpacking failed
			unpackErrGuard := FactGuard(func(_ *Flow, fact Fact) bool {
				be, ok := unparen(fact.Atom).(*ast.BinaryExpr)
				if !ok || !isNil(info, be.Y) {
					return false
				}
				o := objOf(info, be.X)
				if o == nil || o.Name() != "unpackErr" {
					return false
				}
				return (be.Op == token.EQL) == fact.Truth
			})
			okUnpack := true
			for _, l := range f.Locs(isUpd) {
				if f.UnguardedPath(unpackErrGuard, l) != nil {
					okUnpack = false
				}
			}
			c.Check(okUnpack, "objects-before-refs", rp.Name()+":no-update-after-unpack-error", rp.Decl.Pos(), "references are updated only on the unpack-succeeded edge")
		}
	}
}
