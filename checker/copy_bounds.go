package main

import (
	"fmt"
	"go/ast"
	"go/constant"
	"go/token"
	"go/types"
)

// NoTruncatingCopy: copy() silently truncates when the destination is shorter than the source. In framing code the
// announced length is computed from the source, so a truncated copy desynchronises the stream. For every copy(dst, src)
// in the given packages:
//   - dst is a slice of a fixed-size array [N]T with constant low bound L: the source's length must be provably at
//     most N-L — src is itself a fixed-size array / constant, or every path to the copy crosses an edge where
//     len(src) <= K (or < K+1) with constant K and L+K <= N;
//   - any other destination (a caller's buffer): the number of bytes copied must be used (assigned or returned).
// Returns the number of copy sites examined.
func NoTruncatingCopy(c *Ctx, rule string, shorts ...string) int {
	p := c.P
	n := 0
	for _, short := range shorts {
		for _, fi := range p.FuncsIn(short) {
			if fi.Decl.Body == nil || p.isTestFile(fi.Decl.Pos()) {
				continue
			}
			info := fi.Pkg.TypesInfo
			var f *Flow
			ast.Inspect(fi.Decl.Body, func(x ast.Node) bool {
				call, ok := x.(*ast.CallExpr)
				if !ok || len(call.Args) != 2 {
					return true
				}
				id, ok := unparen(call.Fun).(*ast.Ident)
				if !ok || id.Name != "copy" || info.Uses[id] != types.Universe.Lookup("copy") {
					return true
				}
				n++
				c.Analysed(fi)
				if f == nil {
					f = p.FlowOf(fi)
				}
				dst, src := unparen(call.Args[0]), unparen(call.Args[1])
				key := fmt.Sprintf("%s:copy(%s,%s)", fi.Name(), exprString(dst), exprString(src))
				// destination over a fixed-size array?
				arrLen, low, lowKnown := int64(-1), int64(0), true
				base := dst
				if se, ok := dst.(*ast.SliceExpr); ok {
					base = unparen(se.X)
					if se.Low != nil {
						if tv := info.Types[se.Low]; tv.Value != nil {
							low, _ = constant.Int64Val(constant.ToInt(tv.Value))
						} else {
							lowKnown = false
						}
					}
				}
				if tv := info.Types[base]; tv.Type != nil {
					t := tv.Type
					if pt, ok := t.Underlying().(*types.Pointer); ok {
						t = pt.Elem()
					}
					if at, ok := t.Underlying().(*types.Array); ok {
						arrLen = at.Len()
					}
				}
				if arrLen < 0 {
					// caller's buffer: the count must be used
					path := pathTo(fi.Decl.Body, call)
					used := false
					if len(path) >= 2 {
						switch parent := path[len(path)-2].(type) {
						case *ast.AssignStmt, *ast.ReturnStmt, *ast.BinaryExpr, *ast.ValueSpec:
							_ = parent
							used = true
						}
					}
					c.Check(used, rule, key, call.Pos(), orStr(ifStr(!used, "the number of bytes copied into a buffer of unknown size is discarded: a short copy goes unnoticed"), "the number of bytes copied is used"))
					return true
				}
				if !lowKnown {
					c.Violate(rule, key, call.Pos(), fmt.Sprintf("copy into a %d-byte array at a non-constant offset: nothing bounds offset + len(source), a longer source is silently truncated while its full length is announced", arrLen))
					return true
				}
				room := arrLen - low
				// source of statically known length
				if tv := info.Types[src]; tv.Type != nil {
					if at, ok := tv.Type.Underlying().(*types.Array); ok && at.Len() <= room {
						c.Hold(rule, key, call.Pos(), "source is a fixed-size array that fits")
						return true
					}
					if tv.Value != nil && tv.Value.Kind() == constant.String && int64(len(constant.StringVal(tv.Value))) <= room {
						c.Hold(rule, key, call.Pos(), "source is a constant that fits")
						return true
					}
				}
				srcObj := objOf(info, src)
				if se, ok := src.(*ast.SliceExpr); ok && se.Low == nil && se.High == nil {
					srcObj = objOf(info, se.X)
				}
				bounded := FactGuard(func(fl *Flow, fact Fact) bool {
					be, ok := unparen(fact.Atom).(*ast.BinaryExpr)
					if !ok || srcObj == nil {
						return false
					}
					lc, ok := unparen(be.X).(*ast.CallExpr)
					if !ok || len(lc.Args) != 1 || objOf(fl.Info, lc.Args[0]) != srcObj {
						return false
					}
					if lid, ok := unparen(lc.Fun).(*ast.Ident); !ok || lid.Name != "len" {
						return false
					}
					tv := fl.Info.Types[be.Y]
					if tv.Value == nil {
						return false
					}
					k, _ := constant.Int64Val(constant.ToInt(tv.Value))
					switch {
					case be.Op == token.LEQ && fact.Truth, be.Op == token.GTR && !fact.Truth:
						return k <= room
					case be.Op == token.LSS && fact.Truth, be.Op == token.GEQ && !fact.Truth:
						return k-1 <= room
					}
					return false
				})
				ok2 := false
				for _, l := range f.Locs(func(nd ast.Node) bool { return nodeHasCall(nd, false, func(cc *ast.CallExpr) bool { return cc == call }) != nil }) {
					ok2 = f.UnguardedPath(bounded, l) == nil
				}
				c.Check(ok2, rule, key, call.Pos(), orStr(ifStr(!ok2, fmt.Sprintf("copy into %d bytes of a fixed-size array without a dominating bound on the source's length: a longer source is silently truncated while its full length is announced", room)),
					"every path to the copy bounds the source's length by the room left in the array"))
				return true
			})
		}
	}
	return n
}
