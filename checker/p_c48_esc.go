package main

import (
	"go/ast"
	"go/constant"
	"go/token"
	"go/types"
	"sort"
	"strings"
)

// config-escape-tables (C48): what the config encoder writes is git-config syntax, not Go syntax.
//   - every format string of the encoder uses only %s (a Go-quoting verb such as %q emits \u…, \x… escapes that neither
//     git nor go-git's own parser understands);
//   - Subsection.Name reaches the output only through a strings.Replacer whose table is exactly {" -> \", \ -> \\}
//     (in a subsection name git treats a backslash as "take the next byte literally": any other escape changes the name);
//   - Option.Value is written raw only on the false edge of a test that looks for the bytes needing quotes (# ; " \ LF at
//     least), otherwise through a replacer whose pairs are all `c -> \e` with e in git's value escapes (" \ n t b).
func checkConfigEscapes(c *Ctx, rule string) {
	p := c.P
	const cf = "plumbing/format/config"
	pk := p.Pkg(cf)
	if pk == nil {
		c.Unresolved(rule, "package "+cf, 0, "not loaded")
		return
	}
	info := pk.TypesInfo
	var encs []*FuncInfo
	for _, fi := range p.FuncsIn(cf) {
		if tn := recvTypeName(fi.Obj); tn != nil && tn.Name() == "Encoder" && fi.Decl.Body != nil && !p.isTestFile(fi.Decl.Pos()) {
			encs = append(encs, fi)
		}
	}
	if len(encs) == 0 {
		c.Unresolved(rule, cf+".Encoder", 0, "no Encoder methods found")
		return
	}
	// 1. verbs
	var badVerb []string
	nFmt := 0
	for _, fi := range encs {
		c.Analysed(fi)
		ast.Inspect(fi.Decl.Body, func(n ast.Node) bool {
			call, ok := n.(*ast.CallExpr)
			if !ok || len(call.Args) == 0 {
				return true
			}
			fn := Callee(info, call)
			if fn == nil || !(strings.HasSuffix(fn.Name(), "printf") || strings.HasSuffix(fn.Name(), "Printf")) {
				return true
			}
			for _, a := range call.Args[:min(2, len(call.Args))] {
				tv := info.Types[a]
				if tv.Value == nil || tv.Value.Kind() != constant.String {
					continue
				}
				nFmt++
				f := constant.StringVal(tv.Value)
				for i := 0; i+1 < len(f); i++ {
					if f[i] != '%' {
						continue
					}
					j := i + 1
					for j < len(f) && !((f[j] >= 'a' && f[j] <= 'z') || (f[j] >= 'A' && f[j] <= 'Z') || f[j] == '%') {
						j++
					}
					if j < len(f) && f[j] != 's' && f[j] != '%' {
						badVerb = append(badVerb, fi.Name()+": %"+string(f[j])+" in "+strconvQuote(f))
					}
					i = j
				}
			}
			return true
		})
	}
	sort.Strings(badVerb)
	c.Check(len(badVerb) == 0 && nFmt > 0, rule, cf+".Encoder:verbs", encs[0].Decl.Pos(), orStr(strings.Join(badVerb, "; "), "every format string of the encoder uses %s only: text is escaped by the encoder's own tables, never by a Go-quoting verb"))

	// replacer tables
	table := func(e ast.Expr) (map[string]string, string) {
		v, ok := objOf(info, e).(*types.Var)
		if !ok || v.Parent() != pk.Types.Scope() {
			return nil, "receiver is not a package-level replacer"
		}
		for _, f := range pk.Syntax {
			for _, d := range f.Decls {
				gd, ok := d.(*ast.GenDecl)
				if !ok || gd.Tok != token.VAR {
					continue
				}
				for _, sp := range gd.Specs {
					vs := sp.(*ast.ValueSpec)
					for i, nm := range vs.Names {
						if info.Defs[nm] != types.Object(v) || i >= len(vs.Values) {
							continue
						}
						call, ok := unparen(vs.Values[i]).(*ast.CallExpr)
						if !ok || !calleeIs(info, "strings.NewReplacer")(call) || len(call.Args)%2 != 0 {
							return nil, "initialiser is not strings.NewReplacer(pairs…)"
						}
						out := map[string]string{}
						for k := 0; k < len(call.Args); k += 2 {
							a, b := info.Types[call.Args[k]], info.Types[call.Args[k+1]]
							if a.Value == nil || b.Value == nil {
								return nil, "non-constant pair"
							}
							out[constant.StringVal(a.Value)] = constant.StringVal(b.Value)
						}
						return out, ""
					}
				}
			}
		}
		return nil, "declaration not found"
	}
	replaceCall := func(n ast.Node) (*ast.CallExpr, ast.Expr) {
		call, ok := n.(*ast.CallExpr)
		if !ok {
			return nil, nil
		}
		fn := Callee(info, call)
		if fn == nil || fn.Name() != "Replace" || fn.Pkg() == nil || fn.Pkg().Path() != "strings" {
			return nil, nil
		}
		sel, ok := unparen(call.Fun).(*ast.SelectorExpr)
		if !ok {
			return nil, nil
		}
		return call, sel.X
	}
	subT, optT := p.lookupType(cf, "Subsection"), p.lookupType(cf, "Option")
	nameF, valueF := fieldOf(subT, "Name"), fieldOf(optT, "Value")

	// 2. subsection names
	nName, rawName := 0, 0
	var nameTbl map[string]string
	tblErr := ""
	for _, fi := range encs {
		var walk func(n ast.Node, inRepl bool)
		walk = func(n ast.Node, inRepl bool) {
			ast.Inspect(n, func(x ast.Node) bool {
				if x == nil {
					return true
				}
				if call, recv := replaceCall(x); call != nil && x != n {
					for _, a := range call.Args {
						if mentionsFieldObj(info, a, nameF) {
							t, e := table(recv)
							nameTbl, tblErr = t, e
						}
						walk(a, true)
					}
					return false
				}
				if sel, ok := x.(*ast.SelectorExpr); ok && nameF != nil && info.Uses[sel.Sel] == types.Object(nameF) {
					nName++
					if !inRepl {
						rawName++
					}
				}
				return true
			})
		}
		walk(fi.Decl.Body, false)
	}
	switch {
	case nName == 0:
		c.Unresolved(rule, cf+".Encoder:subsection-name", encs[0].Decl.Pos(), "no use of Subsection.Name found in the encoder")
	case rawName > 0:
		c.Violate(rule, cf+".Encoder:subsection-name", encs[0].Decl.Pos(), "Subsection.Name reaches the output without the encoder's escape table")
	case nameTbl == nil:
		c.Unresolved(rule, cf+".Encoder:subsection-name", encs[0].Decl.Pos(), "replacer table not resolved: "+tblErr)
	default:
		want := map[string]string{`"`: `\"`, `\`: `\\`}
		ok := len(nameTbl) == len(want)
		for k, v := range want {
			if nameTbl[k] != v {
				ok = false
			}
		}
		c.Check(ok, rule, cf+".Encoder:subsection-name", encs[0].Decl.Pos(), "subsection names are escaped with exactly {\" -> \\\", \\ -> \\\\}: "+fmtTable(nameTbl))
	}

	// 3. option values
	okRaw, okTbl, nVal := true, true, 0
	whyVal := ""
	for _, fi := range encs {
		ast.Inspect(fi.Decl.Body, func(x ast.Node) bool {
			sel, ok := x.(*ast.SelectorExpr)
			if !ok || valueF == nil || info.Uses[sel.Sel] != types.Object(valueF) {
				return true
			}
			nVal++
			path := pathTo(fi.Decl.Body, sel)
			// inside a strings predicate or a Replace call: fine
			for i := len(path) - 2; i >= 0; i-- {
				call, isCall := path[i].(*ast.CallExpr)
				if !isCall {
					continue
				}
				if rc, recv := replaceCall(call); rc != nil {
					t, e := table(recv)
					if t == nil {
						okTbl, whyVal = false, e
						return true
					}
					for k, v := range t {
						if len(v) != 2 || v[0] != '\\' || !strings.ContainsRune(`"\ntb`, rune(v[1])) || len(k) != 1 {
							okTbl, whyVal = false, "pair "+strconvQuote(k)+" -> "+strconvQuote(v)+" is not a git-config value escape"
						}
					}
					for _, must := range []string{`"`, `\`, "\n"} {
						if _, has := t[must]; !has {
							okTbl, whyVal = false, "the value table does not escape "+strconvQuote(must)
						}
					}
					return true
				}
				if fn := Callee(info, call); fn != nil && fn.Pkg() != nil && fn.Pkg().Path() == "strings" {
					return true // a predicate on the value
				}
			}
			// raw use: must be in the else-branch of the needs-quoting test
			raw := false
			for i := len(path) - 2; i >= 0; i-- {
				ifs, isIf := path[i].(*ast.IfStmt)
				if !isIf {
					continue
				}
				if ifs.Else != nil && path[i+1] == ast.Node(ifs.Else) {
					set := ""
					ast.Inspect(ifs.Cond, func(m ast.Node) bool {
						if call, ok := m.(*ast.CallExpr); ok && calleeIs(info, "strings.ContainsAny")(call) && len(call.Args) == 2 {
							set = constStr(info, call.Args[1])
						}
						return true
					})
					raw = true
					for _, must := range "#;\"\\\n" {
						if !strings.ContainsRune(set, must) {
							okRaw, whyVal = false, "the needs-quoting test does not look for "+strconvQuote(string(must))
						}
					}
				}
				break
			}
			if !raw {
				okRaw, whyVal = false, "Option.Value is written without the needs-quoting test"
			}
			return true
		})
	}
	if nVal == 0 {
		c.Unresolved(rule, cf+".Encoder:option-value", encs[0].Decl.Pos(), "no use of Option.Value found in the encoder")
	} else {
		c.Check(okRaw && okTbl, rule, cf+".Encoder:option-value", encs[0].Decl.Pos(), orStr(whyVal, "values are written raw only when they contain none of # ; \" \\ LF (and no outer blank), otherwise quoted through a table of git-config escapes"))
	}
}

func mentionsFieldObj(info *types.Info, n ast.Node, fld *types.Var) bool {
	found := false
	ast.Inspect(n, func(x ast.Node) bool {
		if sel, ok := x.(*ast.SelectorExpr); ok && fld != nil && info.Uses[sel.Sel] == types.Object(fld) {
			found = true
		}
		return !found
	})
	return found
}

func fmtTable(t map[string]string) string {
	var ks []string
	for k, v := range t {
		ks = append(ks, strconvQuote(k)+"->"+strconvQuote(v))
	}
	sort.Strings(ks)
	return strings.Join(ks, ", ")
}
