package main

import (
	"go/ast"
	"go/types"
)

// litParamFresh handles `V = func(e *T, …) { e.f = … }` with V a package-level function variable: obj is a
// parameter of such a literal inside fi; every call V(…) in the package must pass an argument accepted by check.
func litParamFresh(p *Prog, fi *FuncInfo, obj *types.Var, check func(caller *FuncInfo, arg ast.Expr) (bool, string)) (ok bool, why string, handled bool) {
	info := fi.Pkg.TypesInfo
	var lit *ast.FuncLit
	var fnVar types.Object
	idx := -1
	ast.Inspect(fi.Decl.Body, func(n ast.Node) bool {
		as, isAs := n.(*ast.AssignStmt)
		if !isAs || len(as.Lhs) != 1 || len(as.Rhs) != 1 {
			return true
		}
		fl, isLit := unparen(as.Rhs[0]).(*ast.FuncLit)
		if !isLit {
			return true
		}
		k := 0
		for _, f := range fl.Type.Params.List {
			for _, nm := range f.Names {
				if info.Defs[nm] == obj {
					lit, idx = fl, k
					fnVar = objOf(info, as.Lhs[0])
				}
				k++
			}
		}
		return true
	})
	if lit == nil || fnVar == nil {
		return false, "", false
	}
	if v, isVar := fnVar.(*types.Var); !isVar || v.Parent() != v.Pkg().Scope() {
		return false, "", false
	}
	n := 0
	for _, cf := range p.FuncsIn(shortPkg(fi.Pkg.PkgPath)) {
		if cf.Decl.Body == nil || p.isTestFile(cf.Decl.Pos()) {
			continue
		}
		var bad string
		walkCalls(cf.Decl.Body, true, func(call *ast.CallExpr) {
			if objOf(info, call.Fun) != fnVar || idx >= len(call.Args) {
				return
			}
			n++
			if ok, w := check(cf, call.Args[idx]); !ok {
				bad = "call through " + fnVar.Name() + " in " + cf.Name() + " passes " + w
			}
		})
		if bad != "" {
			return false, bad, true
		}
	}
	if n == 0 {
		return false, "function variable " + fnVar.Name() + " has no visible calls", true
	}
	return true, "", true
}

// isSubSlice reports whether e is a slice expression with a bound (x[1:], x[:n]).
func isSubSlice(e ast.Expr) bool {
	sl, ok := unparen(e).(*ast.SliceExpr)
	return ok && (sl.Low != nil || sl.High != nil)
}
