package main

import (
	"fmt"
	"go/ast"
	"go/constant"
	"go/token"
	"go/types"
)

// checkCopyFlagBits (C06): the copy instruction's command byte announces which offset and size bytes follow. The bits
// the encoder can set must be exactly the bits the decoders consult: a bit the decoders read but the encoder can never
// set means the byte it announces is silently dropped from every encoded instruction (offsets >= 2^24 come back
// truncated, the delta is well-formed and applies to the wrong bytes); a bit the encoder sets and a decoder does not
// read desynchronises the stream. Sibling decoders (slice and ByteReader forms) must consult the same bits.
//
// Decides: agreement of the flag-bit sets. Does not decide: that byte k is extracted with shift 8k on both sides, nor
// the matching of copy regions.
func checkCopyFlagBits(c *Ctx) {
	const rule = "copy-flag-bits-agree"
	p := c.P
	pk := p.Pkg(pfShort)
	if pk == nil {
		c.Unresolved(rule, "package "+pfShort, 0, "not loaded")
		return
	}
	info := pk.TypesInfo

	// masks of a table variable: var offsets = []offset{{mask: 0x01, shift: 0}, …}
	tableMasks := func(v types.Object) (uint64, bool) {
		var bits uint64
		found := false
		for _, f := range pk.Syntax {
			ast.Inspect(f, func(n ast.Node) bool {
				vs, ok := n.(*ast.ValueSpec)
				if !ok {
					return true
				}
				for i, nm := range vs.Names {
					if info.Defs[nm] != v || i >= len(vs.Values) {
						continue
					}
					cl, ok := unparen(vs.Values[i]).(*ast.CompositeLit)
					if !ok {
						continue
					}
					found = true
					for _, el := range cl.Elts {
						ecl, ok := unparen(el).(*ast.CompositeLit)
						if !ok {
							found = false
							continue
						}
						st, _ := info.Types[ecl].Type.Underlying().(*types.Struct)
						for k, fe := range ecl.Elts {
							name, val := "", fe
							if kv, ok := fe.(*ast.KeyValueExpr); ok {
								if id, ok := kv.Key.(*ast.Ident); ok {
									name = id.Name
								}
								val = kv.Value
							} else if st != nil && k < st.NumFields() {
								name = st.Field(k).Name()
							}
							if name != "mask" {
								continue
							}
							if tv, ok := info.Types[val]; ok && tv.Value != nil {
								if u, ok := tvUint(tv); ok {
									bits |= u
									continue
								}
							}
							found = false
						}
					}
				}
				return true
			})
		}
		return bits, found
	}

	// bits a decoder consults: `cmd & M` with cmd the first parameter
	consulted := func(fi *FuncInfo) (uint64, bool) {
		if fi.Decl.Type.Params == nil || len(fi.Decl.Type.Params.List) == 0 || len(fi.Decl.Type.Params.List[0].Names) == 0 {
			return 0, false
		}
		cmd := info.Defs[fi.Decl.Type.Params.List[0].Names[0]]
		// range variables over tables
		rangeOf := map[types.Object]types.Object{}
		ast.Inspect(fi.Decl.Body, func(n ast.Node) bool {
			if rs, ok := n.(*ast.RangeStmt); ok && rs.Value != nil {
				if vo, to := objOf(info, rs.Value), objOf(info, rs.X); vo != nil && to != nil {
					rangeOf[vo] = to
				}
			}
			return true
		})
		var bits uint64
		decided, any := true, false
		ast.Inspect(fi.Decl.Body, func(n ast.Node) bool {
			be, ok := n.(*ast.BinaryExpr)
			if !ok || be.Op != token.AND {
				return true
			}
			for _, pr := range [][2]ast.Expr{{be.X, be.Y}, {be.Y, be.X}} {
				if objOf(info, pr[0]) != cmd || cmd == nil {
					continue
				}
				any = true
				m := unparen(pr[1])
				if tv, ok := info.Types[m]; ok && tv.Value != nil {
					if u, ok := tvUint(tv); ok {
						bits |= u
						continue
					}
				}
				if sel, ok := m.(*ast.SelectorExpr); ok && sel.Sel.Name == "mask" {
					if t, ok := rangeOf[objOf(info, sel.X)]; ok {
						if b, ok := tableMasks(t); ok {
							bits |= b
							continue
						}
					}
				}
				decided = false
			}
			return true
		})
		return bits, decided && any
	}

	type dec struct {
		name string
		bits uint64
		ok   bool
		fi   *FuncInfo
	}
	get := func(name string) dec {
		fi := c.MustFunc(rule, pfShort+"."+name)
		if fi == nil {
			return dec{name: name}
		}
		c.Analysed(fi)
		b, ok := consulted(fi)
		return dec{name, b, ok, fi}
	}
	offA, offB := get("decodeOffset"), get("decodeOffsetByteReader")
	szA, szB := get("decodeSize"), get("decodeSizeByteReader")
	pair := func(kind string, a, b dec) (uint64, bool) {
		if a.fi == nil || b.fi == nil {
			return 0, false
		}
		if !a.ok || !b.ok {
			c.Hold(rule, "decoders:"+kind, a.fi.Decl.Pos(), "not decided: the bits consulted by "+a.name+"/"+b.name+" are not constants or table masks")
			return 0, false
		}
		if a.bits != b.bits {
			c.Violate(rule, "decoders:"+kind, b.fi.Decl.Pos(), fmt.Sprintf("%s consults command bits %#02x, %s consults %#02x: the two appliers read different instruction lengths from the same delta", a.name, a.bits, b.name, b.bits))
			return 0, false
		}
		c.Hold(rule, "decoders:"+kind, a.fi.Decl.Pos(), fmt.Sprintf("%s and %s consult the same command bits %#02x", a.name, b.name, a.bits))
		return a.bits, true
	}
	offBits, ok1 := pair("offset", offA, offB)
	szBits, ok2 := pair("size", szA, szB)

	enc := c.MustFunc(rule, pfShort+".encodeCopyOperation")
	if enc == nil {
		return
	}
	c.Analysed(enc)
	env := &valEnv{info: info, vars: map[types.Object][]int64{}}
	env.bindLoopCounters(enc.Decl.Body)
	env.bindLiteralParams(enc.Decl.Body)
	env.bindLoopCounters(enc.Decl.Body) // bounds that depend on literal parameters
	setBits := map[types.Object]uint64{}
	undecided := map[types.Object]bool{}
	orTarget := map[types.Object]bool{} // variables that flag bits are OR-ed into
	add := func(o types.Object, rhs ast.Expr) {
		vals := env.at(rhs.Pos()).eval(rhs)
		if vals == nil {
			undecided[o] = true
			return
		}
		for _, v := range vals {
			setBits[o] |= uint64(v)
		}
	}
	ast.Inspect(enc.Decl.Body, func(n ast.Node) bool {
		as, ok := n.(*ast.AssignStmt)
		if !ok || len(as.Lhs) != 1 || len(as.Rhs) != 1 {
			return true
		}
		o := objOf(info, as.Lhs[0])
		if o == nil {
			return true
		}
		if b, isB := o.Type().Underlying().(*types.Basic); !isB || b.Info()&types.IsInteger == 0 {
			return true
		}
		switch as.Tok {
		case token.OR_ASSIGN:
			orTarget[o] = true
			add(o, as.Rhs[0])
		case token.DEFINE, token.ASSIGN:
			// code := 0x80 ; code = code | x
			if be, ok := unparen(as.Rhs[0]).(*ast.BinaryExpr); ok && be.Op == token.OR {
				if objOf(info, be.X) == o {
					orTarget[o] = true
					add(o, be.Y)
					return true
				}
				if objOf(info, be.Y) == o {
					orTarget[o] = true
					add(o, be.X)
					return true
				}
			}
			if _, had := setBits[o]; had || as.Tok == token.DEFINE {
				add(o, as.Rhs[0])
			}
		}
		return true
	})
	var cmdVar types.Object
	for o, b := range setBits {
		if b&0x80 != 0 && !undecided[o] && orTarget[o] {
			if cmdVar != nil {
				cmdVar = nil
				break
			}
			cmdVar = o
		}
	}
	if cmdVar == nil || !ok1 || !ok2 {
		c.Hold(rule, "encodeCopyOperation:flag-bits", enc.Decl.Pos(), "not decided: the command byte of the encoder is not built from constants and counting loops with constant bounds")
		return
	}
	want := offBits | szBits
	got := setBits[cmdVar] & 0x7f
	switch {
	case got&^want != 0:
		c.Violate(rule, "encodeCopyOperation:flag-bits", enc.Decl.Pos(), fmt.Sprintf("the encoder can set command bits %#02x that no decoder consults (decoders read %#02x): the bytes they announce are taken for the next instruction", got&^want, want))
	case want&^got != 0:
		c.Violate(rule, "encodeCopyOperation:flag-bits", enc.Decl.Pos(), fmt.Sprintf("the encoder can never set command bits %#02x although the decoders consult them (encoder %#02x, decoders %#02x): the offset/size byte each announces is dropped, large values are encoded truncated and the delta applies to the wrong bytes", want&^got, got, want))
	default:
		c.Hold(rule, "encodeCopyOperation:flag-bits", enc.Decl.Pos(), fmt.Sprintf("the encoder can set exactly the command bits the decoders consult (%#02x)", want))
	}
}

func tvUint(tv types.TypeAndValue) (uint64, bool) {
	if tv.Value == nil {
		return 0, false
	}
	return constant.Uint64Val(constant.ToInt(tv.Value))
}
