package main

import (
	"go/ast"
	"go/token"
	"go/types"

	"golang.org/x/tools/go/cfg"
)

func init() {
	register(&propSpec{
		ID: "C24",
		Explanation: "Decides the structural half of 'a descriptor is never closed under its reader': (close-only-unpinned) every Close of SharedFile.file outside the explicit (*SharedFile).Close is " +
			"reachable only across an edge that establishes refs == 0, and happens with s.mu held; (guarded-by) every access to SharedFile{file,refs,gen,timer,closed,immediateClose}, " +
			"Pool{lru,hits,evictions,evictionFailures,pinnedSkips}, Handle.elem and PackHandle{metaVal,indexVal} holds the guarding mutex (write lock for writes); " +
			"(acquire-generation) Acquire increments refs and gen under the lock before the descriptor is handed out, and the grace-timer callback re-checks closed, gen and refs; " +
			"(lock-order) SharedFile never calls the pool while holding s.mu and the pool never calls Member.ReleaseNow while holding p.mu; " +
			"(acquire-release) at each Acquire site outside the package, every path after a successful Acquire releases, defers the release, or returns a value that carries the handle, " +
			"and the receiving iterator/cursor types release in Close; (evict-over-capacity) Pool.Touch evicts only across the lru.Len() > capacity edge. " +
			"(open-installed-once) from every acquisition of the mutex, the assignment that stores a descriptor in SharedFile.file is reachable only across the file == nil edge without an Unlock in between. " +
			"(handle-cleared-with-list-removal) in the descriptor pool a member's handle is cleared in the same critical section in which its element leaves the LRU list. Not decided: the quantitative bound on open handles over schedules; timer liveness.",
		Assumptions: []string{"sync.Mutex semantics", "time.AfterFunc callbacks run on their own goroutine with no lock held"},
		Run:         runC24,
	})
}

const sfShort = "internal/sharedfile"

func sharedfileGuards() []GuardSpec {
	return []GuardSpec{
		{Pkg: sfShort, Type: "SharedFile", Mutex: "mu", Fields: []string{"file", "refs", "gen", "timer", "closed", "immediateClose"}},
		{Pkg: "x/fdpool", Type: "Pool", Mutex: "mu", Fields: []string{"lru", "hits", "evictions", "evictionFailures", "pinnedSkips"}},
		{Pkg: "internal/packhandle", Type: "PackHandle", Mutex: "metaMu", Fields: []string{"metaVal"}},
		{Pkg: "internal/packhandle", Type: "PackHandle", Mutex: "indexMu", Fields: []string{"indexVal"}},
	}
}

func checkSharedfileGuards(c *Ctx, rule string) {
	n := 0
	for _, gs := range sharedfileGuards() {
		skip := map[string]string{}
		if gs.Type == "Pool" {
			skip["x/fdpool.New"] = "constructor: the value is not shared yet"
		}
		n += CheckGuardedBy(c, rule, gs, nil, skip)
	}
	c.Floor(rule, 25)
	_ = n
}

func runC24(c *Ctx) {
	p := c.P
	pk := p.Pkg(sfShort)
	sft := p.lookupType(sfShort, "SharedFile")
	if pk == nil || sft == nil {
		c.Unresolved("close-only-unpinned", sfShort+".SharedFile", 0, "type not found")
		return
	}
	info := pk.TypesInfo
	fileF, refsF, genF, closedF := fieldOf(sft, "file"), fieldOf(sft, "refs"), fieldOf(sft, "gen"), fieldOf(sft, "closed")
	if fileF == nil || refsF == nil || genF == nil || closedF == nil {
		c.Unresolved("close-only-unpinned", sfShort+".SharedFile.{file,refs,gen,closed}", sft.Pos(), "field not found")
		return
	}

	// 1. close-only-unpinned
	const r1 = "close-only-unpinned"
	// fact: refs is zero on this edge
	refsZero := FactGuard(func(f *Flow, fact Fact) bool {
		be, ok := unparen(fact.Atom).(*ast.BinaryExpr)
		if !ok {
			return false
		}
		x, y := unparen(be.X), unparen(be.Y)
		sel, ok := x.(*ast.SelectorExpr)
		if !ok || f.Info.Uses[sel.Sel] != refsF {
			return false
		}
		tv := f.Info.Types[y]
		if tv.Value == nil || tv.Value.ExactString() != "0" {
			return false
		}
		switch be.Op {
		case token.EQL, token.LEQ:
			return fact.Truth
		case token.GTR, token.NEQ:
			return !fact.Truth
		}
		return false
	})
	isFileClose := func(call *ast.CallExpr) bool {
		sel, ok := unparen(call.Fun).(*ast.SelectorExpr)
		if !ok || sel.Sel.Name != "Close" {
			return false
		}
		inner, ok := unparen(sel.X).(*ast.SelectorExpr)
		return ok && info.Uses[inner.Sel] == fileF
	}
	nClose := 0
	for _, fi := range p.FuncsIn(sfShort) {
		if fi.Decl.Body == nil || p.isTestFile(fi.Decl.Pos()) {
			continue
		}
		fl := p.FuncLocks(fi, nil)
		for bi, br := range fl.Bodies {
			f := fl.Flows[br].F
			for _, loc := range f.sinkSites(true, isFileClose) {
				call := nodeHasCall(loc.B.Nodes[loc.Idx], false, isFileClose)
				nClose++
				c.Analysed(fi)
				where := fi.Name()
				if br.Lit != nil {
					where += "$lit" + itoa(bi)
				}
				// lock held
				held := fl.HeldAt(call.Pos())
				sel := unparen(call.Fun).(*ast.SelectorExpr)
				want := exprString(unparen(sel.X).(*ast.SelectorExpr).X) + ".mu"
				if _, ok := held[want]; !ok {
					c.Violate(r1, where+":file.Close:lock", call.Pos(), "descriptor closed without holding "+want)
				} else {
					c.Hold(r1, where+":file.Close:lock", call.Pos(), "closed under "+want)
				}
				if fi.Name() == sfShort+".(*SharedFile).Close" && br.Lit == nil {
					c.Hold(r1, where+":file.Close", call.Pos(), "explicit owner Close: allowed to close under readers by contract")
					continue
				}
				if h := f.UnguardedPath(refsZero, loc); h != nil {
					c.Violate(r1, where+":file.Close", call.Pos(), "descriptor can be closed while readers hold it: no refs == 0 check on the path through lines "+f.pathString(h))
				} else {
					c.Hold(r1, where+":file.Close", call.Pos(), "reachable only when refs == 0")
				}
			}
		}
	}
	c.Floor(r1, 8)

	// 2. guarded-by
	checkSharedfileGuards(c, "guarded-by")

	// 3. acquire-generation
	const r3 = "acquire-generation"
	if acq := c.MustFunc(r3, sfShort+".(*SharedFile).Acquire"); acq != nil {
		f := p.FlowOf(acq)
		incOf := func(fld *types.Var) NodePred {
			return func(n ast.Node) bool {
				if id, ok := n.(*ast.IncDecStmt); ok && id.Tok == token.INC {
					if sel, ok := unparen(id.X).(*ast.SelectorExpr); ok && info.Uses[sel.Sel] == fld {
						return true
					}
				}
				return false
			}
		}
		// every return of a non-nil descriptor (first result not nil literal) passes refs++ and gen++
		succRet := func(n ast.Node) bool {
			r, ok := n.(*ast.ReturnStmt)
			return ok && len(r.Results) == 2 && !isNil(info, r.Results[0])
		}
		for name, fld := range map[string]*types.Var{"refs": refsF, "gen": genF} {
			h := f.Search(SearchOpts{Starts: []Loc{f.Entry()}, Sink: succRet, Barrier: incOf(fld)})
			c.Check(h == nil && len(f.Locs(incOf(fld))) > 0, r3, acq.Name()+":"+name+"++", acq.Decl.Pos(),
				"every successful return passes "+name+"++ (a stale grace-timer callback is recognised by gen, a live reader by refs)")
		}
		// the timer is stopped before the descriptor is handed out
		timerF := fieldOf(sft, "timer")
		stop := CallNode(false, func(call *ast.CallExpr) bool {
			sel, ok := unparen(call.Fun).(*ast.SelectorExpr)
			if !ok || sel.Sel.Name != "Stop" {
				return false
			}
			inner, ok := unparen(sel.X).(*ast.SelectorExpr)
			return ok && info.Uses[inner.Sel] == timerF
		})
		c.Check(len(f.Locs(stop)) > 0, r3, acq.Name()+":timer.Stop", acq.Decl.Pos(), "a pending grace timer is stopped on Acquire")
	}
	// grace-timer callback: the function literal passed to time.AfterFunc re-checks closed, gen and refs before closing
	if rel := c.MustFunc(r3, sfShort+".(*SharedFile).Release"); rel != nil {
		found := false
		ast.Inspect(rel.Decl.Body, func(n ast.Node) bool {
			call, ok := n.(*ast.CallExpr)
			if !ok {
				return true
			}
			fn := Callee(info, call)
			if fn == nil || fn.Pkg() == nil || fn.Pkg().Path() != "time" || fn.Name() != "AfterFunc" || len(call.Args) != 2 {
				return true
			}
			lit, ok := unparen(call.Args[1]).(*ast.FuncLit)
			if !ok {
				return true
			}
			found = true
			lf := p.NewFlow(info, lit.Body)
			for name, fld := range map[string]*types.Var{"closed": closedF, "gen": genF, "refs": refsF, "file": fileF} {
				fld := fld
				// the false edge of a condition mentioning the field is the only way to the close
				pass := CondEdge(1, condMentionsObj(fld))
				ok := true
				sites := lf.sinkSites(true, isFileClose)
				for _, loc := range sites {
					if lf.UnguardedPath(pass, loc) != nil {
						ok = false
					}
				}
				c.Check(ok && len(sites) > 0, r3, rel.Name()+"$grace-callback:rechecks-"+name, lit.Pos(), "the delayed close re-checks "+name+" under the lock before closing")
			}
			return true
		})
		if !found {
			c.Unresolved(r3, rel.Name()+"$grace-callback", rel.Decl.Pos(), "time.AfterFunc callback not found")
		}
	}
	c.Floor(r3, 7)

	// 4. lock-order
	checkPoolLockOrder(c, "lock-order")

	// 5. acquire-release at external sites
	const r5 = "acquire-release"
	acqObj := p.Func(sfShort + ".(*SharedFile).Acquire")
	relObj := p.Func(sfShort + ".(*SharedFile).Release")
	if acqObj == nil || relObj == nil {
		c.Unresolved(r5, sfShort+".(*SharedFile).{Acquire,Release}", 0, "anchor not found")
	} else {
		transferTypes := map[*types.TypeName]bool{}
		for _, s := range p.CallSites(func(_ *types.Info, _ *ast.CallExpr, callee *types.Func) bool { return callee == acqObj.Obj }) {
			if p.isTestFile(s.Call.Pos()) || shortPkg(s.In.Pkg.PkgPath) == sfShort {
				continue
			}
			finfo := s.In.Pkg.TypesInfo
			f := p.FlowOf(s.In)
			c.Analysed(s.In)
			recv := exprString(unparen(s.Call.Fun).(*ast.SelectorExpr).X)
			key := s.In.Name() + ":" + recv + ".Acquire"
			locs := f.sinkSites(false, func(cc *ast.CallExpr) bool { return cc == s.Call })
			if len(locs) != 1 {
				c.Unresolved(r5, key, s.Call.Pos(), "Acquire call not found as a plain statement in the CFG")
				continue
			}
			as, ok := locs[0].B.Nodes[locs[0].Idx].(*ast.AssignStmt)
			if !ok || len(as.Lhs) != 2 {
				c.Unresolved(r5, key, s.Call.Pos(), "unrecognised Acquire idiom (expected `h, err := x.Acquire()`)")
				continue
			}
			handle := objOf(finfo, as.Lhs[0])
			// failure edges of this Acquire are not followed
			failEdge := func(b *cfg.Block, i int) bool {
				for _, fact := range f.EdgeFacts(b, i) {
					be, ok := unparen(fact.Atom).(*ast.BinaryExpr)
					if !ok || !isNil(finfo, be.Y) {
						continue
					}
					if (be.Op == token.NEQ) == fact.Truth { // err != nil holds
						if src := f.valueSource(b, len(b.Nodes)-1, be.X); src == ast.Expr(s.Call) {
							return true
						}
					}
				}
				return false
			}
			isRelease := CallNode(true, func(cc *ast.CallExpr) bool {
				if Callee(finfo, cc) != relObj.Obj {
					return false
				}
				return exprString(unparen(cc.Fun).(*ast.SelectorExpr).X) == recv
			})
			leak := func(n ast.Node) bool {
				r, ok := n.(*ast.ReturnStmt)
				if !ok {
					return false
				}
				for _, res := range r.Results {
					if handle != nil && usesObj(finfo, res, handle) {
						// transfer: remember the receiving type
						ast.Inspect(res, func(x ast.Node) bool {
							if cl, ok := x.(*ast.CompositeLit); ok {
								if tv, ok := finfo.Types[cl]; ok {
									if nt, ok := tv.Type.(*types.Named); ok {
										transferTypes[nt.Obj()] = true
									}
								}
							}
							return true
						})
						return false
					}
				}
				return true
			}
			h := f.Search(SearchOpts{Starts: []Loc{After(locs[0])}, Sink: leak, Barrier: isRelease, BlockEdge: failEdge})
			if h != nil {
				c.Violate(r5, key, h.Node.Pos(), "a return is reachable after a successful "+recv+".Acquire() without Release, deferred Release or handing the handle to the caller (lines "+f.pathString(h)+")")
			} else {
				c.Hold(r5, key, s.Call.Pos(), "released, release deferred, or handle transferred on every path")
			}
		}
		// transfer targets release in Close
		for tn := range transferTypes {
			closeFn, _, found := methodDeclaredOn(types.NewPointer(tn.Type()), tn.Pkg(), "Close")
			ci := p.FuncOf(closeFn)
			key := shortPkg(tn.Pkg().Path()) + "." + tn.Name() + ".Close"
			if !found || ci == nil {
				c.Violate(r5, key, tn.Pos(), "a type that receives an acquired handle has no Close method to release it")
				continue
			}
			nRel := 0
			walkCalls(ci.Decl.Body, true, func(cc *ast.CallExpr) {
				if Callee(ci.Pkg.TypesInfo, cc) == relObj.Obj {
					nRel++
				}
			})
			// number of SharedFile-derived handles stored in the type = number of fields of the handle interface type
			st, _ := tn.Type().Underlying().(*types.Struct)
			nHandles := 0
			if st != nil {
				for i := 0; i < st.NumFields(); i++ {
					ts := types.TypeString(st.Field(i).Type(), nil)
					if ts == modPath+"/"+sfShort+".ReadAtCloser" || ts == modPath+"/plumbing/format/idxfile.ReadAtCloser" || ts == modPath+"/internal/packhandle.ReadAtCloser" {
						nHandles++
					}
				}
			}
			c.Analysed(ci)
			c.Check(nRel >= nHandles && nRel > 0, r5, key, ci.Decl.Pos(), "Close releases "+itoa(nRel)+" handle(s); the type stores "+itoa(nHandles))
			// release-once: every Release in a method of the holder is one-shot — guarded by `handle != nil` and followed by
			// `handle = nil`, or guarded by a successful CompareAndSwap on a closed flag. A second release would steal
			// another reader's reference and let the pool close a descriptor that is still in use.
			for _, mi := range p.FuncsIn(shortPkg(tn.Pkg().Path())) {
				if recvTypeName(mi.Obj) != tn || mi.Decl.Body == nil {
					continue
				}
				minfo := mi.Pkg.TypesInfo
				mf := p.FlowOf(mi)
				seenRel := map[string]int{}
				for _, loc := range mf.sinkSites(true, func(cc *ast.CallExpr) bool { return Callee(minfo, cc) == relObj.Obj }) {
					call := nodeHasCall(loc.B.Nodes[loc.Idx], false, func(cc *ast.CallExpr) bool { return Callee(minfo, cc) == relObj.Obj })
					recvS := exprString(unparen(call.Fun).(*ast.SelectorExpr).X)
					rkey := mi.Name() + ":" + recvS + ".Release:once"
					seenRel[rkey]++
					if seenRel[rkey] > 1 {
						rkey += "#" + itoa(seenRel[rkey])
					}
					var handleFld types.Object
					// the holder's field paired with this shared file: same final name (it.s.idx ↔ it.idx)
					var wantFld *types.Var
					if rs, ok := unparen(unparen(call.Fun).(*ast.SelectorExpr).X).(*ast.SelectorExpr); ok {
						wantFld = fieldOf(tn, rs.Sel.Name)
					}
					oneShot := AnyGuard(
						FactGuard(func(_ *Flow, fact Fact) bool { // it.idx != nil
							be, ok := unparen(fact.Atom).(*ast.BinaryExpr)
							if !ok || !isNil(minfo, be.Y) || (be.Op == token.NEQ) != fact.Truth {
								return false
							}
							if sel, ok := unparen(be.X).(*ast.SelectorExpr); ok {
								if v, ok := minfo.Uses[sel.Sel].(*types.Var); ok && v.IsField() && (wantFld == nil || v == wantFld) {
									handleFld = v
									return true
								}
							}
							return false
						}),
						FactGuard(func(_ *Flow, fact Fact) bool { // closed.CompareAndSwap(false, true) succeeded
							call, ok := unparen(fact.Atom).(*ast.CallExpr)
							if !ok || !fact.Truth {
								return false
							}
							fn := Callee(minfo, call)
							return fn != nil && fn.Name() == "CompareAndSwap"
						}),
					)
					if h := mf.UnguardedPath(oneShot, loc); h != nil {
						c.Violate(r5, rkey, call.Pos(), "Release is not one-shot: reachable without a `handle != nil` check or a successful CompareAndSwap (lines "+mf.pathString(h)+"); a repeated release steals another reader's reference")
						continue
					}
					if handleFld != nil {
						// the handle field is cleared before any return
						clears := func(n ast.Node) bool {
							as, ok := n.(*ast.AssignStmt)
							if !ok {
								return false
							}
							for i, l := range as.Lhs {
								if sel, ok := unparen(l).(*ast.SelectorExpr); ok && minfo.Uses[sel.Sel] == handleFld && i < len(as.Rhs) && isNil(minfo, as.Rhs[i]) {
									return true
								}
							}
							return false
						}
						if h := mf.Search(SearchOpts{Starts: []Loc{After(loc)}, Sink: isReturn, Barrier: clears}); h != nil {
							c.Violate(r5, rkey, call.Pos(), "the handle field is not cleared after Release: a later Close releases the same reference again")
							continue
						}
					}
					c.Hold(r5, rkey, call.Pos(), "one-shot release (nil-checked and cleared, or CompareAndSwap-guarded)")
				}
			}
		}
		c.Floor(r5, 14)
	}

	// 6. evict-over-capacity
	const r6 = "evict-over-capacity"
	if touch := c.MustFunc(r6, "x/fdpool.(*Pool).Touch"); touch != nil {
		tinfo := touch.Pkg.TypesInfo
		poolT := p.lookupType("x/fdpool", "Pool")
		capF, lruF := fieldOf(poolT, "capacity"), fieldOf(poolT, "lru")
		n := CallsGuarded(c, r6, touch, CondEdge(0, func(info *types.Info, e ast.Expr) bool {
			return condMentionsObj(capF)(info, e) && condMentionsObj(lruF)(info, e)
		}), func(call *ast.CallExpr) bool {
			fn := Callee(tinfo, call)
			return fn != nil && fn.Name() == "ReleaseNow"
		}, "lru.Len() > capacity")
		if n == 0 {
			c.Unresolved(r6, touch.Name()+"->ReleaseNow", touch.Decl.Pos(), "eviction call not found")
		}
		// the victim scan never selects the element just inserted
		hElem := fieldOf(p.lookupType("x/fdpool", "Handle"), "elem")
		okScan := false
		ast.Inspect(touch.Decl.Body, func(n ast.Node) bool {
			if fs, ok := n.(*ast.ForStmt); ok && fs.Cond != nil && condMentionsObj(hElem)(tinfo, fs.Cond) {
				okScan = true
			}
			return true
		})
		c.Check(okScan, r6, touch.Name()+":scan-skips-new-element", touch.Decl.Pos(), "the victim scan stops before the element just inserted")
	}
	c.Floor(r6, 2)

	// 7. open-installed-once: a descriptor is stored in SharedFile.file only in the critical section in which file was
	// seen to be nil. From every acquisition of the mutex, the storing assignment is reachable only across the
	// `file == nil` edge without leaving the critical section in between; otherwise two concurrent Acquires both open
	// and the second assignment orphans the first descriptor (never closed, invisible to the pool).
	const r7 = "open-installed-once"
	muF := fieldOf(sft, "mu")
	nStores := 0
	for _, fi := range p.FuncsIn(sfShort) {
		if recvTypeName(fi.Obj) != sft || fi.Decl.Body == nil || p.isTestFile(fi.Decl.Pos()) {
			continue
		}
		f := p.FlowOf(fi)
		isMuCall := func(n ast.Node, name string) bool {
			if _, isDefer := n.(*ast.DeferStmt); isDefer {
				return false
			}
			return nodeHasCall(n, false, func(call *ast.CallExpr) bool {
				sel, ok := unparen(call.Fun).(*ast.SelectorExpr)
				if !ok || sel.Sel.Name != name {
					return false
				}
				inner, ok := unparen(sel.X).(*ast.SelectorExpr)
				return ok && muF != nil && info.Uses[inner.Sel] == types.Object(muF)
			}) != nil
		}
		stores := f.Locs(func(n ast.Node) bool {
			as, ok := n.(*ast.AssignStmt)
			if !ok {
				return false
			}
			for i, l := range as.Lhs {
				if sel, ok := unparen(l).(*ast.SelectorExpr); ok && info.Uses[sel.Sel] == types.Object(fileF) {
					if len(as.Rhs) == len(as.Lhs) && isNil(info, as.Rhs[i]) {
						continue // clearing the field
					}
					return true
				}
			}
			return false
		})
		if len(stores) == 0 {
			continue
		}
		locks := f.Locs(func(n ast.Node) bool { return isMuCall(n, "Lock") })
		for _, st := range stores {
			nStores++
			c.Analysed(fi)
			var starts []Loc
			for _, l := range locks {
				starts = append(starts, After(l))
			}
			fileNil := FactGuard(func(fl *Flow, fact Fact) bool {
				be, ok := unparen(fact.Atom).(*ast.BinaryExpr)
				if !ok {
					return false
				}
				for _, pair := range [][2]ast.Expr{{be.X, be.Y}, {be.Y, be.X}} {
					if sel, ok := unparen(pair[0]).(*ast.SelectorExpr); ok && fl.Info.Uses[sel.Sel] == types.Object(fileF) && isNil(fl.Info, pair[1]) {
						return (be.Op == token.EQL && fact.Truth) || (be.Op == token.NEQ && !fact.Truth)
					}
				}
				return false
			})
			h := f.Search(SearchOpts{Starts: starts,
				Sink:      func(n ast.Node) bool { return n == st.B.Nodes[st.Idx] },
				Barrier:   func(n ast.Node) bool { return isMuCall(n, "Unlock") },
				BlockEdge: func(b *cfg.Block, i int) bool { return fileNil(f, b, i) }})
			c.Check(h == nil && len(locks) > 0, r7, fi.Name()+"->file", st.B.Nodes[st.Idx].Pos(), orStr(ifStr(h != nil, "the descriptor is stored in a critical section that did not see file == nil: a concurrent Acquire may already have installed one, which is then orphaned and never closed"+hitLines(f, h)),
				"stored only in the critical section that saw file == nil"))
		}
	}
	c.Check(nStores >= 1, r7, sfShort+".SharedFile:stores", 0, itoa(nStores)+" descriptor-installing assignments examined")
	checkHandleFollowsList(c, "handle-cleared-with-list-removal")
	c.Floor("handle-cleared-with-list-removal", 2)
}

// checkHandleFollowsList (C24): a Handle's `elem` field says whether its Member is in the pool's LRU list; Touch decides
// hit or registration from it. The two must agree whenever the pool's mutex is released: after lru.Remove(x) the
// handle's elem is set to nil before the next Unlock (or return, with the deferred Unlock). If the clear is postponed
// past an unlocked window, a Touch in that window takes the hit path on an element that is no longer in the list
// (MoveToFront on a removed element does nothing): the member stays open and the pool no longer knows it.
func checkHandleFollowsList(c *Ctx, rule string) {
	p := c.P
	const fp = "x/fdpool"
	pk := p.Pkg(fp)
	if pk == nil {
		c.Unresolved(rule, "package "+fp, 0, "not loaded")
		return
	}
	info := pk.TypesInfo
	for _, fi := range p.FuncsIn(fp) {
		if fi.Decl.Body == nil || p.isTestFile(fi.Decl.Pos()) {
			continue
		}
		isRemove := func(call *ast.CallExpr) bool {
			fn := Callee(info, call)
			return fn != nil && fn.Name() == "Remove" && fn.Pkg() != nil && fn.Pkg().Path() == "container/list"
		}
		if nodeHasCall(fi.Decl.Body, false, isRemove) == nil {
			continue
		}
		f := p.FlowOf(fi)
		clears := func(nd ast.Node) bool {
			as, ok := nd.(*ast.AssignStmt)
			if !ok {
				return false
			}
			for i, l := range as.Lhs {
				if sel, ok := unparen(l).(*ast.SelectorExpr); ok && sel.Sel.Name == "elem" && i < len(as.Rhs) && isNil(info, as.Rhs[i]) {
					return true
				}
			}
			return false
		}
		releases := func(nd ast.Node) bool {
			if _, isRet := nd.(*ast.ReturnStmt); isRet {
				return true
			}
			if _, isDefer := nd.(*ast.DeferStmt); isDefer {
				return false
			}
			return nodeHasCall(nd, false, func(call *ast.CallExpr) bool {
				sel, ok := unparen(call.Fun).(*ast.SelectorExpr)
				return ok && sel.Sel.Name == "Unlock"
			}) != nil
		}
		k := 0
		for _, loc := range f.Locs(CallNode(false, isRemove)) {
			k++
			c.Analysed(fi)
			h := f.Search(SearchOpts{Starts: []Loc{After(loc)}, Sink: releases, Barrier: clears})
			c.Check(h == nil, rule, fi.Name()+"->lru.Remove"+ifStr(k > 1, "#"+itoa(k)), loc.B.Nodes[loc.Idx].Pos(), orStr(ifStr(h != nil, "an element is removed from the LRU list and the pool's lock is released (or the function returns) before the member's handle is cleared: in that window the handle still says 'registered', a Touch takes the hit path on a removed element and the member's descriptor is open without the pool knowing it"),
				"the handle is cleared in the same critical section as the removal from the list"))
		}
	}
}

func ifStr(b bool, s string) string {
	if b {
		return s
	}
	return ""
}
