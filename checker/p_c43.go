package main

import (
	"go/ast"
	"go/token"
	"go/types"
	"sort"
	"strings"

	"golang.org/x/tools/go/cfg"
)

func init() {
	register(&propSpec{
		ID: "C43",
		Explanation: "Decides the 'each commit once' mechanism of the commit walkers, not the yielded set or its order: for every type in plumbing/object and plumbing/object/commitgraph whose Next method returns a commit and which keeps a seen set " +
			"(a map keyed by hash with bool or struct{} values that its methods write), (yield-once) every return that yields a commit is reachable only across the 'not seen' edge of a lookup of that commit's hash in the seen set — in Next itself, " +
			"or in the receiver's helper that produced the commit — and only after the hash was recorded in the seen set; (parents-followed) the walker mentions the parents of the commit it yields (ParentHashes, Parents(), ParentNode or a helper that " +
			"receives the commit); (walkers-inventory) the set of seen-keeping walkers is compared with a floor. The topological commit-graph walker removes duplicates by in-degree counting and is outside this rule; iterators without a seen set " +
			"delegate to a wrapped walker; (explore-heap-ordered-by-cutoff-key) the topological commit-graph walker, which counts in-degrees instead of keeping a seen set, cuts its exploration on GenerationV2()/Generation() of the explore heap's top, and the comparator that heap is built with orders its operands by those same accessors (ordered by commit time, clock skew makes the cut leave edges uncounted and commits come out twice). Not decided: that exactly git rev-list's commits are yielded, ordering contracts, time and tail limits, agreement of commit-graph-backed walks.",
		Assumptions: []string{},
		Run:         runC43,
	})
}

func runC43(c *Ctx) {
	p := c.P
	const r1, r2 = "yield-once", "parents-followed"
	nWalkers := 0
	var names []string
	for _, short := range []string{"plumbing/object", "plumbing/object/commitgraph"} {
		pk := p.Pkg(short)
		if pk == nil {
			c.Unresolved(r1, "package "+short, 0, "not loaded")
			continue
		}
		info := pk.TypesInfo
		methodsOf := map[*types.TypeName][]*FuncInfo{}
		for _, fi := range p.FuncsIn(short) {
			if tn := recvTypeName(fi.Obj); tn != nil && fi.Decl.Body != nil && !p.isTestFile(fi.Decl.Pos()) {
				methodsOf[tn] = append(methodsOf[tn], fi)
			}
		}
		for tn, ms := range methodsOf {
			var next *FuncInfo
			for _, m := range ms {
				sig := m.Obj.Type().(*types.Signature)
				if m.Obj.Name() == "Next" && sig.Params().Len() == 0 && sig.Results().Len() == 2 {
					next = m
				}
			}
			st, ok := tn.Type().Underlying().(*types.Struct)
			if next == nil || !ok {
				continue
			}
			// seen sets: map[Hash]bool|struct{} fields that some method of the type writes
			var seenFields []*types.Var
			for i := 0; i < st.NumFields(); i++ {
				m, ok := st.Field(i).Type().Underlying().(*types.Map)
				if !ok || !strings.HasSuffix(m.Key().String(), "plumbing.Hash") {
					continue
				}
				switch v := m.Elem().Underlying().(type) {
				case *types.Basic:
					if v.Kind() != types.Bool {
						continue
					}
				case *types.Struct:
					if v.NumFields() != 0 {
						continue
					}
				default:
					continue
				}
				written := false
				for _, mm := range ms {
					ast.Inspect(mm.Decl.Body, func(n ast.Node) bool {
						if as, ok := n.(*ast.AssignStmt); ok {
							for _, l := range as.Lhs {
								if ix, ok := unparen(l).(*ast.IndexExpr); ok {
									if sel, ok := unparen(ix.X).(*ast.SelectorExpr); ok && info.Uses[sel.Sel] == types.Object(st.Field(i)) {
										written = true
									}
								}
							}
						}
						return true
					})
				}
				if written {
					seenFields = append(seenFields, st.Field(i))
				}
			}
			if len(seenFields) == 0 {
				continue
			}
			nWalkers++
			names = append(names, tn.Name())
			c.Analysed(next)

			isSeenLookup := func(e ast.Expr, fld *types.Var) bool {
				ix, ok := unparen(e).(*ast.IndexExpr)
				if !ok {
					return false
				}
				sel, ok := unparen(ix.X).(*ast.SelectorExpr)
				return ok && info.Uses[sel.Sel] == types.Object(fld)
			}
			// derivedFrom: the key expression mentions the commit variable, or a local assigned once from an expression that does
			derivedFrom := func(fi *FuncInfo, key ast.Expr, commit types.Object) bool {
				if commit == nil {
					return true
				}
				if usesObj(info, key, commit) {
					return true
				}
				ko := objOf(info, key)
				if ko == nil {
					return false
				}
				ok := false
				ast.Inspect(fi.Decl.Body, func(n ast.Node) bool {
					if as, isAs := n.(*ast.AssignStmt); isAs && len(as.Lhs) == len(as.Rhs) {
						for i, l := range as.Lhs {
							if objOf(info, l) == ko && usesObj(info, as.Rhs[i], commit) {
								ok = true
							}
						}
					}
					return true
				})
				return ok
			}
			// notSeenGuarded: every yielding return of fi lies behind the not-seen edge of fld for the yielded commit
			var notSeenGuarded func(fi *FuncInfo, fld *types.Var, depth int) (bool, string)
			notSeenGuarded = func(fi *FuncInfo, fld *types.Var, depth int) (bool, string) {
				f := p.FlowOf(fi)
				yields := f.Locs(func(n ast.Node) bool {
					r, ok := n.(*ast.ReturnStmt)
					return ok && len(r.Results) == 2 && !isNil(info, r.Results[0])
				})
				if len(yields) == 0 {
					return false, "no yielding return in " + fi.Name()
				}
				for _, y := range yields {
					ret := y.B.Nodes[y.Idx].(*ast.ReturnStmt)
					yielded := objOf(info, ret.Results[0])
					notSeen := func(fl *Flow, b *cfg.Block, i int) bool {
						for _, fact := range fl.EdgeFacts(b, i) {
							if fact.Truth {
								continue
							}
							if isSeenLookup(fact.Atom, fld) && derivedFrom(fi, unparen(fact.Atom).(*ast.IndexExpr).Index, yielded) {
								return true
							}
							if o := objOf(info, fact.Atom); o != nil { // `_, ok := w.seen[h]; ok`
								for _, n := range b.Nodes {
									if as, ok := n.(*ast.AssignStmt); ok && len(as.Lhs) == 2 && len(as.Rhs) == 1 && objOf(info, as.Lhs[1]) == o && isSeenLookup(as.Rhs[0], fld) &&
										derivedFrom(fi, unparen(as.Rhs[0]).(*ast.IndexExpr).Index, yielded) {
										return true
									}
								}
							}
						}
						return false
					}
					if h := f.UnguardedPath(notSeen, y); h != nil {
						// the commit may come out of a helper of the same receiver that applied the test
						if depth == 0 && yielded != nil {
							var helper *FuncInfo
							nAs := 0
							ast.Inspect(fi.Decl.Body, func(n ast.Node) bool {
								as, ok := n.(*ast.AssignStmt)
								if !ok || len(as.Rhs) != 1 || len(as.Lhs) == 0 || objOf(info, as.Lhs[0]) != yielded {
									return true
								}
								nAs++
								if call, ok := unparen(as.Rhs[0]).(*ast.CallExpr); ok {
									if fn := Callee(info, call); fn != nil && recvTypeName(fn) == tn {
										helper = p.FuncOf(fn)
									}
								}
								return true
							})
							if helper != nil && nAs == 1 {
								if ok, why := notSeenGuarded(helper, fld, 1); ok {
									continue
								} else {
									return false, why
								}
							}
						}
						return false, "a commit can be yielded without the 'not seen' edge of a lookup in " + fld.Name() + ": it can be yielded twice" + hitLines(f, h)
					}
				}
				return true, ""
			}
			for _, fld := range seenFields {
				ok, why := notSeenGuarded(next, fld, 0)
				c.Check(ok, r1, next.Name()+":not-seen("+fld.Name()+")", next.Decl.Pos(), orStr(why, "yielded only on the not-seen edge of "+fld.Name()+" (in Next or in the helper that produced the commit)"))
			}
			// recorded before the yield, in Next
			f := p.FlowOf(next)
			marks := func(n ast.Node) bool {
				as, ok := n.(*ast.AssignStmt)
				if !ok {
					return false
				}
				for _, l := range as.Lhs {
					for _, fld := range seenFields {
						if isSeenLookup(l, fld) {
							return true
						}
					}
				}
				return false
			}
			h := f.Search(SearchOpts{Starts: []Loc{f.Entry()}, Barrier: marks, Sink: func(n ast.Node) bool {
				r, ok := n.(*ast.ReturnStmt)
				return ok && len(r.Results) == 2 && !isNil(info, r.Results[0])
			}})
			c.Check(h == nil, r1, next.Name()+":recorded-before-yield", next.Decl.Pos(), orStr(ifStr(h != nil, "a commit can be yielded without having been recorded in the walker's seen set"+hitLines(f, h)), "recorded in the seen set before it is yielded"))
			// parents-followed
			follows := false
			ast.Inspect(next.Decl.Body, func(x ast.Node) bool {
				if sel, ok := x.(*ast.SelectorExpr); ok {
					switch sel.Sel.Name {
					case "ParentHashes", "ParentIndexes", "Parents", "ParentNode", "ParentNodes":
						follows = true
					}
				}
				if call, ok := x.(*ast.CallExpr); ok {
					if fn := Callee(info, call); fn != nil && p.FuncOf(fn) != nil && fn.Pkg() == pk.Types {
						for _, a := range call.Args {
							if tv := info.Types[a]; tv.Type != nil && (strings.HasSuffix(tv.Type.String(), ".Commit") || strings.HasSuffix(tv.Type.String(), ".CommitNode")) {
								follows = true
							}
						}
					}
				}
				return !follows
			})
			c.Check(follows, r2, next.Name(), next.Decl.Pos(), "the walker reaches the parents of the commit it yields")
		}
	}
	sort.Strings(names)
	c.Check(nWalkers >= 6, "walkers-inventory", "plumbing/object:seen-keeping-walkers", token.NoPos, itoa(nWalkers)+" walkers that keep a seen set: "+strings.Join(names, ", "))
	c.Floor(r1, 12)
	c.Floor(r2, 6)
	checkExploreHeapOrder(c, "explore-heap-ordered-by-cutoff-key")
	c.Floor("explore-heap-ordered-by-cutoff-key", 2)
	checkAllWalkPassesKnownCommits(c, "all-walk-passes-known-commits")
	c.Floor("all-walk-passes-known-commits", 1)
}

// checkAllWalkPassesKnownCommits: the --all walk adds, reference by reference, the commits of each reference's history
// that are not collected yet. Meeting a commit that is already collected says nothing about the other parents of the
// merges seen so far: the walk over the reference's history may skip the known commit, it may not end there. In
// addReference the loop that drains the reference's iterator must have no `break` under the "already collected" test.
func checkAllWalkPassesKnownCommits(c *Ctx, rule string) {
	fi := c.MustFunc(rule, objShort+".addReference")
	if fi == nil {
		return
	}
	info := fi.Pkg.TypesInfo
	c.Analysed(fi)
	var loop *ast.ForStmt
	ast.Inspect(fi.Decl.Body, func(n ast.Node) bool {
		fs, ok := n.(*ast.ForStmt)
		if !ok {
			return true
		}
		if nodeHasCall(fs, false, func(call *ast.CallExpr) bool {
			sel, ok := unparen(call.Fun).(*ast.SelectorExpr)
			return ok && sel.Sel.Name == "Next"
		}) != nil && loop == nil {
			loop = fs
		}
		return true
	})
	if loop == nil {
		c.Unresolved(rule, fi.Name()+":drain-loop", fi.Decl.Pos(), "no loop that drains the reference's iterator found")
		return
	}
	// flags of lookups in the collected set: `x, exists = lookup[c.Hash]`
	flags := map[types.Object]bool{}
	ast.Inspect(loop, func(n ast.Node) bool {
		if as, ok := n.(*ast.AssignStmt); ok && len(as.Lhs) == 2 && len(as.Rhs) == 1 {
			if _, isIx := unparen(as.Rhs[0]).(*ast.IndexExpr); isIx {
				if o := objOf(info, as.Lhs[1]); o != nil {
					flags[o] = true
				}
			}
		}
		return true
	})
	bad := token.NoPos
	ast.Inspect(loop.Body, func(n ast.Node) bool {
		ifs, ok := n.(*ast.IfStmt)
		if !ok {
			return true
		}
		uses := false
		ast.Inspect(ifs.Cond, func(m ast.Node) bool {
			if id, ok := m.(*ast.Ident); ok && flags[info.Uses[id]] {
				uses = true
			}
			return true
		})
		if !uses {
			return true
		}
		for _, st := range ifs.Body.List {
			if br, ok := st.(*ast.BranchStmt); ok && br.Tok == token.BREAK {
				bad = br.Pos()
			}
		}
		return true
	})
	c.Check(!bad.IsValid(), rule, fi.Name()+":stops-at-known-commit", orPos(bad, loop.Pos()), orStr(ifStr(bad.IsValid(), "the walk over a reference's history ends at the first commit that is already collected: commits reachable only through another parent of a merge seen before that point are never collected and are missing from log --all"),
		"already collected commits are passed over, the walk goes on"))
}

// checkExploreHeapOrder: the topological commit-graph walker stops exploring when the top of its explore heap has a
// generation below the level it needs (`top.GenerationV2() < minimumLevel`, or Generation() without v2 data). That cut
// is only sound if the heap is ordered by the same quantity: everything still in the heap is then below the level,
// too. So the comparator the explore heaps are built with must order its two operands by each accessor the cut uses
// (an ordering comparison of left.Acc() with right.Acc()); ordered by anything else — commit time under clock skew —
// the cut leaves edges uncounted, parents come out before children and commits twice.
func checkExploreHeapOrder(c *Ctx, rule string) {
	p := c.P
	const cgo = "plumbing/object/commitgraph"
	pk := p.Pkg(cgo)
	if pk == nil {
		c.Unresolved(rule, "package "+cgo, 0, "not loaded")
		return
	}
	info := pk.TypesInfo
	next := c.MustFunc(rule, cgo+".(*commitNodeIteratorTopological).Next")
	if next == nil {
		return
	}
	c.Analysed(next)
	// accessors used in a cut: `if X.Acc() < V { break }` inside a loop
	accs := map[string]token.Pos{}
	ast.Inspect(next.Decl.Body, func(n ast.Node) bool {
		ifs, ok := n.(*ast.IfStmt)
		if !ok || len(ifs.Body.List) != 1 {
			return true
		}
		if br, ok := ifs.Body.List[0].(*ast.BranchStmt); !ok || br.Tok != token.BREAK {
			return true
		}
		be, ok := unparen(ifs.Cond).(*ast.BinaryExpr)
		if !ok || (be.Op != token.LSS && be.Op != token.LEQ) {
			return true
		}
		if call, ok := unparen(be.X).(*ast.CallExpr); ok && len(call.Args) == 0 {
			if sel, ok := unparen(call.Fun).(*ast.SelectorExpr); ok {
				accs[sel.Sel.Name] = ifs.Pos()
			}
		}
		return true
	})
	if len(accs) == 0 {
		c.Unresolved(rule, next.Name()+":cut", next.Decl.Pos(), "no `if top.Acc() < level { break }` cut found")
		return
	}
	// the explore loop (the loop that pops the explore heap) is left only when the heap is empty or at the generation
	// cut: any other exit leaves the in-degrees of the remaining entries' ancestors uncounted (upstream's
	// compute_indegrees_to_depth stops at the cut-off only)
	ast.Inspect(next.Decl.Body, func(n ast.Node) bool {
		loop, ok := n.(*ast.ForStmt)
		if !ok {
			return true
		}
		popsExplore := nodeHasCall(loop.Body, false, func(call *ast.CallExpr) bool {
			sel, ok := unparen(call.Fun).(*ast.SelectorExpr)
			if !ok || sel.Sel.Name != "Pop" {
				return false
			}
			inner, ok := unparen(sel.X).(*ast.SelectorExpr)
			return ok && inner.Sel.Name == "exploreStack"
		}) != nil
		if !popsExplore {
			return true
		}
		k := 0
		var walk func(st ast.Stmt, conds []ast.Expr)
		walk = func(st ast.Stmt, conds []ast.Expr) {
			switch v := st.(type) {
			case *ast.BranchStmt:
				if v.Tok != token.BREAK {
					return
				}
				k++
				why := ""
				if len(conds) > 0 {
					cond := unparen(conds[len(conds)-1])
					if u, ok := cond.(*ast.UnaryExpr); ok && u.Op == token.NOT {
						if id, ok := unparen(u.X).(*ast.Ident); ok && id.Name == "ok" {
							why = "the heap is empty"
						}
					}
					if be, ok := cond.(*ast.BinaryExpr); ok && (be.Op == token.LSS || be.Op == token.LEQ) {
						if call, ok := unparen(be.X).(*ast.CallExpr); ok {
							if sel, ok := unparen(call.Fun).(*ast.SelectorExpr); ok {
								if _, isAcc := accs[sel.Sel.Name]; isAcc {
									why = "the generation cut (" + sel.Sel.Name + ")"
								}
							}
						}
					}
				}
				desc := "unconditional"
				if len(conds) > 0 {
					desc = exprString(conds[len(conds)-1])
				}
				c.Check(why != "", rule, next.Name()+":explore-exit#"+itoa(k)+" ["+desc+"]", v.Pos(), orStr(ifStr(why == "", "the explore loop is left for a reason other than an empty heap or the generation cut: the in-degrees of the remaining entries' ancestors are never counted, so parents can be emitted before their children and again later"), why))
			case *ast.IfStmt:
				for _, s := range v.Body.List {
					walk(s, append(conds[:len(conds):len(conds)], v.Cond))
				}
				if els, ok := v.Else.(*ast.BlockStmt); ok {
					for _, s := range els.List {
						walk(s, append(conds[:len(conds):len(conds)], v.Cond))
					}
				} else if els, ok := v.Else.(*ast.IfStmt); ok {
					walk(els, conds)
				}
			case *ast.BlockStmt:
				for _, s := range v.List {
					walk(s, conds)
				}
			}
		}
		for _, s := range loop.Body.List {
			walk(s, nil)
		}
		return true
	})
	// comparators handed to binaryheap.NewWith in the package
	comps := map[*FuncInfo]bool{}
	for _, fi := range p.FuncsIn(cgo) {
		if fi.Decl.Body == nil || p.isTestFile(fi.Decl.Pos()) {
			continue
		}
		walkCalls(fi.Decl.Body, true, func(call *ast.CallExpr) {
			fn := Callee(info, call)
			if fn == nil || fn.Name() != "NewWith" || len(call.Args) != 1 {
				return
			}
			if cf := p.FuncOf(func() *types.Func { f, _ := objOf(info, call.Args[0]).(*types.Func); return f }()); cf != nil {
				comps[cf] = true
			}
		})
	}
	if len(comps) == 0 {
		c.Unresolved(rule, cgo+":comparators", next.Decl.Pos(), "no comparator handed to binaryheap.NewWith found")
		return
	}
	for cmp := range comps {
		c.Analysed(cmp)
		for acc := range accs {
			ordered := false
			ast.Inspect(cmp.Decl.Body, func(n ast.Node) bool {
				be, ok := n.(*ast.BinaryExpr)
				if !ok || (be.Op != token.LSS && be.Op != token.GTR && be.Op != token.LEQ && be.Op != token.GEQ) {
					return true
				}
				recv := func(e ast.Expr) types.Object {
					call, ok := unparen(e).(*ast.CallExpr)
					if !ok || len(call.Args) != 0 {
						return nil
					}
					sel, ok := unparen(call.Fun).(*ast.SelectorExpr)
					if !ok || sel.Sel.Name != acc {
						return nil
					}
					return objOf(info, sel.X)
				}
				l, r := recv(be.X), recv(be.Y)
				if l != nil && r != nil && l != r {
					ordered = true
				}
				return true
			})
			c.Check(ordered, rule, cmp.Name()+":"+acc, cmp.Decl.Pos(), orStr(ifStr(!ordered, "the walker cuts exploration on "+acc+"() of the heap's top, but the comparator the heap is built with never orders its operands by "+acc+"(): entries below the top can still be above the level, their edges are not counted, parents are emitted before children and commits twice (clock skew makes commit time and generation disagree)"),
				"the heap is ordered by "+acc+"(), the quantity the cut tests"))
		}
	}
}
