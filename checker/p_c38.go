package main

import (
	"go/ast"
	"go/token"
	"go/types"
	"strings"
)

func init() {
	register(&propSpec{
		ID: "C38",
		Explanation: "Decides the update-rule gate and the provenance of the pack's exclusion set, not the remote end state: (push-command-guarded) every push command appended to the command list in package git " +
			"whose old value may be non-zero is reachable only across the success edge of checkFastForwardUpdate, the true edge of RefSpec.IsForceUpdate, or the success edge of checkForceWithLease; commands built " +
			"without an Old value are creations; deletions are built only in a function all of whose call sites are on an IsDelete()/prune edge; (lease-and-ff-rules) checkForceWithLease rejects when cmd.Old differs from " +
			"the expected value, checkFastForwardUpdate returns nil only for a genuinely absent remote ref or isFastForward == true, checkTagUpdate rejects existing tags; (haves-from-remote) the exclusion set handed to " +
			"revlist.Objects in sendPack is built only from the remote's advertised references and the local shallow list — never from local references; (force-rewrites-refspecs) PushOptions.Force only adds '+' to refspecs. " +
			"(refspec-direction) in functions reachable from PushContext and not from fetch, a callback over the remote's references applies a RefSpec (Match, Dst) to the reference's name only through a value obtained from Reverse(). " +
			"(lease-compared-on-every-accepting-path) checkForceWithLease accepts a command only across the equal edge of the comparison of cmd.Old with the leased value, or where the lease names another reference: 'absent on the remote' is a value the lease must match too. " +
			"Not decided: that the remote ends with the pushed objects; isFastForward's graph walk (C42).",
		Assumptions: []string{"the remote advertisement is truthful", "revlist.Objects is correct (C37)"},
		Run:         runC38,
	})
}

func runC38(c *Ctx) {
	p := c.P
	pk := p.Pkg("git")
	if pk == nil {
		c.Unresolved("push-command-guarded", "package git", 0, "not loaded")
		return
	}
	info := pk.TypesInfo
	cmdPtr := "*" + modPath + "/plumbing/protocol/packp.Command"
	zeroHash := p.lookupObj("plumbing", "ZeroHash")
	ffFn := p.Func("git.checkFastForwardUpdate")
	leaseFn := p.Func("git.(*Remote).checkForceWithLease")
	tagFn := p.Func("git.checkTagUpdate")
	if leaseFn != nil {
		// lease-compared-on-every-accepting-path: "absent" is a remote value like any other. checkForceWithLease may accept a
		// command only where the remote's value (cmd.Old) was compared with the leased one and found equal, or where the lease
		// names another reference; an accepting return in front of the comparison (for creations, say) lets a push re-create
		// a branch that was deleted on the remote although the lease still expects its old value.
		pass := FactGuard(func(f *Flow, fact Fact) bool {
			mentions := func(field string) bool {
				found := false
				ast.Inspect(fact.Atom, func(n ast.Node) bool {
					if sel, ok := n.(*ast.SelectorExpr); ok && sel.Sel.Name == field {
						if fv, ok := f.Info.Uses[sel.Sel].(*types.Var); ok && fv.IsField() {
							found = true
						}
					}
					return !found
				})
				return found
			}
			be, ok := unparen(fact.Atom).(*ast.BinaryExpr)
			if !ok {
				return false
			}
			if mentions("Old") {
				// cmd.Old != expected is false, or cmd.Old == expected is true
				return (be.Op == token.NEQ && !fact.Truth) || (be.Op == token.EQL && fact.Truth)
			}
			// the lease is about another reference: the applicability condition is false
			return mentions("RefName") && !fact.Truth
		})
		SuccessReturnsGuarded(c, "lease-compared-on-every-accepting-path", leaseFn, pass, "the comparison of the remote's value with the leased one (or the lease naming another reference)")
	}
	if ffFn == nil || leaseFn == nil || tagFn == nil {
		c.Unresolved("push-command-guarded", "git.{checkFastForwardUpdate,checkForceWithLease,checkTagUpdate}", 0, "anchor not found")
		return
	}
	isForceQ := modPath + "/config.RefSpec.IsForceUpdate"
	isDeleteQ := modPath + "/config.RefSpec.IsDelete"
	pass := AnyGuard(
		ErrGuard(func(_ *Flow, call *ast.CallExpr) bool { return Callee(info, call) == ffFn.Obj }),
		ErrGuard(func(_ *Flow, call *ast.CallExpr) bool { return Callee(info, call) == leaseFn.Obj }),
		FactGuard(func(_ *Flow, fact Fact) bool {
			call, ok := unparen(fact.Atom).(*ast.CallExpr)
			return ok && fact.Truth && calleeIs(info, isForceQ)(call)
		}),
	)
	const r1 = "push-command-guarded"
	for _, fi := range p.FuncsIn("git") {
		if fi.Decl.Body == nil || p.isTestFile(fi.Decl.Pos()) {
			continue
		}
		type app struct {
			as   *ast.AssignStmt
			elem ast.Expr
		}
		var apps []app
		ast.Inspect(fi.Decl.Body, func(n ast.Node) bool {
			as, ok := n.(*ast.AssignStmt)
			if !ok || len(as.Rhs) != 1 {
				return true
			}
			call, ok := unparen(as.Rhs[0]).(*ast.CallExpr)
			if !ok || len(call.Args) < 2 || !nodeHasBuiltin(info, call, "append") {
				return true
			}
			tv, ok := info.Types[call.Args[1]]
			if !ok || tv.Type == nil || types.TypeString(tv.Type, nil) != cmdPtr {
				return true
			}
			apps = append(apps, app{as, call.Args[1]})
			return true
		})
		if len(apps) == 0 {
			continue
		}
		c.Analysed(fi)
		f := p.FlowOf(fi)
		d := newDeriver(info, fi.Decl)
		for i, a := range apps {
			key := fi.Name() + ":append#" + itoa(i+1)
			// what is appended?
			var lit *ast.CompositeLit
			e := unparen(a.elem)
			if u, ok := e.(*ast.UnaryExpr); ok && u.Op == token.AND {
				lit, _ = unparen(u.X).(*ast.CompositeLit)
			}
			var cmdObj types.Object
			if lit == nil {
				cmdObj = objOf(info, e)
				if cmdObj != nil {
					for _, def := range d.defs[cmdObj] {
						if u, ok := unparen(def).(*ast.UnaryExpr); ok && u.Op == token.AND {
							lit, _ = unparen(u.X).(*ast.CompositeLit)
						}
					}
				}
			}
			if lit == nil {
				c.Unresolved(r1, key, a.as.Pos(), "cannot find the literal that builds the appended command")
				continue
			}
			fieldVal := func(name string) ast.Expr {
				for _, el := range lit.Elts {
					if kv, ok := el.(*ast.KeyValueExpr); ok {
						if id, ok := kv.Key.(*ast.Ident); ok && id.Name == name {
							return kv.Value
						}
					}
				}
				return nil
			}
			isZero := func(e ast.Expr) bool {
				if e == nil {
					return true
				}
				if sel, ok := unparen(e).(*ast.SelectorExpr); ok && info.Uses[sel.Sel] == zeroHash {
					return true
				}
				return false
			}
			oldReassigned := false
			if cmdObj != nil {
				ast.Inspect(fi.Decl.Body, func(n ast.Node) bool {
					if as, ok := n.(*ast.AssignStmt); ok {
						for _, l := range as.Lhs {
							if sel, ok := unparen(l).(*ast.SelectorExpr); ok && sel.Sel.Name == "Old" && objOf(info, sel.X) == cmdObj {
								oldReassigned = true
							}
						}
					}
					return true
				})
			}
			newV := fieldVal("New")
			switch {
			case newV != nil && isZero(newV) && fieldVal("New") != nil:
				// deletion: only on explicit request — every call site of this function is on an IsDelete()/prune edge
				sites := p.CallSites(func(_ *types.Info, _ *ast.CallExpr, callee *types.Func) bool { return callee == fi.Obj })
				ok := len(sites) > 0
				why := ""
				for _, s := range sites {
					if p.isTestFile(s.Call.Pos()) {
						continue
					}
					cf := p.FlowOf(s.In)
					explicit := FactGuard(func(_ *Flow, fact Fact) bool {
						if call, isCall := unparen(fact.Atom).(*ast.CallExpr); isCall && fact.Truth && calleeIs(info, isDeleteQ)(call) {
							return true
						}
						if o := objOf(info, fact.Atom); o != nil && fact.Truth && o.Name() == "prune" {
							return true
						}
						return false
					})
					for _, loc := range cf.sinkSites(true, func(cc *ast.CallExpr) bool { return cc == s.Call }) {
						if cf.UnguardedPath(explicit, loc) != nil {
							ok, why = false, "called from "+s.In.Name()+" without a delete refspec or prune"
						}
					}
				}
				c.Check(ok, r1, key+":delete", a.as.Pos(), orStr(why, "deletion commands are built only on the IsDelete()/prune edge of every caller"))
			case isZero(fieldVal("Old")) && !oldReassigned:
				c.Hold(r1, key+":create-only", a.as.Pos(), "the command is built without an old value: a creation")
			default:
				locs := f.Locs(func(n ast.Node) bool { return n == a.as })
				if len(locs) == 0 {
					c.Unresolved(r1, key, a.as.Pos(), "append not found in the CFG")
					continue
				}
				if h := f.UnguardedPath(pass, locs[0]); h != nil {
					c.Violate(r1, key, a.as.Pos(), "an update command is queued without a fast-forward check, a force refspec or a lease check (path through lines "+f.pathString(h)+")")
				} else {
					c.Hold(r1, key, a.as.Pos(), "queued only after checkFastForwardUpdate / IsForceUpdate() / checkForceWithLease")
				}
			}
		}
	}
	c.Floor(r1, 4)

	// lease-and-ff-rules
	const r2 = "lease-and-ff-rules"
	cmdT := p.lookupType("plumbing/protocol/packp", "Command")
	oldF := fieldOf(cmdT, "Old")
	RejectRule(c, r2, leaseFn, "old-differs-from-expected", func(info *types.Info, e ast.Expr) bool {
		be, ok := unparen(e).(*ast.BinaryExpr)
		return ok && be.Op == token.NEQ && condMentionsObj(oldF)(info, e)
	}, nil)
	RejectRule(c, r2, tagFn, "existing-tag", func(info *types.Info, e ast.Expr) bool {
		return condMentionsObj(oldF)(info, e) && condCalls(modPath+"/plumbing.ReferenceName.IsTag")(info, e)
	}, nil)
	// checkFastForwardUpdate: success returns only on (a) ErrReferenceNotFound edge inside the Old.IsZero branch, or (b) ff == true
	{
		f := p.FlowOf(ffFn)
		isFF := p.Func("git.isFastForward")
		notFound := p.lookupObj("plumbing", "ErrReferenceNotFound")
		okEdge := AnyGuard(
			FactGuard(func(_ *Flow, fact Fact) bool { // errors.Is(err, ErrReferenceNotFound) true
				return fact.Truth && condMentionsObj(notFound)(info, fact.Atom)
			}),
			FactGuard(func(fl *Flow, fact Fact) bool { // ff true  (`!ff` false)
				o := objOf(info, fact.Atom)
				if o == nil || !fact.Truth || isFF == nil {
					return false
				}
				for _, def := range newDeriver(info, ffFn.Decl).defs[o] {
					if call, ok := unparen(def).(*ast.CallExpr); ok && Callee(info, call) == isFF.Obj {
						return true
					}
				}
				return false
			}),
		)
		sink := func(n ast.Node) bool {
			r, ok := n.(*ast.ReturnStmt)
			return ok && len(r.Results) == 1 && isNil(info, r.Results[0])
		}
		h := f.GuardedSink(okEdge, sink)
		c.Analysed(ffFn)
		c.Check(h == nil && len(f.Locs(sink)) > 0, r2, ffFn.Name()+":nil-only-when-ff-or-absent", ffFn.Decl.Pos(), "returns nil only when the remote ref is absent or isFastForward reported true")
	}
	c.Floor(r2, 3)

	// haves-from-remote
	const r3 = "haves-from-remote"
	if sp := c.MustFunc(r3, "git.(*Remote).sendPack"); sp != nil {
		var remoteRefs types.Object
		for _, pv := range paramObjs(info, sp.Decl) {
			if types.TypeString(pv.Type(), nil) == modPath+"/plumbing/storer.ReferenceStorer" {
				remoteRefs = pv
			}
		}
		d := newDeriver(info, sp.Decl)
		found := false
		walkCalls(sp.Decl.Body, false, func(call *ast.CallExpr) {
			fn := Callee(info, call)
			if fn == nil || fn.Pkg() == nil || shortPkg(fn.Pkg().Path()) != "plumbing/revlist" || len(call.Args) < 3 {
				return
			}
			found = true
			havesObj := objOf(info, call.Args[2])
			if havesObj == nil || remoteRefs == nil {
				c.Unresolved(r3, sp.Name()+"->revlist."+fn.Name(), call.Pos(), "exclusion-set argument is not a plain variable or remote refs parameter missing")
				return
			}
			ok := true
			why := ""
			var check func(e ast.Expr, depth int)
			check = func(e ast.Expr, depth int) {
				e = unparen(e)
				if depth > 4 {
					ok, why = false, "definition chain too deep"
					return
				}
				switch v := e.(type) {
				case *ast.Ident:
					o := objOf(info, v)
					if o == havesObj {
						return
					}
					defs := d.defs[o]
					if len(defs) == 0 {
						ok, why = false, "no visible definition of "+v.Name
					}
					for _, def := range defs {
						check(def, depth+1)
					}
				case *ast.CallExpr:
					if nodeHasBuiltin(info, v, "append") && len(v.Args) >= 1 && objOf(info, v.Args[0]) == havesObj {
						for _, a := range v.Args[1:] {
							check(a, depth+1)
						}
						return
					}
					cal := Callee(info, v)
					if cal != nil && cal.Name() == "Shallow" {
						return // the local shallow boundary
					}
					// f(remoteRefs): all arguments are the remote-advertisement parameter
					if len(v.Args) > 0 {
						all := true
						for _, a := range v.Args {
							if objOf(info, a) != remoteRefs {
								all = false
							}
						}
						if all {
							return
						}
					}
					ok, why = false, "derived from "+exprString(v)+", which is not the remote advertisement nor the shallow list"
				default:
					ok, why = false, "derived from "+exprString(e)
				}
			}
			for _, def := range d.defs[havesObj] {
				check(def, 0)
			}
			c.Check(ok, r3, sp.Name()+"->revlist."+fn.Name()+":haves", call.Pos(), orStr(why, "the exclusion set comes only from the remote's advertised references and the shallow list"))
		})
		if !found {
			c.Unresolved(r3, sp.Name()+"->revlist", sp.Decl.Pos(), "no revlist call found")
		}
		// force-rewrites-refspecs: under o.Force only refspecs are rewritten (prefix "+")
		RejectRuleLoose(c, "force-rewrites-refspecs", sp)
	}
	c.Floor(r3, 1)

	// refspec-direction: a push refspec maps local names to remote names. Inside a callback that iterates the remote's
	// references (the parameter of the ForEach over <remote refs>.IterReferences()), a RefSpec is applied to the
	// reference's name (Match, Dst) only through a value obtained from Reverse(); applying the forward refspec to a
	// remote name yields a name that does not exist locally, so prune would delete live references.
	const r4 = "refspec-direction"
	gitPk := p.Pkg("git")
	nDir := 0
	if gitPk != nil {
		ginfo := gitPk.TypesInfo
		// only the push side: functions reachable from PushContext and not from fetch (fetch refspecs map remote to local)
		pushSide, fetchSide := map[*types.Func]bool{}, map[*types.Func]bool{}
		for _, fi := range p.staticClosure([]*FuncInfo{p.Func("git.(*Remote).PushContext")}) {
			pushSide[fi.Obj] = true
		}
		for _, fi := range p.staticClosure([]*FuncInfo{p.Func("git.(*Remote).fetch")}) {
			fetchSide[fi.Obj] = true
		}
		for _, fi := range p.FuncsIn("git") {
			if fi.Decl.Body == nil || p.isTestFile(fi.Decl.Pos()) || !pushSide[fi.Obj] || fetchSide[fi.Obj] {
				continue
			}
			// iterators obtained from a parameter/variable whose name says it holds the remote's references
			remoteIters := map[types.Object]bool{}
			ast.Inspect(fi.Decl.Body, func(n ast.Node) bool {
				as, ok := n.(*ast.AssignStmt)
				if !ok || len(as.Rhs) != 1 || len(as.Lhs) < 1 {
					return true
				}
				call, ok := unparen(as.Rhs[0]).(*ast.CallExpr)
				if !ok {
					return true
				}
				sel, ok := unparen(call.Fun).(*ast.SelectorExpr)
				if !ok || sel.Sel.Name != "IterReferences" {
					return true
				}
				if o := objOf(ginfo, sel.X); o != nil && strings.Contains(strings.ToLower(o.Name()), "remote") {
					if it := objOf(ginfo, as.Lhs[0]); it != nil {
						remoteIters[it] = true
					}
				}
				return true
			})
			if len(remoteIters) == 0 {
				continue
			}
			ast.Inspect(fi.Decl.Body, func(n ast.Node) bool {
				call, ok := n.(*ast.CallExpr)
				if !ok || len(call.Args) != 1 {
					return true
				}
				sel, ok := unparen(call.Fun).(*ast.SelectorExpr)
				if !ok || sel.Sel.Name != "ForEach" || !remoteIters[objOf(ginfo, sel.X)] {
					return true
				}
				lit, ok := unparen(call.Args[0]).(*ast.FuncLit)
				if !ok || len(lit.Type.Params.List) != 1 || len(lit.Type.Params.List[0].Names) != 1 {
					return true
				}
				refParam := ginfo.Defs[lit.Type.Params.List[0].Names[0]]
				// reversed refspec values inside the literal (and in the enclosing function)
				reversed := map[types.Object]bool{}
				ast.Inspect(fi.Decl.Body, func(m ast.Node) bool {
					as, ok := m.(*ast.AssignStmt)
					if !ok || len(as.Lhs) != 1 || len(as.Rhs) != 1 {
						return true
					}
					if rc, ok := unparen(as.Rhs[0]).(*ast.CallExpr); ok {
						if rs, ok := unparen(rc.Fun).(*ast.SelectorExpr); ok && rs.Sel.Name == "Reverse" {
							if o := ginfo.Defs[identOf(as.Lhs[0])]; o != nil {
								reversed[o] = true
							} else if o := objOf(ginfo, as.Lhs[0]); o != nil {
								reversed[o] = true
							}
						}
					}
					return true
				})
				ast.Inspect(lit.Body, func(m ast.Node) bool {
					mc, ok := m.(*ast.CallExpr)
					if !ok || len(mc.Args) != 1 || !usesObj(ginfo, mc.Args[0], refParam) {
						return true
					}
					ms, ok := unparen(mc.Fun).(*ast.SelectorExpr)
					if !ok || (ms.Sel.Name != "Match" && ms.Sel.Name != "Dst") {
						return true
					}
					tv := ginfo.Types[ms.X]
					if tv.Type == nil || !strings.HasSuffix(tv.Type.String(), "config.RefSpec") {
						return true
					}
					nDir++
					c.Analysed(fi)
					recv := ginfo.Uses[identOf(ms.X)]
					key := fi.Name() + ":" + ms.Sel.Name + "(" + exprString(mc.Args[0]) + ")#" + itoa(nDir)
					c.Check(recv != nil && reversed[recv], r4, key, mc.Pos(), orStr(ifStr(recv == nil || !reversed[recv], "a forward (local→remote) refspec is applied to the name of a remote reference; the result is not a local name, so the local counterpart is never found"),
						"the remote reference's name goes through the reversed refspec"))
					return true
				})
				return true
			})
		}
	}
	c.Check(nDir >= 2, r4, "git:remote-name-mappings", 0, itoa(nDir)+" refspec applications to remote reference names examined")
}

func identOf(e ast.Expr) *ast.Ident {
	id, _ := unparen(e).(*ast.Ident)
	return id
}

// RejectRuleLoose (C38): under `o.Force` the only assignments are to o.RefSpecs[i].
func RejectRuleLoose(c *Ctx, rule string, fi *FuncInfo) {
	info := fi.Pkg.TypesInfo
	found, ok := false, true
	ast.Inspect(fi.Decl.Body, func(n ast.Node) bool {
		ifs, isIf := n.(*ast.IfStmt)
		if !isIf {
			return true
		}
		sel, isSel := unparen(ifs.Cond).(*ast.SelectorExpr)
		if !isSel || sel.Sel.Name != "Force" {
			return true
		}
		found = true
		ast.Inspect(ifs.Body, func(m ast.Node) bool {
			if as, isAs := m.(*ast.AssignStmt); isAs && as.Tok == token.ASSIGN {
				for _, l := range as.Lhs {
					if ix, isIx := unparen(l).(*ast.IndexExpr); !isIx || !usesObjNamed(info, ix.X, "RefSpecs") {
						ok = false
					}
				}
			}
			return true
		})
		return true
	})
	c.Check(found && ok, rule, fi.Name()+":Force", fi.Decl.Pos(), "PushOptions.Force only marks the refspecs as forced; the per-command gate still runs")
}

func usesObjNamed(info *types.Info, e ast.Node, name string) bool {
	found := false
	ast.Inspect(e, func(n ast.Node) bool {
		if id, ok := n.(*ast.Ident); ok && id.Name == name {
			found = true
		}
		return !found
	})
	return found
}
