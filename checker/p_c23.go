package main

import (
	"go/ast"
	"go/token"
	"go/types"
	"sort"
)

func init() {
	register(&propSpec{
		ID: "C23",
		Explanation: "Decides the 'never race on shared memory' clause structurally: (guarded-by) every access to a field listed in the guard table (ObjectStorage{index,packs}→muI, " +
			"{alternates,alternatesInit,alternatesErr}→muA, DotGit{objectList,objectMap,packList,packMap}→listMu, {packHandles}→packHandlesMu, statIndexCache{cached,modTime,fileSize}→mu, " +
			"PackHandle{metaVal}→metaMu,{indexVal}→indexMu, SharedFile{…}→mu, Pool{…}→mu, ObjectLRU/BufferLRU{…}→mut) holds the mutex on every path (write mode for writes); " +
			"(publish-by-reassign) slices and maps that are handed out as snapshots (ObjectStorage.packs, DotGit.objectList/packList) are only ever replaced as a whole, never appended to or indexed for writing in place; " +
			"(lazy-init-on-read-path) every plain (non-atomic, non-sync) field of the shared storage structs that is assigned outside a constructor is in the guard table or in the reviewed exemption list, so a lazily " +
			"initialised field cannot be added without a lock; (lazy-init-blocks) every CompareAndSwap gate in the module is either the close-once idiom (negated, the losers return) or does not build receiver state in its body — " +
			"a one-time build behind a positive gate would let the losers read the half-built state; (lock-order, shared with C24) no SharedFile method calls the descriptor pool while holding its own mutex and the pool never calls Member.ReleaseNow while holding p.mu — " +
			"the two call each other, and an inversion is a deadlock after which no read on the storage returns. Not decided: spurious failures or not-found answers under particular schedules; races through aliased snapshots' elements.",
		Assumptions: []string{"sync.Mutex/RWMutex/Once/singleflight semantics", "constructors run before the value is shared"},
		Run:         runC23,
	})
}

func storageGuards() []GuardSpec {
	return []GuardSpec{
		{Pkg: "storage/filesystem", Type: "ObjectStorage", Mutex: "muI", Fields: []string{"index", "packs"}},
		{Pkg: "storage/filesystem", Type: "ObjectStorage", Mutex: "muA", Fields: []string{"alternates", "alternatesInit", "alternatesErr"}},
		{Pkg: "storage/filesystem", Type: "statIndexCache", Mutex: "mu", Fields: []string{"cached", "modTime", "fileSize"}},
		{Pkg: dotgitShort, Type: "DotGit", Mutex: "listMu", Fields: []string{"objectList", "objectMap", "packList", "packMap"}},
		{Pkg: dotgitShort, Type: "DotGit", Mutex: "packHandlesMu", Fields: []string{"packHandles"}},
	}
}

func runC23(c *Ctx) {
	p := c.P
	// readers share descriptors through SharedFile and the pool: an inverted lock order there blocks every reader (shared with C24)
	checkPoolLockOrder(c, "lock-order")
	const r1 = "guarded-by"
	n := 0
	for _, gs := range storageGuards() {
		n += CheckGuardedBy(c, r1, gs, nil, map[string]string{
			"storage/filesystem.NewObjectStorageWithOptions": "constructor: the value is not shared yet",
			"storage/filesystem.NewObjectStorage":            "constructor: the value is not shared yet",
			dotgitShort + ".NewWithOptions":                  "constructor: the value is not shared yet",
		})
	}
	// the descriptor-sharing types are part of the same read path (their tables are also checked under C24)
	for _, gs := range sharedfileGuards() {
		skip := map[string]string{}
		if gs.Type == "Pool" {
			skip["x/fdpool.New"] = "constructor: the value is not shared yet"
		}
		n += CheckGuardedBy(c, r1, gs, nil, skip)
	}
	c.Floor(r1, 45)

	// publish-by-reassign
	const r2 = "publish-by-reassign"
	type snap struct{ pkg, typ, field string }
	for _, s := range []snap{{"storage/filesystem", "ObjectStorage", "packs"}, {dotgitShort, "DotGit", "objectList"}, {dotgitShort, "DotGit", "packList"}} {
		tn := p.lookupType(s.pkg, s.typ)
		fv := fieldOf(tn, s.field)
		if fv == nil {
			c.Unresolved(r2, s.pkg+"."+s.typ+"."+s.field, 0, "field not found")
			continue
		}
		for _, u := range p.fieldUses(fv) {
			info := p.ByPath[u.Pkg].TypesInfo
			in := funcNameOr(u.In, "<pkg>")
			bad := ""
			ast.Inspect(u.File, func(x ast.Node) bool {
				switch v := x.(type) {
				case *ast.AssignStmt:
					for i, l := range v.Lhs {
						// element write: s.f[i] = …
						if ix, ok := unparen(l).(*ast.IndexExpr); ok && unparen(ix.X) == ast.Expr(u.Sel) {
							bad = "element assigned in place"
						}
						// s.f = append(s.f, …)
						if unparen(l) == ast.Expr(u.Sel) && i < len(v.Rhs) {
							if call, ok := unparen(v.Rhs[i]).(*ast.CallExpr); ok && nodeHasBuiltin(info, call, "append") && len(call.Args) > 0 {
								if a0, ok := unparen(call.Args[0]).(*ast.SelectorExpr); ok && info.Uses[a0.Sel] == fv {
									bad = "appended in place (may write into the backing array of a snapshot)"
								}
							}
						}
					}
				}
				return true
			})
			if _, isLHS := assignedIn(u.File, u.Sel); isLHS || bad != "" {
				c.Check(bad == "", r2, in+":"+s.typ+"."+s.field, u.Sel.Pos(), orStr(bad, "replaced as a whole"))
			}
		}
	}
	c.Floor(r2, 5)

	// lazy-init-on-read-path
	const r3 = "lazy-init-on-read-path"
	guarded := map[string]bool{}
	for _, gs := range append(storageGuards(), sharedfileGuards()...) {
		for _, f := range gs.Fields {
			guarded[gs.Pkg+"."+gs.Type+"."+f] = true
		}
	}
	exempt := map[string]string{
		"storage/filesystem.ObjectStorage.oh":              "assigned only while the storage is being set up (SetObjectFormat / constructor), before concurrent use",
		"storage/filesystem.ObjectStorage.options":         "configuration, written by the constructor and SetObjectFormat before concurrent use",
		dotgitShort + ".DotGit.options":                    "configuration, written by the constructor and SetObjectFormat before concurrent use",
		dotgitShort + ".DotGit.incomingDirName":            "written once inside incomingOnce.Do (sync.Once gives the happens-before edge)",
		"internal/packhandle.PackHandle.closeFn":           "assigned in the constructor only",
		"plumbing/format/idxfile.LazyIndex.count":          "assigned during init() before the index is published",
		"plumbing/format/idxfile.LazyIndex.fanout":         "assigned during init() before the index is published",
	}
	type shared struct{ pkg, typ string }
	for _, s := range []shared{{"storage/filesystem", "ObjectStorage"}, {dotgitShort, "DotGit"}, {"internal/packhandle", "PackHandle"}, {sfShort, "SharedFile"}, {"x/fdpool", "Pool"}, {"storage/filesystem", "statIndexCache"}} {
		tn := p.lookupType(s.pkg, s.typ)
		if tn == nil {
			c.Unresolved(r3, s.pkg+"."+s.typ, 0, "type not found")
			continue
		}
		st := tn.Type().Underlying().(*types.Struct)
		for i := 0; i < st.NumFields(); i++ {
			f := st.Field(i)
			ts := types.TypeString(f.Type(), nil)
			if hasPrefixAny(ts, "sync.", "sync/atomic.", "golang.org/x/sync/") {
				continue
			}
			key := s.pkg + "." + s.typ + "." + f.Name()
			// writers outside constructors
			var writers []string
			var pos token.Pos
			for _, u := range p.fieldUses(f) {
				if !isWriteAccess(u.File, u.Sel) {
					continue
				}
				in := funcNameOr(u.In, "<pkg>")
				if u.In != nil && (isConstructorName(u.In.Obj.Name())) {
					continue
				}
				writers = append(writers, in)
				if pos == token.NoPos {
					pos = u.Sel.Pos()
				}
			}
			if len(writers) == 0 {
				continue
			}
			sort.Strings(writers)
			switch {
			case guarded[key]:
				c.Hold(r3, key, pos, "written after construction; covered by the guard table")
			case exempt[key] != "":
				c.Hold(r3, key, pos, "written after construction by "+writers[0]+"; reviewed: "+exempt[key])
			default:
				c.Violate(r3, key, pos, "plain field of a shared storage object is written after construction (by "+writers[0]+") but is neither mutex-guarded nor reviewed: a lazily initialised field on the read path races")
			}
		}
	}
	c.Floor(r3, 15)

	// lazy-init-blocks: a one-time build of shared state must make every concurrent caller wait for it (sync.Once.Do, or
	// a build under the write lock). `if flag.CompareAndSwap(false, true) { build() }` does not: the callers that lose
	// the race go on and read the half-built state. CompareAndSwap gates are inventoried: the "close once" idiom
	// (`if !x.CompareAndSwap(false, true) { return … }`) is fine, a positive gate whose body calls a method of the same
	// receiver that writes its fields is not.
	const r4 = "lazy-init-blocks"
	nCAS := 0
	for _, fi := range p.Funcs() {
		if fi.Decl.Body == nil || p.isTestFile(fi.Decl.Pos()) || !production(fi.Pkg) || fi.Decl.Recv == nil || len(fi.Decl.Recv.List) == 0 || len(fi.Decl.Recv.List[0].Names) == 0 {
			continue
		}
		finfo := fi.Pkg.TypesInfo
		recv := finfo.Defs[fi.Decl.Recv.List[0].Names[0]]
		ast.Inspect(fi.Decl.Body, func(n ast.Node) bool {
			ifs, ok := n.(*ast.IfStmt)
			if !ok {
				return true
			}
			cond := unparen(ifs.Cond)
			negated := false
			if u, isNot := cond.(*ast.UnaryExpr); isNot && u.Op == token.NOT {
				negated = true
				cond = unparen(u.X)
			}
			call, isCall := cond.(*ast.CallExpr)
			if !isCall {
				return true
			}
			sel, isSel := unparen(call.Fun).(*ast.SelectorExpr)
			if !isSel || sel.Sel.Name != "CompareAndSwap" {
				return true
			}
			nCAS++
			c.Analysed(fi)
			key := fi.Name() + ":" + exprString(sel.X)
			if negated {
				c.Hold(r4, key, ifs.Pos(), "close-once idiom: the losers return, nothing is built")
				return true
			}
			builds := false
			ast.Inspect(ifs.Body, func(m ast.Node) bool {
				mc, isC := m.(*ast.CallExpr)
				if !isC {
					return true
				}
				ms, isS := unparen(mc.Fun).(*ast.SelectorExpr)
				if !isS || objOf(finfo, ms.X) != recv {
					return true
				}
				if fn := Callee(finfo, mc); fn != nil && p.methodMayMutateReceiver(fn) {
					builds = true
				}
				return true
			})
			c.Check(!builds, r4, key, ifs.Pos(), orStr(ifStr(builds, "shared state is built inside a CompareAndSwap gate: callers that lose the race continue without waiting and read the half-built state (use sync.Once or build under the lock)"),
				"the gate does not build shared state"))
			return true
		})
	}
	c.Check(nCAS >= 2, r4, "module:compare-and-swap-gates", 0, itoa(nCAS)+" CompareAndSwap gates examined")
}

func isConstructorName(n string) bool {
	return len(n) >= 3 && (n[:3] == "New" || n[:3] == "new")
}
