package main

import (
	"go/ast"
	"go/token"
	"go/types"

	"golang.org/x/tools/go/cfg"
)

// exactInflateAllPaths: from the copy that inflates an entry into the bounded writer, no successful return (nil error)
// is reachable without crossing the edge on which the byte count is known to equal the declared size.
func exactInflateAllPaths(c *Ctx, rule string, fi *FuncInfo, call *ast.CallExpr) {
	p := c.P
	info := fi.Pkg.TypesInfo
	var cnt types.Object
	ast.Inspect(fi.Decl.Body, func(n ast.Node) bool {
		if as, ok := n.(*ast.AssignStmt); ok && len(as.Rhs) == 1 && unparen(as.Rhs[0]) == ast.Expr(call) && len(as.Lhs) >= 1 {
			cnt = objOf(info, as.Lhs[0])
		}
		return true
	})
	fl := p.FlowOf(fi)
	locs := fl.Locs(func(nd ast.Node) bool {
		return nodeHasCall(nd, false, func(cc *ast.CallExpr) bool { return cc == call }) != nil
	})
	if cnt == nil || len(locs) == 0 {
		return
	}
	equal := FactGuard(func(_ *Flow, fact Fact) bool {
		be, ok := unparen(fact.Atom).(*ast.BinaryExpr)
		if !ok || !usesObj(info, be, cnt) {
			return false
		}
		return (be.Op == token.EQL && fact.Truth) || (be.Op == token.NEQ && !fact.Truth)
	})
	// only functions with an error result have "successful returns"
	sig := fi.Obj.Type().(*types.Signature)
	if sig.Results().Len() == 0 || !types.Identical(sig.Results().At(sig.Results().Len()-1).Type(), types.Universe.Lookup("error").Type()) {
		return
	}
	h := fl.Search(SearchOpts{Starts: []Loc{After(locs[0])}, BlockEdge: func(b *cfg.Block, i int) bool { return equal(fl, b, i) }, Sink: func(nd ast.Node) bool {
		r, ok := nd.(*ast.ReturnStmt)
		if !ok {
			return false
		}
		if len(r.Results) == 0 {
			// named results: a bare return after the copy; treat as successful only if no error was assigned — not decided
			return false
		}
		return isNil(info, r.Results[len(r.Results)-1])
	}})
	c.Check(h == nil, rule, fi.Name()+"->copy-into-boundedWriter:all-paths", call.Pos(), orStr(ifStr(h != nil, "a successful return is reachable from the inflate without the inflated length having been compared with the declared size: entries on that path (delta entries, if the check sits in the branch for the other types) may inflate to fewer bytes than their header declares and are accepted, while git index-pack rejects the pack"),
		"every successful return lies behind the comparison of the inflated length with the declared size"))
}
