package main

import (
	"go/ast"
	"go/token"
	"go/types"
)

// checkZipAttrsAndPathspecs (C50):
//
// (zip-unix-attrs-only-for-exec-and-links) git's zip writer gives Unix attributes to executables (the tree's mode) and
// symbolic links only; a plain file has none, and the tar umask is tar's alone (archive-zip.c). In WriteZipArchive every
// SetMode on a file's header sits in a switch case for the Executable or Symlink mode, and the function does not call
// ApplyUmask — with the umask applied, files unpack group-writable (0664/0775) where git's unpack as 0644/0755.
//
// (every-pathspec-must-match) git archive refuses a request any of whose pathspecs matches no file. Both writers record
// which filter selected something (a matcher taking a []bool) and return an error behind a test of that record.
func checkZipAttrsAndPathspecs(c *Ctx, r1, r2 string) {
	p := c.P
	const ar = "internal/archive"
	if zw := c.MustFunc(r1, ar+".WriteZipArchive"); zw != nil {
		c.Analysed(zw)
		info := zw.Pkg.TypesInfo
		umask := nodeHasCall(zw.Decl.Body, true, func(call *ast.CallExpr) bool {
			fn := Callee(info, call)
			return fn != nil && (fn.Name() == "ApplyUmask" || fn.Name() == "ApplyUmaskDir")
		})
		c.Check(umask == nil, r1, zw.Name()+":no-tar-umask", orPos(nodePos(umask), zw.Decl.Pos()), orStr(ifStr(umask != nil, "the tar umask is applied to zip entries: files unpack as 0664/0775 where git's zip gives 0644-by-default/0755"), "the tar umask is not applied to zip entries"))
		n := 0
		var bad *ast.CallExpr
		ast.Inspect(zw.Decl.Body, func(nd ast.Node) bool {
			call, ok := nd.(*ast.CallExpr)
			if !ok {
				return true
			}
			fn := Callee(info, call)
			if fn == nil || fn.Name() != "SetMode" {
				return true
			}
			n++
			okCase := false
			for _, anc := range pathTo(zw.Decl.Body, call) {
				if cc, isCase := anc.(*ast.CaseClause); isCase {
					for _, e := range cc.List {
						if o := objOfSel(info, e); o != nil && (o.Name() == "Executable" || o.Name() == "Symlink") {
							okCase = true
						}
					}
				}
			}
			if !okCase {
				bad = call
			}
			return true
		})
		c.Check(bad == nil && n >= 2, r1, zw.Name()+":SetMode-sites", orPos(nodePos(bad), zw.Decl.Pos()), orStr(ifStr(bad != nil || n < 2, ifElse(bad != nil, "a file's zip header gets Unix attributes outside the cases for executables and symbolic links: plain files carry none in git's archives", "fewer than the two SetMode sites (executable, symlink) found")),
			"Unix attributes are set for executables and symbolic links only"))
	}
	for _, name := range []string{"WriteTarArchive", "WriteZipArchive"} {
		fi := c.MustFunc(r2, ar+"."+name)
		if fi == nil {
			continue
		}
		c.Analysed(fi)
		info := fi.Pkg.TypesInfo
		var record types.Object
		walkCalls(fi.Decl.Body, true, func(call *ast.CallExpr) {
			if !isPathMatcher(Callee(info, call)) {
				return
			}
			for _, a := range call.Args {
				if tv := info.Types[a]; tv.Type != nil && types.TypeString(tv.Type, nil) == "[]bool" {
					record = objOf(info, a)
				}
			}
		})
		if record == nil {
			c.Violate(r2, fi.Name()+":per-filter-record", fi.Decl.Pos(), "the writer does not record which path filter selected something: a request with one matching and one non-matching pathspec yields an archive where git archive refuses (`pathspec 'x' did not match any files`)")
			continue
		}
		refuses := false
		ast.Inspect(fi.Decl.Body, func(nd ast.Node) bool {
			ifs, ok := nd.(*ast.IfStmt)
			if !ok {
				return true
			}
			uses := (ifs.Init != nil && usesObj(info, ifs.Init, record)) || usesObj(info, ifs.Cond, record)
			if !uses {
				return true
			}
			for _, st := range ifs.Body.List {
				if r, isRet := st.(*ast.ReturnStmt); isRet && returnsNonNilError(info, fi.Decl.Body, r) {
					refuses = true
				}
			}
			return true
		})
		c.Check(refuses, r2, fi.Name()+":unmatched-refused", fi.Decl.Pos(), orStr(ifStr(!refuses, "the per-filter record is never turned into a refusal"), "a filter that selected nothing makes the writer return an error"))
	}
	_ = p
}

func nodePos(c *ast.CallExpr) token.Pos {
	if c == nil {
		return token.NoPos
	}
	return c.Pos()
}
