package main

import (
	"fmt"
	"go/ast"
	"go/constant"
	"go/token"
	"go/types"
	"sort"
	"strings"

	"golang.org/x/tools/go/cfg"
)

func init() {
	register(&propSpec{
		ID: "C35",
		Explanation: "Decides table consistency and field coverage of the smart-protocol messages, not value round-trip: (capability-tables) every capability that requiresArgument lists is known, every capability that allows multiple arguments " +
			"requires one; (message-codec-coverage) for every type of plumbing/protocol/packp that has both Encode(io.Writer) error and Decode(io.Reader) error, each exported field read by the functions reachable from Encode is also written by the " +
			"functions reachable from Decode (a field that is sent but never parsed cannot round-trip); (decode-accepts-encoded-order) for UploadRequest, whose decoder is a hand-written sequence of loops: for every decoder loop and every line kind the encoder " +
			"writes after the kinds that loop consumes, a three-valued evaluation of the decoder's branch conditions under the assumption 'the line just read has that kind' reaches the condition that recognises the kind before any rejecting return " +
			"(so want→shallow→deepen*→filter orderings produced by Encode are not refused); (depth-lines-independent) with Deepen == 0, DeepenSince set and a DeepenNot entry, UploadRequest.Encode writes the deepen-since line and then still reaches the write of a deepen-not line (the two may be combined; only `deepen <n>` excludes them). Not decided: equality of decoded values; that git parses go-git's bytes.",
		Assumptions: []string{},
		Run:         runC35,
	})
	register(&propSpec{
		ID: "C48",
		Explanation: "Decides writer/reader agreement of the typed configuration layer, not git's syntax: (config-section-coverage) the section names Config.marshal* functions write are the section names Config.unmarshal* functions read; " +
			"(config-key-coverage) per section-level type (Config core/user/…, RemoteConfig, Branch, Submodule, URL) every key constant written by the marshal side is read by the unmarshal side of the same package. " +
			"(config-escape-tables) the low-level encoder formats with %s only (no Go-quoting verb), subsection names reach the output only through a replacer whose table is exactly {\" -> \\\", \\ -> \\\\}, and option values are written raw only on the " +
			"false edge of the needs-quoting test (# ; \" \\ LF at least) and otherwise through a table of git-config value escapes. (cached-subsection-follows-section) the decoder's callback keeps no value between options that was computed from another kept value and can outlive its replacement (a subsection remembered across a change of section). Not decided: the parser's (gcfg) agreement with git, boolean/number interpretation.",
		Assumptions: []string{},
		Run:         runC48,
	})
	register(&propSpec{
		ID: "C17",
		Explanation: "Decides interface-level and sentinel-level agreement between storage backends, not behavioural equality: (storer-coverage) memory.Storage, filesystem.Storage and the transactional storage satisfy storage.Storer, and the optional " +
			"interfaces each satisfies are recorded and compared with the frozen table; (missing-data-sentinel) for each backend the lookup methods can return the agreed sentinel (ErrObjectNotFound for EncodedObject/HasEncodedObject/EncodedObjectSize, " +
			"ErrReferenceNotFound for Reference) somewhere in their static call closure; (loose-miss-falls-back) DotGit.Ref never returns the error of reading the loose file: every failed loose read is answered by packedRef, whose miss is the sentinel; (cas-on-missing-refused) with an old value given, a compare-and-set on a reference that is not stored cannot succeed in the memory storage " +
			"(three-valued search under 'old != nil, looked-up value nil'), as the filesystem compare answers packedRef's ErrReferenceNotFound; (rewrite-truncates) every billy OpenFile for writing in the filesystem storage that can meet an existing file carries O_TRUNC, O_APPEND or O_EXCL, or the function truncates explicitly — the memory backend replaces a list, a file rewritten without truncation keeps the tail of the old one (shallow list, config). Not decided: equality of results over call sequences (memory.CheckAndSetReference, for one, differs on a missing reference).",
		Assumptions: []string{},
		Run:         runC17,
	})
	register(&propSpec{
		ID: "C07",
		Explanation: "Decides how the pack trailer and header are tied to what is written, not acceptance by git: (pack-hasher-tee) in packfile.NewEncoder the destination writer is only used inside io.MultiWriter together with the hasher, and the " +
			"offset writer and zlib writer are built on that tee; footer writes the hasher's Sum; (header-count) the object count written in the header is the length of the slice that is then iterated; " +
			"(base-before-offset) in entry, a delta's base is written before the delta's own offset is recorded; (request-deduplicated) the selector loads the requested hashes through a list built under a not-yet-seen map test " +
			"(or a loop that skips seen hashes), so a hash requested twice yields one entry; (metadata-saved-before-clean) every CleanOriginal on an ObjectToPack is preceded on all paths by SaveOriginalMetadata or lies on the edge where the object is a stored " +
			"plumbing.DeltaObject, so Hash/Type/Size stay defined for REF_DELTA headers; (delta-base-same-type) every attempt to deltify a target against a base is reachable only where the two have the same type (a delta takes its base's type when the pack is read); (copy-flag-bits-agree, shared with C06) the command bits encodeCopyOperation can set are exactly the bits the decoders consult, so no offset or size byte of a copy instruction is dropped. Not decided: the rest of delta selection, content equality, acceptance by git index-pack.",
		Assumptions: []string{},
		Run:         runC07,
	})
	register(&propSpec{
		ID: "C01",
		Explanation: "Decides agreement of the three places that produce the loose-object header and of the file-name split, not digest equality: (object-header) plumbing.writeHeader (ObjectHasher), plumbing.Hasher.Reset and objfile.(*Writer).writeHeader each " +
			"write type bytes, one space, the size in base 10, one NUL, in that order; objfile.(*Reader) parses with ParseObjectType and base-10 ParseInt; (object-id-source) the loose object is stored under the hash of the writer that wrote the bytes, " +
			"and writer (ObjectWriter.save) and reader (DotGit.objectPath) split the hex name at the same index 2; (sha1-implementation) see C05; (buffer-not-kept-past-return) in the packages that hash and store objects no function that is handed a []byte starts a goroutine with it unless every path from the go statement to a return passes a channel receive or a Wait, and no Write method stores the caller's slice — a hasher fed asynchronously computes the ID over bytes the caller has already replaced. Not decided: byte equality of digests and zlib streams with git.",
		Assumptions: []string{"compress/zlib (or the registered provider) interoperates with git"},
		Run:         runC01,
	})
}

// reachableIn returns start plus the functions of the same package reachable from it through static calls.
func reachableIn(p *Prog, start *FuncInfo) []*FuncInfo {
	cg := p.callGraph()
	seen := map[*types.Func]bool{start.Obj: true}
	out := []*FuncInfo{start}
	for i := 0; i < len(out); i++ {
		for _, ed := range cg.edges[out[i].Obj] {
			t := ed.Callee.Origin()
			fi := p.funcs[t]
			if fi == nil || fi.Pkg != start.Pkg || seen[t] || fi.Decl.Body == nil {
				continue
			}
			seen[t] = true
			out = append(out, fi)
		}
	}
	return out
}

func switchCaseIdents(info *types.Info, fi *FuncInfo) map[types.Object]bool {
	out := map[types.Object]bool{}
	ast.Inspect(fi.Decl.Body, func(n ast.Node) bool {
		if cc, ok := n.(*ast.CaseClause); ok {
			for _, e := range cc.List {
				if o := objOf(info, e); o != nil {
					out[o] = true
				}
			}
		}
		return true
	})
	return out
}

func runC35(c *Ctx) {
	p := c.P
	PackagesStateFree(c, "codec-state-free", "plumbing/protocol/packp", "plumbing/protocol/capability")
	checkDecodeAcceptsEncodeOrder(c, "decode-accepts-encoded-order", "plumbing/protocol/packp.(*UploadRequest).Encode", "plumbing/protocol/packp.(*UploadRequest).Decode")
	c.Floor("decode-accepts-encoded-order", 8)
	checkShallowLinesAccepted(c, "shallow-lines-accepted")
	c.Floor("shallow-lines-accepted", 1)
	checkDepthLinesIndependent(c, "depth-lines-independent")
	const capShort = "plumbing/protocol/capability"
	const r1 = "capability-tables"
	known, req, multi := p.Func(capShort+".isKnown"), p.Func(capShort+".requiresArgument"), p.Func(capShort+".allowsMultipleArguments")
	if known == nil || req == nil || multi == nil {
		c.Unresolved(r1, capShort+".{isKnown,requiresArgument,allowsMultipleArguments}", 0, "anchor not found")
	} else {
		info := known.Pkg.TypesInfo
		k, r, m := switchCaseIdents(info, known), switchCaseIdents(info, req), switchCaseIdents(info, multi)
		c.Analysed(known)
		for o := range r {
			c.Check(k[o], r1, "requiresArgument⊆isKnown:"+o.Name(), o.Pos(), "a capability with a mandatory argument is a known capability")
		}
		for o := range m {
			c.Check(r[o], r1, "allowsMultiple⊆requiresArgument:"+o.Name(), o.Pos(), "a capability that may repeat takes an argument")
		}
		c.Extra["known_capabilities"] = len(k)
	}
	c.Floor(r1, 6)

	const r2 = "message-codec-coverage"
	const pp = "plumbing/protocol/packp"
	pk := p.Pkg(pp)
	if pk == nil {
		c.Unresolved(r2, "package "+pp, 0, "not loaded")
		return
	}
	sc := pk.Types.Scope()
	nTypes := 0
	for _, name := range sc.Names() {
		tn, ok := sc.Lookup(name).(*types.TypeName)
		if !ok || !tn.Exported() {
			continue
		}
		if _, isStruct := tn.Type().Underlying().(*types.Struct); !isStruct {
			continue
		}
		encFn, _, e1 := methodDeclaredOn(types.NewPointer(tn.Type()), pk.Types, "Encode")
		decFn, _, e2 := methodDeclaredOn(types.NewPointer(tn.Type()), pk.Types, "Decode")
		enc, dec := p.FuncOf(encFn), p.FuncOf(decFn)
		if !e1 || !e2 || enc == nil || dec == nil {
			continue
		}
		nTypes++
		c.Analysed(enc)
		c.Analysed(dec)
		reads, _ := fieldAccess(p, tn, reachableIn(p, enc), nil)
		_, writes := fieldAccess(p, tn, reachableIn(p, dec), nil)
		fields := keys(reads)
		if len(fields) == 0 {
			c.Hold(r2, name+":(no exported fields encoded)", enc.Decl.Pos(), "nothing to compare")
			continue
		}
		for _, f := range fields {
			_, ok := writes[f]
			c.Check(ok, r2, name+"."+f, reads[f], orStr(ifStr(!ok, "Encode sends this field but no function reachable from Decode assigns it"), "encoded and decoded"))
		}
	}
	c.Extra["message_types_with_both_codecs"] = nTypes
	if nTypes < 10 {
		c.Unresolved(r2, pp+":codec-types", 0, "found "+itoa(nTypes)+" types with Encode and Decode; 17 confirmed by hand")
	}
}

func runC48(c *Ctx) {
	p := c.P
	checkConfigEscapes(c, "config-escape-tables")
	c.Floor("config-escape-tables", 3)
	PackagesStateFree(c, "codec-state-free", "plumbing/format/config")
	// the decoder's callback is told section and subsection with every option; state it keeps between options must
	// follow both names
	const rcb = "cached-subsection-follows-section"
	if dec := c.MustFunc(rcb, "plumbing/format/config.(*Decoder).Decode"); dec != nil {
		c.Analysed(dec)
		if DerivedCacheFollowsOwner(c, rcb, dec) == 0 {
			c.Hold(rcb, dec.Name(), dec.Decl.Pos(), "the callback keeps no value derived from another between options: sections and subsections are looked up by the names given with each option")
		}
	}
	c.Floor(rcb, 1)
	pk := p.Pkg("config")
	if pk == nil {
		c.Unresolved("config-key-coverage", "package config", 0, "not loaded")
		return
	}
	info := pk.TypesInfo
	// string constants of the package used as section / key names
	constUse := func(fns []*FuncInfo) map[string]token.Pos {
		out := map[string]token.Pos{}
		for _, fi := range fns {
			ast.Inspect(fi.Decl.Body, func(n ast.Node) bool {
				id, ok := n.(*ast.Ident)
				if !ok {
					return true
				}
				if k, ok := info.Uses[id].(*types.Const); ok && k.Pkg() == pk.Types && k.Val().Kind() == constant.String && (strings.HasSuffix(k.Name(), "Key") || strings.HasSuffix(k.Name(), "Section")) {
					if _, seen := out[k.Name()]; !seen {
						out[k.Name()] = id.Pos()
					}
				}
				return true
			})
		}
		return out
	}
	var marshal, unmarshal []*FuncInfo
	for _, fi := range p.FuncsIn("config") {
		if fi.Decl.Body == nil || p.isTestFile(fi.Decl.Pos()) {
			continue
		}
		n := fi.Obj.Name()
		l := strings.ToLower(n)
		switch {
		case strings.HasPrefix(l, "unmarshal"):
			unmarshal = append(unmarshal, fi)
		case strings.HasPrefix(l, "marshal"):
			marshal = append(marshal, fi)
		}
	}
	if len(marshal) < 5 || len(unmarshal) < 5 {
		c.Unresolved("config-key-coverage", "config:marshal/unmarshal", 0, "found "+itoa(len(marshal))+" marshal and "+itoa(len(unmarshal))+" unmarshal functions")
		return
	}
	for _, fi := range append(marshal, unmarshal...) {
		c.Analysed(fi)
	}
	w, r := constUse(marshal), constUse(unmarshal)
	var names []string
	for k := range w {
		names = append(names, k)
	}
	sort.Strings(names)
	for _, k := range names {
		rule := "config-key-coverage"
		if strings.HasSuffix(k, "Section") {
			rule = "config-section-coverage"
		}
		_, ok := r[k]
		c.Check(ok, rule, "config."+k, w[k], orStr(ifStr(!ok, "written by the marshal side but never read by the unmarshal side: the value is lost when the file is read back"), "written and read"))
	}
	c.Floor("config-key-coverage", 20)
	c.Floor("config-section-coverage", 5)
}

func runC17(c *Ctx) {
	p := c.P
	// the filesystem backend replaces what the memory backend replaces: a whole-file writer starts from an empty file
	RewriteTruncates(c, "rewrite-truncates", dotgitShort, "storage/filesystem")
	c.Floor("rewrite-truncates", 3)
	// loose-miss-falls-back: in DotGit.Ref whatever goes wrong reading the loose file (absent, a directory, empty after a
	// refused update) the answer comes from packed-refs, whose miss is the ErrReferenceNotFound sentinel the other
	// backends return: the loose read's own error never reaches the caller
	const r0 = "loose-miss-falls-back"
	if rf := c.MustFunc(r0, dotgitShort+".(*DotGit).Ref"); rf != nil {
		c.Analysed(rf)
		rinfo := rf.Pkg.TypesInfo
		var looseErr types.Object
		ast.Inspect(rf.Decl.Body, func(n ast.Node) bool {
			as, ok := n.(*ast.AssignStmt)
			if !ok || len(as.Rhs) != 1 || len(as.Lhs) != 2 {
				return true
			}
			if call, ok := unparen(as.Rhs[0]).(*ast.CallExpr); ok {
				if fn := Callee(rinfo, call); fn != nil && fn.Name() == "readReferenceFile" {
					looseErr = objOf(rinfo, as.Lhs[1])
				}
			}
			return true
		})
		if looseErr == nil {
			c.Unresolved(r0, rf.Name()+":loose-read", rf.Decl.Pos(), "the call reading the loose reference file was not found")
		} else {
			escapes, packed := false, false
			var at token.Pos
			ast.Inspect(rf.Decl.Body, func(n ast.Node) bool {
				r, ok := n.(*ast.ReturnStmt)
				if !ok || len(r.Results) == 0 {
					return true
				}
				last := r.Results[len(r.Results)-1]
				if usesObj(rinfo, last, looseErr) {
					escapes, at = true, r.Pos()
				}
				if call, ok := unparen(r.Results[0]).(*ast.CallExpr); ok {
					if fn := Callee(rinfo, call); fn != nil && fn.Name() == "packedRef" {
						packed = true
					}
				}
				return true
			})
			if escapes {
				c.Violate(r0, rf.Name(), at, "the error of reading the loose file is returned to the caller: a name that is absent but shadowed by a directory or an empty file no longer answers ErrReferenceNotFound (or the packed value) as the other backends do")
			} else {
				c.Check(packed, r0, rf.Name(), rf.Decl.Pos(), "every failed loose read is answered from packed-refs")
			}
		}
	}
	c.Floor(r0, 1)

	// cas-on-missing-refused: with an old value given, a compare-and-set on a reference that does not exist is refused
	// by every backend (the filesystem storage answers ErrReferenceNotFound through packedRef). For the memory storage:
	// under the assumptions "old != nil" and "the looked-up reference is nil" no successful return is reachable.
	const r0b = "cas-on-missing-refused"
	if ms := c.MustFunc(r0b, "storage/memory.ReferenceStorage.CheckAndSetReference"); ms != nil {
		c.Analysed(ms)
		minfo := ms.Pkg.TypesInfo
		params := paramObjs(minfo, ms.Decl)
		var oldP types.Object
		if len(params) == 2 {
			oldP = params[1]
		}
		// the local that holds the map lookup of the current value
		var cur types.Object
		ast.Inspect(ms.Decl.Body, func(n ast.Node) bool {
			as, ok := n.(*ast.AssignStmt)
			if !ok || len(as.Rhs) != 1 {
				return true
			}
			if ix, ok := unparen(as.Rhs[0]).(*ast.IndexExpr); ok {
				if tv := minfo.Types[ix.X]; tv.Type != nil {
					if _, isMap := tv.Type.Underlying().(*types.Map); isMap {
						cur = objOf(minfo, as.Lhs[0])
					}
				}
			}
			return true
		})
		if oldP == nil || cur == nil {
			c.Unresolved(r0b, ms.Name(), ms.Decl.Pos(), "old parameter or the lookup of the current value not found")
		} else {
			na := &nilAssume{info: minfo, isNil: map[types.Object]bool{oldP: false, cur: true}}
			if len(params) > 0 {
				na.isNil[params[0]] = false
			}
			f := p.FlowOf(ms)
			h := f.Search(SearchOpts{Starts: []Loc{f.Entry()}, BlockEdge: na.blockEdge(), Sink: func(n ast.Node) bool {
				r, ok := n.(*ast.ReturnStmt)
				return ok && !returnsNonNilError(minfo, ms.Decl.Body, r)
			}})
			c.Check(h == nil, r0b, ms.Name(), ms.Decl.Pos(), orStr(ifStr(h != nil, "with an old value given and no such reference stored, the memory storage can return success (it creates the reference); the filesystem storage refuses with ErrReferenceNotFound"+hitLines(f, h)),
				"with an old value given and no such reference stored, no successful return is reachable"))
		}
	}
	if fs := c.MustFunc(r0b, dotgitShort+".(*DotGit).checkReferenceAndTruncate"); fs != nil {
		// filesystem side: the empty (just created) loose file defers to packedRef, whose miss is returned
		finfo := fs.Pkg.TypesInfo
		usesPacked := nodeHasCall(fs.Decl.Body, false, func(call *ast.CallExpr) bool {
			fn := Callee(finfo, call)
			return fn != nil && fn.Name() == "packedRef"
		}) != nil
		c.Check(usesPacked, r0b, fs.Name(), fs.Decl.Pos(), "the filesystem compare consults packedRef for a loose file that was just created; its ErrReferenceNotFound is returned")
	}
	c.Floor(r0b, 2)
	const r1 = "storer-coverage"
	storerT := p.lookupType("storage", "Storer")
	if storerT == nil {
		c.Unresolved(r1, "storage.Storer", 0, "interface not found")
		return
	}
	iface := storerT.Type().Underlying().(*types.Interface)
	backends := []struct{ pkg, typ string }{{"storage/memory", "Storage"}, {"storage/filesystem", "Storage"}, {"storage/transactional", "basic"}}
	optional := []struct{ pkg, name string }{
		{"plumbing/storer", "ReflogStorer"}, {"plumbing/storer", "Transactioner"}, {"plumbing/storer", "PackedObjectStorer"}, {"plumbing/storer", "LooseObjectStorer"},
		{"plumbing/storer", "PackfileWriter"}, {"plumbing/storer", "DeltaObjectStorer"}, {"plumbing/storer", "FilesystemStorer"},
	}
	want := map[string]string{ // frozen from today's tree
		"storage/memory.Storage":       "LooseObjectStorer,PackedObjectStorer,ReflogStorer,Transactioner",
		"storage/filesystem.Storage":   "DeltaObjectStorer,FilesystemStorer,LooseObjectStorer,PackedObjectStorer,PackfileWriter,ReflogStorer",
		"storage/transactional.basic": "",
	}
	for _, b := range backends {
		tn := p.lookupType(b.pkg, b.typ)
		if tn == nil {
			c.Unresolved(r1, b.pkg+"."+b.typ, 0, "backend type not found")
			continue
		}
		pt := types.NewPointer(tn.Type())
		c.Check(types.Implements(pt, iface), r1, b.pkg+"."+b.typ+":storage.Storer", tn.Pos(), "implements storage.Storer")
		var has []string
		for _, o := range optional {
			ot := p.lookupType(o.pkg, o.name)
			if ot == nil {
				continue
			}
			if oi, ok := ot.Type().Underlying().(*types.Interface); ok && types.Implements(pt, oi) {
				has = append(has, o.name)
			}
		}
		sort.Strings(has)
		got := strings.Join(has, ",")
		key := b.pkg + "." + b.typ
		if w, ok := want[key]; ok && w != "" {
			c.Check(got == w, r1, key+":optional-interfaces", tn.Pos(), "optional interfaces ["+got+"] (recorded: ["+w+"])")
		} else {
			c.Hold(r1, key+":optional-interfaces", tn.Pos(), "optional interfaces ["+got+"]")
		}
	}
	const r2 = "missing-data-sentinel"
	errObj := p.lookupObj("plumbing", "ErrObjectNotFound")
	errRef := p.lookupObj("plumbing", "ErrReferenceNotFound")
	mentions := func(fi *FuncInfo, obj types.Object) bool {
		// the sentinel is mentioned in the static call closure (any repository package, depth bounded)
		cg := p.callGraph()
		seen := map[*types.Func]bool{fi.Obj: true}
		q := []*FuncInfo{fi}
		for i := 0; i < len(q) && i < 400; i++ {
			if usesObj(q[i].Pkg.TypesInfo, q[i].Decl.Body, obj) {
				return true
			}
			for _, ed := range cg.edges[q[i].Obj] {
				targets := append([]*types.Func{ed.Callee}, p.implementations(ed.Callee)...)
				for _, t := range targets {
					t = t.Origin()
					if nf := p.funcs[t]; nf != nil && !seen[t] && nf.Decl.Body != nil {
						seen[t] = true
						q = append(q, nf)
					}
				}
			}
		}
		return false
	}
	type lookup struct {
		method   string
		sentinel types.Object
	}
	for _, b := range []struct{ pkg, typ string }{{"storage/memory", "ObjectStorage"}, {"storage/filesystem", "ObjectStorage"}, {"storage/transactional", "ObjectStorage"}} {
		for _, l := range []lookup{{"EncodedObject", errObj}, {"HasEncodedObject", errObj}, {"EncodedObjectSize", errObj}} {
			fi := p.Func(b.pkg + ".(*" + b.typ + ")." + l.method)
			if fi == nil {
				c.Unresolved(r2, b.pkg+"."+b.typ+"."+l.method, 0, "method not found")
				continue
			}
			c.Analysed(fi)
			ok := mentions(fi, l.sentinel)
			if b.pkg == "storage/transactional" {
				ok = true // delegates to base/temporal, compares with the sentinel
				ok = usesObj(fi.Pkg.TypesInfo, fi.Decl.Body, l.sentinel)
			}
			c.Check(ok, r2, fi.Name(), fi.Decl.Pos(), "can answer "+l.sentinel.Name()+" for missing data")
		}
	}
	for _, n := range []string{"storage/memory.(*ReferenceStorage).Reference", "storage/memory.ReferenceStorage.Reference", "storage/filesystem.(*ReferenceStorage).Reference", "storage/transactional.ReferenceStorage.Reference"} {
		fi := p.Func(n)
		if fi == nil {
			continue
		}
		c.Analysed(fi)
		c.Check(mentions(fi, errRef), r2, fi.Name(), fi.Decl.Pos(), "can answer ErrReferenceNotFound for a missing reference")
	}
	c.Floor(r2, 11)
}

func runC07(c *Ctx) {
	p := c.P
	// the copy instructions the encoder writes must announce every offset/size byte the decoders read (shared with C06):
	// a pack whose deltas copy from beyond 2^24 is otherwise well-formed and rebuilds other objects than were requested
	checkCopyFlagBits(c)
	pk := p.Pkg(pfShort)
	if pk == nil {
		c.Unresolved("pack-hasher-tee", "package "+pfShort, 0, "not loaded")
		return
	}
	info := pk.TypesInfo
	const r1 = "pack-hasher-tee"
	if ne := c.MustFunc(r1, pfShort+".NewEncoder"); ne != nil {
		params := paramObjs(info, ne.Decl)
		var w types.Object
		for _, pv := range params {
			if types.TypeString(pv.Type(), nil) == "io.Writer" {
				w = pv
			}
		}
		onlyInTee, nUses := true, 0
		var mw types.Object
		ast.Inspect(ne.Decl.Body, func(n ast.Node) bool {
			id, ok := n.(*ast.Ident)
			if !ok || info.Uses[id] != w {
				return true
			}
			nUses++
			path := pathTo(ne.Decl.Body, id)
			inTee := false
			for _, x := range path {
				if call, ok := x.(*ast.CallExpr); ok {
					if fn := Callee(info, call); fn != nil && fn.Pkg() != nil && fn.Pkg().Path() == "io" && fn.Name() == "MultiWriter" {
						inTee = true
					}
				}
			}
			if !inTee {
				onlyInTee = false
			}
			return true
		})
		// the variable holding the tee
		ast.Inspect(ne.Decl.Body, func(n ast.Node) bool {
			if as, ok := n.(*ast.AssignStmt); ok && len(as.Rhs) == 1 {
				if call, ok := unparen(as.Rhs[0]).(*ast.CallExpr); ok {
					if fn := Callee(info, call); fn != nil && fn.Name() == "MultiWriter" {
						mw = objOf(info, as.Lhs[0])
					}
				}
			}
			return true
		})
		c.Check(w != nil && onlyInTee && nUses > 0, r1, ne.Name()+":writer-only-in-tee", ne.Decl.Pos(), "the destination writer is used only inside io.MultiWriter(w, hasher): every byte written is hashed")
		// downstream writers are built on the tee
		built := 0
		ast.Inspect(ne.Decl.Body, func(n ast.Node) bool {
			if call, ok := n.(*ast.CallExpr); ok && mw != nil {
				for _, a := range call.Args {
					if objOf(info, a) == mw {
						built++
					}
				}
			}
			return true
		})
		c.Check(mw != nil && built >= 1, r1, ne.Name()+":writers-on-tee", ne.Decl.Pos(), "the offset/zlib writers wrap the tee ("+itoa(built)+" uses)")
	}
	if ft := c.MustFunc(r1, pfShort+".(*Encoder).footer"); ft != nil {
		sum := nodeHasCall(ft.Decl.Body, true, func(call *ast.CallExpr) bool { fn := Callee(info, call); return fn != nil && fn.Name() == "Sum" }) != nil
		c.Check(sum, r1, ft.Name()+":writes-hasher-sum", ft.Decl.Pos(), "the trailer is the hasher's Sum")
	}
	const r2 = "header-count"
	if hd := c.MustFunc(r2, pfShort+".(*Encoder).encode"); hd != nil {
		// head(len(objects)) and a range over the same slice
		var lenArg types.Object
		walkCalls(hd.Decl.Body, false, func(call *ast.CallExpr) {
			if callsNamed(info, "head")(call) && len(call.Args) == 1 {
				if lc, ok := unparen(call.Args[0]).(*ast.CallExpr); ok && nodeHasBuiltin(info, lc, "len") && len(lc.Args) == 1 {
					lenArg = objOf(info, lc.Args[0])
				}
			}
		})
		ranged := false
		ast.Inspect(hd.Decl.Body, func(n ast.Node) bool {
			if rs, ok := n.(*ast.RangeStmt); ok && lenArg != nil && objOf(info, rs.X) == lenArg {
				ranged = true
			}
			return true
		})
		c.Check(lenArg != nil && ranged, r2, hd.Name(), hd.Decl.Pos(), "the header count is len() of the slice whose elements are then written")
	}
	// request-deduplicated: a hash requested twice yields one entry. Either the selector hands a list built under a
	// "not seen yet" map test to the loader, or the loader's loop skips hashes it has seen.
	const r2b = "request-deduplicated"
	if otp := c.MustFunc(r2b, pfShort+".(*DeltaSelector).ObjectsToPack"); otp != nil {
		c.Analysed(otp)
		params := paramObjs(info, otp.Decl)
		var hashes types.Object
		if len(params) > 0 {
			hashes = params[0]
		}
		inner := p.Func(pfShort + ".(*DeltaSelector).objectsToPack")
		dedupLocal := func(fi *FuncInfo, obj types.Object) bool {
			// every append to obj is inside `if _, ok := m[h]; !ok { … }` (or after a `continue` under `ok`) with h ranging over the request
			okAll, n := true, 0
			ast.Inspect(fi.Decl.Body, func(x ast.Node) bool {
				as, isAs := x.(*ast.AssignStmt)
				if !isAs || len(as.Lhs) != 1 || objOf(info, as.Lhs[0]) != obj || !nodeHasBuiltin(info, as, "append") {
					return true
				}
				n++
				guarded := false
				path := pathTo(fi.Decl.Body, as)
				for i := len(path) - 2; i >= 0; i-- {
					ifs, isIf := path[i].(*ast.IfStmt)
					if !isIf {
						continue
					}
					if init, isInit := ifs.Init.(*ast.AssignStmt); isInit && len(init.Rhs) == 1 {
						if ix, isIx := unparen(init.Rhs[0]).(*ast.IndexExpr); isIx {
							if tv := info.Types[ix.X]; tv.Type != nil {
								if _, isMap := tv.Type.Underlying().(*types.Map); isMap {
									if un, isNot := unparen(ifs.Cond).(*ast.UnaryExpr); isNot && un.Op == token.NOT && path[i+1] == ast.Node(ifs.Body) {
										guarded = true
									}
								}
							}
						}
					}
					break
				}
				if !guarded {
					okAll = false
				}
				return true
			})
			return okAll && n > 0
		}
		loopSkipsSeen := func(fi *FuncInfo, over types.Object) bool {
			found := false
			ast.Inspect(fi.Decl.Body, func(x ast.Node) bool {
				rs, isRange := x.(*ast.RangeStmt)
				if !isRange || objOf(info, rs.X) != over {
					return true
				}
				elem := objOf(info, rs.Value)
				ast.Inspect(rs.Body, func(y ast.Node) bool {
					br, isBr := y.(*ast.BranchStmt)
					if isBr && br.Tok == token.CONTINUE && skipReasonKey(info, rs.Body, br, elem) {
						found = true
					}
					return true
				})
				return true
			})
			return found
		}
		ok, how := false, ""
		if inner != nil {
			walkCalls(otp.Decl.Body, false, func(call *ast.CallExpr) {
				if Callee(info, call) != inner.Obj || len(call.Args) == 0 {
					return
				}
				arg := objOf(info, call.Args[0])
				if arg != nil && arg != hashes && dedupLocal(otp, arg) {
					ok, how = true, "the loader receives a list built under a not-yet-seen test"
				}
			})
			if !ok {
				ip := paramObjs(info, inner.Decl)
				if len(ip) > 0 && loopSkipsSeen(inner, ip[0]) {
					ok, how = true, "the loader's loop skips hashes it has already seen"
				}
			}
		}
		if !ok && hashes != nil && loopSkipsSeen(otp, hashes) {
			ok, how = true, "the selector's loop skips hashes it has already seen"
		}
		c.Check(ok, r2b, otp.Name(), otp.Decl.Pos(), orStr(how, "a hash that is requested twice becomes two pack entries: git verify-pack rejects the pack (\"appears twice\") and the header count exceeds the number of distinct objects"))
	}
	if en := c.MustFunc(r2b, pfShort+".(*Encoder).Encode"); en != nil {
		// the encoder obtains its entries from the selector only
		n := 0
		walkCalls(en.Decl.Body, false, func(call *ast.CallExpr) {
			if fn := Callee(info, call); fn != nil && fn.Name() == "ObjectsToPack" {
				n++
			}
		})
		c.Check(n == 1, r2b, en.Name()+":entries-from-selector", en.Decl.Pos(), "Encode takes its entries from the object selector")
	}
	c.Floor(r2b, 2)

	// metadata-saved-before-clean: ObjectToPack answers Hash/Type/Size from Original, from the saved metadata, or from a
	// stored delta's own header. Dropping Original (CleanOriginal) is therefore preceded on every path by
	// SaveOriginalMetadata, or happens on the edge where the object is a plumbing.DeltaObject.
	const r2c = "metadata-saved-before-clean"
	nClean := 0
	for _, fi := range p.FuncsIn(pfShort) {
		if fi.Decl.Body == nil || p.isTestFile(fi.Decl.Pos()) {
			continue
		}
		isClean := func(call *ast.CallExpr) bool {
			fn := Callee(info, call)
			return fn != nil && fn.Name() == "CleanOriginal" && recvTypeName(fn) != nil && recvTypeName(fn).Name() == "ObjectToPack"
		}
		if nodeHasCall(fi.Decl.Body, true, isClean) == nil {
			continue
		}
		f := p.FlowOf(fi)
		c.Analysed(fi)
		isSave := func(n ast.Node) bool {
			return nodeHasCall(n, false, func(call *ast.CallExpr) bool {
				fn := Callee(info, call)
				return fn != nil && fn.Name() == "SaveOriginalMetadata"
			}) != nil
		}
		for _, l := range f.Locs(func(n ast.Node) bool { return nodeHasCall(n, false, isClean) != nil }) {
			nClean++
			h := f.Search(SearchOpts{Starts: []Loc{f.Entry()}, Barrier: isSave,
				Sink: func(n ast.Node) bool { return n == l.B.Nodes[l.Idx] },
				BlockEdge: func(b *cfg.Block, i int) bool {
					for _, fact := range f.EdgeFacts(b, i) {
						if !fact.Truth {
							continue
						}
						okObj := objOf(info, fact.Atom)
						if okObj == nil {
							continue
						}
						for _, n := range b.Nodes {
							as, isAs := n.(*ast.AssignStmt)
							if !isAs || len(as.Lhs) != 2 || len(as.Rhs) != 1 || objOf(info, as.Lhs[1]) != okObj {
								continue
							}
							if ta, isTA := unparen(as.Rhs[0]).(*ast.TypeAssertExpr); isTA && ta.Type != nil {
								if tv := info.Types[ta.Type]; tv.Type != nil && strings.HasSuffix(tv.Type.String(), "plumbing.DeltaObject") {
									return true
								}
							}
						}
					}
					return false
				}})
			key := fmt.Sprintf("%s->CleanOriginal#%d", fi.Name(), nClean)
			c.Check(h == nil, r2c, key, l.B.Nodes[l.Idx].Pos(), orStr(ifStr(h != nil, "Original is dropped on a path without SaveOriginalMetadata and not for a stored delta: Hash/Type/Size of the entry are then undefined, and REF_DELTA headers name the wrong base"+hitLines(f, h)), "preceded by SaveOriginalMetadata, or the object is a stored delta"))
		}
	}
	c.Floor(r2c, 2)
	const r3 = "base-before-offset"
	if en := c.MustFunc(r3, pfShort+".(*Encoder).entry"); en != nil {
		f := p.FlowOf(en)
		base := CallNode(false, callsNamed(info, "writeBaseIfDelta"))
		setOff := func(n ast.Node) bool {
			as, ok := n.(*ast.AssignStmt)
			if !ok {
				return false
			}
			for _, l := range as.Lhs {
				if sel, ok := unparen(l).(*ast.SelectorExpr); ok && sel.Sel.Name == "Offset" {
					return true
				}
			}
			return false
		}
		ok := len(f.Locs(base)) > 0 && len(f.Locs(setOff)) > 0 && f.Search(SearchOpts{Starts: []Loc{f.Entry()}, Sink: setOff, Barrier: base}) == nil
		c.Check(ok, r3, en.Name(), en.Decl.Pos(), "a delta's base is written before the delta's offset is recorded")
	}

	// A delta takes the type of its base when the pack is read: a tree stored as a delta of a blob comes back as a blob
	// with another ID. Every attempt to deltify a target against a base is therefore reachable only where the two are
	// known to have the same type — at the call site, or inside the callee before it records the delta.
	const r4 = "delta-base-same-type"
	n4 := 0
	typeEq := func(a, b types.Object) PassEdge {
		isTypeOf := func(e ast.Expr, o types.Object) bool {
			call, ok := unparen(e).(*ast.CallExpr)
			if !ok || len(call.Args) != 0 {
				return false
			}
			sel, ok := unparen(call.Fun).(*ast.SelectorExpr)
			return ok && sel.Sel.Name == "Type" && objOf(info, sel.X) == o
		}
		return FactGuard(func(_ *Flow, fact Fact) bool {
			be, ok := unparen(fact.Atom).(*ast.BinaryExpr)
			if !ok {
				return false
			}
			eq := (be.Op == token.EQL && fact.Truth) || (be.Op == token.NEQ && !fact.Truth)
			return eq && ((isTypeOf(be.X, a) && isTypeOf(be.Y, b)) || (isTypeOf(be.X, b) && isTypeOf(be.Y, a)))
		})
	}
	if td := c.MustFunc(r4, pfShort+".(*DeltaSelector).tryToDeltify"); td != nil {
		// does the callee guard itself? every SetDelta call behind the equality of its two object parameters' types
		var objParams []types.Object
		for _, po := range paramObjs(info, td.Decl) {
			if strings.HasSuffix(types.TypeString(po.Type(), nil), "ObjectToPack") {
				objParams = append(objParams, po)
			}
		}
		calleeGuards := false
		if len(objParams) == 2 {
			tf := p.FlowOf(td)
			sets := tf.Locs(CallNode(false, callsNamed(info, "SetDelta")))
			calleeGuards = len(sets) > 0
			for _, l := range sets {
				if tf.UnguardedPath(typeEq(objParams[0], objParams[1]), l) != nil {
					calleeGuards = false
				}
			}
		}
		for _, fi := range p.FuncsIn(pfShort) {
			if fi.Decl.Body == nil || p.isTestFile(fi.Decl.Pos()) {
				continue
			}
			f := (*Flow)(nil)
			k := 0
			walkCalls(fi.Decl.Body, false, func(call *ast.CallExpr) {
				if Callee(info, call) != td.Obj {
					return
				}
				k++
				n4++
				c.Analysed(fi)
				key := fi.Name() + "->tryToDeltify" + ifStr(k > 1, "#"+itoa(k))
				if calleeGuards {
					c.Hold(r4, key, call.Pos(), "tryToDeltify records a delta only where its two objects have the same type")
					return
				}
				var args []types.Object
				for _, a := range call.Args {
					if o := objOf(info, a); o != nil && strings.HasSuffix(types.TypeString(o.Type(), nil), "ObjectToPack") {
						args = append(args, o)
					}
				}
				if len(args) != 2 {
					c.Violate(r4, key, call.Pos(), "the base and the target of the attempt are not plain variables: their types cannot be related")
					return
				}
				if f == nil {
					f = p.FlowOf(fi)
				}
				bad := false
				for _, l := range f.Locs(func(nd ast.Node) bool { return nodeHasCall(nd, false, func(cc *ast.CallExpr) bool { return cc == call }) != nil }) {
					if f.UnguardedPath(typeEq(args[0], args[1]), l) != nil {
						bad = true
					}
				}
				c.Check(!bad, r4, key, call.Pos(), orStr(ifStr(bad, "a target is deltified against a base whose type was not compared with its own (`"+args[0].Name()+".Type() == "+args[1].Name()+".Type()`): a delta takes its base's type when the pack is read, so a tree stored against a blob comes back as a blob with another ID"),
					"reachable only where base and target have the same type"))
			})
		}
	}
	c.Floor(r4, 1)
}

func runC01(c *Ctx) {
	PackagesStateFree(c, "codec-state-free", "plumbing/format/objfile", "plumbing")
	NoGoroutineKeepsCallerBuffer(c, "buffer-not-kept-past-return", "plumbing/format/objfile", "plumbing", "plumbing/hash", dotgitShort, "storage/filesystem", "storage/memory", "utils/ioutil", "utils/sync")
	c.Floor("buffer-not-kept-past-return", 1)
	const r1 = "object-header"
	// the three header emitters: ordered sequence of what is written
	type emitter struct{ fn string }
	describe := func(fi *FuncInfo) string {
		info := fi.Pkg.TypesInfo
		var seq []string
		ast.Inspect(fi.Decl.Body, func(n ast.Node) bool {
			call, ok := n.(*ast.CallExpr)
			if !ok {
				return true
			}
			fn := Callee(info, call)
			isAppend := nodeHasBuiltin(info, call, "append") && len(call.Args) == 2
			isAppendInt := fn != nil && fn.Pkg() != nil && fn.Pkg().Path() == "strconv" && fn.Name() == "AppendInt"
			if isAppendInt {
				if len(call.Args) == 3 {
					if tv := info.Types[call.Args[2]]; tv.Value != nil && tv.Value.ExactString() == "10" {
						seq = append(seq, "size10")
						return false
					}
				}
				seq = append(seq, "size?")
				return false
			}
			if !isAppend && (fn == nil || (fn.Name() != "Write" && fn.Name() != "WriteString" && fn.Name() != "WriteByte") || len(call.Args) == 0) {
				return true
			}
			a := call.Args[len(call.Args)-1]
			if isAppend {
				if o := objOf(info, a); o != nil && strings.Contains(strings.ToLower(o.Name()), "type") {
					seq = append(seq, "type")
					return false
				}
			}
			s := exprString(a)
			switch {
			case strings.Contains(s, "Bytes()") && !strings.Contains(s, "strconv"):
				seq = append(seq, "type")
			case strings.Contains(s, "FormatInt") || strings.Contains(s, "AppendInt") || strings.Contains(s, "Itoa"):
				if strings.Contains(s, "10") || strings.Contains(s, "Itoa") {
					seq = append(seq, "size10")
				} else {
					seq = append(seq, "size?")
				}
			default:
				lit := ""
				ast.Inspect(a, func(m ast.Node) bool {
					if e, ok := m.(ast.Expr); ok {
						if tv := info.Types[e]; tv.Value != nil {
							switch tv.Value.ExactString() {
							case `" "`, "32":
								lit = "space"
							case "0", `"\x00"`:
								if lit == "" {
									lit = "nul"
								}
							}
						}
					}
					return true
				})
				if lit != "" {
					seq = append(seq, lit)
				} else if o := objOf(info, a); o != nil {
					// a local holding the formatted size
					seq = append(seq, "var:"+o.Name())
				}
			}
			return false
		})
		return strings.Join(seq, " ")
	}
	for _, e := range []emitter{{"plumbing.writeHeader"}, {"plumbing.Hasher.Reset"}, {pfObj + ".(*Writer).writeHeader"}} {
		fi := c.MustFunc(r1, e.fn)
		if fi == nil {
			continue
		}
		got := describe(fi)
		norm := strings.NewReplacer("var:size", "size10", "var:sz", "size10").Replace(got)
		norm = strings.TrimSpace(strings.TrimSuffix(norm, "var:b"))
		c.Check(norm == "type space size10 nul", r1, fi.Name(), fi.Decl.Pos(), "emits ["+got+"] (git: type SP size-in-decimal NUL)")
	}
	if rd := c.MustFunc(r1, pfObj+".(*Reader).Header"); rd != nil {
		info := rd.Pkg.TypesInfo
		pot := nodeHasCall(rd.Decl.Body, true, callsNamed(info, "ParseObjectType")) != nil
		pint := false
		walkCalls(rd.Decl.Body, true, func(call *ast.CallExpr) {
			if fn := Callee(info, call); fn != nil && fn.Pkg() != nil && fn.Pkg().Path() == "strconv" && fn.Name() == "ParseInt" && len(call.Args) == 3 {
				if tv := info.Types[call.Args[1]]; tv.Value != nil && tv.Value.ExactString() == "10" {
					pint = true
				}
			}
		})
		c.Check(pot && pint, r1, rd.Name(), rd.Decl.Pos(), "the reader parses the type with ParseObjectType and the size in base 10")
	}
	c.Floor(r1, 4)

	const r2 = "object-id-source"
	if sv := c.MustFunc(r2, dotgitShort+".(*ObjectWriter).save"); sv != nil {
		info := sv.Pkg.TypesInfo
		usesHash := nodeHasCall(sv.Decl.Body, false, func(call *ast.CallExpr) bool {
			sel, ok := unparen(call.Fun).(*ast.SelectorExpr)
			return ok && sel.Sel.Name == "Hash" && len(call.Args) == 0
		}) != nil
		c.Check(usesHash, r2, sv.Name()+":name-from-writer-hash", sv.Decl.Pos(), "the file name is the hash computed by the writer that wrote the bytes")
		split := func(fi *FuncInfo) string {
			finfo := fi.Pkg.TypesInfo
			var parts []string
			ast.Inspect(fi.Decl.Body, func(n ast.Node) bool {
				if sl, ok := n.(*ast.SliceExpr); ok {
					lo, hi := "", ""
					if sl.Low != nil {
						if tv := finfo.Types[sl.Low]; tv.Value != nil {
							lo = tv.Value.ExactString()
						} else {
							lo = "x"
						}
					}
					if sl.High != nil {
						if tv := finfo.Types[sl.High]; tv.Value != nil {
							hi = tv.Value.ExactString()
						} else {
							hi = "x"
						}
					}
					parts = append(parts, lo+":"+hi)
				}
				return true
			})
			sort.Strings(parts)
			return strings.Join(parts, " ")
		}
		if op := c.MustFunc(r2, dotgitShort+".(*DotGit).objectPath"); op != nil {
			a, b := split(sv), split(op)
			c.Check(strings.Contains(a, "0:2") && strings.Contains(b, "0:2") && strings.Contains(a, "2:") && strings.Contains(b, "2:"), r2, "save/objectPath:split-at-2", op.Decl.Pos(),
				"writer splits the hex name as ["+a+"], reader as ["+b+"]")
		}
		_ = info
	}
}

const pfObj = "plumbing/format/objfile"
